/-
  Proofs.TypedHistory — declared columns stay typed and keep their declaration after ANY history.

  C10 (last sentence) says "after a successful import the raw value of a column declared with raw
  type T is nil or a T"; C03 / C04 rely on a declared column keeping its format and raw type whatever
  was stored, imported or REFUSED since.  This file proves both for every state a row reaches.

  Plan.
  §1  `Typed`, `Declares`, `DeclKept`, `TypedAt`; the generic invariant `Inv C t row` (every column the template declares as a
      cell is present in the row as a cell with the same format and raw type, and its raw value satisfies
      `C format rawtype raw`).
  §2  `Steps R o o'`: `o'` is reached from `o` by a chain of `upsert`s in which a cell already present is
      replaced by an `R`-related one.  `Steps` keeps `Inv` (when `R` = `Keeps t C`) and distinct keys.
  §3  Every mutator of a row is such a chain (`steps_*`): ImportAtKey, Row.Import of a slice / a Go map,
      UnmarshalJSON (lines rejected half-way included), ImportAtPath, Set, the fills of CreateRow.
  §4  The cell level: what `importCell`, `setExisting`, `newValue`, `cloneValue` do to a declared cell,
      for any tables (declaration) and for `genTables` (typedness).
  §5  The theorems per operation; the initial states; `cloneRow`.
  §6  The history theorem.
  §7  Kernel-checked counterexamples and the non-vacuity history.

  What is TRUE and what is NOT (details at each theorem):
  * the declaration (format, raw type) of a column survives every operation, succeeding or failing, for
    any cast tables — provided no argument is itself a cell `jsonline.Value` at top level
    (`NoCellVal`): `value.Import(Value)` copies format and raw type of the argument (§7, `Demo.iak_value_replaces_declaration`).
    `Set` / `CreateRow` need no such proviso for present keys (they go through `NewValue`).
  * typedness (`raw = nil ∨ typeOf raw = T`) survives ImportAtKey / Import / UnmarshalJSON /
    ImportAtPath / Set / CloneRow over `genTables` under the SAME proviso and nothing else; for JSON text
    there is no condition at all (the decoder never hands over a cell Value).  A nested OBJECT (a Row)
    is kept as it is only by an Auto / Hidden column WITHOUT raw type; a column declared with a raw type
    hands it to `cast.To`, which refuses it (§7, `Demo.um_object_into_typed_hidden_refused`).  (An earlier
    version of `value.Import` kept the Row whatever the raw type: the counterexample found with this file,
    repaired in the source since.)
  * `Set` on a present key (`setExisting`) DOES keep typedness (it casts first and stores nil when the
    cast fails; the second cast inside `NewValue` is the same call).
  * `CreateRow` from a Go map / slice / Row (`fill` = bare `NewValue`: "cast, else keep the uncast value")
    does NOT keep typedness (§7, `Demo.createRow_gomap_untyped`, `Demo.newValue_keeps_uncast`); it keeps the declaration.
-/
import Proofs.CastTyped
import Proofs.NoPanic
import Proofs.Order
import Proofs.Row
import Model.Value
import Model.Template
import Model.Path

namespace Jl.TypedHistory
open Jl Jl.Value Jl.Template Jl.Path Jl.Cast Jl.CastTyped

abbrev RowV := List (Bytes × Val)

/-! ## §1 Definitions -/

/-- A declared raw type is respected by a raw value. -/
def RawTyped (typ : Ty) (raw : Dyn) : Prop := typ = .none ∨ raw = .nil ∨ typeOf raw = typ

/-- Target 1: a cell respects its declared raw type (a bare row has none). -/
def Typed : Val → Prop
  | .cell raw _ typ => RawTyped typ raw
  | .row _ => True

/-- The template declares column `k` as a cell of format `f` and raw type `ty`.  Stated with `lookup`
    (the FIRST entry of that name), so that nothing has to be assumed about distinct names here; for a
    template with distinct names (any template built by `With…`) it is membership: `declares_iff_mem`. -/
def Declares (t : Tmpl) (k : Bytes) (f : Format) (ty : Ty) : Prop :=
  ∃ raw, lookup t k = some (.cell raw f ty)

/-- Every column the template declares as a cell is, in the row, a cell of the same format and raw type
    (the oracle `declLost` of Driver.AliasCase, as a predicate). -/
def DeclKept (t : Tmpl) (row : RowV) : Prop :=
  ∀ k f ty, Declares t k f ty → ∃ raw, lookup row k = some (.cell raw f ty)

/-- Every declared column of the row holds a typed value. -/
def TypedAt (t : Tmpl) (row : RowV) : Prop :=
  ∀ k f ty, Declares t k f ty → ∀ c, lookup row k = some c → Typed c

/-- The generic invariant: declared columns are present with their declaration and `C`. -/
def Inv (C : Format → Ty → Dyn → Prop) (t : Tmpl) (row : RowV) : Prop :=
  ∀ k f ty, Declares t k f ty → ∃ raw, lookup row k = some (.cell raw f ty) ∧ C f ty raw

def CTrue : Format → Ty → Dyn → Prop := fun _ _ _ => True
def CTyped : Format → Ty → Dyn → Prop := fun _ ty raw => RawTyped ty raw

theorem inv_true_iff {t : Tmpl} {row : RowV} : Inv CTrue t row ↔ DeclKept t row := by
  constructor
  · intro h k f ty hd
    obtain ⟨raw, hr, _⟩ := h k f ty hd
    exact ⟨raw, hr⟩
  · intro h k f ty hd
    obtain ⟨raw, hr⟩ := h k f ty hd
    exact ⟨raw, hr, trivial⟩

theorem inv_typed_iff {t : Tmpl} {row : RowV} : Inv CTyped t row ↔ DeclKept t row ∧ TypedAt t row := by
  constructor
  · intro h
    refine ⟨fun k f ty hd => ?_, fun k f ty hd c hc => ?_⟩
    · obtain ⟨raw, hr, _⟩ := h k f ty hd
      exact ⟨raw, hr⟩
    · obtain ⟨raw, hr, hC⟩ := h k f ty hd
      rw [hr] at hc
      cases hc
      exact hC
  · intro ⟨h1, h2⟩ k f ty hd
    obtain ⟨raw, hr⟩ := h1 k f ty hd
    exact ⟨raw, hr, h2 k f ty hd _ hr⟩

/-! ### Distinct names: `Declares` is membership -/

theorem lookup_of_mem_nodup {o : RowV} {k : Bytes} {v : Val} (hnd : (OMap.keys o).Nodup)
    (hm : (k, v) ∈ o) : lookup o k = some v := by
  induction o with
  | nil => cases hm
  | cons a rest ih =>
    obtain ⟨k', v'⟩ := a
    simp only [OMap.keys, List.map_cons, List.nodup_cons] at hnd
    rcases List.mem_cons.mp hm with h | h
    · cases h
      simp [lookup, OMap.lookup]
    · have hne : ¬ k' = k := by
        intro e
        subst e
        exact hnd.1 (List.mem_map.mpr ⟨(k', v), h, rfl⟩)
      have := ih hnd.2 h
      simp only [lookup] at this
      simp [lookup, OMap.lookup, hne, this]

theorem mem_of_lookup {o : RowV} {k : Bytes} {v : Val} (h : lookup o k = some v) : (k, v) ∈ o := by
  induction o with
  | nil => simp [lookup, OMap.lookup] at h
  | cons a rest ih =>
    obtain ⟨k', v'⟩ := a
    simp only [lookup, OMap.lookup] at h
    split at h
    · rename_i hk
      cases h
      subst hk
      exact List.mem_cons_self
    · exact List.mem_cons_of_mem _ (ih h)

/-- With distinct names, "declares" is "has the entry". -/
theorem declares_iff_mem {t : Tmpl} (hnd : (OMap.keys t).Nodup) (k : Bytes) (f : Format) (ty : Ty) :
    Declares t k f ty ↔ ∃ raw, (k, Val.cell raw f ty) ∈ t :=
  ⟨fun ⟨raw, h⟩ => ⟨raw, mem_of_lookup h⟩, fun ⟨raw, h⟩ => ⟨raw, lookup_of_mem_nodup hnd h⟩⟩

/-- `DeclKept` in the words of the task, for a template with distinct names. -/
theorem declKept_iff_mem {t : Tmpl} (hnd : (OMap.keys t).Nodup) (row : RowV) :
    DeclKept t row ↔
      ∀ k raw f ty, (k, Val.cell raw f ty) ∈ t → ∃ raw', lookup row k = some (.cell raw' f ty) := by
  constructor
  · intro h k raw f ty hm
    exact h k f ty ((declares_iff_mem hnd k f ty).mpr ⟨raw, hm⟩)
  · intro h k f ty hd
    obtain ⟨raw, hm⟩ := (declares_iff_mem hnd k f ty).mp hd
    exact h k raw f ty hm

/-! ## §2 Chains of upserts -/

/-- `o'` is reached from `o` by upserts: a present cell is replaced by an `R`-related one, an absent key
    receives anything. -/
inductive Steps (R : Bytes → Val → Val → Prop) : RowV → RowV → Prop
  | refl (o : RowV) : Steps R o o
  | upd {o o' : RowV} {k : Bytes} {c c' : Val} :
      lookup o k = some c → R k c c' → Steps R (upsert o k c') o' → Steps R o o'
  | ins {o o' : RowV} {k : Bytes} {c' : Val} :
      lookup o k = none → Steps R (upsert o k c') o' → Steps R o o'

theorem Steps.trans {R : Bytes → Val → Val → Prop} {a b c : RowV}
    (h1 : Steps R a b) (h2 : Steps R b c) : Steps R a c := by
  induction h1 with
  | refl => exact h2
  | upd hl hr _ ih => exact .upd hl hr (ih h2)
  | ins hl _ ih => exact .ins hl (ih h2)

theorem Steps.upd1 {R : Bytes → Val → Val → Prop} {o : RowV} {k : Bytes} {c c' : Val}
    (hl : lookup o k = some c) (hr : R k c c') : Steps R o (upsert o k c') :=
  .upd hl hr (.refl _)

theorem Steps.ins1 {R : Bytes → Val → Val → Prop} {o : RowV} {k : Bytes} (c' : Val)
    (hl : lookup o k = none) : Steps R o (upsert o k c') :=
  .ins hl (.refl _)

theorem Steps.mono {R R' : Bytes → Val → Val → Prop} (h : ∀ k c c', R k c c' → R' k c c') {a b : RowV}
    (hs : Steps R a b) : Steps R' a b := by
  induction hs with
  | refl => exact .refl _
  | upd hl hr _ ih => exact .upd hl (h _ _ _ hr) ih
  | ins hl _ ih => exact .ins hl ih

/-- What a replacement must do to a declared cell: same format, same raw type, `C` again. -/
def Keeps (t : Tmpl) (C : Format → Ty → Dyn → Prop) (k : Bytes) (c c' : Val) : Prop :=
  ∀ f ty raw, Declares t k f ty → c = .cell raw f ty → C f ty raw →
    ∃ raw', c' = .cell raw' f ty ∧ C f ty raw'

theorem lookup_upsert' (o : RowV) (k k' : Bytes) (c : Val) :
    lookup (upsert o k c) k' = if k' = k then some c else lookup o k' :=
  OMap.lookup_upsert o k k' c

theorem inv_upsert_present {C : Format → Ty → Dyn → Prop} {t : Tmpl} {o : RowV} {k : Bytes} {c c' : Val}
    (hi : Inv C t o) (hl : lookup o k = some c) (hk : Keeps t C k c c') : Inv C t (upsert o k c') := by
  intro k' f ty hd
  rw [lookup_upsert']
  split
  · rename_i e
    subst e
    obtain ⟨raw, hr, hC⟩ := hi k' f ty hd
    rw [hl] at hr
    cases hr
    obtain ⟨raw', h1, h2⟩ := hk f ty raw hd rfl hC
    exact ⟨raw', by rw [h1], h2⟩
  · exact hi k' f ty hd

theorem inv_upsert_absent {C : Format → Ty → Dyn → Prop} {t : Tmpl} {o : RowV} {k : Bytes} (c' : Val)
    (hi : Inv C t o) (hl : lookup o k = none) : Inv C t (upsert o k c') := by
  intro k' f ty hd
  rw [lookup_upsert']
  split
  · rename_i e
    subst e
    obtain ⟨raw, hr, _⟩ := hi k' f ty hd
    rw [hl] at hr
    cases hr
  · exact hi k' f ty hd

/-- A chain of upserts that respects declared cells keeps the invariant. -/
theorem inv_steps {C : Format → Ty → Dyn → Prop} {t : Tmpl} {o o' : RowV}
    (hs : Steps (Keeps t C) o o') (hi : Inv C t o) : Inv C t o' := by
  induction hs with
  | refl => exact hi
  | upd hl hr _ ih => exact ih (inv_upsert_present hi hl hr)
  | ins hl _ ih => exact ih (inv_upsert_absent _ hi hl)

theorem nodup_upsert {o : RowV} (k : Bytes) (c : Val) (h : (OMap.keys o).Nodup) :
    (OMap.keys (upsert o k c)).Nodup := by
  rw [Order.keys_upsert_appendNew]
  exact Order.nodup_appendNew _ h

/-- A chain of upserts keeps the keys distinct. -/
theorem nodup_steps {R : Bytes → Val → Val → Prop} {o o' : RowV} (hs : Steps R o o')
    (h : (OMap.keys o).Nodup) : (OMap.keys o').Nodup := by
  induction hs with
  | refl => exact h
  | upd _ _ _ ih => exact ih (nodup_upsert _ _ h)
  | ins _ _ ih => exact ih (nodup_upsert _ _ h)

/-! ## §3 Every mutator of a row is a chain of upserts -/

/-- `Set(k, x)` on a value-level row: the function `setKey` of Driver.AliasCase (the model function the
    correspondence check replays `set` with), repeated here because Proofs/ does not import Driver/. -/
def setKey (env : Env) (r : RowV) (k : Bytes) (x : Dyn) : Outcome RowV :=
  match lookup r k with
  | some c =>
    match setExisting env c x with
    | .ok c' => .ok (upsert r k c')
    | .err e => .err e
    | .panic s => .panic s
  | none => .ok (upsert r k (Cells.newCell x))

/-- What `Row.Import` hands to its cells: the elements of a slice (to whatever key stands at their index),
    the entries of a Go map; anything else is refused without touching the row. -/
def RowArg (A : Bytes → Dyn → Prop) : Dyn → Prop
  | .arr xs => ∀ x ∈ xs.toList, ∀ k, A k x
  | .gomap kvs => ∀ kx ∈ kvs.toList, A kx.1 kx.2
  | _ => True

section Mutators
variable {R : Bytes → Val → Val → Prop} {A : Bytes → Dyn → Prop}

theorem steps_importAtKeyWith {imp : Val → Dyn → Outcome (Val × Option ErrClass)}
    (himp : ∀ k c x c' e, A k x → imp c x = .ok (c', e) → R k c c')
    {o o' : RowV} {k : Bytes} {x : Dyn} {e : Option ErrClass} (ha : A k x)
    (h : importAtKeyWith imp o k x = .ok (o', e)) : Steps R o o' := by
  unfold importAtKeyWith at h
  split at h
  · rename_i c hl
    split at h
    · rename_i c' e' hi
      simp only [Outcome.ok.injEq, Prod.mk.injEq] at h
      rw [← h.1]
      exact Steps.upd1 hl (himp _ _ _ _ _ ha hi)
    · cases h
    · cases h
  · rename_i hl
    simp only [Outcome.ok.injEq, Prod.mk.injEq] at h
    rw [← h.1]
    exact Steps.ins1 _ hl

theorem steps_importSliceWith {imp : Val → Dyn → Outcome (Val × Option ErrClass)}
    (himp : ∀ k c x c' e, A k x → imp c x = .ok (c', e) → R k c c') :
    ∀ (xs : List Dyn) (o o' : RowV) (i : Nat) (e : Option ErrClass),
      (∀ x ∈ xs, ∀ k, A k x) → importSliceWith imp o i xs = .ok (o', e) → Steps R o o' := by
  intro xs
  induction xs with
  | nil =>
    intro o o' i e _ h
    simp only [importSliceWith, Outcome.ok.injEq, Prod.mk.injEq] at h
    rw [← h.1]
    exact .refl _
  | cons x xs ih =>
    intro o o' i e ha h
    unfold importSliceWith at h
    split at h
    · rename_i o1 h1
      exact (steps_importAtKeyWith himp (ha x List.mem_cons_self _) h1).trans
        (ih _ _ _ _ (fun y hy => ha y (List.mem_cons_of_mem _ hy)) h)
    · exact steps_importAtKeyWith himp (ha x List.mem_cons_self _) h

theorem steps_importMapWith {imp : Val → Dyn → Outcome (Val × Option ErrClass)}
    (himp : ∀ k c x c' e, A k x → imp c x = .ok (c', e) → R k c c') :
    ∀ (kvs : List (Bytes × Dyn)) (o o' : RowV) (e : Option ErrClass),
      (∀ kx ∈ kvs, A kx.1 kx.2) → importMapWith imp o kvs = .ok (o', e) → Steps R o o' := by
  intro kvs
  induction kvs with
  | nil =>
    intro o o' e _ h
    simp only [importMapWith, Outcome.ok.injEq, Prod.mk.injEq] at h
    rw [← h.1]
    exact .refl _
  | cons kx kvs ih =>
    obtain ⟨k, x⟩ := kx
    intro o o' e ha h
    unfold importMapWith at h
    split at h
    · rename_i o1 h1
      exact (steps_importAtKeyWith himp (ha (k, x) List.mem_cons_self) h1).trans
        (ih _ _ _ (fun y hy => ha y (List.mem_cons_of_mem _ hy)) h)
    · exact steps_importAtKeyWith himp (ha (k, x) List.mem_cons_self) h

/-- `Row.Import(x)`: the value stays a row, and its content moved by a chain of upserts (not at all when
    `x` is neither a slice nor a Go map: refused). -/
theorem steps_importInto_row {env : Env}
    (himp : ∀ fuel k c x c' e, A k x → importInto env fuel c x = .ok (c', e) → R k c c')
    {fuel : Nat} {ms : Members} {x : Dyn} {v : Val} {e : Option ErrClass} (ha : RowArg A x)
    (h : importInto env fuel (.row ms) x = .ok (v, e)) :
    ∃ ms', v = .row ms' ∧ Steps R ms.toList ms'.toList := by
  cases fuel with
  | zero => simp [importInto] at h
  | succ fuel =>
    simp only [importInto] at h
    split at h
    · rename_i xs
      split at h
      · rename_i o e' hs
        simp only [Outcome.ok.injEq, Prod.mk.injEq] at h
        refine ⟨Members.ofList o, h.1.symm, ?_⟩
        rw [Members.toList_ofList]
        exact steps_importSliceWith (himp fuel) _ _ _ _ _ ha hs
      · cases h
      · cases h
    · rename_i kvs
      split at h
      · rename_i o e' hs
        simp only [Outcome.ok.injEq, Prod.mk.injEq] at h
        refine ⟨Members.ofList o, h.1.symm, ?_⟩
        rw [Members.toList_ofList]
        exact steps_importMapWith (himp fuel) _ _ _ _ ha hs
      · cases h
      · cases h
    · simp only [Outcome.ok.injEq, Prod.mk.injEq] at h
      exact ⟨ms, h.1.symm, .refl _⟩

theorem steps_parseMember {env : Env}
    (himp : ∀ k c x c' e, A k x → importVal env c x = .ok (c', e) → R k c c')
    {o o' : RowV} {k : Bytes} {x : Dyn} {e : Option ErrClass} (ha : A k x)
    (h : parseMember env o k x = .ok (o', e)) : Steps R o o' := by
  unfold parseMember at h
  split at h
  · rename_i c hl
    split at h
    · rename_i c' e' hi
      simp only [Outcome.ok.injEq, Prod.mk.injEq] at h
      rw [← h.1]
      exact Steps.upd1 hl (himp _ _ _ _ _ ha hi)
    · cases h
    · cases h
  · rename_i hl
    simp only [Outcome.ok.injEq, Prod.mk.injEq] at h
    rw [← h.1]
    exact Steps.ins1 _ hl

theorem steps_parseMembers {env : Env}
    (himp : ∀ k c x c' e, A k x → importVal env c x = .ok (c', e) → R k c c') :
    ∀ (l : List (Bytes × Dyn)) (o o' : RowV) (e : Option ErrClass),
      (∀ kx ∈ l, A kx.1 kx.2) → parseMembers env o l = .ok (o', e) → Steps R o o' := by
  intro l
  induction l with
  | nil =>
    intro o o' e _ h
    simp only [parseMembers, Outcome.ok.injEq, Prod.mk.injEq] at h
    rw [← h.1]
    exact .refl _
  | cons kx l ih =>
    obtain ⟨k, x⟩ := kx
    intro o o' e ha h
    unfold parseMembers at h
    split at h
    · rename_i o1 h1
      exact (steps_parseMember himp (ha (k, x) List.mem_cons_self) h1).trans
        (ih _ _ _ (fun y hy => ha y (List.mem_cons_of_mem _ hy)) h)
    · exact steps_parseMember himp (ha (k, x) List.mem_cons_self) h

/-- `UnmarshalJSON`, accepted or rejected half-way: the members delivered before the error were imported
    one after the other. -/
theorem steps_unmarshalInto {env : Env}
    (himp : ∀ k c x c' e, A k x → importVal env c x = .ok (c', e) → R k c c')
    {o o' : RowV} {text : Bytes} {e : Option ErrClass}
    (ha : ∀ l, ofJVMembers env (Json.unmarshal text).1 = .ok l → ∀ kx ∈ l, A kx.1 kx.2)
    (h : unmarshalInto env o text = .ok (o', e)) : Steps R o o' := by
  unfold unmarshalInto at h
  generalize Json.unmarshal text = u at h ha
  obtain ⟨ms, accepted⟩ := u
  simp only at h ha
  split at h
  · rename_i l hl
    split at h
    · rename_i o1 e1 hp
      simp only [Outcome.ok.injEq, Prod.mk.injEq] at h
      rw [← h.1]
      exact steps_parseMembers himp _ _ _ _ (ha l hl) hp
    · rename_i o1 hp
      simp only [Outcome.ok.injEq, Prod.mk.injEq] at h
      rw [← h.1]
      exact steps_parseMembers himp _ _ _ _ (ha l hl) hp
    · cases h
    · cases h
  · cases h
  · cases h

/-- `ImportAtPath`: at a one-key path the addressed cell imports; at a longer path the first key's cell
    (which is or wraps a row) is rebuilt around the new sub-row; a path not found changes nothing. -/
theorem steps_importAtKeys {env : Env}
    (himp : ∀ k c x c' e, A k x → importVal env c x = .ok (c', e) → R k c c')
    (hwith : ∀ k v sub sub', asRow v = some sub → R k v (withRow v sub'))
    {row row' : RowV} {keys : List Bytes} {x : Dyn} {e : Option ErrClass}
    (ha : ∀ k, keys = [k] → A k x)
    (h : importAtKeys env row keys x = .ok (row', e)) : Steps R row row' := by
  cases keys with
  | nil =>
    simp only [importAtKeys, Outcome.ok.injEq, Prod.mk.injEq] at h
    rw [← h.1]
    exact .refl _
  | cons k rest =>
    cases rest with
    | nil =>
      simp only [importAtKeys] at h
      split at h
      · simp only [Outcome.ok.injEq, Prod.mk.injEq] at h
        rw [← h.1]
        exact .refl _
      · rename_i v hl
        split at h
        · rename_i v' e' hi
          simp only [Outcome.ok.injEq, Prod.mk.injEq] at h
          rw [← h.1]
          exact Steps.upd1 hl (himp _ _ _ _ _ (ha k rfl) hi)
        · cases h
        · cases h
    | cons k2 rest2 =>
      simp only [importAtKeys] at h
      split at h
      · simp only [Outcome.ok.injEq, Prod.mk.injEq] at h
        rw [← h.1]
        exact .refl _
      · rename_i v hl
        split at h
        · simp only [Outcome.ok.injEq, Prod.mk.injEq] at h
          rw [← h.1]
          exact .refl _
        · rename_i sub hs
          split at h
          · rename_i sub' e' hi
            simp only [Outcome.ok.injEq, Prod.mk.injEq] at h
            rw [← h.1]
            exact Steps.upd1 hl (hwith _ _ _ _ hs)
          · cases h
          · cases h

theorem steps_setKey {env : Env} (hset : ∀ k c x c', setExisting env c x = .ok c' → R k c c')
    {o o' : RowV} {k : Bytes} {x : Dyn} (h : setKey env o k x = .ok o') : Steps R o o' := by
  unfold setKey at h
  split at h
  · rename_i c hl
    split at h
    · rename_i c' hi
      cases h
      exact Steps.upd1 hl (hset _ _ _ _ hi)
    · cases h
    · cases h
  · rename_i hl
    cases h
    exact Steps.ins1 _ hl

/-- `fill`, the step of `CreateRow` from Go values: a bare `NewValue` in the declared format and type. -/
theorem steps_fill {env : Env}
    (hnew : ∀ k c x c', newValue env x (Cells.format c) (Cells.rawType c) = .ok c' → R k c c')
    {o o' : RowV} {k : Bytes} {x : Dyn} (h : fill env o k x = .ok o') : Steps R o o' := by
  unfold fill at h
  split at h
  · rename_i c hl
    split at h
    · rename_i c' hi
      cases h
      exact Steps.upd1 hl (hnew _ _ _ _ hi)
    · cases h
    · cases h
  · rename_i hl
    cases h
    exact Steps.ins1 _ hl

theorem steps_fillSlice {env : Env}
    (hnew : ∀ k c x c', newValue env x (Cells.format c) (Cells.rawType c) = .ok c' → R k c c') :
    ∀ (xs : List Dyn) (o o' : RowV) (i : Nat), fillSlice env o i xs = .ok o' → Steps R o o' := by
  intro xs
  induction xs with
  | nil =>
    intro o o' i h
    simp only [fillSlice, Outcome.ok.injEq] at h
    rw [← h]
    exact .refl _
  | cons x xs ih =>
    intro o o' i h
    unfold fillSlice at h
    split at h
    · rename_i r h1
      exact (steps_fill hnew h1).trans (ih _ _ _ h)
    · rename_i hne
      exact absurd h (hne o')

theorem steps_fillPairs {env : Env}
    (hnew : ∀ k c x c', newValue env x (Cells.format c) (Cells.rawType c) = .ok c' → R k c c') :
    ∀ (kvs : List (Bytes × Dyn)) (o o' : RowV), fillPairs env o kvs = .ok o' → Steps R o o' := by
  intro kvs
  induction kvs with
  | nil =>
    intro o o' h
    simp only [fillPairs, Outcome.ok.injEq] at h
    rw [← h]
    exact .refl _
  | cons kx kvs ih =>
    obtain ⟨k, x⟩ := kx
    intro o o' h
    unfold fillPairs at h
    split at h
    · rename_i r h1
      exact (steps_fill hnew h1).trans (ih _ _ h)
    · rename_i hne
      exact absurd h (hne o')

end Mutators

/-! ## §4 The cell level -/

/-- The argument is not itself a cell `jsonline.Value` (a `value`, not a `Row`) at top level. -/
def NoCellVal (x : Dyn) : Prop := ∀ raw f ty, x ≠ .val (.cell raw f ty)

/-- Arguments under which the declaration survives. -/
def DArg : Bytes → Dyn → Prop := fun _ x => NoCellVal x

theorem noCellVal_of_not_val {x : Dyn} (h : ∀ w, x ≠ .val w) : NoCellVal x := fun _ _ _ e => h _ e

/-! ### For any tables: the declaration -/

theorem importByFormat_decl (env : Env) {f : Format} {ty : Ty} {x : Dyn} {c' : Val} {e : Option ErrClass}
    (h : importByFormat env f ty x = .ok (c', e)) :
    ∃ raw', c' = .cell raw' f ty ∧ (e ≠ none → raw' = .nil) := by
  unfold importByFormat at h
  simp only at h
  split at h
  · simp only [Outcome.ok.injEq, Prod.mk.injEq] at h
    exact ⟨_, h.1.symm, fun hne => absurd h.2.symm hne⟩
  · cases h
  · simp only [Outcome.ok.injEq, Prod.mk.injEq] at h
    exact ⟨_, h.1.symm, fun _ => rfl⟩
  · cases h

/-- `value.Import(x)`, `x` not a cell Value: succeeding or failing, format and raw type stay. -/
theorem importCell_decl (env : Env) {f : Format} {ty : Ty} {x : Dyn} {c' : Val} {e : Option ErrClass}
    (hx : NoCellVal x) (h : importCell env f ty x = .ok (c', e)) : ∃ raw', c' = .cell raw' f ty := by
  unfold importCell at h
  split at h
  · simp only [Outcome.ok.injEq, Prod.mk.injEq] at h
    exact ⟨_, h.1.symm⟩
  · split at h
    · simp only [Outcome.ok.injEq, Prod.mk.injEq] at h
      exact ⟨_, h.1.symm⟩
    · obtain ⟨r, hr, _⟩ := importByFormat_decl env h
      exact ⟨r, hr⟩
  · rename_i v hnr
    cases v with
    | cell raw f' ty' => exact absurd rfl (hx raw f' ty')
    | row ms => exact absurd rfl (hnr ms)
  · obtain ⟨r, hr, _⟩ := importByFormat_decl env h
    exact ⟨r, hr⟩

theorem newValue_cell (env : Env) {x : Dyn} {f : Format} {ty : Ty} {c : Val}
    (h : newValue env x f ty = .ok c) : ∃ raw, c = .cell raw f ty := by
  unfold newValue at h
  split at h
  · cases h; exact ⟨_, rfl⟩
  · cases h
  · cases h; exact ⟨_, rfl⟩
  · cases h

theorem setExisting_cell (env : Env) {c c' : Val} {x : Dyn} (h : setExisting env c x = .ok c') :
    ∃ raw, c' = .cell raw (Cells.format c) (Cells.rawType c) := by
  unfold setExisting at h
  simp only at h
  split at h
  · exact newValue_cell env h
  · cases h
  · exact newValue_cell env h
  · cases h

/-! ### For the generated tables: typedness -/

theorem rawTyped_of_castTo (ext : Ext) {ty : Ty} {v r : Dyn}
    (h : castTo genTables ext ty v = .ok r) : RawTyped ty r := by
  by_cases ht : ty = .none
  · exact Or.inl ht
  · have := gen_castTo_typed ext ty ht v r h
    by_cases hv : v = .nil
    · exact Or.inr (Or.inl (this.1.mpr hv))
    · exact Or.inr (Or.inr (this.2 hv))

theorem rawTyped_nil (ty : Ty) : RawTyped ty .nil := Or.inr (Or.inl rfl)

theorem rawTyped_of_importFail (ext : Ext) {ty : Ty} {v r : Dyn}
    (h : importFail (castTo genTables ext ty v) = .ok r) : RawTyped ty r :=
  rawTyped_of_castTo ext (NoPanic.importFail_ok h)

theorem importFrom_typed (ext : Ext) {name : String} {ty : Ty} {v r : Dyn}
    (h : importFrom ⟨genTables, ext⟩ name v ty = .ok r) : RawTyped ty r := by
  unfold importFrom at h
  split at h
  · exact Or.inl rfl
  · exact rawTyped_of_importFail ext h

theorem importFromBinary_typed (ext : Ext) {ty : Ty} {v r : Dyn}
    (h : importFromBinary ⟨genTables, ext⟩ v ty = .ok r) : RawTyped ty r := by
  unfold importFromBinary at h
  split at h
  · split at h
    · cases h
    · split at h
      · exact Or.inl rfl
      · exact rawTyped_of_importFail ext h
  · cases h
  · cases h
  · rename_i o h1 h2 h3
    cases hto : importFail (castNamed genTables ext "ToString" v) with
    | ok x =>
      rw [hto] at h
      cases x <;> simp_all
    | err e => rw [hto] at h; cases h
    | panic s => rw [hto] at h; cases h

theorem importByFormat_typed (ext : Ext) {f : Format} {ty : Ty} {x : Dyn} {c' : Val} {e : Option ErrClass}
    (h : importByFormat ⟨genTables, ext⟩ f ty x = .ok (c', e)) :
    ∃ raw', c' = .cell raw' f ty ∧ RawTyped ty raw' := by
  unfold importByFormat at h
  simp only at h
  split at h
  · rename_i r hres
    simp only [Outcome.ok.injEq, Prod.mk.injEq] at h
    refine ⟨r, h.1.symm, ?_⟩
    cases f with
    | string => exact importFrom_typed ext hres
    | numeric => exact importFrom_typed ext hres
    | boolean => exact importFrom_typed ext hres
    | binary => exact importFromBinary_typed ext hres
    | date => exact importFrom_typed ext hres
    | datetime => exact importFrom_typed ext hres
    | timestamp => exact importFrom_typed ext hres
    | auto => exact rawTyped_of_castTo ext hres
    | hidden => exact rawTyped_of_castTo ext hres
    | bad => cases hres
  · cases h
  · simp only [Outcome.ok.injEq, Prod.mk.injEq] at h
    exact ⟨.nil, h.1.symm, rawTyped_nil ty⟩
  · cases h

/-- `value.Import(x)` over the generated tables, `x` not a cell Value, succeeding or failing: the cell
    keeps format and raw type, and its raw value is typed.  (A Row is kept as it is only by an Auto / Hidden
    column WITHOUT raw type; a column declared with a raw type hands it to `cast.To`, which refuses it.) -/
theorem importCell_spec (ext : Ext) {f : Format} {ty : Ty} {x : Dyn} {c' : Val} {e : Option ErrClass}
    (hx : NoCellVal x) (h : importCell ⟨genTables, ext⟩ f ty x = .ok (c', e)) :
    ∃ raw', c' = .cell raw' f ty ∧ RawTyped ty raw' := by
  unfold importCell at h
  split at h
  · simp only [Outcome.ok.injEq, Prod.mk.injEq] at h
    exact ⟨_, h.1.symm, rawTyped_nil ty⟩
  · rename_i ms
    split at h
    · rename_i hf
      simp only [Outcome.ok.injEq, Prod.mk.injEq] at h
      refine ⟨_, h.1.symm, Or.inl ?_⟩
      simp only [Bool.and_eq_true, beq_iff_eq] at hf
      exact hf.2
    · exact importByFormat_typed ext h
  · rename_i v hnr
    cases v with
    | cell raw f' ty' => exact absurd rfl (hx raw f' ty')
    | row ms => exact absurd rfl (hnr ms)
  · exact importByFormat_typed ext h

/-- `NewValue(x, f, typ)`: typed when the cast succeeded, `x` itself (uncast) when it failed. -/
theorem newValue_spec (ext : Ext) {x : Dyn} {f : Format} {ty : Ty} {c : Val}
    (h : newValue ⟨genTables, ext⟩ x f ty = .ok c) :
    ∃ raw, c = .cell raw f ty ∧ (RawTyped ty raw ∨ raw = x) := by
  unfold newValue at h
  split at h
  · rename_i r hr
    cases h
    exact ⟨r, rfl, Or.inl (rawTyped_of_castTo ext hr)⟩
  · cases h
  · cases h
    exact ⟨x, rfl, Or.inr rfl⟩
  · cases h

/-- `NewValue(nil, f, typ)` is typed whatever the cast says. -/
theorem newValue_nil_typed (ext : Ext) {f : Format} {ty : Ty} {c : Val}
    (h : newValue ⟨genTables, ext⟩ .nil f ty = .ok c) : ∃ raw, c = .cell raw f ty ∧ RawTyped ty raw := by
  obtain ⟨raw, hc, hr⟩ := newValue_spec ext h
  refine ⟨raw, hc, ?_⟩
  rcases hr with hr | hr
  · exact hr
  · rw [hr]; exact rawTyped_nil ty

/-- `Set` on a present key DOES keep typedness: `cast.To` first; when it succeeds `NewValue` repeats the
    same (successful) cast, when it fails nil is stored. -/
theorem setExisting_spec (ext : Ext) {c c' : Val} {x : Dyn}
    (h : setExisting ⟨genTables, ext⟩ c x = .ok c') :
    ∃ raw, c' = .cell raw (Cells.format c) (Cells.rawType c) ∧ RawTyped (Cells.rawType c) raw := by
  unfold setExisting at h
  simp only at h
  split at h
  · rename_i r hr
    unfold newValue at h
    simp only [hr] at h
    cases h
    exact ⟨r, rfl, rawTyped_of_castTo ext hr⟩
  · cases h
  · exact newValue_nil_typed ext h
  · cases h

/-! ### The laws a cell predicate `C` and an argument predicate `A` must satisfy -/

/-- What the generic theorems need of the cell operations. -/
structure CellLaws (env : Env) (t : Tmpl) (C : Format → Ty → Dyn → Prop) (A : Bytes → Dyn → Prop) :
    Prop where
  /-- `value.Import`, succeeding or failing -/
  imp : ∀ k f ty x c' e, Declares t k f ty → A k x → importCell env f ty x = .ok (c', e) →
    ∃ raw', c' = .cell raw' f ty ∧ C f ty raw'
  /-- `Set` on a present key -/
  set : ∀ f ty raw x c', setExisting env (.cell raw f ty) x = .ok c' →
    ∃ raw', c' = .cell raw' f ty ∧ C f ty raw'
  /-- `CloneValue` -/
  clone : ∀ f ty raw c', C f ty raw → newValue env raw f ty = .ok c' →
    ∃ raw', c' = .cell raw' f ty ∧ C f ty raw'
  /-- a cell wrapping a row, rebuilt around another row (`ImportAtPath` below it) -/
  row : ∀ f ty ms ms', C f ty (.val (.row ms)) → C f ty (.val (.row ms'))

/-- The extra law `CreateRow` from Go values needs (a bare `NewValue` of anything): true of the
    declaration, FALSE of typedness (`Demo.newValue_keeps_uncast`). -/
def NewLaw (env : Env) (C : Format → Ty → Dyn → Prop) : Prop :=
  ∀ f ty x c', newValue env x f ty = .ok c' → ∃ raw', c' = .cell raw' f ty ∧ C f ty raw'

theorem laws_true (env : Env) (t : Tmpl) : CellLaws env t CTrue DArg where
  imp := fun _ _ _ _ _ _ _ ha h => by
    obtain ⟨r, hr⟩ := importCell_decl env ha h
    exact ⟨r, hr, trivial⟩
  set := fun _ _ _ _ _ h => by
    obtain ⟨r, hr⟩ := setExisting_cell env h
    exact ⟨r, hr, trivial⟩
  clone := fun _ _ _ _ _ h => by
    obtain ⟨r, hr⟩ := newValue_cell env h
    exact ⟨r, hr, trivial⟩
  row := fun _ _ _ _ _ => trivial

theorem newLaw_true (env : Env) : NewLaw env CTrue := fun _ _ _ _ h => by
  obtain ⟨r, hr⟩ := newValue_cell env h
  exact ⟨r, hr, trivial⟩

theorem laws_typed (ext : Ext) (t : Tmpl) : CellLaws ⟨genTables, ext⟩ t CTyped DArg where
  imp := fun _ _ _ _ _ _ _ ha h => importCell_spec ext ha h
  set := fun _ _ _ _ _ h => setExisting_spec ext h
  clone := fun f ty raw c' hC h => by
    obtain ⟨r, hr, hs⟩ := newValue_spec ext h
    refine ⟨r, hr, ?_⟩
    rcases hs with hs | hs
    · exact hs
    · rw [hs]; exact hC
  row := fun _ _ _ _ h => by
    rcases h with h | h | h
    · exact Or.inl h
    · cases h
    · exact Or.inr (Or.inr h)

/-! ## §5 The theorems per operation -/

/-- The state invariant of the histories: the generic invariant, and distinct keys (which `cloneRow`
    needs: it rebuilds a row by upserts, so that of two entries of one name the LAST would win). -/
def St (C : Format → Ty → Dyn → Prop) (t : Tmpl) (row : RowV) : Prop :=
  Inv C t row ∧ (OMap.keys row).Nodup

theorem st_steps {C : Format → Ty → Dyn → Prop} {t : Tmpl} {o o' : RowV}
    (hs : Steps (Keeps t C) o o') (h : St C t o) : St C t o' :=
  ⟨inv_steps hs h.1, nodup_steps hs h.2⟩

section Generic
variable {env : Env} {t : Tmpl} {C : Format → Ty → Dyn → Prop} {A : Bytes → Dyn → Prop}

theorem keeps_importInto (L : CellLaws env t C A) (fuel : Nat) (k : Bytes) (c : Val) (x : Dyn) (c' : Val)
    (e : Option ErrClass) (ha : A k x) (h : importInto env fuel c x = .ok (c', e)) : Keeps t C k c c' := by
  intro f ty raw hd hc _
  subst hc
  cases fuel with
  | zero => simp [importInto] at h
  | succ n =>
    simp only [importInto] at h
    exact L.imp k f ty x c' e hd ha h

theorem keeps_importVal (L : CellLaws env t C A) (k : Bytes) (c : Val) (x : Dyn) (c' : Val)
    (e : Option ErrClass) (ha : A k x) (h : importVal env c x = .ok (c', e)) : Keeps t C k c c' :=
  keeps_importInto L 64 k c x c' e ha h

theorem keeps_setExisting (L : CellLaws env t C A) (k : Bytes) (c : Val) (x : Dyn) (c' : Val)
    (h : setExisting env c x = .ok c') : Keeps t C k c c' := by
  intro f ty raw _ hc _
  subst hc
  exact L.set f ty raw x c' h

theorem keeps_withRow (L : CellLaws env t C A) (k : Bytes) (v : Val) (sub sub' : RowV)
    (hs : asRow v = some sub) : Keeps t C k v (withRow v sub') := by
  intro f ty raw _ hc hC
  subst hc
  unfold asRow at hs
  split at hs
  · rename_i heq; cases heq
  · rename_i ms f' ty' heq
    cases heq
    exact ⟨_, rfl, L.row f ty ms _ hC⟩
  · cases hs

theorem keeps_newValue (N : NewLaw env C) (k : Bytes) (c : Val) (x : Dyn) (c' : Val)
    (h : newValue env x (Cells.format c) (Cells.rawType c) = .ok c') : Keeps t C k c c' := by
  intro f ty raw _ hc _
  subst hc
  exact N f ty x c' h

/-- ImportAtKey. -/
theorem steps_iak (L : CellLaws env t C A) {o o' : RowV} {k : Bytes} {x : Dyn} {e : Option ErrClass}
    (ha : A k x) (h : importAtKeyWith (importVal env) o k x = .ok (o', e)) : Steps (Keeps t C) o o' :=
  steps_importAtKeyWith (A := A) (keeps_importVal L) ha h

/-- Row.Import. -/
theorem steps_rowImport (L : CellLaws env t C A) {o : RowV} {x : Dyn} {v : Val} {e : Option ErrClass}
    (ha : RowArg A x) (h : importVal env (.row (Members.ofList o)) x = .ok (v, e)) :
    ∃ ms', v = .row ms' ∧ Steps (Keeps t C) o ms'.toList := by
  obtain ⟨ms', hv, hs⟩ := steps_importInto_row (A := A) (R := Keeps t C) (keeps_importInto L) ha h
  rw [Members.toList_ofList] at hs
  exact ⟨ms', hv, hs⟩

/-- UnmarshalJSON. -/
theorem steps_um (L : CellLaws env t C A) {o o' : RowV} {text : Bytes} {e : Option ErrClass}
    (ha : ∀ l, ofJVMembers env (Json.unmarshal text).1 = .ok l → ∀ kx ∈ l, A kx.1 kx.2)
    (h : unmarshalInto env o text = .ok (o', e)) : Steps (Keeps t C) o o' :=
  steps_unmarshalInto (A := A) (keeps_importVal L) ha h

/-- ImportAtPath. -/
theorem steps_iap (L : CellLaws env t C A) {o o' : RowV} {path : Bytes} {x : Dyn} {e : Option ErrClass}
    (ha : ∀ k, splitDots path = [k] → A k x)
    (h : importAtPath env o path x = .ok (o', e)) : Steps (Keeps t C) o o' :=
  steps_importAtKeys (A := A) (keeps_importVal L) (keeps_withRow L) ha h

/-- Set. -/
theorem steps_set (L : CellLaws env t C A) {o o' : RowV} {k : Bytes} {x : Dyn}
    (h : setKey env o k x = .ok o') : Steps (Keeps t C) o o' :=
  steps_setKey (keeps_setExisting L) h

end Generic

/-! ### What the decoder hands over -/

/-- What the decoder hands over for a member is never a cell `jsonline.Value` (a scalar, a slice, or — for
    a nested object — a Row). -/
theorem ofJV_noCellVal (env : Env) {v : JV} {x : Dyn} (h : ofJV env v = .ok x) : NoCellVal x := by
  cases v with
  | null =>
    simp only [ofJV, Outcome.ok.injEq] at h; subst h
    exact noCellVal_of_not_val (fun _ e => by cases e)
  | bool b =>
    simp only [ofJV, Outcome.ok.injEq] at h; subst h
    exact noCellVal_of_not_val (fun _ e => by cases e)
  | num l =>
    simp only [ofJV, Outcome.ok.injEq] at h; subst h
    exact noCellVal_of_not_val (fun _ e => by cases e)
  | str s =>
    simp only [ofJV, Outcome.ok.injEq] at h; subst h
    exact noCellVal_of_not_val (fun _ e => by cases e)
  | arr xs =>
    simp only [ofJV] at h
    split at h
    · simp only [Outcome.ok.injEq] at h; subst h
      exact noCellVal_of_not_val (fun _ e => by cases e)
    · cases h
    · cases h
  | obj ms =>
    simp only [ofJV] at h
    split at h
    · split at h
      · simp only [Outcome.ok.injEq] at h; subst h
        exact fun _ _ _ e => (by cases e)
      · cases h
      · cases h
    · cases h
    · cases h

/-- No member of a JSON text is a cell Value. -/
theorem ofJVMembers_dArg (env : Env) : ∀ (ms : JVMembers) (l : List (Bytes × Dyn)),
    ofJVMembers env ms = .ok l → ∀ kx ∈ l, DArg kx.1 kx.2
  | .nil, l, h => by
    rw [ofJVMembers] at h
    cases h
    intro kx hkx; cases hkx
  | .cons k v ms, l, h => by
    rw [ofJVMembers] at h
    split at h
    · rename_i d hd
      split at h
      · rename_i rest hrest
        cases h
        intro kx hkx
        rcases List.mem_cons.mp hkx with e | hm
        · subst e; exact ofJV_noCellVal env hd
        · exact ofJVMembers_dArg env ms rest hrest kx hm
      · cases h
      · cases h
    · cases h
    · cases h

/-- The argument condition of `UnmarshalJSON(text)` in the generic theorems. -/
def TextArg (env : Env) (A : Bytes → Dyn → Prop) (text : Bytes) : Prop :=
  ∀ l, ofJVMembers env (Json.unmarshal text).1 = .ok l → ∀ kx ∈ l, A kx.1 kx.2

theorem textArg_dArg (env : Env) (text : Bytes) : TextArg env DArg text :=
  fun l hl => ofJVMembers_dArg env _ l hl

/-! ### Target 1, operation by operation

  Each operation, SUCCEEDING (`e = none`) OR FAILING (`e = some _`: the row is the one the refused call
  leaves behind), keeps (a) the declarations, for any tables; (b) declarations and typedness, over the
  generated tables, under the SAME argument condition as (a): the argument is not a cell
  `jsonline.Value` at top level — and for JSON text no condition at all.  (`.err` / `.panic` outcomes are not states: `.err .ext` is the model's "no
  standard-library answer supplied", and Proofs.NoPanic excludes `.panic`.) -/

/-- ImportAtKey (a). -/
theorem importAtKey_declKept (env : Env) {t : Tmpl} {o o' : RowV} {k : Bytes} {x : Dyn}
    {e : Option ErrClass} (hx : NoCellVal x)
    (h : importAtKeyWith (importVal env) o k x = .ok (o', e)) (hd : DeclKept t o) : DeclKept t o' :=
  inv_true_iff.mp (inv_steps (steps_iak (laws_true env t) (A := DArg) hx h) (inv_true_iff.mpr hd))

/-- ImportAtKey (b). -/
theorem importAtKey_typed (ext : Ext) {t : Tmpl} {o o' : RowV} {k : Bytes} {x : Dyn}
    {e : Option ErrClass} (hx : NoCellVal x)
    (h : importAtKeyWith (importVal ⟨genTables, ext⟩) o k x = .ok (o', e))
    (hd : DeclKept t o ∧ TypedAt t o) : DeclKept t o' ∧ TypedAt t o' :=
  inv_typed_iff.mp (inv_steps (steps_iak (laws_typed ext t) (A := DArg) hx h) (inv_typed_iff.mpr hd))

/-- UnmarshalJSON (a): no condition on the text at all — accepted, rejected half-way, or not JSON. -/
theorem unmarshal_declKept (env : Env) {t : Tmpl} {o o' : RowV} {text : Bytes} {e : Option ErrClass}
    (h : unmarshalInto env o text = .ok (o', e)) (hd : DeclKept t o) : DeclKept t o' :=
  inv_true_iff.mp (inv_steps (steps_um (laws_true env t) (textArg_dArg env text) h) (inv_true_iff.mpr hd))

/-- UnmarshalJSON (b): no condition on the text either — nested objects included. -/
theorem unmarshal_typed (ext : Ext) {t : Tmpl} {o o' : RowV} {text : Bytes} {e : Option ErrClass}
    (h : unmarshalInto ⟨genTables, ext⟩ o text = .ok (o', e))
    (hd : DeclKept t o ∧ TypedAt t o) : DeclKept t o' ∧ TypedAt t o' :=
  inv_typed_iff.mp (inv_steps (steps_um (laws_typed ext t) (textArg_dArg _ text) h)
    (inv_typed_iff.mpr hd))

/-- Row.Import of a slice / a Go map (a): the value is still a row, whose content keeps the declarations. -/
theorem rowImport_declKept (env : Env) {t : Tmpl} {o : RowV} {x : Dyn} {v : Val} {e : Option ErrClass}
    (hx : RowArg DArg x) (h : importVal env (.row (Members.ofList o)) x = .ok (v, e))
    (hd : DeclKept t o) : ∃ ms', v = .row ms' ∧ DeclKept t ms'.toList := by
  obtain ⟨ms', hv, hs⟩ := steps_rowImport (laws_true env t) hx h
  exact ⟨ms', hv, inv_true_iff.mp (inv_steps hs (inv_true_iff.mpr hd))⟩

/-- Row.Import (b). -/
theorem rowImport_typed (ext : Ext) {t : Tmpl} {o : RowV} {x : Dyn} {v : Val} {e : Option ErrClass}
    (hx : RowArg DArg x) (h : importVal ⟨genTables, ext⟩ (.row (Members.ofList o)) x = .ok (v, e))
    (hd : DeclKept t o ∧ TypedAt t o) : ∃ ms', v = .row ms' ∧ DeclKept t ms'.toList ∧ TypedAt t ms'.toList := by
  obtain ⟨ms', hv, hs⟩ := steps_rowImport (laws_typed ext t) hx h
  exact ⟨ms', hv, inv_typed_iff.mp (inv_steps hs (inv_typed_iff.mpr hd))⟩

/-- ImportAtPath (a): the argument matters only when the path is a single key (below a first key the
    declared cell is rebuilt around the new sub-row with its own format and raw type). -/
theorem importAtPath_declKept (env : Env) {t : Tmpl} {o o' : RowV} {path : Bytes} {x : Dyn}
    {e : Option ErrClass} (hx : ∀ k, splitDots path = [k] → NoCellVal x)
    (h : importAtPath env o path x = .ok (o', e)) (hd : DeclKept t o) : DeclKept t o' :=
  inv_true_iff.mp (inv_steps (steps_iap (laws_true env t) (A := DArg) hx h) (inv_true_iff.mpr hd))

/-- ImportAtPath (b). -/
theorem importAtPath_typed (ext : Ext) {t : Tmpl} {o o' : RowV} {path : Bytes} {x : Dyn}
    {e : Option ErrClass} (hx : ∀ k, splitDots path = [k] → NoCellVal x)
    (h : importAtPath ⟨genTables, ext⟩ o path x = .ok (o', e))
    (hd : DeclKept t o ∧ TypedAt t o) : DeclKept t o' ∧ TypedAt t o' :=
  inv_typed_iff.mp (inv_steps (steps_iap (laws_typed ext t) (A := DArg) hx h) (inv_typed_iff.mpr hd))

/-- Set (a): ANY argument, a `jsonline.Value` included — on a present key `Set` goes through `NewValue`
    with the cell's own format and raw type. -/
theorem set_declKept (env : Env) {t : Tmpl} {o o' : RowV} {k : Bytes} {x : Dyn}
    (h : setKey env o k x = .ok o') (hd : DeclKept t o) : DeclKept t o' :=
  inv_true_iff.mp (inv_steps (steps_set (laws_true env t) h) (inv_true_iff.mpr hd))

/-- Set (b): ANY argument — `Set` keeps typedness. -/
theorem set_typed (ext : Ext) {t : Tmpl} {o o' : RowV} {k : Bytes} {x : Dyn}
    (h : setKey ⟨genTables, ext⟩ o k x = .ok o')
    (hd : DeclKept t o ∧ TypedAt t o) : DeclKept t o' ∧ TypedAt t o' :=
  inv_typed_iff.mp (inv_steps (steps_set (laws_typed ext t) h) (inv_typed_iff.mpr hd))

/-! ### CloneRow, and the initial states (target 2) -/

/-- What a key holds after `cloneInto`: what the accumulator held (the key is not in the source), or the
    clone of an entry of the source. -/
theorem cloneInto_lookup (env : Env) : ∀ (r acc r' : RowV), cloneInto env acc r = .ok r' → ∀ k,
    (k ∉ OMap.keys r ∧ lookup r' k = lookup acc k) ∨
      (∃ v c, (k, v) ∈ r ∧ cloneValue env v = .ok c ∧ lookup r' k = some c)
  | [], acc, r', h, k => by
    simp only [cloneInto, Outcome.ok.injEq] at h
    subst h
    exact Or.inl ⟨by simp [OMap.keys], rfl⟩
  | (k0, v0) :: rest, acc, r', h, k => by
    simp only [cloneInto] at h
    split at h
    · rename_i c0 hc0
      rcases cloneInto_lookup env rest _ r' h k with ⟨hnk, hl⟩ | ⟨v, c, hm, hc, hl⟩
      · rw [lookup_upsert'] at hl
        by_cases hk : k = k0
        · subst hk
          simp only [if_true] at hl
          exact Or.inr ⟨v0, c0, List.mem_cons_self, hc0, hl⟩
        · simp only [hk, if_false] at hl
          refine Or.inl ⟨?_, hl⟩
          simp only [OMap.keys, List.map_cons, List.mem_cons, not_or]
          exact ⟨hk, hnk⟩
      · exact Or.inr ⟨v, c, List.mem_cons_of_mem _ hm, hc, hl⟩
    · cases h
    · cases h

/-- `CloneRow` of a row with distinct keys keeps the invariant for the columns that are cells (a declared
    column holding a cell is cloned by `NewValue(raw, format, rawtype)`: on a cast failure the raw value,
    which satisfied `C`, is kept). -/
theorem inv_cloneRow {env : Env} {t : Tmpl} {C : Format → Ty → Dyn → Prop} {A : Bytes → Dyn → Prop}
    (L : CellLaws env t C A) {row row' : RowV} (hnd : (OMap.keys row).Nodup)
    (h : cloneRow env row = .ok row') (hi : Inv C t row) : Inv C t row' := by
  intro k f ty hd
  obtain ⟨raw, hl, hC⟩ := hi k f ty hd
  rcases cloneInto_lookup env row [] row' h k with ⟨hnk, _⟩ | ⟨v, c, hm, hc, hl'⟩
  · have := OMap.lookup_none_of_not_mem row k hnk
    simp only [lookup] at hl
    rw [this] at hl
    cases hl
  · have hv := lookup_of_mem_nodup hnd hm
    rw [hl] at hv
    cases hv
    have hc' : newValue env raw f ty = .ok c := by
      simpa [cloneValue, Cells.raw, Cells.format, Cells.rawType] using hc
    obtain ⟨raw', h1, h2⟩ := L.clone f ty raw c hC hc'
    exact ⟨raw', by rw [hl', h1], h2⟩

theorem st_cloneRow {env : Env} {t : Tmpl} {C : Format → Ty → Dyn → Prop} {A : Bytes → Dyn → Prop}
    (L : CellLaws env t C A) {row row' : RowV} (h : cloneRow env row = .ok row') (hs : St C t row) :
    St C t row' :=
  ⟨inv_cloneRow L hs.2 h hs.1, Order.cloneRow_keys_nodup env row row' h⟩

/-- The prototypes themselves declare what they declare. -/
theorem inv_true_self (t : Tmpl) : Inv CTrue t t := fun _ _ _ ⟨raw, h⟩ => ⟨raw, h, trivial⟩

/-- Every cell prototype holds nil (what `With…` stores): then the prototypes are typed. -/
def NilProtos (t : Tmpl) : Prop := ∀ k raw f ty, lookup t k = some (.cell raw f ty) → raw = .nil

theorem inv_typed_self {t : Tmpl} (h : NilProtos t) : Inv CTyped t t := fun k f ty ⟨raw, hl⟩ =>
  ⟨raw, hl, by rw [h k raw f ty hl]; exact rawTyped_nil ty⟩

theorem nilProtos_nil : NilProtos [] := fun k raw f ty h => by simp [lookup, OMap.lookup] at h

theorem nilProtos_withCol {t : Tmpl} (h : NilProtos t) (name : Bytes) (f : Format) (ty : Ty) :
    NilProtos (withCol t name f ty) := by
  intro k raw f' ty' hl
  unfold withCol at hl
  rw [lookup_upsert'] at hl
  split at hl
  · cases hl; rfl
  · exact h k raw f' ty' hl

theorem nodup_withCol {t : Tmpl} (h : (OMap.keys t).Nodup) (name : Bytes) (f : Format) (ty : Ty) :
    (OMap.keys (withCol t name f ty)).Nodup := nodup_upsert _ _ h

/-- Target 2, `CreateRowEmpty`, generic: for a template with distinct names whose prototypes satisfy `C`. -/
theorem st_createRowEmpty {env : Env} {t : Tmpl} {C : Format → Ty → Dyn → Prop} {A : Bytes → Dyn → Prop}
    (L : CellLaws env t C A) (hnd : (OMap.keys t).Nodup) (hp : Inv C t t) {row : RowV}
    (h : createRowEmpty env t = .ok row) : St C t row :=
  st_cloneRow L h ⟨hp, hnd⟩

/-- `CreateRowEmpty` keeps every declaration (any tables; distinct names). -/
theorem createRowEmpty_declKept (env : Env) {t : Tmpl} (hnd : (OMap.keys t).Nodup) {row : RowV}
    (h : createRowEmpty env t = .ok row) : DeclKept t row :=
  inv_true_iff.mp (st_createRowEmpty (laws_true env t) hnd (inv_true_self t) h).1

/-- `CreateRowEmpty` of a template of nil prototypes is typed. -/
theorem createRowEmpty_typed (ext : Ext) {t : Tmpl} (hnd : (OMap.keys t).Nodup) (hp : NilProtos t)
    {row : RowV} (h : createRowEmpty ⟨genTables, ext⟩ t = .ok row) : DeclKept t row ∧ TypedAt t row :=
  inv_typed_iff.mp (st_createRowEmpty (laws_typed ext t) hnd (inv_typed_self hp) h).1

/-- `CloneRow` of a row (distinct keys) satisfying both satisfies both, for the columns that are cells. -/
theorem cloneRow_declKept (env : Env) {t : Tmpl} {row row' : RowV} (hnd : (OMap.keys row).Nodup)
    (h : cloneRow env row = .ok row') (hd : DeclKept t row) : DeclKept t row' :=
  inv_true_iff.mp (inv_cloneRow (laws_true env t) hnd h (inv_true_iff.mpr hd))

theorem cloneRow_typed (ext : Ext) {t : Tmpl} {row row' : RowV} (hnd : (OMap.keys row).Nodup)
    (h : cloneRow ⟨genTables, ext⟩ row = .ok row') (hd : DeclKept t row ∧ TypedAt t row) :
    DeclKept t row' ∧ TypedAt t row' :=
  inv_typed_iff.mp (inv_cloneRow (laws_typed ext t) hnd h (inv_typed_iff.mpr hd))

/-- The operations of `CreateRow` that go through a bare `NewValue`: from a slice, a Go map, a Row. -/
def UsesNewValue : Dyn → Prop
  | .arr _ => True
  | .gomap _ => True
  | .val (.row _) => True
  | _ => False

/-- `CreateRow(x)`, generic, succeeding or failing: from JSON text under the text's argument condition;
    from Go values only for a `C` that a bare `NewValue` establishes (`NewLaw`). -/
theorem st_createRow {env : Env} {t : Tmpl} {C : Format → Ty → Dyn → Prop} {A : Bytes → Dyn → Prop}
    (L : CellLaws env t C A) (hnd : (OMap.keys t).Nodup) (hp : Inv C t t) {x : Dyn}
    (hN : UsesNewValue x → NewLaw env C)
    (ha : ∀ s, (x = .str s ∨ x = .bytes s) → TextArg env A s)
    {row : RowV} {e : Option ErrClass} (h : createRow env t x = .ok (row, e)) : St C t row := by
  unfold createRow at h
  split at h
  · cases h
  · cases h
  · rename_i row0 h0
    have hs0 : St C t row0 := st_cloneRow L h0 ⟨hp, hnd⟩
    simp only at h
    split at h
    · rename_i xs
      split at h
      · rename_i r hr
        simp only [Outcome.ok.injEq, Prod.mk.injEq] at h
        rw [← h.1]
        exact st_steps (steps_fillSlice (keeps_newValue (hN trivial)) _ _ _ _ hr) hs0
      · cases h
      · cases h
    · rename_i kvs
      split at h
      · rename_i r hr
        simp only [Outcome.ok.injEq, Prod.mk.injEq] at h
        rw [← h.1]
        exact st_steps (steps_fillPairs (keeps_newValue (hN trivial)) _ _ _ hr) hs0
      · cases h
      · cases h
    · rename_i ms
      split at h
      · rename_i r hr
        simp only [Outcome.ok.injEq, Prod.mk.injEq] at h
        rw [← h.1]
        exact st_steps (steps_fillPairs (keeps_newValue (hN trivial)) _ _ _ hr) hs0
      · cases h
      · cases h
    · rename_i s
      exact st_steps (steps_um L (ha s (Or.inr rfl)) h) hs0
    · rename_i s
      exact st_steps (steps_um L (ha s (Or.inl rfl)) h) hs0
    · simp only [Outcome.ok.injEq, Prod.mk.injEq] at h
      rw [← h.1]
      exact hs0

theorem getRow_eq_createRow (env : Env) (t : Tmpl) (line : Bytes) :
    getRow env t line = createRow env t (.str line) := by
  unfold getRow createRow createRowEmpty
  split <;> rfl

/-- Target 2, `CreateRow(JSON text)`: every declaration is kept — any text, accepted or not. -/
theorem createRow_text_declKept (env : Env) {t : Tmpl} (hnd : (OMap.keys t).Nodup) {line : Bytes}
    {row : RowV} {e : Option ErrClass} (h : createRow env t (.str line) = .ok (row, e)) :
    DeclKept t row :=
  inv_true_iff.mp (st_createRow (laws_true env t) hnd (inv_true_self t) (x := .str line)
    (fun hu => False.elim hu)
    (fun s _ => textArg_dArg env s) h).1

/-- … and the row is typed — any text, accepted or not, nested objects included. -/
theorem createRow_text_typed (ext : Ext) {t : Tmpl} (hnd : (OMap.keys t).Nodup) (hp : NilProtos t)
    {line : Bytes} {row : RowV} {e : Option ErrClass}
    (h : createRow ⟨genTables, ext⟩ t (.str line) = .ok (row, e)) : DeclKept t row ∧ TypedAt t row :=
  inv_typed_iff.mp (st_createRow (laws_typed ext t) hnd (inv_typed_self hp) (x := .str line)
    (fun hu => False.elim hu)
    (fun s _ => textArg_dArg _ s) h).1

/-- Target 2, `importer.GetRow`. -/
theorem getRow_declKept (env : Env) {t : Tmpl} (hnd : (OMap.keys t).Nodup) {line : Bytes}
    {row : RowV} {e : Option ErrClass} (h : getRow env t line = .ok (row, e)) : DeclKept t row :=
  createRow_text_declKept env hnd (getRow_eq_createRow env t line ▸ h)

theorem getRow_typed (ext : Ext) {t : Tmpl} (hnd : (OMap.keys t).Nodup) (hp : NilProtos t)
    {line : Bytes} {row : RowV} {e : Option ErrClass}
    (h : getRow ⟨genTables, ext⟩ t line = .ok (row, e)) : DeclKept t row ∧ TypedAt t row :=
  createRow_text_typed ext hnd hp (getRow_eq_createRow _ t line ▸ h)

/-- `CreateRow` from a Go map, a slice, a Row — or anything: the DECLARATION is kept (typedness is not:
    `Demo.createRow_gomap_untyped`). -/
theorem createRow_declKept (env : Env) {t : Tmpl} (hnd : (OMap.keys t).Nodup) {x : Dyn}
    {row : RowV} {e : Option ErrClass} (h : createRow env t x = .ok (row, e)) : DeclKept t row :=
  inv_true_iff.mp (st_createRow (laws_true env t) hnd (inv_true_self t) (fun _ => newLaw_true env)
    (fun s _ => textArg_dArg env s) h).1

/-! ## §6 The history theorem (target 3) -/

/-- The operations of the histories of Driver.AliasCase on ONE row of a template (`um`, `iak`, `imp2`,
    `iap`, `set`), plus `cl` (go on with the clone of the row) and `create` (go on with a fresh row the
    template makes of `x`: `cm` / `cs` / `cj` / `imp` / `cr`). -/
inductive Op
  | iak (k : Bytes) (x : Dyn)        -- ImportAtKey
  | um (text : Bytes)                -- UnmarshalJSON
  | imp (x : Dyn)                    -- Row.Import (a slice, a Go map; anything else is refused)
  | iap (path : Bytes) (x : Dyn)     -- ImportAtPath
  | set (k : Bytes) (x : Dyn)        -- Set
  | cl                               -- CloneRow
  | create (x : Dyn)                 -- Template.CreateRow(x)

def rowOf : Outcome (RowV × Option ErrClass) → Option RowV
  | .ok (r, _) => some r
  | _ => none

/-- The row after the operation, whether the call SUCCEEDED OR FAILED (`.ok (row, some e)`: the row a
    refused import / a line rejected half-way leaves behind); `none`: the model has no answer
    (`.err .ext`). -/
def apply (env : Env) (t : Tmpl) (row : RowV) : Op → Option RowV
  | .iak k x => rowOf (importAtKeyWith (importVal env) row k x)
  | .um text => rowOf (unmarshalInto env row text)
  | .imp x =>
    match importVal env (.row (Members.ofList row)) x with
    | .ok (.row ms, _) => some ms.toList
    | _ => none
  | .iap path x => rowOf (importAtPath env row path x)
  | .set k x =>
    match setKey env row k x with
    | .ok r => some r
    | _ => none
  | .cl =>
    match cloneRow env row with
    | .ok r => some r
    | _ => none
  | .create x => rowOf (createRow env t x)

/-- Every state of a history, the initial one included (the history stops where the model abstains). -/
def trace (env : Env) (t : Tmpl) (row : RowV) : List Op → List RowV
  | [] => [row]
  | op :: ops =>
    row :: (match apply env t row op with
            | some row' => trace env t row' ops
            | none => [])

/-- The argument condition of an operation, for an argument predicate `A`. -/
def Op.Shape (env : Env) (A : Bytes → Dyn → Prop) : Op → Prop
  | .iak k x => A k x
  | .um text => TextArg env A text
  | .imp x => RowArg A x
  | .iap path x => ∀ k, splitDots path = [k] → A k x
  | .set _ _ => True
  | .cl => True
  | .create x => ∀ s, (x = .str s ∨ x = .bytes s) → TextArg env A s

/-- The `Set`-like operations in the sense of the task: those that go through a BARE `NewValue` ("cast,
    else keep the uncast value") — `CreateRow` from a slice, a Go map or a Row.  (`Set` itself is not one
    of them: it casts first.) -/
def Op.Bare : Op → Prop
  | .create x => UsesNewValue x
  | _ => False

theorem rowOf_some {o : Outcome (RowV × Option ErrClass)} {r : RowV} (h : rowOf o = some r) :
    ∃ e, o = .ok (r, e) := by
  unfold rowOf at h
  split at h
  · cases h; exact ⟨_, rfl⟩
  · cases h

section History
variable {env : Env} {t : Tmpl} {C : Format → Ty → Dyn → Prop} {A : Bytes → Dyn → Prop}

/-- One step. -/
theorem st_apply (L : CellLaws env t C A) (hnd : (OMap.keys t).Nodup) (hp : Inv C t t)
    {op : Op} (hs : op.Shape env A) (hn : op.Bare → NewLaw env C) {row row' : RowV}
    (h : apply env t row op = some row') (hst : St C t row) : St C t row' := by
  cases op with
  | iak k x =>
    obtain ⟨e, he⟩ := rowOf_some h
    exact st_steps (steps_iak L hs he) hst
  | um text =>
    obtain ⟨e, he⟩ := rowOf_some h
    exact st_steps (steps_um L hs he) hst
  | imp x =>
    simp only [apply] at h
    split at h
    · rename_i ms e he
      cases h
      obtain ⟨ms', hv, hsteps⟩ := steps_rowImport L hs he
      cases hv
      exact st_steps hsteps hst
    · cases h
  | iap path x =>
    obtain ⟨e, he⟩ := rowOf_some h
    exact st_steps (steps_iap L hs he) hst
  | set k x =>
    simp only [apply] at h
    split at h
    · rename_i r he
      cases h
      exact st_steps (steps_set L he) hst
    · cases h
  | cl =>
    simp only [apply] at h
    split at h
    · rename_i r he
      cases h
      exact st_cloneRow L he hst
    · cases h
  | create x =>
    obtain ⟨e, he⟩ := rowOf_some h
    exact st_createRow L hnd hp hn hs he

/-- The history theorem, generic: from any state satisfying the invariant, every state of every history
    of well-shaped operations satisfies it. -/
theorem history (L : CellLaws env t C A) (hnd : (OMap.keys t).Nodup) (hp : Inv C t t) :
    ∀ (ops : List Op) (row₀ : RowV), (∀ op ∈ ops, op.Shape env A) →
      (∀ op ∈ ops, op.Bare → NewLaw env C) → St C t row₀ → ∀ r ∈ trace env t row₀ ops, St C t r := by
  intro ops
  induction ops with
  | nil =>
    intro row₀ _ _ h0 r hr
    simp only [trace, List.mem_singleton] at hr
    rw [hr]; exact h0
  | cons op ops ih =>
    intro row₀ hs hn h0 r hr
    simp only [trace, List.mem_cons] at hr
    rcases hr with hr | hr
    · rw [hr]; exact h0
    · split at hr
      · rename_i row' ha
        exact ih row' (fun o ho => hs o (List.mem_cons_of_mem _ ho))
          (fun o ho => hn o (List.mem_cons_of_mem _ ho))
          (st_apply L hnd hp (hs op List.mem_cons_self) (hn op List.mem_cons_self) ha h0) r hr
      · cases hr

end History

/-! ### The two instances -/

/-- Operations whose arguments are not cell Values at top level (what every history of
    Driver.AliasCase is made of): the condition for the declarations AND for typedness. -/
def Op.NoValueArg : Op → Prop
  | .iak _ x => NoCellVal x
  | .imp x => RowArg DArg x
  | .iap path x => ∀ k, splitDots path = [k] → NoCellVal x
  | _ => True

theorem shape_of_noValueArg (env : Env) {op : Op} (h : op.NoValueArg) : op.Shape env DArg := by
  cases op with
  | iak k x => exact h
  | um text => exact textArg_dArg env text
  | imp x => exact h
  | iap path x => exact h
  | set k x => trivial
  | cl => trivial
  | create x => exact fun s _ => textArg_dArg env s

/-- Target 3 (declarations): for ANY tables, from any row that keeps the declarations and has distinct
    keys, every state of every history whose arguments are not cell Values keeps every declaration —
    whatever was stored, imported or REFUSED, `Set` and `CreateRow` from Go values included. -/
theorem history_declKept (env : Env) {t : Tmpl} (hnd : (OMap.keys t).Nodup) (ops : List Op)
    (hs : ∀ op ∈ ops, op.NoValueArg) {row₀ : RowV} (h0 : DeclKept t row₀)
    (hnd0 : (OMap.keys row₀).Nodup) : ∀ r ∈ trace env t row₀ ops, DeclKept t r := fun r hr =>
  inv_true_iff.mp (history (laws_true env t) hnd (inv_true_self t) ops row₀
    (fun op ho => shape_of_noValueArg env (hs op ho)) (fun _ _ _ => newLaw_true env)
    ⟨inv_true_iff.mpr h0, hnd0⟩ r hr).1

/-- Target 3 (typedness): over the generated tables, for every `ext`, every state of every history of
    operations whose arguments are not cell Values (JSON texts: ANY text) and that does not go through a
    bare `NewValue` (`CreateRow` from a slice / Go map / Row: `Demo.createRow_gomap_untyped`) keeps the
    declarations AND is typed. -/
theorem history_typed (ext : Ext) {t : Tmpl} (hnd : (OMap.keys t).Nodup) (hp : NilProtos t)
    (ops : List Op) (hs : ∀ op ∈ ops, op.NoValueArg) (hb : ∀ op ∈ ops, ¬ op.Bare) {row₀ : RowV}
    (h0 : DeclKept t row₀ ∧ TypedAt t row₀) (hnd0 : (OMap.keys row₀).Nodup) :
    ∀ r ∈ trace ⟨genTables, ext⟩ t row₀ ops, DeclKept t r ∧ TypedAt t r := fun r hr =>
  inv_typed_iff.mp (history (laws_typed ext t) hnd (inv_typed_self hp) ops row₀
    (fun op ho => shape_of_noValueArg _ (hs op ho))
    (fun op ho hbare => absurd hbare (hb op ho))
    ⟨inv_typed_iff.mpr h0, hnd0⟩ r hr).1

/-- From `CreateRowEmpty`: declarations. -/
theorem history_empty_declKept (env : Env) {t : Tmpl} (hnd : (OMap.keys t).Nodup) (ops : List Op)
    (hs : ∀ op ∈ ops, op.NoValueArg) {row₀ : RowV} (h0 : createRowEmpty env t = .ok row₀) :
    ∀ r ∈ trace env t row₀ ops, DeclKept t r :=
  history_declKept env hnd ops hs (createRowEmpty_declKept env hnd h0)
    (Order.cloneRow_keys_nodup env t row₀ h0)

/-- From `CreateRowEmpty`: declarations and typedness. -/
theorem history_empty_typed (ext : Ext) {t : Tmpl} (hnd : (OMap.keys t).Nodup) (hp : NilProtos t)
    (ops : List Op) (hs : ∀ op ∈ ops, op.NoValueArg) (hb : ∀ op ∈ ops, ¬ op.Bare) {row₀ : RowV}
    (h0 : createRowEmpty ⟨genTables, ext⟩ t = .ok row₀) :
    ∀ r ∈ trace ⟨genTables, ext⟩ t row₀ ops, DeclKept t r ∧ TypedAt t r :=
  history_typed ext hnd hp ops hs hb (createRowEmpty_typed ext hnd hp h0)
    (Order.cloneRow_keys_nodup _ t row₀ h0)

/-- From a row read from JSON text (`GetRow`, accepted or rejected): declarations. -/
theorem history_text_declKept (env : Env) {t : Tmpl} (hnd : (OMap.keys t).Nodup) (ops : List Op)
    (hs : ∀ op ∈ ops, op.NoValueArg) {line : Bytes} {row₀ : RowV} {e : Option ErrClass}
    (h0 : getRow env t line = .ok (row₀, e)) : ∀ r ∈ trace env t row₀ ops, DeclKept t r := by
  have hst := st_createRow (laws_true env t) hnd (inv_true_self t) (x := .str line)
    (fun hu => False.elim hu) (fun s _ => textArg_dArg env s) (getRow_eq_createRow env t line ▸ h0)
  exact history_declKept env hnd ops hs (inv_true_iff.mp hst.1) hst.2

/-- From a row read from JSON text: declarations and typedness. -/
theorem history_text_typed (ext : Ext) {t : Tmpl} (hnd : (OMap.keys t).Nodup) (hp : NilProtos t)
    (ops : List Op) (hs : ∀ op ∈ ops, op.NoValueArg) (hb : ∀ op ∈ ops, ¬ op.Bare) {line : Bytes}
    {row₀ : RowV} {e : Option ErrClass} (h0 : getRow ⟨genTables, ext⟩ t line = .ok (row₀, e)) :
    ∀ r ∈ trace ⟨genTables, ext⟩ t row₀ ops, DeclKept t r ∧ TypedAt t r := by
  have hst := st_createRow (laws_typed ext t) hnd (inv_typed_self hp) (x := .str line)
    (fun hu => False.elim hu) (fun s _ => textArg_dArg _ s) (getRow_eq_createRow _ t line ▸ h0)
  exact history_typed ext hnd hp ops hs hb (inv_typed_iff.mp hst.1) hst.2

/-! ## §7 Kernel-checked examples: the non-vacuity history (target 5), and the counterexamples

  Template `a : numeric(int8)`, `s : string`, `h : hidden(int64)`; tables: the generated ones, no
  standard-library oracle (`Ext.empty`).  Every row below is COMPUTED by the model (`rfl`, or `simp` where a
  well-founded definition — the JSON reader's string scanner, `natDigits` — is involved). -/
set_option linter.unusedSimpArgs false

namespace Demo
def envE : Env := ⟨genTables, Ext.empty⟩
def kA : Bytes := [0x61]
def kS : Bytes := [0x73]
def kH : Bytes := [0x68]
def tmpl : Tmpl := withCol (withCol (withCol [] kA .numeric (.int .i8)) kS .string .none) kH .hidden (.int .i64)

theorem tmpl_eq : tmpl = [(kA, .cell .nil .numeric (.int .i8)), (kS, .cell .nil .string .none), (kH, .cell .nil .hidden (.int .i64))] := by rfl

-- {"a":5,"s":"x"}
def line1 : Bytes := [0x7B,0x22,0x61,0x22,0x3A,0x35,0x2C,0x22,0x73,0x22,0x3A,0x22,0x78,0x22,0x7D]
-- {"a":"7","h":"y"}
def line2 : Bytes := [0x7B,0x22,0x61,0x22,0x3A,0x22,0x37,0x22,0x2C,0x22,0x68,0x22,0x3A,0x22,0x79,0x22,0x7D]
-- {"h":{}}
def line3 : Bytes := [0x7B,0x22,0x68,0x22,0x3A,0x7B,0x7D,0x7D]

open Json in
theorem um1 : Json.unmarshal line1 = (.cons kA (.num [0x35]) (.cons kS (.str [0x78]) .nil), true) := by
  simp [line1, kA, kS, unmarshal, token, tokenCore, skipSpace, isSpace, asClose, parseObject, more, asKey,
    asTok, strBody, pre, handleDelim, scanScalar, scanNumber, scanInt, scanFracExp, digits, isDigit,
    valueAllowed, valueEnd, isEof]
open Json in
theorem um2 : Json.unmarshal line2 = (.cons kA (.str [0x37]) (.cons kH (.str [0x79]) .nil), true) := by
  simp [line2, kA, kH, unmarshal, token, tokenCore, skipSpace, isSpace, asClose, parseObject, more, asKey,
    asTok, strBody, pre, handleDelim, scanScalar, scanNumber, scanInt, scanFracExp, digits, isDigit,
    valueAllowed, valueEnd, isEof]
open Json in
theorem um3 : Json.unmarshal line3 = (.cons kH (.obj .nil) .nil, true) := by
  simp [line3, kH, unmarshal, token, tokenCore, skipSpace, isSpace, asClose, parseObject, more, asKey,
    asTok, strBody, pre, handleDelim, scanScalar, scanNumber, scanInt, scanFracExp, digits, isDigit,
    valueAllowed, valueEnd, isEof]

def row0 : RowV := [(kA, .cell .nil .numeric (.int .i8)), (kS, .cell .nil .string .none), (kH, .cell .nil .hidden (.int .i64))]
def row1 : RowV := [(kA, .cell (.int .i8 5) .numeric (.int .i8)), (kS, .cell (.str [0x78]) .string .none), (kH, .cell .nil .hidden (.int .i64))]
def row2 : RowV := [(kA, .cell .nil .numeric (.int .i8)), (kS, .cell (.str [0x78]) .string .none), (kH, .cell .nil .hidden (.int .i64))]
def row3 : RowV := [(kA, .cell (.int .i8 7) .numeric (.int .i8)), (kS, .cell (.str [0x78]) .string .none), (kH, .cell .nil .hidden (.int .i64))]
def row4 : RowV := [(kA, .cell (.int .i8 7) .numeric (.int .i8)), (kS, .cell (.str [0x31, 0x32]) .string .none), (kH, .cell .nil .hidden (.int .i64))]

theorem s0 : createRowEmpty envE tmpl = .ok row0 := by rfl
theorem s1 : unmarshalInto envE row0 line1 = .ok (row1, none) := by
  simp only [unmarshalInto, um1]; rfl
theorem s2 : importAtKeyWith (importVal envE) row1 kA (.int .int 300) = .ok (row2, some .unsupportedImport) := by rfl
theorem s3 : unmarshalInto envE row2 line2 = .ok (row3, some .cast) := by
  simp only [unmarshalInto, um2]; rfl
theorem toString12 : castNamed genTables Ext.empty "ToString" (.int .int 12) = .ok (.str [0x31, 0x32]) := by
  simp [castNamed, callNamed, genTables, Gen.casters, findClause, typeOf, evalBranch, evalE,
    IntText.formatInt, IntText.natDigits, IntText.digitChar]
theorem s4 : importAtKeyWith (importVal envE) row3 kS (.int .int 12) = .ok (row4, none) := by
  simp [importAtKeyWith, importVal, importInto, importCell, importByFormat, importFrom, importFail, envE,
    toString12, row3, row4, kS, kA, kH, lookup, upsert, OMap.lookup, OMap.upsert]

theorem tmpl_nodup : (OMap.keys tmpl).Nodup := by rw [tmpl_eq]; decide
theorem tmpl_nil : NilProtos tmpl :=
  nilProtos_withCol (nilProtos_withCol (nilProtos_withCol nilProtos_nil _ _ _) _ _ _) _ _ _

theorem declA : Declares tmpl kA .numeric (.int .i8) := ⟨.nil, rfl⟩
theorem declS : Declares tmpl kS .string .none := ⟨.nil, rfl⟩
theorem declH : Declares tmpl kH .hidden (.int .i64) := ⟨.nil, rfl⟩

/-- Checking the invariant on a concrete row: one obligation per declared column. -/
theorem inv_tmpl {C : Format → Ty → Dyn → Prop} {row : RowV}
    (ha : ∃ raw, lookup row kA = some (.cell raw .numeric (.int .i8)) ∧ C .numeric (.int .i8) raw)
    (hs : ∃ raw, lookup row kS = some (.cell raw .string .none) ∧ C .string .none raw)
    (hh : ∃ raw, lookup row kH = some (.cell raw .hidden (.int .i64)) ∧ C .hidden (.int .i64) raw) :
    Inv C tmpl row := by
  intro k f ty hd
  obtain ⟨raw, hm⟩ := (declares_iff_mem tmpl_nodup k f ty).mp hd
  rw [tmpl_eq] at hm
  simp only [List.mem_cons, Prod.mk.injEq, Val.cell.injEq, List.mem_nil_iff, or_false] at hm
  rcases hm with ⟨rfl, _, rfl, rfl⟩ | ⟨rfl, _, rfl, rfl⟩ | ⟨rfl, _, rfl, rfl⟩
  · exact ha
  · exact hs
  · exact hh

theorem good0 : DeclKept tmpl row0 ∧ TypedAt tmpl row0 :=
  inv_typed_iff.mp (inv_tmpl ⟨_, rfl, rawTyped_nil _⟩ ⟨_, rfl, Or.inl rfl⟩ ⟨_, rfl, rawTyped_nil _⟩)
theorem good1 : DeclKept tmpl row1 ∧ TypedAt tmpl row1 :=
  inv_typed_iff.mp (inv_tmpl ⟨_, rfl, Or.inr (Or.inr rfl)⟩ ⟨_, rfl, Or.inl rfl⟩ ⟨_, rfl, rawTyped_nil _⟩)
theorem good2 : DeclKept tmpl row2 ∧ TypedAt tmpl row2 :=
  inv_typed_iff.mp (inv_tmpl ⟨_, rfl, rawTyped_nil _⟩ ⟨_, rfl, Or.inl rfl⟩ ⟨_, rfl, rawTyped_nil _⟩)
theorem good3 : DeclKept tmpl row3 ∧ TypedAt tmpl row3 :=
  inv_typed_iff.mp (inv_tmpl ⟨_, rfl, Or.inr (Or.inr rfl)⟩ ⟨_, rfl, Or.inl rfl⟩ ⟨_, rfl, rawTyped_nil _⟩)
theorem good4 : DeclKept tmpl row4 ∧ TypedAt tmpl row4 :=
  inv_typed_iff.mp (inv_tmpl ⟨_, rfl, Or.inr (Or.inr rfl)⟩ ⟨_, rfl, Or.inl rfl⟩ ⟨_, rfl, rawTyped_nil _⟩)

/-- A nested OBJECT addressed to the Hidden column declared int64 (`{"h":{}}`): the column has a raw type,
    so the Row goes to `cast.To(int64, row)`, which refuses it — h is nil, still hidden(int64), and the
    line is reported with a cast error.  (Before the repair of `value.Import` the Row was stored as it
    was and the column was no longer typed.) -/
theorem um_object_into_typed_hidden_refused :
    unmarshalInto envE row0 line3 = .ok (row0, some .cast) ∧ DeclKept tmpl row0 ∧ TypedAt tmpl row0 :=
  ⟨by simp only [unmarshalInto, um3]; rfl, good0⟩

/-- the same on the last row of the history: refused, nothing changes -/
theorem s5 : unmarshalInto envE row4 line3 = .ok (row4, some .cast) := by
  simp only [unmarshalInto, um3]; rfl

/-- …whereas a Hidden (or Auto) column WITHOUT raw type keeps the Row as it is (and is trivially typed). -/
theorem object_into_untyped_hidden_kept :
    importCell envE .hidden .none (.val (.row .nil)) = .ok (.cell (.val (.row .nil)) .hidden .none, none) ∧
      Typed (.cell (.val (.row .nil)) .hidden .none) :=
  ⟨by rfl, Or.inl rfl⟩

def hist : List Op :=
  [.um line1, .iak kA (.int .int 300), .um line2, .iak kS (.int .int 12), .um line3]

theorem trace_hist : trace envE tmpl row0 hist = [row0, row1, row2, row3, row4, row4] := by
  simp [hist, trace, apply, rowOf, s1, s2, s3, s4, s5]

theorem hist_noValueArg : ∀ op ∈ hist, op.NoValueArg := by
  intro op hop
  simp only [hist, List.mem_cons, List.mem_nil_iff, or_false] at hop
  rcases hop with rfl | rfl | rfl | rfl | rfl
  · trivial
  · exact noCellVal_of_not_val (fun _ e => by cases e)
  · trivial
  · exact noCellVal_of_not_val (fun _ e => by cases e)
  · trivial

theorem hist_notBare : ∀ op ∈ hist, ¬ op.Bare := by
  intro op hop
  simp only [hist, List.mem_cons, List.mem_nil_iff, or_false] at hop
  rcases hop with rfl | rfl | rfl | rfl | rfl <;> exact fun h => h

/-- the history theorem applies, and says what was computed -/
example : ∀ r ∈ [row0, row1, row2, row3, row4, row4], DeclKept tmpl r ∧ TypedAt tmpl r := by
  rw [← trace_hist]
  exact history_empty_typed Ext.empty tmpl_nodup tmpl_nil hist hist_noValueArg hist_notBare s0


/-- 300 does not fit int8: NewValue keeps it UNCAST, in a cell that says int8. -/
theorem newValue_keeps_uncast :
    newValue envE (.int .int 300) .numeric (.int .i8) = .ok (.cell (.int .int 300) .numeric (.int .i8)) ∧
      ¬ Typed (.cell (.int .int 300) .numeric (.int .i8)) := by
  refine ⟨by rfl, ?_⟩
  intro h
  rcases h with h | h | h <;> cases h

def rowMap : RowV := [(kA, .cell (.int .int 300) .numeric (.int .i8)), (kS, .cell .nil .string .none), (kH, .cell .nil .hidden (.int .i64))]

theorem createRow_gomap_untyped :
    createRow envE tmpl (.gomap (.cons kA (.int .int 300) .nil)) = .ok (rowMap, none) ∧
      DeclKept tmpl rowMap ∧ ¬ TypedAt tmpl rowMap := by
  refine ⟨by rfl, ?_, ?_⟩
  · exact inv_true_iff.mp (inv_tmpl ⟨_, rfl, trivial⟩ ⟨_, rfl, trivial⟩ ⟨_, rfl, trivial⟩)
  · intro h
    have := h kA _ _ declA _ rfl
    rcases this with h | h | h <;> cases h

theorem set_refused_typed : setKey envE row1 kA (.int .int 300) = .ok row2 := by rfl

def rowVal : RowV := [(kA, .cell (.str [0x78]) .string .str), (kS, .cell .nil .string .none), (kH, .cell .nil .hidden (.int .i64))]

theorem iak_value_replaces_declaration :
    importAtKeyWith (importVal envE) row0 kA (.val (.cell (.str [0x78]) .string .str)) = .ok (rowVal, none) ∧
      DeclKept tmpl row0 ∧ ¬ DeclKept tmpl rowVal := by
  refine ⟨by rfl, good0.1, ?_⟩
  intro h
  obtain ⟨raw, hr⟩ := h kA _ _ declA
  have : lookup rowVal kA = some (.cell (.str [0x78]) .string .str) := rfl
  rw [this] at hr
  cases hr

/-- Why `CreateRowEmpty` / `CloneRow` need distinct names: of two entries of one name (which no `With…`
    call can produce) the clone keeps the LAST, while `GetValue` / `lookup` on the template reads the first. -/
def tDup : Tmpl := [(kA, .cell .nil .numeric (.int .i8)), (kA, .cell .nil .string .none)]

theorem dup_names_lose_declaration :
    createRowEmpty envE tDup = .ok [(kA, .cell .nil .string .none)] ∧
      Declares tDup kA .numeric (.int .i8) ∧ ¬ DeclKept tDup [(kA, .cell .nil .string .none)] := by
  refine ⟨by rfl, ⟨.nil, rfl⟩, ?_⟩
  intro h
  obtain ⟨raw, hr⟩ := h kA _ _ ⟨.nil, rfl⟩
  have : lookup [(kA, Val.cell .nil .string .none)] kA = some (.cell .nil .string .none) := rfl
  rw [this] at hr
  cases hr

end Demo

end Jl.TypedHistory
