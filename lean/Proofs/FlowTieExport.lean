/-
  Proofs.FlowTieExport — exporter.go: NewExporter, WithTemplate, Export = `exportLine`
  (one of the files Proofs.FlowTie*: split so that a change of one function stops only the properties that
  rest on it; the overview is in Proofs/FlowTie.lean)
-/
import Proofs.FlowTieDefs

namespace Jl.FlowTie
open Jl Jl.Flow Jl.Value Jl.Template

theorem newExporter_as_modelled : Gen.flowTable.newExporter = .writerAndNewTemplate := by decide

theorem exporterWithTemplate_as_modelled : Gen.flowTable.exporterWithTemplate = .storesArg := by decide

theorem export_as_modelled : Gen.flowTable.exporterExport = .oneWrite 10 .wrapped := by decide

theorem export_is_exportLine (env : Env) (t : Tmpl) (v : Dyn) :
    exportG Gen.flowTable.exporterExport env t v = some (exportLine env t v) := rfl

/-- The separator is Gen.Sites' `lineSeparator`. -/
theorem separator_as_generated : Gen.flowTable.exporterExport = .oneWrite Gen.lineSeparator .wrapped := by decide

end Jl.FlowTie
