/-
  Proofs.RowRoundTrip — C13 at ROW / LINE level: a typed column survives write-then-read.

  The route (harness route 1), for the one-column template `t := withCol [] key f ty`:
      createRow env t (.gomap {key ↦ v})            = .ok (row, none)
      marshalRow env (Members.ofList row)           = .ok bytes
      createRowEmpty env t                          = .ok r0
      unmarshalInto env r0 bytes                    = .ok (r, none)
      Cells.raw (lookup r key)                      = v'
  (`Route`).  `route_of_cell` / `route_of_wire` lift the cell-level facts of Proofs.Pairings
  (export gives `e`; import of the reader's image `e'` of `e` gives `v'`) to the whole route;
  `row_<pairing>` instantiate them for the regenerated tables; `row_lossless_covered` is the
  summary over the list `covered` in the words of `Tables.lossless / inDomain / sameValue`.
-/
import Model.Tables
import Model.Value
import Model.Template
import Model.RowPrint
import Model.CastGen
import Proofs.CastTyped
import Proofs.Pairings
import Proofs.JsonPrint

namespace Jl.RowRoundTrip
open Jl Jl.Value Jl.Template Jl.RowPrint Jl.JsonPrint Jl.JsonQuote Cast

set_option linter.unusedSimpArgs false

/-! ### The route -/

/-- Harness route 1 on the one-column template `withCol [] key f ty`: the value `v` is put in a
    row, the row is printed, the line is read back through the same template, and the raw
    value of the column afterwards is `v'`.  Every step succeeds without error. -/
def Route (env : Env) (key : Bytes) (f : Format) (ty : Ty) (v v' : Dyn) : Prop :=
  ∃ (row : List (Bytes × Val)) (bytes : Bytes) (r0 r : List (Bytes × Val)),
    createRow env (withCol [] key f ty) (.gomap (.cons key v .nil)) = .ok (row, none) ∧
    marshalRow env (Members.ofList row) = .ok bytes ∧
    createRowEmpty env (withCol [] key f ty) = .ok r0 ∧
    unmarshalInto env r0 bytes = .ok (r, none) ∧
    (lookup r key).map Cells.raw = some v'

/-- The same route through the two public entry points: `exporter.Export` writes `bytes` and a
    newline, `importer.GetRow` on the scanned line `bytes` gives the row. -/
def LineRoute (env : Env) (key : Bytes) (f : Format) (ty : Ty) (v v' : Dyn) : Prop :=
  ∃ (bytes : Bytes) (r : List (Bytes × Val)),
    exportLine env (withCol [] key f ty) (.gomap (.cons key v .nil)) = .ok (bytes ++ [0x0A], none) ∧
    getRow env (withCol [] key f ty) bytes = .ok (r, none) ∧
    (lookup r key).map Cells.raw = some v'

theorem Route.line {env : Env} {key : Bytes} {f : Format} {ty : Ty} {v v' : Dyn}
    (h : Route env key f ty v v') : LineRoute env key f ty v v' := by
  obtain ⟨row, bytes, r0, r, h1, h2, h3, h4, h5⟩ := h
  refine ⟨bytes, r, ?_, ?_, h5⟩
  · simp only [exportLine, h1, h2]
  · simp only [getRow, h3, h4]

/-! ### Step lemmas for a one-column row -/

theorem withCol_one (key : Bytes) (f : Format) (ty : Ty) :
    withCol [] key f ty = [(key, .cell .nil f ty)] := rfl

theorem lookup_one (key : Bytes) (c : Val) : lookup [(key, c)] key = some c := by
  simp [lookup, OMap.lookup]

theorem upsert_one (key : Bytes) (c c' : Val) : upsert [(key, c)] key c' = [(key, c')] := by
  simp [upsert, OMap.upsert]

/-- `CreateRowEmpty` of the one-column template: one nil cell (given that `NewValue(nil, f, ty)`
    is the nil cell, which holds for the regenerated tables: `gen_newValue_nil`). -/
theorem createRowEmpty_one (env : Env) (key : Bytes) (f : Format) (ty : Ty)
    (h0 : newValue env .nil f ty = .ok (.cell .nil f ty)) :
    createRowEmpty env (withCol [] key f ty) = .ok [(key, .cell .nil f ty)] := by
  simp only [createRowEmpty, cloneRow, withCol_one, cloneInto, cloneValue, Cells.raw, Cells.format,
    Cells.rawType, h0]
  rfl

/-- `CreateRow(map[string]interface{}{key: v})`. -/
theorem createRow_one (env : Env) (key : Bytes) (f : Format) (ty : Ty) (v : Dyn)
    (h0 : newValue env .nil f ty = .ok (.cell .nil f ty))
    (ha : newValue env v f ty = .ok (.cell v f ty)) :
    createRow env (withCol [] key f ty) (.gomap (.cons key v .nil)) =
      .ok ([(key, .cell v f ty)], none) := by
  have hc : cloneRow env (withCol [] key f ty) = .ok [(key, .cell .nil f ty)] :=
    createRowEmpty_one env key f ty h0
  simp only [createRow, hc, DynMap.toList, fillPairs, fill, lookup_one, Cells.format, Cells.rawType,
    ha, upsert_one]

/-- `row.MarshalJSON` of the one-cell row, from the cell's export and its marshalling. -/
theorem marshalRow_one (env : Env) (key : Bytes) (f : Format) (ty : Ty) (v e : Dyn) (b : Bytes)
    (hf : f ≠ .hidden) (hb : exportVal env (.cell v f ty) = .ok e)
    (hm : marshalExported env e v = .ok b) :
    marshalRow env (Members.ofList [(key, .cell v f ty)]) =
      .ok (0x7B :: (joinComma [JsonWrite.quote key ++ 0x3A :: b] ++ [0x7D])) := by
  have hv : marshalVal env (.cell v f ty) = .ok b := by
    rw [marshalVal.eq_def]; simp only [hb, hm]
  exact marshalRow_eq env _
    (marshalMembers_cons env key _ .nil (by simpa [Cells.format] using hf) hv (marshalMembers_nil env))

/-- `row.UnmarshalJSON` on the empty one-column row, when the text holds exactly the member
    `key : j`. -/
theorem unmarshalInto_one (env : Env) (key : Bytes) (f : Format) (ty : Ty) (bytes : Bytes)
    (j : JV) (e' v' : Dyn)
    (hu : Json.unmarshal bytes = (.cons key j .nil, true))
    (hj : ofJV env j = .ok e')
    (hd : importCell env f ty e' = .ok (.cell v' f ty, none)) :
    unmarshalInto env [(key, .cell .nil f ty)] bytes = .ok ([(key, .cell v' f ty)], none) := by
  have h1 : ofJVMembers env (.cons key j .nil) = .ok [(key, e')] := by
    rw [ofJVMembers.eq_def]; simp only [hj]; rw [ofJVMembers.eq_def]
  have h2 : importVal env (.cell .nil f ty) e' = .ok (.cell v' f ty, none) := by
    simp only [importVal, importInto, hd]
  simp only [unmarshalInto, hu, h1, parseMembers, parseMember, lookup_one, h2, upsert_one, if_true]

/-! ### 1. The generic lifting lemmas -/

/-- Generic lifting lemma, in the words of the printed tree (`JsonPrint.treeVal`).
    For a key the reader delivers unchanged (`sanitize key = key`, e.g. ASCII), a column
    `(f, ty)` that is not hidden and a value `v`:
      (a0) `NewValue(nil, f, ty)` is the nil cell            [the template's prototype cell]
      (a)  `NewValue(v, f, ty)` keeps `v`                     [`v` is already of the raw type]
      (b)  the cell exports (to some `e`)                     [kept for the record: (m) implies it]
      (m)  the row marshals                                   [to `bytes`]
      (c)  the printed tree of the cell is `j` and the reader hands `e'` to `Import` for it
      (d)  `Import(e')` on the column gives `v'`
    then the whole route succeeds and the raw value read back is `v'`.
    `FloatTextOK` (json.Marshal's spelling of a float is a JSON number) is what
    `JsonPrint.unmarshal_marshalRow` asks of the standard-library parameter; `route_of_wire`
    below does without it and derives (m). -/
theorem route_of_cell (env : Env) (hx : FloatTextOK env.ext) (key : Bytes) (hk : sanitize key = key)
    (f : Format) (ty : Ty) (hf : f ≠ .hidden) (v v' e e' : Dyn) (j : JV) (bytes : Bytes)
    (h0 : newValue env .nil f ty = .ok (.cell .nil f ty))
    (ha : newValue env v f ty = .ok (.cell v f ty))
    (_hb : exportVal env (.cell v f ty) = .ok e)
    (hm : marshalRow env (Members.ofList [(key, .cell v f ty)]) = .ok bytes)
    (hc : treeVal env (.cell v f ty) = j) (hj : ofJV env j = .ok e')
    (hd : importCell env f ty e' = .ok (.cell v' f ty, none)) :
    Route env key f ty v v' := by
  have hu := unmarshal_marshalRow env hx _ bytes hm
  have ht : treeMembers env (Members.ofList [(key, .cell v f ty)]) = .cons key j .nil := by
    have hne : (Cells.format (.cell v f ty) == Format.hidden) = false := by
      simpa [Cells.format] using hf
    simp only [Members.ofList]
    rw [treeMembers.eq_def]
    simp only [hne, hk, hc]
    rw [treeMembers.eq_def]
    simp
  rw [ht] at hu
  exact ⟨_, bytes, _, _, createRow_one env key f ty v h0 ha, hm, createRowEmpty_one env key f ty h0,
    unmarshalInto_one env key f ty bytes j e' v' hu hj hd, by simp [lookup_one, Cells.raw]⟩

/-- What `Export` hands to json.Marshal, and what the reader hands to `Import` for the text
    written: the scalar kinds (everything `Export` returns outside Auto / Hidden columns).
    `Wire e e'`: `e` is marshalled without error, and its text is read back as `e'`. -/
inductive Wire : Dyn → Dyn → Prop
  | nil : Wire .nil .nil
  | bool (b : Bool) : Wire (.bool b) (.bool b)
  | int (t : IntTy) (v : Int) : Wire (.int t v) (.num (IntText.formatInt v))
  | str (s : Bytes) : Wire (.str s) (.str (sanitize s))
  | num (l : Bytes) : JsonWrite.isValidNumber l = true → Wire (.num l) (.num l)

theorem numText_valid {l : Bytes} (h : JsonWrite.isValidNumber l = true) : numText l = l := by
  unfold numText
  cases l with
  | nil => exact absurd h (by decide)
  | cons c r => simp

/-- A wire value is marshalled, whatever the raw value, and its text is read as a JSON value
    that `handledelim` turns into `e'`. -/
theorem Wire.marshal {e e' : Dyn} (w : Wire e e') (env : Env) (raw : Dyn) :
    ∃ b j, marshalExported env e raw = .ok b ∧ ReadsAs b j ∧ ofJV env j = .ok e' := by
  cases w with
  | nil => exact ⟨_, _, by rw [marshalExported.eq_def], readsAs_null, by rw [ofJV.eq_def]⟩
  | bool b =>
    refine ⟨_, .bool b, by rw [marshalExported.eq_def], ?_, by rw [ofJV.eq_def]⟩
    cases b
    · exact readsAs_false
    · exact readsAs_true
  | int t v =>
    exact ⟨_, _, by rw [marshalExported.eq_def],
      readsAs_number (IntText.isValidNumber_formatInt v), by rw [ofJV.eq_def]⟩
  | str s => exact ⟨_, _, by rw [marshalExported.eq_def], readsAs_quote s, by rw [ofJV.eq_def]⟩
  | num l hl =>
    have hne : l.isEmpty = false := by
      cases l with
      | nil => exact absurd hl (by decide)
      | cons c r => rfl
    refine ⟨l, .num l, ?_, readsAs_number hl, by rw [ofJV.eq_def]⟩
    rw [marshalExported.eq_def]; simp [hne, hl]

/-- Generic lifting lemma, wire form: no hypothesis on the standard-library parameter and the
    marshalling step is derived.  With (a0), (a) as in `route_of_cell`:
      (b) the cell exports to `e`;  (c) `e` travels as `e'` (`Wire`);  (d) `Import(e')` gives `v'`. -/
theorem route_of_wire (env : Env) (key : Bytes) (hk : sanitize key = key)
    (f : Format) (ty : Ty) (hf : f ≠ .hidden) (v v' e e' : Dyn)
    (h0 : newValue env .nil f ty = .ok (.cell .nil f ty))
    (ha : newValue env v f ty = .ok (.cell v f ty))
    (hb : exportVal env (.cell v f ty) = .ok e)
    (hw : Wire e e')
    (hd : importCell env f ty e' = .ok (.cell v' f ty, none)) :
    Route env key f ty v v' := by
  obtain ⟨b, j, hm, hr, hj⟩ := hw.marshal env v
  have hrow := marshalRow_one env key f ty v e b hf hb hm
  have hu : Json.unmarshal (0x7B :: (joinComma [JsonWrite.quote key ++ 0x3A :: b] ++ [0x7D])) =
      (.cons key j .nil, true) := by
    have := unmarshal_object (ReadsMembers.cons (k := key) hr .nil)
    rwa [hk] at this
  exact ⟨_, _, _, _, createRow_one env key f ty v h0 ha, hrow, createRowEmpty_one env key f ty h0,
    unmarshalInto_one env key f ty _ j e' v' hu hj hd, by simp [lookup_one, Cells.raw]⟩

/-- The hypothesis on the key is needed: a key the reader does NOT deliver unchanged (ill-formed
    UTF-8: the writer replaces the bad bytes by U+FFFD) is read back as a different key, which
    lands in a new Auto cell, and the typed column stays nil — for every value. -/
theorem route_key_not_fixed (env : Env) (key : Bytes) (hk : sanitize key ≠ key)
    (f : Format) (ty : Ty) (hf : f ≠ .hidden) (v e e' : Dyn)
    (h0 : newValue env .nil f ty = .ok (.cell .nil f ty))
    (ha : newValue env v f ty = .ok (.cell v f ty))
    (hb : exportVal env (.cell v f ty) = .ok e)
    (hw : Wire e e') :
    Route env key f ty v .nil := by
  obtain ⟨b, j, hm, hr, hj⟩ := hw.marshal env v
  have hrow := marshalRow_one env key f ty v e b hf hb hm
  have hu := unmarshal_object (ReadsMembers.cons (k := key) hr .nil)
  have h1 : ofJVMembers env (.cons (sanitize key) j .nil) = .ok [(sanitize key, e')] := by
    rw [ofJVMembers.eq_def]; simp only [hj]; rw [ofJVMembers.eq_def]
  have hne : ¬ key = sanitize key := fun h => hk h.symm
  have hl : lookup [(key, Val.cell .nil f ty)] (sanitize key) = none := by
    simp [lookup, OMap.lookup, hne]
  have hread : unmarshalInto env [(key, .cell .nil f ty)]
      (0x7B :: (joinComma [JsonWrite.quote key ++ 0x3A :: b] ++ [0x7D])) =
      .ok ([(key, .cell .nil f ty), (sanitize key, Cells.autoCell e')], none) := by
    simp only [unmarshalInto, hu, h1, parseMembers, parseMember, hl, if_true]
    simp [upsert, OMap.upsert, hne]
  exact ⟨_, _, _, _, createRow_one env key f ty v h0 ha, hrow, createRowEmpty_one env key f ty h0,
    hread, by simp [lookup, OMap.lookup, Cells.raw]⟩

/-! ### 2. The regenerated tables -/

theorem newValue_of_castTo (env : Env) (v : Dyn) (f : Format) (ty : Ty)
    (h : castTo env.T env.ext ty v = .ok v) : newValue env v f ty = .ok (.cell v f ty) := by
  simp only [newValue, h]

/-- `cast.To(T, nil)` is nil for every T of the type registry (and for the nil sample). -/
theorem gen_castTo_nil (ext : Ext) (ty : Ty) (hty : ty ≠ .other) :
    castTo genTables ext ty .nil = .ok .nil := by
  cases ty with
  | int t =>
    cases t <;>
    simp [castTo, callNamed, genTables, Gen.casters, Gen.dispatchTo, findClause, typeOf, evalBranch, evalE]
  | other => exact absurd rfl hty
  | _ => simp [castTo, callNamed, genTables, Gen.casters, Gen.dispatchTo, findClause, typeOf, evalBranch, evalE]

/-- … and a cast error (so `NewValue` keeps nil) for any other sample type. -/
theorem gen_castTo_nil_other (ext : Ext) : castTo genTables ext .other .nil = .err .cast := by
  simp [castTo, callNamed, genTables, Gen.casters, Gen.dispatchTo, Gen.dispatchToDefault, findClause,
    typeOf, evalBranch, evalE, failWith, Gen.sentinels, wrapsRoot]

/-- (a0) for the regenerated tables: the prototype cell of every column is the nil cell. -/
theorem gen_newValue_nil (ext : Ext) (f : Format) (ty : Ty) :
    newValue ⟨genTables, ext⟩ .nil f ty = .ok (.cell .nil f ty) := by
  by_cases hty : ty = .other
  · subst hty; simp only [newValue, gen_castTo_nil_other]
  · exact newValue_of_castTo ⟨genTables, ext⟩ .nil f ty (gen_castTo_nil ext ty hty)

/-- (a) for a column without raw type: `cast.To(nil, v) = v`. -/
theorem gen_newValue_none (ext : Ext) (v : Dyn) (f : Format) :
    newValue ⟨genTables, ext⟩ v f .none = .ok (.cell v f .none) :=
  newValue_of_castTo ⟨genTables, ext⟩ v f .none (CastTyped.gen_castTo_none ext v)

theorem castTo_int_int (ext : Ext) (t : IntTy) (v : Int) :
    castTo genTables ext (.int t) (.int t v) = .ok (.int t v) := by
  cases t <;>
  simp [castTo, callNamed, genTables, Gen.casters, Gen.dispatchTo, findClause, typeOf, evalBranch, evalE]

theorem castTo_time_time (ext : Ext) (t : GoTime) :
    castTo genTables ext .time (.time t) = .ok (.time t) := by
  simp [castTo, callNamed, genTables, Gen.casters, Gen.dispatchTo, findClause, typeOf, evalBranch, evalE]

theorem castTo_f64_f64 (ext : Ext) (b : Nat) : castTo genTables ext .f64 (.f64 b) = .ok (.f64 b) := by
  simp [castTo, callNamed, genTables, Gen.casters, Gen.dispatchTo, findClause, typeOf, evalBranch, evalE]

theorem castTo_f32_f32 (ext : Ext) (b : Nat) : castTo genTables ext .f32 (.f32 b) = .ok (.f32 b) := by
  simp [castTo, callNamed, genTables, Gen.casters, Gen.dispatchTo, findClause, typeOf, evalBranch, evalE]

/-- The lifting lemma for the regenerated tables: (a0) holds, (a) is `cast.To(ty, v) = v`. -/
theorem gen_route (ext : Ext) (key : Bytes) (hk : sanitize key = key) (f : Format) (ty : Ty)
    (hf : f ≠ .hidden) (v v' e e' : Dyn)
    (ha : castTo genTables ext ty v = .ok v)
    (hb : exportVal ⟨genTables, ext⟩ (.cell v f ty) = .ok e)
    (hw : Wire e e')
    (hd : importCell ⟨genTables, ext⟩ f ty e' = .ok (.cell v' f ty, none)) :
    Route ⟨genTables, ext⟩ key f ty v v' :=
  route_of_wire ⟨genTables, ext⟩ key hk f ty hf v v' e e' (gen_newValue_nil ext f ty)
    (newValue_of_castTo ⟨genTables, ext⟩ v f ty ha) hb hw hd

/-- The same from a cell-level pairing theorem (a pair export / import). -/
theorem gen_route_pair (ext : Ext) (key : Bytes) (hk : sanitize key = key) (f : Format) (ty : Ty)
    (hf : f ≠ .hidden) (v v' e e' : Dyn)
    (ha : castTo genTables ext ty v = .ok v) (hw : Wire e e')
    (hp : exportVal ⟨genTables, ext⟩ (.cell v f ty) = .ok e ∧
      importCell ⟨genTables, ext⟩ f ty e' = .ok (.cell v' f ty, none)) :
    Route ⟨genTables, ext⟩ key f ty v v' :=
  gen_route ext key hk f ty hf v v' e e' ha hp.1 hw hp.2

/-- A string the reader delivers unchanged travels as itself. -/
theorem Wire.str_fixed {s : Bytes} (h : sanitize s = s) : Wire (.str s) (.str s) := by
  have := Wire.str s
  rwa [h] at this

theorem wire_formatInt (v : Int) : Wire (.str (IntText.formatInt v)) (.str (IntText.formatInt v)) :=
  Wire.str_fixed (Pairings.sanitize_ascii_text _ (Pairings.ascii_formatInt v))

theorem wire_base64 (b : Bytes) : Wire (.str (Base64.encode b)) (.str (Base64.encode b)) :=
  Wire.str_fixed (Pairings.sanitize_encode b)

theorem wire_rfc3339 (t : GoTime) : Wire (.str (Time.formatRFC3339 t)) (.str (Time.formatRFC3339 t)) :=
  Wire.str_fixed (Pairings.sanitize_formatRFC3339 t)

theorem wire_formatBool (b : Bool) : Wire (.str (IntText.formatBool b)) (.str (IntText.formatBool b)) := by
  apply Wire.str_fixed
  apply Pairings.sanitize_ascii_text
  cases b <;> simp [IntText.formatBool, Pairings.Ascii] <;> decide

theorem wire_formatInt_num (v : Int) : Wire (.num (IntText.formatInt v)) (.num (IntText.formatInt v)) :=
  Wire.num _ (IntText.isValidNumber_formatInt v)

/-! #### Cell-level facts for string / numeric / binary × the ten integer types
    (as Props/C13 states them; re-derived here from Proofs.CastInt / CastBin / IntText) -/

theorem toString_int (ext : Ext) (t : IntTy) (v : Int) (hv : t.inRange v) :
    castNamed genTables ext "ToString" (.int t v) = .ok (.str (IntText.formatInt v)) := by
  cases t <;>
  simp [castNamed, callNamed, genTables, Gen.casters, findClause, typeOf, evalBranch, evalE] <;>
  (congr 1; apply wrap_of_inRange;
   simp [IntTy.inRange, IntTy.min, IntTy.max, IntTy.signed, IntTy.bits] at hv ⊢; omega)

theorem toNumber_int (ext : Ext) (t : IntTy) (v : Int) (hv : t.inRange v) :
    castNamed genTables ext "ToNumber" (.int t v) = .ok (.num (IntText.formatInt v)) := by
  cases t <;>
  simp [castNamed, callNamed, genTables, Gen.casters, findClause, typeOf, evalBranch, evalE] <;>
  (congr 1; apply wrap_of_inRange;
   simp [IntTy.inRange, IntTy.min, IntTy.max, IntTy.signed, IntTy.bits] at hv ⊢; omega)

theorem castTo_int_str (ext : Ext) (t : IntTy) (v : Int) (hv : t.inRange v) :
    castTo genTables ext (.int t) (.str (IntText.formatInt v)) = .ok (.int t v) := by
  rw [Pairings.castTo_int, call_text_source genTables ext _ _ t v 21 (caster_present t) (text_branches_ok t)]
  simp [hv]

theorem castTo_int_le (ext : Ext) (t : IntTy) (v : Int) (hv : t.inRange v) :
    castTo genTables ext (.int t) (.bytes (LE.put (t.bits / 8) (LE.toU t.bits v))) = .ok (.int t v) := by
  rw [decode_int]
  simp only [LE.put_length, if_true]
  have h8 : 8 * (t.bits / 8) = t.bits := by cases t <;> simp [IntTy.bits]
  have hpos : 1 ≤ t.bits / 8 := by cases t <;> simp [IntTy.bits]
  cases hs : t.signed with
  | true =>
    have := LE.signed_roundtrip (t.bits / 8) v hpos
    rw [h8] at this
    have hr := (inRange_signed_iff t hs v).mp hv
    simp [this hr.1 hr.2]
  | false =>
    have := LE.unsigned_roundtrip (t.bits / 8) v
    rw [h8] at this
    have hr := (inRange_unsigned_iff t hs v).mp hv
    simp [this hr.1 hr.2]

/-- string(INT) at cell level. -/
theorem string_int (ext : Ext) (t : IntTy) (v : Int) (hv : t.inRange v) :
    exportVal ⟨genTables, ext⟩ (.cell (.int t v) .string (.int t)) = .ok (.str (IntText.formatInt v)) ∧
    importCell ⟨genTables, ext⟩ .string (.int t) (.str (IntText.formatInt v)) =
      .ok (.cell (.int t v) .string (.int t), none) := by
  constructor
  · simp only [exportVal]
    exact Pairings.exportFail_ok _ _ (toString_int ext t v hv)
  · simp only [importCell, importByFormat, importFrom,
      Pairings.importFail_ok _ _ (castTo_int_str ext t v hv)]

/-- numeric(INT) at cell level. -/
theorem numeric_int (ext : Ext) (t : IntTy) (v : Int) (hv : t.inRange v) :
    exportVal ⟨genTables, ext⟩ (.cell (.int t v) .numeric (.int t)) = .ok (.num (IntText.formatInt v)) ∧
    importCell ⟨genTables, ext⟩ .numeric (.int t) (.num (IntText.formatInt v)) =
      .ok (.cell (.int t v) .numeric (.int t), none) := by
  constructor
  · simp only [exportVal]
    exact Pairings.exportFail_ok _ _ (toNumber_int ext t v hv)
  · simp only [importCell, importByFormat, importFrom,
      Pairings.importFail_ok _ _ (Pairings.castTo_int_num ext t v hv)]

/-- binary(INT) at cell level. -/
theorem binary_int (ext : Ext) (t : IntTy) (v : Int) (hv : t.inRange v) :
    exportVal ⟨genTables, ext⟩ (.cell (.int t v) .binary (.int t)) =
      .ok (.str (Base64.encode (LE.put (t.bits / 8) (LE.toU t.bits v)))) ∧
    importCell ⟨genTables, ext⟩ .binary (.int t)
        (.str (Base64.encode (LE.put (t.bits / 8) (LE.toU t.bits v)))) =
      .ok (.cell (.int t v) .binary (.int t), none) := by
  constructor
  · simp only [exportVal, Pairings.exportFail_ok _ _ (encode_int ext t v)]
  · have hdec := castTo_int_le ext t v hv
    simp only [importCell, importByFormat, importFromBinary,
      Pairings.importFail_ok _ _ (Pairings.toString_str ext _), Base64.decode_encode]
    cases t <;> simp only [Pairings.importFail_ok _ _ hdec]

theorem toString_bool (ext : Ext) (b : Bool) :
    castNamed genTables ext "ToString" (.bool b) = .ok (.str (IntText.formatBool b)) ∧
    castTo genTables ext .bool (.str (IntText.formatBool b)) = .ok (.bool b) := by
  cases b <;>
  simp [castNamed, castTo, callNamed, genTables, Gen.casters, Gen.dispatchTo, findClause, typeOf,
    evalBranch, evalE, special, IntText.formatBool, IntText.parseBool]

/-! #### The rows -/

section Rows
variable (ext : Ext) (key : Bytes) (hk : sanitize key = key)
include hk

/-- nil under any visible column: written as `null`, read back as nil. -/
theorem row_nil (f : Format) (ty : Ty) (hf : f ≠ .hidden) :
    Route ⟨genTables, ext⟩ key f ty .nil .nil ∧ Tables.sameValue .nil .nil = true := by
  refine ⟨?_, rfl⟩
  refine route_of_wire ⟨genTables, ext⟩ key hk f ty hf .nil .nil .nil .nil (gen_newValue_nil ext f ty)
    (gen_newValue_nil ext f ty) ?_ Wire.nil ?_
  · rw [exportVal.eq_def]
  · simp only [importCell]

/-- string(INT), the ten integer types, every value. -/
theorem row_string_int (t : IntTy) (v : Int) (hv : t.inRange v) :
    Route ⟨genTables, ext⟩ key .string (.int t) (.int t v) (.int t v) ∧
    Tables.sameValue (.int t v) (.int t v) = true :=
  ⟨gen_route_pair ext key hk _ _ (by decide) _ _ _ _ (castTo_int_int ext t v) (wire_formatInt v)
    (string_int ext t v hv), by simp [Tables.sameValue]⟩

/-- numeric(INT). -/
theorem row_numeric_int (t : IntTy) (v : Int) (hv : t.inRange v) :
    Route ⟨genTables, ext⟩ key .numeric (.int t) (.int t v) (.int t v) ∧
    Tables.sameValue (.int t v) (.int t v) = true :=
  ⟨gen_route_pair ext key hk _ _ (by decide) _ _ _ _ (castTo_int_int ext t v) (wire_formatInt_num v)
    (numeric_int ext t v hv), by simp [Tables.sameValue]⟩

/-- binary(INT). -/
theorem row_binary_int (t : IntTy) (v : Int) (hv : t.inRange v) :
    Route ⟨genTables, ext⟩ key .binary (.int t) (.int t v) (.int t v) ∧
    Tables.sameValue (.int t v) (.int t v) = true :=
  ⟨gen_route_pair ext key hk _ _ (by decide) _ _ _ _ (castTo_int_int ext t v) (wire_base64 _)
    (binary_int ext t v hv), by simp [Tables.sameValue]⟩

/-- timestamp(INT): values up to 2^63-1 (`Tables.inDomain`). -/
theorem row_timestamp_int (t : IntTy) (v : Int) (hv : t.inRange v) (hmax : v ≤ 9223372036854775807) :
    Route ⟨genTables, ext⟩ key .timestamp (.int t) (.int t v) (.int t v) ∧
    Tables.sameValue (.int t v) (.int t v) = true :=
  ⟨gen_route_pair ext key hk _ _ (by decide) _ _ _ _ (castTo_int_int ext t v) (Wire.int .i64 v)
    (Pairings.timestamp_int ext t v hv hmax), by simp [Tables.sameValue]⟩

/-- timestamp(none): the column holds int64. -/
theorem row_timestamp_none (v : Int) (hv : IntTy.i64.inRange v) :
    Route ⟨genTables, ext⟩ key .timestamp .none (.int .i64 v) (.int .i64 v) ∧
    Tables.sameValue (.int .i64 v) (.int .i64 v) = true :=
  ⟨gen_route_pair ext key hk _ _ (by decide) _ _ _ _ (CastTyped.gen_castTo_none ext _) (Wire.int .i64 v)
    (Pairings.timestamp_none ext v hv), by simp [Tables.sameValue]⟩

/-- auto(INT). -/
theorem row_auto_int (t : IntTy) (v : Int) (hv : t.inRange v) :
    Route ⟨genTables, ext⟩ key .auto (.int t) (.int t v) (.int t v) ∧
    Tables.sameValue (.int t v) (.int t v) = true :=
  ⟨gen_route_pair ext key hk _ _ (by decide) _ _ _ _ (castTo_int_int ext t v) (Wire.int t v)
    (Pairings.auto_int ext t v hv), by simp [Tables.sameValue]⟩

/-- string(string), for well-formed UTF-8. -/
theorem row_string_str (s : Bytes) (hs : Utf8.valid s = true) :
    Route ⟨genTables, ext⟩ key .string .str (.str s) (.str s) ∧
    Tables.sameValue (.str s) (.str s) = true :=
  ⟨gen_route_pair ext key hk _ _ (by decide) _ _ _ _ (Pairings.castTo_str_str ext s) (Wire.str s)
    (Pairings.string_str ext s hs).1, by simp [Tables.sameValue]⟩

/-- string(none) holding a string. -/
theorem row_string_none (s : Bytes) (hs : Utf8.valid s = true) :
    Route ⟨genTables, ext⟩ key .string .none (.str s) (.str s) ∧
    Tables.sameValue (.str s) (.str s) = true :=
  ⟨gen_route_pair ext key hk _ _ (by decide) _ _ _ _ (CastTyped.gen_castTo_none ext _) (Wire.str s)
    (Pairings.string_str ext s hs).2.1, by simp [Tables.sameValue]⟩

/-- auto(string). -/
theorem row_auto_str (s : Bytes) (hs : Utf8.valid s = true) :
    Route ⟨genTables, ext⟩ key .auto .str (.str s) (.str s) ∧
    Tables.sameValue (.str s) (.str s) = true :=
  ⟨gen_route_pair ext key hk _ _ (by decide) _ _ _ _ (Pairings.castTo_str_str ext s) (Wire.str s)
    (Pairings.string_str ext s hs).2.2, by simp [Tables.sameValue]⟩

/-- numeric(json.Number), for valid number literals. -/
theorem row_numeric_num (l : Bytes) (hl : JsonWrite.isValidNumber l = true) :
    Route ⟨genTables, ext⟩ key .numeric .num (.num l) (.num l) ∧
    Tables.sameValue (.num l) (.num l) = true :=
  ⟨gen_route_pair ext key hk _ _ (by decide) _ _ _ _ (Pairings.castTo_num_num ext l) (Wire.num l hl)
    (Pairings.numeric_num ext l hl).2.1, by simp [Tables.sameValue]⟩

/-- numeric(none) holding a json.Number. -/
theorem row_numeric_none (l : Bytes) (hl : JsonWrite.isValidNumber l = true) :
    Route ⟨genTables, ext⟩ key .numeric .none (.num l) (.num l) ∧
    Tables.sameValue (.num l) (.num l) = true :=
  ⟨gen_route_pair ext key hk _ _ (by decide) _ _ _ _ (CastTyped.gen_castTo_none ext _) (Wire.num l hl)
    (Pairings.numeric_num ext l hl).2.2.1, by simp [Tables.sameValue]⟩

/-- auto(json.Number). -/
theorem row_auto_num (l : Bytes) (hl : JsonWrite.isValidNumber l = true) :
    Route ⟨genTables, ext⟩ key .auto .num (.num l) (.num l) ∧
    Tables.sameValue (.num l) (.num l) = true :=
  ⟨gen_route_pair ext key hk _ _ (by decide) _ _ _ _ (Pairings.castTo_num_num ext l) (Wire.num l hl)
    (Pairings.numeric_num ext l hl).2.2.2.1, by simp [Tables.sameValue]⟩

/-- string(json.Number), for valid number literals (see `string_num_not_lossless` for what
    happens to a literal that is not well-formed UTF-8). -/
theorem row_string_num (l : Bytes) (hl : JsonWrite.isValidNumber l = true) :
    Route ⟨genTables, ext⟩ key .string .num (.num l) (.num l) ∧
    Tables.sameValue (.num l) (.num l) = true :=
  ⟨gen_route_pair ext key hk _ _ (by decide) _ _ _ _ (Pairings.castTo_num_num ext l)
    (Wire.str_fixed (Pairings.sanitize_validNumber l hl))
    (Pairings.numeric_num ext l hl).2.2.2.2, by simp [Tables.sameValue]⟩

/-- binary([]byte): every byte string. -/
theorem row_binary_bytes (b : Bytes) :
    Route ⟨genTables, ext⟩ key .binary .bytes (.bytes b) (.bytes b) ∧
    Tables.sameValue (.bytes b) (.bytes b) = true :=
  ⟨gen_route_pair ext key hk _ _ (by decide) _ _ _ _ (Pairings.castTo_bytes_bytes ext b) (wire_base64 b)
    (Pairings.binary_bytes ext b).1, by simp [Tables.sameValue]⟩

/-- binary(none) holding a []byte. -/
theorem row_binary_none (b : Bytes) :
    Route ⟨genTables, ext⟩ key .binary .none (.bytes b) (.bytes b) ∧
    Tables.sameValue (.bytes b) (.bytes b) = true :=
  ⟨gen_route_pair ext key hk _ _ (by decide) _ _ _ _ (CastTyped.gen_castTo_none ext _) (wire_base64 b)
    (Pairings.binary_bytes ext b).2, by simp [Tables.sameValue]⟩

/-- binary(string): every string, well-formed UTF-8 or not. -/
theorem row_binary_str (s : Bytes) :
    Route ⟨genTables, ext⟩ key .binary .str (.str s) (.str s) ∧
    Tables.sameValue (.str s) (.str s) = true :=
  ⟨gen_route_pair ext key hk _ _ (by decide) _ _ _ _ (Pairings.castTo_str_str ext s) (wire_base64 s)
    (Pairings.binary_str ext s), by simp [Tables.sameValue]⟩

/-- binary(json.Number): every literal. -/
theorem row_binary_num (l : Bytes) :
    Route ⟨genTables, ext⟩ key .binary .num (.num l) (.num l) ∧
    Tables.sameValue (.num l) (.num l) = true :=
  ⟨gen_route_pair ext key hk _ _ (by decide) _ _ _ _ (Pairings.castTo_num_num ext l) (wire_base64 l)
    (Pairings.binary_num ext l), by simp [Tables.sameValue]⟩

/-- binary(bool). -/
theorem row_binary_bool (b : Bool) :
    Route ⟨genTables, ext⟩ key .binary .bool (.bool b) (.bool b) ∧
    Tables.sameValue (.bool b) (.bool b) = true :=
  ⟨gen_route_pair ext key hk _ _ (by decide) _ _ _ _ (Pairings.castTo_bool_bool ext b) (wire_base64 _)
    (Pairings.binary_bool ext b), by simp [Tables.sameValue]⟩

/-- binary(float64): every bit pattern. -/
theorem row_binary_f64 (b : Nat) (hb : b < 2 ^ 64) :
    Route ⟨genTables, ext⟩ key .binary .f64 (.f64 b) (.f64 b) ∧
    Tables.sameValue (.f64 b) (.f64 b) = true :=
  ⟨gen_route_pair ext key hk _ _ (by decide) _ _ _ _ (castTo_f64_f64 ext b) (wire_base64 _)
    ((Pairings.binary_float ext).1 b hb), by simp [Tables.sameValue]⟩

/-- binary(float32): every bit pattern. -/
theorem row_binary_f32 (b : Nat) (hb : b < 2 ^ 32) :
    Route ⟨genTables, ext⟩ key .binary .f32 (.f32 b) (.f32 b) ∧
    Tables.sameValue (.f32 b) (.f32 b) = true :=
  ⟨gen_route_pair ext key hk _ _ (by decide) _ _ _ _ (castTo_f32_f32 ext b) (wire_base64 _)
    ((Pairings.binary_float ext).2 b hb), by simp [Tables.sameValue]⟩

/-- boolean(bool). -/
theorem row_boolean_bool (b : Bool) :
    Route ⟨genTables, ext⟩ key .boolean .bool (.bool b) (.bool b) ∧
    Tables.sameValue (.bool b) (.bool b) = true := by
  refine ⟨gen_route ext key hk _ _ (by decide) _ _ (.bool b) _ (Pairings.castTo_bool_bool ext b) ?_
    (Wire.bool b) ?_, by simp [Tables.sameValue]⟩
  · simp only [exportVal, Pairings.exportFail_ok _ _ (Pairings.toBool_bool ext b)]
  · simp only [importCell, importByFormat, importFrom,
      Pairings.importFail_ok _ _ (Pairings.castTo_bool_bool ext b)]

/-- boolean(none) holding a bool. -/
theorem row_boolean_none (b : Bool) :
    Route ⟨genTables, ext⟩ key .boolean .none (.bool b) (.bool b) ∧
    Tables.sameValue (.bool b) (.bool b) = true :=
  ⟨gen_route_pair ext key hk _ _ (by decide) _ _ _ _ (CastTyped.gen_castTo_none ext _) (Wire.bool b)
    (Pairings.auto_bool ext b).2, by simp [Tables.sameValue]⟩

/-- auto(bool). -/
theorem row_auto_bool (b : Bool) :
    Route ⟨genTables, ext⟩ key .auto .bool (.bool b) (.bool b) ∧
    Tables.sameValue (.bool b) (.bool b) = true :=
  ⟨gen_route_pair ext key hk _ _ (by decide) _ _ _ _ (Pairings.castTo_bool_bool ext b) (Wire.bool b)
    (Pairings.auto_bool ext b).1, by simp [Tables.sameValue]⟩

/-- string(bool): written as "true" / "false". -/
theorem row_string_bool (b : Bool) :
    Route ⟨genTables, ext⟩ key .string .bool (.bool b) (.bool b) ∧
    Tables.sameValue (.bool b) (.bool b) = true := by
  obtain ⟨h3, h4⟩ := toString_bool ext b
  refine ⟨gen_route ext key hk _ _ (by decide) _ _ _ _ (Pairings.castTo_bool_bool ext b) ?_
    (wire_formatBool b) ?_, by simp [Tables.sameValue]⟩
  · simp only [exportVal, Pairings.exportFail_ok _ _ h3]
  · simp only [importCell, importByFormat, importFrom, Pairings.importFail_ok _ _ h4]

/-- datetime(time.Time): same second and same offset, nanoseconds dropped. -/
theorem row_datetime_time (t : GoTime) (hd : Tables.inDomain .datetime .time (.time t) = true) :
    Route ⟨genTables, ext⟩ key .datetime .time (.time t) (.time ⟨t.sec, 0, t.off⟩) ∧
    Tables.sameValue (.time t) (.time ⟨t.sec, 0, t.off⟩) = true := by
  obtain ⟨hy0, hy1, h60, hlo, hhi⟩ := Pairings.time_inDomain _ _ t hd
  exact ⟨gen_route_pair ext key hk _ _ (by decide) _ _ _ _ (castTo_time_time ext t) (wire_rfc3339 t)
    (Pairings.datetime_time ext t hy0 hy1 h60 hlo hhi).1, by simp [Tables.sameValue]⟩

/-- datetime(none) holding a time. -/
theorem row_datetime_none (t : GoTime) (hd : Tables.inDomain .datetime .none (.time t) = true) :
    Route ⟨genTables, ext⟩ key .datetime .none (.time t) (.time ⟨t.sec, 0, t.off⟩) ∧
    Tables.sameValue (.time t) (.time ⟨t.sec, 0, t.off⟩) = true := by
  obtain ⟨hy0, hy1, h60, hlo, hhi⟩ := Pairings.time_inDomain _ _ t hd
  exact ⟨gen_route_pair ext key hk _ _ (by decide) _ _ _ _ (CastTyped.gen_castTo_none ext _) (wire_rfc3339 t)
    (Pairings.datetime_time ext t hy0 hy1 h60 hlo hhi).2, by simp [Tables.sameValue]⟩

/-- string(time.Time). -/
theorem row_string_time (t : GoTime) (hd : Tables.inDomain .string .time (.time t) = true) :
    Route ⟨genTables, ext⟩ key .string .time (.time t) (.time ⟨t.sec, 0, t.off⟩) ∧
    Tables.sameValue (.time t) (.time ⟨t.sec, 0, t.off⟩) = true := by
  obtain ⟨hy0, hy1, h60, hlo, hhi⟩ := Pairings.time_inDomain _ _ t hd
  exact ⟨gen_route_pair ext key hk _ _ (by decide) _ _ _ _ (castTo_time_time ext t) (wire_rfc3339 t)
    (Pairings.string_time ext t hy0 hy1 h60 hlo hhi), by simp [Tables.sameValue]⟩

/-- With whole seconds the time read back under datetime(time.Time) is the very same value. -/
theorem row_datetime_time_exact (t : GoTime) (hns : t.nsec = 0)
    (hd : Tables.inDomain .datetime .time (.time t) = true) :
    Route ⟨genTables, ext⟩ key .datetime .time (.time t) (.time t) := by
  have e : (⟨t.sec, 0, t.off⟩ : GoTime) = t := by cases t; simp at hns; simp [hns]
  have := (row_datetime_time ext key hk t hd).1
  rwa [e] at this

end Rows

/-! #### Pairings that need an answer of the standard-library parameter -/

section RowsExt
variable (ext : Ext) (key : Bytes) (hk : sanitize key = key)
include hk

/-- numeric(time.Time): the Unix second travels as a number; read back as the same instant at
    the offset of the process zone (`ext.zoneOffset`, which must answer at that second). -/
theorem row_numeric_time (t : GoTime) (off : Int) (hz : ext.zoneOffset t.sec = some off)
    (hd : Tables.inDomain .numeric .time (.time t) = true) :
    Route ⟨genTables, ext⟩ key .numeric .time (.time t) (.time ⟨t.sec, 0, off⟩) ∧
    Tables.sameValue (.time t) (.time ⟨t.sec, 0, off⟩) = true := by
  obtain ⟨hy0, hy1, _, hlo, hhi⟩ := Pairings.time_inDomain _ _ t hd
  exact ⟨gen_route_pair ext key hk _ _ (by decide) _ _ _ _ (castTo_time_time ext t) (wire_formatInt_num _)
    (Pairings.numeric_time ext t off hz (Pairings.sec_bounds_of_year t hy0 hy1 hlo hhi)).1,
    by simp [Tables.sameValue]⟩

/-- timestamp(time.Time). -/
theorem row_timestamp_time (t : GoTime) (off : Int) (hz : ext.zoneOffset t.sec = some off)
    (hd : Tables.inDomain .timestamp .time (.time t) = true) :
    Route ⟨genTables, ext⟩ key .timestamp .time (.time t) (.time ⟨t.sec, 0, off⟩) ∧
    Tables.sameValue (.time t) (.time ⟨t.sec, 0, off⟩) = true := by
  obtain ⟨hy0, hy1, _, hlo, hhi⟩ := Pairings.time_inDomain _ _ t hd
  exact ⟨gen_route_pair ext key hk _ _ (by decide) _ _ _ _ (castTo_time_time ext t) (Wire.int .i64 _)
    (Pairings.numeric_time ext t off hz (Pairings.sec_bounds_of_year t hy0 hy1 hlo hhi)).2,
    by simp [Tables.sameValue]⟩

/-- binary(time.Time). -/
theorem row_binary_time (t : GoTime) (off : Int) (hz : ext.zoneOffset t.sec = some off)
    (hd : Tables.inDomain .binary .time (.time t) = true) :
    Route ⟨genTables, ext⟩ key .binary .time (.time t) (.time ⟨t.sec, 0, off⟩) ∧
    Tables.sameValue (.time t) (.time ⟨t.sec, 0, off⟩) = true := by
  obtain ⟨hy0, hy1, _, hlo, hhi⟩ := Pairings.time_inDomain _ _ t hd
  have hr := Pairings.sec_range_of_year t hy0 hy1 hlo hhi
  exact ⟨gen_route_pair ext key hk _ _ (by decide) _ _ _ _ (castTo_time_time ext t) (wire_base64 _)
    (Pairings.binary_time ext t off hz (by omega)), by simp [Tables.sameValue]⟩

/-- numeric(bool): 1 / 0, given that ParseFloat reads "1" and "0" (`Pairings.DigitLaw`). -/
theorem row_numeric_bool (law : Pairings.DigitLaw ext) (b : Bool) :
    Route ⟨genTables, ext⟩ key .numeric .bool (.bool b) (.bool b) ∧
    Tables.sameValue (.bool b) (.bool b) = true :=
  ⟨gen_route_pair ext key hk _ _ (by decide) _ _ _ _ (Pairings.castTo_bool_bool ext b)
    (Wire.num _ (by cases b <;> decide)) (Pairings.numeric_bool ext law b).1, by simp [Tables.sameValue]⟩

/-- timestamp(bool). -/
theorem row_timestamp_bool (law : Pairings.DigitLaw ext) (b : Bool) :
    Route ⟨genTables, ext⟩ key .timestamp .bool (.bool b) (.bool b) ∧
    Tables.sameValue (.bool b) (.bool b) = true :=
  ⟨gen_route_pair ext key hk _ _ (by decide) _ _ _ _ (Pairings.castTo_bool_bool ext b)
    (Wire.int .i64 _) (Pairings.numeric_bool ext law b).2, by simp [Tables.sameValue]⟩

/-- string(float64) and numeric(float64), given strconv's answers for this value: FormatFloat
    gives `s`, a JSON number, and ParseFloat reads `s` back as the same bits. -/
theorem row_text_f64 (b : Nat) (s : Bytes) (hfm : ext.fmtFloat b 64 = some s)
    (hp : ext.parseFloat s 64 = some (some b)) (hs : JsonWrite.isValidNumber s = true) :
    (Route ⟨genTables, ext⟩ key .string .f64 (.f64 b) (.f64 b) ∧
     Route ⟨genTables, ext⟩ key .numeric .f64 (.f64 b) (.f64 b)) ∧
    Tables.sameValue (.f64 b) (.f64 b) = true :=
  ⟨⟨gen_route_pair ext key hk _ _ (by decide) _ _ _ _ (castTo_f64_f64 ext b)
      (Wire.str_fixed (Pairings.sanitize_validNumber s hs)) (Pairings.text_f64 ext b s hfm hp).1,
    gen_route_pair ext key hk _ _ (by decide) _ _ _ _ (castTo_f64_f64 ext b)
      (Wire.num s hs) (Pairings.text_f64 ext b s hfm hp).2⟩, by simp [Tables.sameValue]⟩

/-- string(float32) and numeric(float32), likewise. -/
theorem row_text_f32 (b r : Nat) (s : Bytes) (hfm : ext.fmtFloat (Float.f32to64 b) 32 = some s)
    (hp : ext.parseFloat s 32 = some (some r)) (hr : Float.f64to32 r = b)
    (hs : JsonWrite.isValidNumber s = true) :
    (Route ⟨genTables, ext⟩ key .string .f32 (.f32 b) (.f32 b) ∧
     Route ⟨genTables, ext⟩ key .numeric .f32 (.f32 b) (.f32 b)) ∧
    Tables.sameValue (.f32 b) (.f32 b) = true :=
  ⟨⟨gen_route_pair ext key hk _ _ (by decide) _ _ _ _ (castTo_f32_f32 ext b)
      (Wire.str_fixed (Pairings.sanitize_validNumber s hs)) (Pairings.text_f32 ext b r s hfm hp hr).1,
    gen_route_pair ext key hk _ _ (by decide) _ _ _ _ (castTo_f32_f32 ext b)
      (Wire.num s hs) (Pairings.text_f32 ext b r s hfm hp hr).2⟩, by simp [Tables.sameValue]⟩

end RowsExt

/-! ### The route is a function of its inputs; a pairing of the table that is NOT lossless on
    all of `Tables.inDomain` -/

theorem Route.unique {env : Env} {key : Bytes} {f : Format} {ty : Ty} {v v1 v2 : Dyn}
    (h1 : Route env key f ty v v1) (h2 : Route env key f ty v v2) : v1 = v2 := by
  obtain ⟨row, bytes, r0, r, a1, a2, a3, a4, a5⟩ := h1
  obtain ⟨row', bytes', r0', r', b1, b2, b3, b4, b5⟩ := h2
  rw [a1] at b1; injection b1 with b1; injection b1 with b1; subst b1
  rw [a2] at b2; injection b2 with b2; subst b2
  rw [a3] at b3; injection b3 with b3; subst b3
  rw [a4] at b4; injection b4 with b4; injection b4 with b4; subst b4
  rw [a5] at b5; injection b5

/-- string(json.Number) on a literal that is well-formed UTF-8 (a valid number or not). -/
theorem row_string_num_utf8 (ext : Ext) (key : Bytes) (hk : sanitize key = key) (l : Bytes)
    (hl : Utf8.valid l = true) :
    Route ⟨genTables, ext⟩ key .string .num (.num l) (.num l) ∧
    Tables.sameValue (.num l) (.num l) = true := by
  refine ⟨gen_route ext key hk _ _ (by decide) _ _ (.str l) (.str l) (Pairings.castTo_num_num ext l) ?_
    (Wire.str_fixed (sanitize_valid l hl)) ?_, by simp [Tables.sameValue]⟩
  · simp only [exportVal]; exact Pairings.exportFail_ok _ _ (Pairings.toString_num ext l)
  · simp only [importCell, importByFormat, importFrom,
      Pairings.importFail_ok _ _ (Pairings.castTo_num_str ext l)]

/-- `Tables.lossless .string .num` holds, and the domain table used to admit EVERY literal `l`
    under string; the route is not lossless when `l` is not well-formed UTF-8: the json.Number
    with the single byte FF is written as the string `"\ufffd"` and read back as the json.Number
    U+FFFD (EF BF BD).  `Tables.inDomain` now asks for well-formed UTF-8 there (a json.Number
    that is not UTF-8 is not a value a reader of JSON can ever be handed). -/
theorem string_num_not_lossless (ext : Ext) (key : Bytes) (hk : sanitize key = key) :
    Tables.lossless .string .num = true ∧
    -- (the domain table now asks for well-formed UTF-8 under string; it used to admit every literal)
    sanitize [0xFF] ≠ [0xFF] ∧
    Route ⟨genTables, ext⟩ key .string .num (.num [0xFF]) (.num [0xEF, 0xBF, 0xBD]) ∧
    ∀ v', Route ⟨genTables, ext⟩ key .string .num (.num [0xFF]) v' →
      Tables.sameValue (.num [0xFF]) v' = false := by
  have hs : sanitize [0xFF] = [0xEF, 0xBF, 0xBD] := by
    simp [sanitize, Utf8.seqLen, Utf8.replacement]
  have hr : Route ⟨genTables, ext⟩ key .string .num (.num [0xFF]) (.num [0xEF, 0xBF, 0xBD]) := by
    refine gen_route ext key hk _ _ (by decide) _ _ (.str [0xFF]) (.str [0xEF, 0xBF, 0xBD])
      (Pairings.castTo_num_num ext _) ?_ (by have := Wire.str [0xFF]; rwa [hs] at this) ?_
    · simp only [exportVal]; exact Pairings.exportFail_ok _ _ (Pairings.toString_num ext _)
    · simp only [importCell, importByFormat, importFrom,
        Pairings.importFail_ok _ _ (Pairings.castTo_num_str ext _)]
  refine ⟨by decide, by rw [hs]; decide, hr, fun v' h => ?_⟩
  rw [Route.unique h hr]
  decide

/-! ### 3. Summary -/

/-- The Go type of the values a column `(f, ty)` holds: the raw type, or the format's default
    type when there is none. -/
def valueTy (f : Format) (ty : Ty) : Ty := if ty = .none then Tables.defaultTy f else ty

/-- The pairings covered with no hypothesis on the standard-library parameter: 5 formats × the
    ten integer types, and 19 more. -/
def covered : List (Format × Ty) :=
  IntTy.all.flatMap (fun t =>
    [(.string, .int t), (.numeric, .int t), (.binary, .int t), (.timestamp, .int t), (.auto, .int t)]) ++
  [(.string, .str), (.string, .none), (.string, .bool), (.string, .time),
   (.numeric, .num), (.numeric, .none),
   (.boolean, .bool), (.boolean, .none),
   (.binary, .bytes), (.binary, .none), (.binary, .str), (.binary, .bool), (.binary, .num),
   (.datetime, .time), (.datetime, .none),
   (.timestamp, .none),
   (.auto, .bool), (.auto, .str), (.auto, .num)]

/-- The pairings covered given answers of the standard-library parameter (the process zone at
    the second concerned; ParseFloat on "1" and "0"). -/
def coveredExt : List (Format × Ty) :=
  [(.numeric, .time), (.timestamp, .time), (.binary, .time), (.numeric, .bool), (.timestamp, .bool)]

example : covered.length = 69 := by decide

/-- `covered` as a predicate. -/
def coveredB (f : Format) (ty : Ty) : Bool :=
  match f, ty with
  | .string, .int _ | .string, .str | .string, .none | .string, .bool | .string, .time => true
  | .numeric, .int _ | .numeric, .num | .numeric, .none => true
  | .boolean, .bool | .boolean, .none => true
  | .binary, .int _ | .binary, .bytes | .binary, .none | .binary, .str | .binary, .bool
  | .binary, .num => true
  | .datetime, .time | .datetime, .none => true
  | .timestamp, .int _ | .timestamp, .none => true
  | .auto, .int _ | .auto, .bool | .auto, .str | .auto, .num => true
  | _, _ => false

theorem covered_spec : ∀ p ∈ covered, coveredB p.1 p.2 = true := by decide

/-- Every covered pairing is one of the table's lossless pairings, on a visible column. -/
theorem covered_lossless : ∀ p ∈ covered ++ coveredExt, Tables.lossless p.1 p.2 = true ∧ p.1 ≠ .hidden := by
  decide

theorem typeOf_int {v : Dyn} {t : IntTy} (h : typeOf v = .int t) : ∃ x, v = .int t x := by
  cases v <;> simp [typeOf] at h
  subst h; exact ⟨_, rfl⟩
theorem typeOf_bool {v : Dyn} (h : typeOf v = .bool) : ∃ x, v = .bool x := by
  cases v <;> simp [typeOf] at h
  exact ⟨_, rfl⟩
theorem typeOf_str {v : Dyn} (h : typeOf v = .str) : ∃ x, v = .str x := by
  cases v <;> simp [typeOf] at h
  exact ⟨_, rfl⟩
theorem typeOf_bytes {v : Dyn} (h : typeOf v = .bytes) : ∃ x, v = .bytes x := by
  cases v <;> simp [typeOf] at h
  exact ⟨_, rfl⟩
theorem typeOf_num {v : Dyn} (h : typeOf v = .num) : ∃ x, v = .num x := by
  cases v <;> simp [typeOf] at h
  exact ⟨_, rfl⟩
theorem typeOf_time {v : Dyn} (h : typeOf v = .time) : ∃ x, v = .time x := by
  cases v <;> simp [typeOf] at h
  exact ⟨_, rfl⟩

/-- The conclusion of the summary theorems: the route succeeds and what is read back is the
    value written, with its Go type (`Tables.sameValue`). -/
def RowLossless (env : Env) (key : Bytes) (f : Format) (ty : Ty) (v : Dyn) : Prop :=
  ∃ v', Route env key f ty v v' ∧ Tables.sameValue v v' = true

theorem RowLossless.mk' {env : Env} {key : Bytes} {f : Format} {ty : Ty} {v v' : Dyn}
    (h : Route env key f ty v v' ∧ Tables.sameValue v v' = true) : RowLossless env key f ty v :=
  ⟨v', h⟩

/-- C13 at row level, for the regenerated cast tables, every standard-library parameter `ext`,
    every key the reader delivers unchanged, every covered pairing `(f, ty)` and every value of
    the column's Go type (or nil) in the property's domain: the pairing is one of the table's
    lossless pairings, the whole route create → marshal → create empty → unmarshal succeeds, and
    the raw value read back is the same value of the same Go type. -/
theorem row_lossless_covered (ext : Ext) (key : Bytes) (hk : sanitize key = key)
    (f : Format) (ty : Ty) (hc : (f, ty) ∈ covered) (v : Dyn)
    (hty : v = .nil ∨ typeOf v = valueTy f ty)
    (hd : Tables.inDomain f ty v = true) :
    Tables.lossless f ty = true ∧ RowLossless ⟨genTables, ext⟩ key f ty v := by
  obtain ⟨hl, hf⟩ := covered_lossless (f, ty) (List.mem_append_left _ hc)
  refine ⟨hl, ?_⟩
  have hcb := covered_spec (f, ty) hc
  rcases hty with rfl | hty
  · exact .mk' (row_nil ext key hk f ty hf)
  cases f <;> cases ty <;> simp [coveredB] at hcb <;>
    simp [valueTy, Tables.defaultTy] at hty
  case string.int t =>
    obtain ⟨x, rfl⟩ := typeOf_int hty
    simp [Tables.inDomain] at hd
    exact .mk' (row_string_int ext key hk t x hd)
  case string.str =>
    obtain ⟨x, rfl⟩ := typeOf_str hty
    simp [Tables.inDomain] at hd
    exact .mk' (row_string_str ext key hk x hd)
  case string.none =>
    obtain ⟨x, rfl⟩ := typeOf_str hty
    simp [Tables.inDomain] at hd
    exact .mk' (row_string_none ext key hk x hd)
  case string.bool =>
    obtain ⟨x, rfl⟩ := typeOf_bool hty
    exact .mk' (row_string_bool ext key hk x)
  case string.time =>
    obtain ⟨x, rfl⟩ := typeOf_time hty
    exact .mk' (row_string_time ext key hk x hd)
  case numeric.int t =>
    obtain ⟨x, rfl⟩ := typeOf_int hty
    simp [Tables.inDomain] at hd
    exact .mk' (row_numeric_int ext key hk t x hd)
  case numeric.num =>
    obtain ⟨x, rfl⟩ := typeOf_num hty
    simp [Tables.inDomain] at hd
    exact .mk' (row_numeric_num ext key hk x hd)
  case numeric.none =>
    obtain ⟨x, rfl⟩ := typeOf_num hty
    simp [Tables.inDomain] at hd
    exact .mk' (row_numeric_none ext key hk x hd)
  case boolean.bool =>
    obtain ⟨x, rfl⟩ := typeOf_bool hty
    exact .mk' (row_boolean_bool ext key hk x)
  case boolean.none =>
    obtain ⟨x, rfl⟩ := typeOf_bool hty
    exact .mk' (row_boolean_none ext key hk x)
  case binary.int t =>
    obtain ⟨x, rfl⟩ := typeOf_int hty
    simp [Tables.inDomain] at hd
    exact .mk' (row_binary_int ext key hk t x hd)
  case binary.bytes =>
    obtain ⟨x, rfl⟩ := typeOf_bytes hty
    exact .mk' (row_binary_bytes ext key hk x)
  case binary.none =>
    obtain ⟨x, rfl⟩ := typeOf_bytes hty
    exact .mk' (row_binary_none ext key hk x)
  case binary.str =>
    obtain ⟨x, rfl⟩ := typeOf_str hty
    exact .mk' (row_binary_str ext key hk x)
  case binary.bool =>
    obtain ⟨x, rfl⟩ := typeOf_bool hty
    exact .mk' (row_binary_bool ext key hk x)
  case binary.num =>
    obtain ⟨x, rfl⟩ := typeOf_num hty
    exact .mk' (row_binary_num ext key hk x)
  case datetime.time =>
    obtain ⟨x, rfl⟩ := typeOf_time hty
    exact .mk' (row_datetime_time ext key hk x hd)
  case datetime.none =>
    obtain ⟨x, rfl⟩ := typeOf_time hty
    exact .mk' (row_datetime_none ext key hk x hd)
  case timestamp.int t =>
    obtain ⟨x, rfl⟩ := typeOf_int hty
    simp [Tables.inDomain] at hd
    exact .mk' (row_timestamp_int ext key hk t x hd.1 hd.2)
  case timestamp.none =>
    obtain ⟨x, rfl⟩ := typeOf_int hty
    simp [Tables.inDomain] at hd
    exact .mk' (row_timestamp_none ext key hk x hd.1)
  case auto.int t =>
    obtain ⟨x, rfl⟩ := typeOf_int hty
    simp [Tables.inDomain] at hd
    exact .mk' (row_auto_int ext key hk t x hd)
  case auto.bool =>
    obtain ⟨x, rfl⟩ := typeOf_bool hty
    exact .mk' (row_auto_bool ext key hk x)
  case auto.str =>
    obtain ⟨x, rfl⟩ := typeOf_str hty
    simp [Tables.inDomain] at hd
    exact .mk' (row_auto_str ext key hk x hd)
  case auto.num =>
    obtain ⟨x, rfl⟩ := typeOf_num hty
    simp [Tables.inDomain] at hd
    exact .mk' (row_auto_num ext key hk x hd)

/-- The same for the pairings that consult the standard-library parameter: given that the
    process zone answers at every second and that ParseFloat reads "1" and "0". -/
theorem row_lossless_coveredExt (ext : Ext) (hzone : ∀ s, ∃ off, ext.zoneOffset s = some off)
    (law : Pairings.DigitLaw ext) (key : Bytes) (hk : sanitize key = key)
    (f : Format) (ty : Ty) (hc : (f, ty) ∈ coveredExt) (v : Dyn)
    (hty : v = .nil ∨ typeOf v = valueTy f ty)
    (hd : Tables.inDomain f ty v = true) :
    Tables.lossless f ty = true ∧ RowLossless ⟨genTables, ext⟩ key f ty v := by
  obtain ⟨hl, hf⟩ := covered_lossless (f, ty) (List.mem_append_right _ hc)
  refine ⟨hl, ?_⟩
  rcases hty with rfl | hty
  · exact .mk' (row_nil ext key hk f ty hf)
  simp only [coveredExt, List.mem_cons, Prod.mk.injEq, List.not_mem_nil, or_false] at hc
  rcases hc with ⟨rfl, rfl⟩ | ⟨rfl, rfl⟩ | ⟨rfl, rfl⟩ | ⟨rfl, rfl⟩ | ⟨rfl, rfl⟩ <;>
    simp [valueTy] at hty
  · obtain ⟨x, rfl⟩ := typeOf_time hty
    obtain ⟨off, hz⟩ := hzone x.sec
    exact .mk' (row_numeric_time ext key hk x off hz hd)
  · obtain ⟨x, rfl⟩ := typeOf_time hty
    obtain ⟨off, hz⟩ := hzone x.sec
    exact .mk' (row_timestamp_time ext key hk x off hz hd)
  · obtain ⟨x, rfl⟩ := typeOf_time hty
    obtain ⟨off, hz⟩ := hzone x.sec
    exact .mk' (row_binary_time ext key hk x off hz hd)
  · obtain ⟨x, rfl⟩ := typeOf_bool hty
    exact .mk' (row_numeric_bool ext key hk law x)
  · obtain ⟨x, rfl⟩ := typeOf_bool hty
    exact .mk' (row_timestamp_bool ext key hk law x)

/-- Through the public entry points: `exporter.Export` then `importer.GetRow`. -/
theorem line_lossless_covered (ext : Ext) (key : Bytes) (hk : sanitize key = key)
    (f : Format) (ty : Ty) (hc : (f, ty) ∈ covered) (v : Dyn)
    (hty : v = .nil ∨ typeOf v = valueTy f ty)
    (hd : Tables.inDomain f ty v = true) :
    ∃ v', LineRoute ⟨genTables, ext⟩ key f ty v v' ∧ Tables.sameValue v v' = true := by
  obtain ⟨_, v', hr, hs⟩ := row_lossless_covered ext key hk f ty hc v hty hd
  exact ⟨v', hr.line, hs⟩

/-- Keys: every ASCII key and every well-formed UTF-8 key is delivered unchanged by the reader. -/
theorem key_ascii (key : Bytes) (h : Pairings.Ascii key) : sanitize key = key :=
  Pairings.sanitize_ascii_text key h

theorem key_utf8 (key : Bytes) (h : Utf8.valid key = true) : sanitize key = key :=
  sanitize_valid key h

/-! ### 4. Non-vacuity: key "c", numeric(int16), value 300 — every step by evaluation -/

namespace Demo
open Json

def key : Bytes := [0x63]
def tmpl : Tmpl := withCol [] key .numeric (.int .i16)
def v : Dyn := .int .i16 300
/-- `{"c":300}` -/
def text : Bytes := [0x7B, 0x22, 0x63, 0x22, 0x3A, 0x33, 0x30, 0x30, 0x7D]

theorem cast_nil (ext : Ext) : castTo genTables ext (.int .i16) .nil = .ok .nil := by
  simp [castTo, callNamed, genTables, Gen.casters, Gen.dispatchTo, findClause, typeOf, evalBranch, evalE]

theorem cast_v (ext : Ext) : castTo genTables ext (.int .i16) (.int .i16 300) = .ok (.int .i16 300) := by
  simp [castTo, callNamed, genTables, Gen.casters, Gen.dispatchTo, findClause, typeOf, evalBranch, evalE]

/-- `CreateRowEmpty`: the one nil cell. -/
theorem empty (ext : Ext) :
    createRowEmpty ⟨genTables, ext⟩ tmpl = .ok [(key, .cell .nil .numeric (.int .i16))] := by
  simp [createRowEmpty, cloneRow, tmpl, withCol, upsert, OMap.upsert, cloneInto, cloneValue, newValue,
    Cells.raw, Cells.format, Cells.rawType, cast_nil]

/-- `CreateRow(map[string]interface{}{"c": int16(300)})`. -/
theorem create (ext : Ext) : createRow ⟨genTables, ext⟩ tmpl (.gomap (.cons key v .nil)) =
    .ok ([(key, .cell (.int .i16 300) .numeric (.int .i16))], none) := by
  simp [createRow, cloneRow, tmpl, withCol, upsert, OMap.upsert, cloneInto, cloneValue, newValue,
    Cells.raw, Cells.format, Cells.rawType, cast_nil, cast_v, DynMap.toList, fillPairs, fill, lookup,
    OMap.lookup, v]

theorem toNumber_v (ext : Ext) :
    castNamed genTables ext "ToNumber" (.int .i16 300) = .ok (.num [0x33, 0x30, 0x30]) := by
  simp [castNamed, callNamed, genTables, Gen.casters, findClause, typeOf, evalBranch, evalE,
    IntText.formatInt, IntText.natDigits, IntText.digitChar, IntTy.wrap, IntTy.bits, IntTy.signed]

/-- `row.MarshalJSON`: the text `{"c":300}`. -/
theorem marshal (ext : Ext) :
    marshalRow ⟨genTables, ext⟩ (Members.ofList [(key, .cell (.int .i16 300) .numeric (.int .i16))]) =
      .ok text := by
  have he : exportVal ⟨genTables, ext⟩ (.cell (.int .i16 300) .numeric (.int .i16)) =
      .ok (.num [0x33, 0x30, 0x30]) := by
    simp [exportVal, exportFail, toNumber_v]
  have hv : marshalVal ⟨genTables, ext⟩ (.cell (.int .i16 300) .numeric (.int .i16)) =
      .ok [0x33, 0x30, 0x30] := by
    rw [marshalVal.eq_def]; simp only [he]; rw [marshalExported.eq_def]
    simp [JsonWrite.isValidNumber, JsonWrite.dropDigits, JsonWrite.isDigit]
  have := marshalRow_eq ⟨genTables, ext⟩ _
    (marshalMembers_cons ⟨genTables, ext⟩ key _ .nil (by decide) hv (marshalMembers_nil _))
  simpa [Members.ofList, text, key, joinComma, JsonWrite.quote, JsonWrite.quoteBody, JsonWrite.htmlSafe,
    Utf8.seqLen] using this

/-- The reader's view of the text: the one member `c : 300`. -/
theorem read : Json.unmarshal text = (.cons key (.num [0x33, 0x30, 0x30]) .nil, true) := by
  simp [text, key, unmarshal, token, tokenCore, skipSpace, isSpace, asClose, parseObject, parseArray,
    more, asKey, asTok, strBody, pre, handleDelim, scanScalar, scanNumber, scanInt, scanFracExp,
    scanExp, digits, isDigit, valueAllowed, valueEnd, isEof, hex4, hexVal, simpleEscape, isSurrogate,
    Utf8.encode, stripPrefix]

theorem cast_back (ext : Ext) :
    castTo genTables ext (.int .i16) (.num [0x33, 0x30, 0x30]) = .ok (.int .i16 300) := by
  have hp : IntText.parseInt0 [0x33, 0x30, 0x30] 16 = some 300 := by decide
  simp [castTo, callNamed, genTables, Gen.casters, Gen.dispatchTo, findClause, typeOf, evalBranch, evalE,
    runParse, hp, evalG, cmpInt, IntTy.wrap, IntTy.bits, IntTy.signed]

/-- `row.UnmarshalJSON` into the empty row: the cell holds int16(300) again. -/
theorem readBack (ext : Ext) :
    unmarshalInto ⟨genTables, ext⟩ [(key, .cell .nil .numeric (.int .i16))] text =
      .ok ([(key, .cell (.int .i16 300) .numeric (.int .i16))], none) := by
  simp [unmarshalInto, read, ofJVMembers, ofJV, parseMembers, parseMember, lookup, OMap.lookup, importVal,
    importInto, importCell, importByFormat, importFrom, importFail, cast_back, upsert, OMap.upsert]

/-- The whole route on the concrete data, assembled from the evaluated steps. -/
theorem route (ext : Ext) : Route ⟨genTables, ext⟩ key .numeric (.int .i16) v v :=
  ⟨_, text, _, _, create ext, marshal ext, empty ext, readBack ext,
    by simp [lookup, OMap.lookup, key, Cells.raw, v]⟩

/-- … and the general theorems apply to it: the pairing is in `covered`, the key is ASCII, the
    value is an int16 of the domain. -/
example (ext : Ext) : Tables.lossless .numeric (.int .i16) = true ∧
    RowLossless ⟨genTables, ext⟩ key .numeric (.int .i16) v :=
  row_lossless_covered ext key (key_ascii key (by simp [Pairings.Ascii, key])) .numeric (.int .i16) (by decide) v
    (.inr rfl) (by decide)

/-- What the general theorem says is read back is what the evaluation found. -/
example (ext : Ext) (v' : Dyn) (h : Route ⟨genTables, ext⟩ key .numeric (.int .i16) v v') :
    v' = .int .i16 300 :=
  Route.unique h (route ext)

end Demo

end Jl.RowRoundTrip
