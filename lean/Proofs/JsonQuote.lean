/-
  Proofs.JsonQuote — the writer's string escaper against the reader's string scanner
  (C01, scalar level): whatever bytes a Go string holds, `JsonWrite.quote` produces a text that
  `Json.strBody`/`Json.scanScalar` accept as exactly one string token, with no byte below 0x20,
  and what is read back is the input with every ill-formed byte replaced by U+FFFD.
  Also: number and literal tokens.
-/
import Model.JsonRead
import Model.JsonWrite
import Proofs.IntTextJson

namespace Jl.JsonQuote
open Json JsonWrite

/-! ### What a Go string becomes after a trip through json.Marshal / Token -/

/-- ASCII and well-formed multi-byte sequences are copied; every byte at which
    `utf8.DecodeRune` reports `(RuneError, 1)` becomes U+FFFD.  Same walk as `quoteBody`. -/
def sanitize (bs : Bytes) : Bytes :=
  match bs with
  | [] => []
  | b :: rest =>
    if b < 0x80 then b :: sanitize rest
    else
      match Utf8.seqLen (b :: rest) with
      | some 2 => b :: rest.take 1 ++ sanitize (rest.drop 1)
      | some 3 => b :: rest.take 2 ++ sanitize (rest.drop 2)
      | some 4 => b :: rest.take 3 ++ sanitize (rest.drop 3)
      | _ => Utf8.replacement ++ sanitize rest
termination_by bs.length
decreasing_by all_goals simp <;> omega

/-! ### One unfolding step of `strBody` per kind of chunk -/

theorem pre_some (p s r : Bytes) : pre p (some (s, r)) = some (p ++ s, r) := rfl

theorem strBody_close (rest : Bytes) : strBody (0x22 :: rest) = some ([], rest) := by
  rw [strBody.eq_def]; simp

theorem strBody_plain {c : UInt8} (rest : Bytes) (h1 : c ≠ 0x22) (h2 : c ≠ 0x5C)
    (h3 : ¬ c < 0x20) (h4 : c < 0x80) : strBody (c :: rest) = pre [c] (strBody rest) := by
  rw [strBody.eq_def]; simp [h1, h2, h3, h4]

theorem strBody_simple {e ch : UInt8} (rest : Bytes) (h : simpleEscape e = some ch)
    (hu : e ≠ 0x75) : strBody (0x5C :: e :: rest) = pre [ch] (strBody rest) := by
  rw [strBody.eq_def]; simp [h, hu]

theorem strBody_u {a b c d : UInt8} {r : Nat} (rest : Bytes)
    (h : hex4 [a, b, c, d] = some r) (hs : isSurrogate r = false) :
    strBody (0x5C :: 0x75 :: a :: b :: c :: d :: rest) = pre (Utf8.encode r) (strBody rest) := by
  have h' : hex4 (a :: b :: c :: d :: rest) = some r := h
  rw [strBody.eq_def]; simp [h', hs]

theorem hi_ne {c : UInt8} (h : ¬ c < 0x80) : c ≠ 0x22 ∧ c ≠ 0x5C ∧ ¬ c < 0x20 := by
  refine ⟨?_, ?_, ?_⟩
  · intro e; subst e; exact h (by decide)
  · intro e; subst e; exact h (by decide)
  · intro e; apply h; rw [UInt8.lt_iff_toNat_lt] at *; simp at *; omega

theorem strBody_seq2 {c : UInt8} (rest : Bytes) (h : ¬ c < 0x80)
    (hl : Utf8.seqLen (c :: rest) = some 2) :
    strBody (c :: rest) = pre (c :: rest.take 1) (strBody (rest.drop 1)) := by
  obtain ⟨h1, h2, h3⟩ := hi_ne h
  rw [strBody.eq_def]; simp only [beq_iff_eq, h1, h2, h3, h, if_false, hl]

theorem strBody_seq3 {c : UInt8} (rest : Bytes) (h : ¬ c < 0x80)
    (hl : Utf8.seqLen (c :: rest) = some 3) :
    strBody (c :: rest) = pre (c :: rest.take 2) (strBody (rest.drop 2)) := by
  obtain ⟨h1, h2, h3⟩ := hi_ne h
  rw [strBody.eq_def]; simp only [beq_iff_eq, h1, h2, h3, h, if_false, hl]

theorem strBody_seq4 {c : UInt8} (rest : Bytes) (h : ¬ c < 0x80)
    (hl : Utf8.seqLen (c :: rest) = some 4) :
    strBody (c :: rest) = pre (c :: rest.take 3) (strBody (rest.drop 3)) := by
  obtain ⟨h1, h2, h3⟩ := hi_ne h
  rw [strBody.eq_def]; simp only [beq_iff_eq, h1, h2, h3, h, if_false, hl]

theorem strBody_bad {c : UInt8} (rest : Bytes) (h : ¬ c < 0x80)
    (h2 : Utf8.seqLen (c :: rest) ≠ some 2) (h3 : Utf8.seqLen (c :: rest) ≠ some 3)
    (h4 : Utf8.seqLen (c :: rest) ≠ some 4) :
    strBody (c :: rest) = pre Utf8.replacement (strBody rest) := by
  obtain ⟨h1, h2', h3'⟩ := hi_ne h
  rw [strBody.eq_def]; simp only [beq_iff_eq, h1, h2', h3', h, if_false]

/-! ### Shape of well-formed multi-byte sequences (`seqLen` looks at no more than it reports) -/

def ok3 (b0 b1 b2 : UInt8) : Bool :=
  (if b0 == 0xE0 then 0xA0 else 0x80) ≤ b1 && b1 ≤ (if b0 == 0xED then 0x9F else 0xBF)
    && Utf8.isCont b2

def ok4 (b0 b1 b2 b3 : UInt8) : Bool :=
  (if b0 == 0xF0 then 0x90 else 0x80) ≤ b1 && b1 ≤ (if b0 == 0xF4 then 0x8F else 0xBF)
    && Utf8.isCont b2 && Utf8.isCont b3

theorem seqLen_cons2 (b0 b1 : UInt8) (rest : Bytes) :
    Utf8.seqLen (b0 :: b1 :: rest) =
      if 0xC2 ≤ b0 && b0 ≤ 0xDF then
        if Utf8.isCont b1 then some 2 else none
      else if 0xE0 ≤ b0 && b0 ≤ 0xEF then
        match rest with
        | b2 :: _ => if ok3 b0 b1 b2 then some 3 else none
        | [] => none
      else if 0xF0 ≤ b0 && b0 ≤ 0xF4 then
        match rest with
        | b2 :: b3 :: _ => if ok4 b0 b1 b2 b3 then some 4 else none
        | _ => none
      else none := rfl

theorem ite_some_ne {c : Prop} [Decidable c] {a b : Nat} (hab : a ≠ b) :
    (if c then some a else none) ≠ some b := by
  split <;> simp [hab]

theorem isCont_hi {b : UInt8} (h : Utf8.isCont b = true) : ¬ b < 0x80 := by
  simp [Utf8.isCont, UInt8.le_iff_toNat_le, UInt8.lt_iff_toNat_lt] at h ⊢
  omega

theorem ok3_hi {b0 b1 b2 : UInt8} (h : ok3 b0 b1 b2 = true) : ¬ b1 < 0x80 ∧ ¬ b2 < 0x80 := by
  simp only [ok3, Bool.and_eq_true, decide_eq_true_eq] at h
  refine ⟨?_, isCont_hi h.2⟩
  have := h.1.1
  split at this <;> simp [UInt8.le_iff_toNat_le, UInt8.lt_iff_toNat_lt] at this ⊢ <;> omega

theorem ok4_hi {b0 b1 b2 b3 : UInt8} (h : ok4 b0 b1 b2 b3 = true) :
    ¬ b1 < 0x80 ∧ ¬ b2 < 0x80 ∧ ¬ b3 < 0x80 := by
  simp only [ok4, Bool.and_eq_true, decide_eq_true_eq] at h
  refine ⟨?_, isCont_hi h.1.2, isCont_hi h.2⟩
  have := h.1.1.1
  split at this <;> simp [UInt8.le_iff_toNat_le, UInt8.lt_iff_toNat_lt] at this ⊢ <;> omega

/-- Shape of a well-formed 2-byte sequence; `seqLen` looks at two bytes only. -/
theorem seqLen_two {b : UInt8} {tl : Bytes} (h : Utf8.seqLen (b :: tl) = some 2) :
    ∃ b1 tl', tl = b1 :: tl' ∧ (∀ X, Utf8.seqLen (b :: b1 :: X) = some 2) ∧ ¬ b1 < 0x80 := by
  cases tl with
  | nil => simp [Utf8.seqLen] at h
  | cons b1 tl' =>
    refine ⟨b1, tl', rfl, ?_⟩
    rw [seqLen_cons2] at h
    split at h
    · split at h
      · rename_i h1 h2
        exact ⟨fun X => by rw [seqLen_cons2]; simp only [h1, h2, if_true], isCont_hi h2⟩
      · cases h
    · exfalso
      split at h
      · cases tl' with
        | nil => cases h
        | cons b2 t => exact ite_some_ne (by decide) h
      · split at h
        · match tl', h with
          | [], h => cases h
          | [_], h => cases h
          | _ :: _ :: _, h => exact ite_some_ne (by decide) h
        · cases h

theorem seqLen_three {b : UInt8} {tl : Bytes} (h : Utf8.seqLen (b :: tl) = some 3) :
    ∃ b1 b2 tl', tl = b1 :: b2 :: tl' ∧ (∀ X, Utf8.seqLen (b :: b1 :: b2 :: X) = some 3) ∧
      ¬ b1 < 0x80 ∧ ¬ b2 < 0x80 := by
  cases tl with
  | nil => simp [Utf8.seqLen] at h
  | cons b1 tl' =>
    rw [seqLen_cons2] at h
    split at h
    · exact absurd h (ite_some_ne (by decide))
    · split at h
      · cases tl' with
        | nil => cases h
        | cons b2 t =>
          rename_i h0 h1
          simp only at h
          split at h
          · rename_i h2
            exact ⟨b1, b2, t, rfl, fun X => by rw [seqLen_cons2]; simp only [h0, h1, h2, if_true]; rfl,
              ok3_hi h2⟩
          · cases h
      · exfalso
        split at h
        · match tl', h with
          | [], h => cases h
          | [_], h => cases h
          | _ :: _ :: _, h => exact ite_some_ne (by decide) h
        · cases h

theorem seqLen_four {b : UInt8} {tl : Bytes} (h : Utf8.seqLen (b :: tl) = some 4) :
    ∃ b1 b2 b3 tl', tl = b1 :: b2 :: b3 :: tl' ∧
      (∀ X, Utf8.seqLen (b :: b1 :: b2 :: b3 :: X) = some 4) ∧
      ¬ b1 < 0x80 ∧ ¬ b2 < 0x80 ∧ ¬ b3 < 0x80 := by
  cases tl with
  | nil => simp [Utf8.seqLen] at h
  | cons b1 tl' =>
    rw [seqLen_cons2] at h
    split at h
    · exact absurd h (ite_some_ne (by decide))
    · split at h
      · exfalso
        cases tl' with
        | nil => cases h
        | cons b2 t => exact ite_some_ne (by decide) h
      · split at h
        · rename_i h0 h1 h2
          match tl', h with
          | [], h => cases h
          | [_], h => cases h
          | b2 :: b3 :: t, h =>
            simp only at h
            split at h
            · rename_i h3
              exact ⟨b1, b2, b3, t, rfl,
                fun X => by rw [seqLen_cons2]; simp only [h0, h1, h2, h3, if_true]; rfl, ok4_hi h3⟩
            · cases h
        · cases h

/-! ### The escapes the writer emits, as the reader decodes them -/

theorem hexVal_hexLower : ∀ n, n < 16 → hexVal (hexLower n) = some n := by decide

theorem hex4_u00 (n : Nat) (h : n < 256) :
    hex4 [0x30, 0x30, hexLower (n / 16), hexLower (n % 16)] = some n := by
  have h1 := hexVal_hexLower (n / 16) (by omega)
  have h2 := hexVal_hexLower (n % 16) (by omega)
  have h0 : hexVal 0x30 = some 0 := by decide
  simp only [hex4, h0, h1, h2]
  congr 1; omega

theorem encode_ascii {b : UInt8} (h : b < 0x80) : Utf8.encode b.toNat = [b] := by
  have : b.toNat < 128 := by simpa [UInt8.lt_iff_toNat_lt] using h
  simp [Utf8.encode, this]

theorem strBody_escapeAscii {b : UInt8} (hb : b < 0x80) (more : Bytes) (hs : htmlSafe b = false) :
    strBody (escapeAscii b ++ more) = pre [b] (strBody more) := by
  have hn : b.toNat < 128 := by simpa [UInt8.lt_iff_toNat_lt] using hb
  unfold escapeAscii
  split
  · rename_i h
    simp only [Bool.or_eq_true, beq_iff_eq] at h
    rcases h with h | h <;> subst h <;> exact strBody_simple more (by decide) (by decide)
  · split
    · rename_i h; simp only [beq_iff_eq] at h; subst h; exact strBody_simple more (by decide) (by decide)
    · split
      · rename_i h; simp only [beq_iff_eq] at h; subst h; exact strBody_simple more (by decide) (by decide)
      · split
        · rename_i h; simp only [beq_iff_eq] at h; subst h; exact strBody_simple more (by decide) (by decide)
        · split
          · rename_i h; simp only [beq_iff_eq] at h; subst h; exact strBody_simple more (by decide) (by decide)
          · split
            · rename_i h; simp only [beq_iff_eq] at h; subst h; exact strBody_simple more (by decide) (by decide)
            · have := strBody_u more (hex4_u00 b.toNat (by omega))
                (by simp [isSurrogate]; omega)
              rw [encode_ascii hb] at this
              exact this

/-! ### One unfolding step of `sanitize` per branch -/

theorem sanitize_nil : sanitize [] = [] := by rw [sanitize.eq_def]

theorem sanitize_ascii {b : UInt8} (rest : Bytes) (h : b < 0x80) :
    sanitize (b :: rest) = b :: sanitize rest := by
  rw [sanitize.eq_def]; simp only [h, if_true]

theorem sanitize_seq2 {b : UInt8} (rest : Bytes) (h : ¬ b < 0x80)
    (hl : Utf8.seqLen (b :: rest) = some 2) :
    sanitize (b :: rest) = b :: rest.take 1 ++ sanitize (rest.drop 1) := by
  rw [sanitize.eq_def]; simp only [h, if_false, hl]

theorem sanitize_seq3 {b : UInt8} (rest : Bytes) (h : ¬ b < 0x80)
    (hl : Utf8.seqLen (b :: rest) = some 3) :
    sanitize (b :: rest) = b :: rest.take 2 ++ sanitize (rest.drop 2) := by
  rw [sanitize.eq_def]; simp only [h, if_false, hl]

theorem sanitize_seq4 {b : UInt8} (rest : Bytes) (h : ¬ b < 0x80)
    (hl : Utf8.seqLen (b :: rest) = some 4) :
    sanitize (b :: rest) = b :: rest.take 3 ++ sanitize (rest.drop 3) := by
  rw [sanitize.eq_def]; simp only [h, if_false, hl]

theorem sanitize_bad {b : UInt8} (rest : Bytes) (h : ¬ b < 0x80)
    (h2 : Utf8.seqLen (b :: rest) ≠ some 2) (h3 : Utf8.seqLen (b :: rest) ≠ some 3)
    (h4 : Utf8.seqLen (b :: rest) ≠ some 4) :
    sanitize (b :: rest) = Utf8.replacement ++ sanitize rest := by
  rw [sanitize.eq_def]; simp only [h, if_false]

theorem htmlSafe_facts {b : UInt8} (h : htmlSafe b = true) :
    b ≠ 0x22 ∧ b ≠ 0x5C ∧ ¬ b < 0x20 := by
  simp only [htmlSafe, Bool.and_eq_true, decide_eq_true_eq, bne_iff_ne, ne_eq] at h
  refine ⟨h.1.1.1.1.2, h.1.1.1.2, ?_⟩
  have := h.1.1.1.1.1.1
  simp [UInt8.le_iff_toNat_le, UInt8.lt_iff_toNat_lt] at this ⊢; omega

/-! ### The quote lemma -/

theorem hex4_2028 : hex4 [0x32, 0x30, 0x32, 0x38] = some 0x2028 := by decide
theorem hex4_2029 : hex4 [0x32, 0x30, 0x32, 0x39] = some 0x2029 := by decide
theorem hex4_fffd : hex4 [0x66, 0x66, 0x66, 0x64] = some 0xFFFD := by decide
theorem encode_2028 : Utf8.encode 0x2028 = [0xE2, 0x80, 0xA8] := by decide
theorem encode_2029 : Utf8.encode 0x2029 = [0xE2, 0x80, 0xA9] := by decide
theorem encode_fffd : Utf8.encode 0xFFFD = Utf8.replacement := by decide

/-- THE QUOTE LEMMA.  For every byte string `s` (ill-formed UTF-8, control bytes, quotes,
    backslashes, U+2028/2029, `<>&` included): the reader's string scanner consumes the escaper's
    output up to and including the closing quote, and decodes it to `sanitize s`. -/
theorem strBody_quoteBody (s rest : Bytes) :
    strBody (quoteBody s ++ 0x22 :: rest) = some (sanitize s, rest) := by
  fun_induction quoteBody s
  · rw [sanitize_nil]; exact strBody_close rest
  · rename_i b tl hb hs ih
    obtain ⟨h1, h2, h3⟩ := htmlSafe_facts hs
    rw [List.cons_append, strBody_plain _ h1 h2 h3 hb, ih, sanitize_ascii _ hb]; rfl
  · rename_i b tl hb hs ih
    rw [List.append_assoc, strBody_escapeAscii hb _ (by simpa using hs), ih, sanitize_ascii _ hb]; rfl
  · rename_i b tl hb hl ih
    obtain ⟨b1, tl', rfl, hX, _⟩ := seqLen_two hl
    rw [sanitize_seq2 _ hb hl]
    simp only [List.take_succ_cons, List.take_zero, List.drop_succ_cons, List.drop_zero,
      List.cons_append, List.nil_append] at ih ⊢
    rw [strBody_seq2 _ hb (hX _)]
    simp only [List.take_succ_cons, List.take_zero, List.drop_succ_cons, List.drop_zero, ih]
    rfl
  · rename_i b tl hb hl h ih
    obtain ⟨b1, b2, tl', rfl, hX, _⟩ := seqLen_three hl
    rw [sanitize_seq3 _ hb hl]
    simp only [List.take_succ_cons, List.take_zero, List.drop_succ_cons, List.drop_zero,
      List.cons_append, List.nil_append, Bool.and_eq_true, beq_iff_eq, List.cons.injEq,
      and_true] at ih h ⊢
    obtain ⟨rfl, rfl, rfl⟩ := h
    rw [strBody_u _ hex4_2028 (by decide), ih, encode_2028]; rfl
  · rename_i b tl hb hl _ h ih
    obtain ⟨b1, b2, tl', rfl, hX, _⟩ := seqLen_three hl
    rw [sanitize_seq3 _ hb hl]
    simp only [List.take_succ_cons, List.take_zero, List.drop_succ_cons, List.drop_zero,
      List.cons_append, List.nil_append, Bool.and_eq_true, beq_iff_eq, List.cons.injEq,
      and_true] at ih h ⊢
    obtain ⟨rfl, rfl, rfl⟩ := h
    rw [strBody_u _ hex4_2029 (by decide), ih, encode_2029]; rfl
  · rename_i b tl hb hl _ _ ih
    obtain ⟨b1, b2, tl', rfl, hX, _⟩ := seqLen_three hl
    rw [sanitize_seq3 _ hb hl]
    simp only [List.take_succ_cons, List.take_zero, List.drop_succ_cons, List.drop_zero,
      List.cons_append, List.nil_append] at ih ⊢
    rw [strBody_seq3 _ hb (hX _)]
    simp only [List.take_succ_cons, List.take_zero, List.drop_succ_cons, List.drop_zero, ih]
    rfl
  · rename_i b tl hb hl ih
    obtain ⟨b1, b2, b3, tl', rfl, hX, _⟩ := seqLen_four hl
    rw [sanitize_seq4 _ hb hl]
    simp only [List.take_succ_cons, List.take_zero, List.drop_succ_cons, List.drop_zero,
      List.cons_append, List.nil_append] at ih ⊢
    rw [strBody_seq4 _ hb (hX _)]
    simp only [List.take_succ_cons, List.take_zero, List.drop_succ_cons, List.drop_zero, ih]
    rfl
  · rename_i b tl hb h2 h3 h4 ih
    rw [sanitize_bad _ hb h2 h3 h4]
    simp only [List.cons_append, List.nil_append]
    rw [strBody_u _ hex4_fffd (by decide), ih, encode_fffd]; rfl

theorem quote_append (s rest : Bytes) : quote s ++ rest = 0x22 :: (quoteBody s ++ 0x22 :: rest) := by
  simp [quote]

/-- A quoted string is read back as exactly one string token. -/
theorem scanScalar_quote (s rest : Bytes) :
    scanScalar (quote s ++ rest) = some (.str (sanitize s), rest) := by
  rw [quote_append]
  simp [scanScalar, strBody_quoteBody]

/-! ### No control byte in the escaper's output -/

theorem ge20_of_hi {b : UInt8} (h : ¬ b < 0x80) : 0x20 ≤ b := by
  simp [UInt8.le_iff_toNat_le, UInt8.lt_iff_toNat_lt] at h ⊢; omega

set_option maxRecDepth 100000 in
theorem escapeAscii_ge_aux :
    ∀ n, n < 256 → (escapeAscii (UInt8.ofNat n)).all (fun x => decide (0x20 ≤ x)) = true := by
  decide

theorem escapeAscii_ge (b : UInt8) : ∀ x ∈ escapeAscii b, 0x20 ≤ x := by
  have := escapeAscii_ge_aux b.toNat b.toNat_lt
  rw [UInt8.ofNat_toNat] at this
  simpa using this

/-- The escaper's output has no control byte (in particular no raw newline). -/
theorem quoteBody_ge (s : Bytes) : ∀ x ∈ quoteBody s, 0x20 ≤ x := by
  fun_induction quoteBody s
  · intro x hx; cases hx
  · rename_i b tl hb hs ih
    intro x hx
    rcases List.mem_cons.1 hx with rfl | hx
    · have := (htmlSafe_facts hs).2.2
      simp [UInt8.le_iff_toNat_le, UInt8.lt_iff_toNat_lt] at this ⊢; omega
    · exact ih x hx
  · rename_i b tl hb hs ih
    intro x hx
    rcases List.mem_append.1 hx with hx | hx
    · exact escapeAscii_ge b x hx
    · exact ih x hx
  · rename_i b tl hb hl ih
    obtain ⟨b1, tl', rfl, _, h1⟩ := seqLen_two hl
    intro x hx
    simp only [List.take_succ_cons, List.take_zero, List.drop_succ_cons, List.drop_zero,
      List.cons_append, List.nil_append, List.mem_cons] at hx ih
    rcases hx with rfl | rfl | hx
    · exact ge20_of_hi hb
    · exact ge20_of_hi h1
    · exact ih x hx
  · rename_i b tl hb hl h ih
    intro x hx
    rcases List.mem_append.1 hx with hx | hx
    · exact (by decide : ∀ x ∈ ([92, 117, 50, 48, 50, 56] : Bytes), (0x20 : UInt8) ≤ x) x hx
    · exact ih x hx
  · rename_i b tl hb hl _ h ih
    intro x hx
    rcases List.mem_append.1 hx with hx | hx
    · exact (by decide : ∀ x ∈ ([92, 117, 50, 48, 50, 57] : Bytes), (0x20 : UInt8) ≤ x) x hx
    · exact ih x hx
  · rename_i b tl hb hl _ _ ih
    obtain ⟨b1, b2, tl', rfl, _, h1, h2⟩ := seqLen_three hl
    intro x hx
    simp only [List.take_succ_cons, List.take_zero, List.drop_succ_cons, List.drop_zero,
      List.cons_append, List.nil_append, List.mem_cons] at hx ih
    rcases hx with rfl | rfl | rfl | hx
    · exact ge20_of_hi hb
    · exact ge20_of_hi h1
    · exact ge20_of_hi h2
    · exact ih x hx
  · rename_i b tl hb hl ih
    obtain ⟨b1, b2, b3, tl', rfl, _, h1, h2, h3⟩ := seqLen_four hl
    intro x hx
    simp only [List.take_succ_cons, List.take_zero, List.drop_succ_cons, List.drop_zero,
      List.cons_append, List.nil_append, List.mem_cons] at hx ih
    rcases hx with rfl | rfl | rfl | rfl | hx
    · exact ge20_of_hi hb
    · exact ge20_of_hi h1
    · exact ge20_of_hi h2
    · exact ge20_of_hi h3
    · exact ih x hx
  · rename_i b tl hb h2 h3 h4 ih
    intro x hx
    rcases List.mem_append.1 hx with hx | hx
    · exact (by decide : ∀ x ∈ ([92, 117, 102, 102, 102, 100] : Bytes), (0x20 : UInt8) ≤ x) x hx
    · exact ih x hx

theorem quote_ge (s : Bytes) : ∀ x ∈ quote s, 0x20 ≤ x := by
  intro x hx
  simp only [quote, List.mem_cons, List.mem_append, List.not_mem_nil, or_false] at hx
  rcases hx with rfl | hx | rfl
  · decide
  · exact quoteBody_ge s x hx
  · decide

theorem quote_no_newline (s : Bytes) : (0x0A : UInt8) ∉ quote s := fun h =>
  absurd (quote_ge s _ h) (by decide)

/-! ### `sanitize` is the identity on well-formed UTF-8 -/

theorem valid_hi {b : UInt8} {tl : Bytes} (hb : ¬ b < 0x80) (h : Utf8.valid (b :: tl) = true) :
    (Utf8.seqLen (b :: tl) = some 2 ∧ Utf8.valid (tl.drop 1) = true) ∨
    (Utf8.seqLen (b :: tl) = some 3 ∧ Utf8.valid (tl.drop 2) = true) ∨
    (Utf8.seqLen (b :: tl) = some 4 ∧ Utf8.valid (tl.drop 3) = true) := by
  rw [Utf8.valid.eq_def] at h
  simp only [hb, if_false] at h
  split at h
  · exact .inl ⟨by assumption, h⟩
  · exact .inr (.inl ⟨by assumption, h⟩)
  · exact .inr (.inr ⟨by assumption, h⟩)
  · cases h

/-- Well-formed UTF-8 is read back unchanged. -/
theorem sanitize_valid (s : Bytes) (h : Utf8.valid s = true) : sanitize s = s := by
  fun_induction sanitize s
  · rfl
  · rename_i b tl hb ih
    rw [Utf8.valid.eq_def] at h
    simp only [hb, if_true] at h
    rw [ih h]
  · rename_i b tl hb hl ih
    rcases valid_hi hb h with ⟨_, h'⟩ | ⟨h', _⟩ | ⟨h', _⟩
    · rw [ih h', List.cons_append, List.take_append_drop]
    · rw [hl] at h'; cases h'
    · rw [hl] at h'; cases h'
  · rename_i b tl hb hl ih
    rcases valid_hi hb h with ⟨h', _⟩ | ⟨_, h'⟩ | ⟨h', _⟩
    · rw [hl] at h'; cases h'
    · rw [ih h', List.cons_append, List.take_append_drop]
    · rw [hl] at h'; cases h'
  · rename_i b tl hb hl ih
    rcases valid_hi hb h with ⟨h', _⟩ | ⟨h', _⟩ | ⟨_, h'⟩
    · rw [hl] at h'; cases h'
    · rw [hl] at h'; cases h'
    · rw [ih h', List.cons_append, List.take_append_drop]
  · rename_i b tl hb h2 h3 h4 ih
    rcases valid_hi hb h with ⟨h', _⟩ | ⟨h', _⟩ | ⟨h', _⟩
    · exact absurd h' h2
    · exact absurd h' h3
    · exact absurd h' h4

/-- Conversely the output of `sanitize` never differs from the input on well-formed text only:
    an ill-formed byte is replaced, e.g. a lone 0xFF. -/
example : sanitize [0x41, 0xFF, 0x42] = [0x41, 0xEF, 0xBF, 0xBD, 0x42] := by
  simp [sanitize, Utf8.seqLen, Utf8.replacement]


open IntText

/-! ### Number tokens -/

theorem nonDigit_of_ends {rest : Bytes} (h : NumberEnds rest) :
    ∀ c tl, rest = c :: tl → JsonWrite.isDigit c = false := by
  intro c tl e
  have := (h c (by rw [e]; rfl)).1
  simpa [JsonWrite.isDigit] using this

theorem dropDigits_append (s rest : Bytes) (h : NumberEnds rest) :
    dropDigits (s ++ rest) = dropDigits s ++ rest := by
  induction s with
  | nil =>
    cases rest with
    | nil => rfl
    | cons c tl => simp [dropDigits, nonDigit_of_ends h c tl rfl]
  | cons c t ih =>
    simp only [List.cons_append, dropDigits]
    split
    · exact ih
    · rfl

theorem afterInt_append {s r : Bytes} (rest : Bytes) (h : NumberEnds rest)
    (hs : afterInt s = some r) : afterInt (s ++ rest) = some (r ++ rest) := by
  cases s with
  | nil => cases hs
  | cons c t =>
    simp only [afterInt, List.cons_append] at hs ⊢
    split at hs
    · rename_i h0; rw [if_pos h0]; injection hs with hs; rw [hs]
    · rename_i h0; rw [if_neg h0]
      split at hs
      · rename_i h1; rw [if_pos h1]; injection hs with hs; rw [← hs, dropDigits_append _ _ h]
      · cases hs

theorem needDigit_append {u r : Bytes} (rest : Bytes) (h : NumberEnds rest)
    (hs : needDigit u = some r) : needDigit (u ++ rest) = some (r ++ rest) := by
  cases u with
  | nil => cases hs
  | cons d t =>
    simp only [needDigit, List.cons_append] at hs ⊢
    split at hs
    · rename_i h0; rw [if_pos h0]; injection hs with hs; rw [← hs, dropDigits_append _ _ h]
    · cases hs

theorem afterFrac_append {s r : Bytes} (rest : Bytes) (h : NumberEnds rest)
    (hs : afterFrac s = some r) : afterFrac (s ++ rest) = some (r ++ rest) := by
  cases s with
  | nil =>
    injection hs with hs; subst hs
    cases rest with
    | nil => rfl
    | cons c tl => exact afterFrac_of_ne tl (h c rfl).2.1
  | cons c t =>
    by_cases hc : c = 0x2E
    · subst hc
      rw [afterFrac_dot] at hs
      rw [List.cons_append, afterFrac_dot]
      exact needDigit_append rest h hs
    · rw [afterFrac_of_ne t hc] at hs
      injection hs with hs; subst hs
      exact afterFrac_of_ne _ hc

theorem afterExp_append {s r : Bytes} (rest : Bytes) (h : NumberEnds rest)
    (hs : afterExp s = some r) : afterExp (s ++ rest) = some (r ++ rest) := by
  cases s with
  | nil =>
    injection hs with hs; subst hs
    cases rest with
    | nil => rfl
    | cons c tl =>
      have := h c rfl
      simp [afterExp_cons, this.2.2.1, this.2.2.2]
  | cons e t =>
    rw [afterExp_cons] at hs
    rw [List.cons_append, afterExp_cons]
    split at hs
    · rename_i h0; rw [if_pos h0]
      cases t with
      | nil => cases hs
      | cons sg t' =>
        have : stripSign (sg :: t' ++ rest) = stripSign (sg :: t') ++ rest := by
          simp only [stripSign, List.cons_append]
          split <;> rfl
        rw [this]
        exact needDigit_append rest h hs
    · rename_i h0; rw [if_neg h0]
      injection hs with hs; subst hs; rfl

/-- A valid `json.Number` followed by something that cannot continue a number is scanned as
    exactly that literal. -/
theorem scanNumber_valid {l : Bytes} (rest : Bytes) (hl : isValidNumber l = true)
    (h : NumberEnds rest) : scanNumber (l ++ rest) = some (l, rest) := by
  rw [isValidNumber_eq, isNil_eq_true] at hl
  have hsnd : (scanNumber (l ++ rest)).map (·.2) = some rest := by
    rw [scanNumber_snd]
    cases h1 : afterInt (stripMinus l) with
    | none => rw [h1] at hl; cases hl
    | some r1 =>
      rw [h1, Option.bind_some] at hl
      cases h2 : afterFrac r1 with
      | none => rw [h2] at hl; cases hl
      | some r2 =>
        rw [h2, Option.bind_some] at hl
        have hm : stripMinus (l ++ rest) = stripMinus l ++ rest := by
          cases l with
          | nil => cases h1
          | cons c t =>
            by_cases hc : c = 0x2D
            · subst hc; rfl
            · rw [List.cons_append, stripMinus_of_ne _ hc, stripMinus_of_ne _ hc]; rfl
        rw [hm, afterInt_append rest h h1, Option.bind_some, afterFrac_append rest h h2,
          Option.bind_some, afterExp_append rest h hl]
        rfl
  cases hs : scanNumber (l ++ rest) with
  | none => rw [hs] at hsnd; cases hsnd
  | some p =>
    obtain ⟨a, b⟩ := p
    rw [hs] at hsnd
    simp only [Option.map_some, Option.some.injEq] at hsnd
    subst hsnd
    have := scanNumber_lit hs
    rw [List.append_cancel_right this]

/-- First byte of a valid number: `-` or a digit. -/
theorem validNumber_head {l : Bytes} (hl : isValidNumber l = true) :
    ∃ c t, l = c :: t ∧ (c = 0x2D ∨ Json.isDigit c = true) := by
  rw [isValidNumber_eq, isNil_eq_true] at hl
  cases l with
  | nil => cases hl
  | cons c t =>
    refine ⟨c, t, rfl, ?_⟩
    by_cases hc : c = 0x2D
    · exact .inl hc
    · right
      rw [stripMinus_of_ne _ hc] at hl
      simp only [afterInt] at hl
      split at hl
      · rename_i h0; simp only [beq_iff_eq] at h0; subst h0; decide
      · split at hl
        · rename_i h0 h1
          simp only [Bool.and_eq_true, decide_eq_true_eq, UInt8.le_iff_toNat_le] at h1
          simp [Json.isDigit, UInt8.le_iff_toNat_le] at h1 ⊢; omega
        · cases hl

theorem scanScalar_number {l : Bytes} (rest : Bytes) (hl : isValidNumber l = true)
    (h : NumberEnds rest) : scanScalar (l ++ rest) = some (.num l, rest) := by
  obtain ⟨c, t, rfl, hc⟩ := validNumber_head hl
  have hq : c ≠ 0x22 := by
    rcases hc with rfl | hc
    · decide
    · intro e; subst e; revert hc; decide
  have hn := scanNumber_valid rest hl h
  have hc' : (c == 0x2D || Json.isDigit c) = true := by
    rcases hc with rfl | hc
    · rfl
    · simp [hc]
  rw [List.cons_append] at hn ⊢
  simp only [scanScalar, beq_iff_eq, hq, if_false, hc', if_true, hn, Option.map_some]

/-! ### Literal tokens -/

theorem scanScalar_null (rest : Bytes) :
    scanScalar ([0x6E, 0x75, 0x6C, 0x6C] ++ rest) = some (.null, rest) := by
  simp [scanScalar, stripPrefix, List.isPrefixOf, (by decide : Json.isDigit 110 = false)]

theorem scanScalar_true (rest : Bytes) :
    scanScalar ([0x74, 0x72, 0x75, 0x65] ++ rest) = some (.tru, rest) := by
  simp [scanScalar, stripPrefix, List.isPrefixOf, (by decide : Json.isDigit 116 = false)]

theorem scanScalar_false (rest : Bytes) :
    scanScalar ([0x66, 0x61, 0x6C, 0x73, 0x65] ++ rest) = some (.fls, rest) := by
  simp [scanScalar, stripPrefix, List.isPrefixOf, (by decide : Json.isDigit 102 = false)]


/-! ### A valid number has no control byte -/

def Printable (s : Bytes) : Prop := ∀ b ∈ s, (0x20 : UInt8) ≤ b

theorem printable_cons {c : UInt8} {t : Bytes} (hc : 0x20 ≤ c) (ht : Printable t) :
    Printable (c :: t) := by
  intro b hb
  rcases List.mem_cons.1 hb with rfl | hb
  · exact hc
  · exact ht b hb

theorem isDigit_ge {c : UInt8} (h : JsonWrite.isDigit c = true) : 0x20 ≤ c := by
  simp [JsonWrite.isDigit, UInt8.le_iff_toNat_le] at h ⊢; omega

theorem printable_of_dropDigits (s : Bytes) (h : Printable (dropDigits s)) : Printable s := by
  induction s with
  | nil => exact h
  | cons c t ih =>
    simp only [dropDigits] at h
    split at h
    · rename_i hc; exact printable_cons (isDigit_ge hc) (ih h)
    · exact h

theorem printable_of_needDigit {u r : Bytes} (hs : needDigit u = some r) (h : Printable r) :
    Printable u := by
  cases u with
  | nil => cases hs
  | cons d t =>
    simp only [needDigit] at hs
    split at hs
    · rename_i hd; injection hs with hs; subst hs
      exact printable_cons (isDigit_ge hd) (printable_of_dropDigits t h)
    · cases hs

theorem printable_of_afterExp {s r : Bytes} (hs : afterExp s = some r) (h : Printable r) :
    Printable s := by
  cases s with
  | nil => injection hs with hs; subst hs; exact h
  | cons e t =>
    rw [afterExp_cons] at hs
    split at hs
    · rename_i he
      have h1 := printable_of_needDigit hs h
      have he' : 0x20 ≤ e := by
        simp only [Bool.or_eq_true, beq_iff_eq] at he
        rcases he with rfl | rfl <;> decide
      refine printable_cons he' ?_
      cases t with
      | nil => intro b hb; cases hb
      | cons sg t' =>
        simp only [stripSign] at h1
        split at h1
        · rename_i hsg
          refine printable_cons ?_ h1
          simp only [Bool.or_eq_true, beq_iff_eq] at hsg
          rcases hsg with rfl | rfl <;> decide
        · exact h1
    · injection hs with hs; subst hs; exact h

theorem printable_of_afterFrac {s r : Bytes} (hs : afterFrac s = some r) (h : Printable r) :
    Printable s := by
  cases s with
  | nil => injection hs with hs; subst hs; exact h
  | cons c t =>
    by_cases hc : c = 0x2E
    · subst hc
      rw [afterFrac_dot] at hs
      exact printable_cons (by decide) (printable_of_needDigit hs h)
    · rw [afterFrac_of_ne t hc] at hs
      injection hs with hs; subst hs; exact h

theorem printable_of_afterInt {s r : Bytes} (hs : afterInt s = some r) (h : Printable r) :
    Printable s := by
  cases s with
  | nil => cases hs
  | cons c t =>
    simp only [afterInt] at hs
    split at hs
    · rename_i h0; simp only [beq_iff_eq] at h0; subst h0
      injection hs with hs; subst hs
      exact printable_cons (by decide) h
    · split at hs
      · rename_i h1
        injection hs with hs; subst hs
        refine printable_cons ?_ (printable_of_dropDigits t h)
        simp [UInt8.le_iff_toNat_le] at h1 ⊢; omega
      · cases hs

/-- Every byte of a valid `json.Number` is ≥ 0x20 (so it holds no newline). -/
theorem validNumber_ge {l : Bytes} (hl : isValidNumber l = true) : Printable l := by
  rw [isValidNumber_eq, isNil_eq_true] at hl
  cases h1 : afterInt (stripMinus l) with
  | none => rw [h1] at hl; cases hl
  | some r1 =>
    rw [h1, Option.bind_some] at hl
    cases h2 : afterFrac r1 with
    | none => rw [h2] at hl; cases hl
    | some r2 =>
      rw [h2, Option.bind_some] at hl
      have p2 : Printable r2 := printable_of_afterExp hl (fun b hb => by cases hb)
      have p1 := printable_of_afterFrac h2 p2
      have p0 := printable_of_afterInt h1 p1
      rcases stripMinus_cases l with hs | hs
      · rw [hs]; exact printable_cons (by decide) p0
      · rw [← hs]; exact p0

/-! ### Non-vacuity on concrete inputs -/

/-- A key with a control byte, a quote, a backslash and an ill-formed byte. -/
example : quote [0x01, 0x22, 0x5C, 0xFF] =
    [0x22, 0x5C, 0x75, 0x30, 0x30, 0x30, 0x31, 0x5C, 0x22, 0x5C, 0x5C,
     0x5C, 0x75, 0x66, 0x66, 0x66, 0x64, 0x22] := by
  simp [quote, quoteBody, htmlSafe, escapeAscii, u00, hexLower, Utf8.seqLen]

example : sanitize [0x01, 0x22, 0x5C, 0xFF] = [0x01, 0x22, 0x5C, 0xEF, 0xBF, 0xBD] := by
  simp [sanitize, Utf8.seqLen, Utf8.replacement]

example (rest : Bytes) : scanScalar (quote [0x01, 0x22, 0x5C, 0xFF] ++ rest) =
    some (.str [0x01, 0x22, 0x5C, 0xEF, 0xBF, 0xBD], rest) := by
  rw [scanScalar_quote]; simp [sanitize, Utf8.seqLen, Utf8.replacement]

/-- newline, `<`, U+2028 and a 2-byte sequence -/
example : quoteBody [0x0A, 0x3C, 0xE2, 0x80, 0xA8, 0xC3, 0xA9] =
    [0x5C, 0x6E, 0x5C, 0x75, 0x30, 0x30, 0x33, 0x63, 0x5C, 0x75, 0x32, 0x30, 0x32, 0x38,
     0xC3, 0xA9] := by
  simp [quoteBody, htmlSafe, escapeAscii, u00, hexLower, Utf8.seqLen, Utf8.isCont]

example : scanScalar ([0x2D, 0x31, 0x2E, 0x35, 0x65, 0x2B, 0x33] ++ [0x2C, 0x31]) =
    some (.num [0x2D, 0x31, 0x2E, 0x35, 0x65, 0x2B, 0x33], [0x2C, 0x31]) :=
  scanScalar_number _ (by decide) (numberEnds_cons _ (by decide))


/-! ### What is read back is well-formed UTF-8 (so a second trip changes nothing) -/

theorem valid_ascii {b : UInt8} (rest : Bytes) (h : b < 0x80) :
    Utf8.valid (b :: rest) = Utf8.valid rest := by
  rw [Utf8.valid.eq_def]; simp only [h, if_true]

theorem valid_seq {b : UInt8} {rest : Bytes} {n : Nat} (hb : ¬ b < 0x80)
    (hl : Utf8.seqLen (b :: rest) = some (n + 2)) (hn : n ≤ 2) :
    Utf8.valid (b :: rest) = Utf8.valid (rest.drop (n + 1)) := by
  rw [Utf8.valid.eq_def]
  simp only [hb, if_false]
  split
  · rename_i h; rw [hl] at h; injection h with h; obtain rfl : n = 0 := by omega
    rfl
  · rename_i h; rw [hl] at h; injection h with h; obtain rfl : n = 1 := by omega
    rfl
  · rename_i h; rw [hl] at h; injection h with h; obtain rfl : n = 2 := by omega
    rfl
  · rename_i h2 h3 h4
    exfalso
    match n, hn with
    | 0, _ => exact h2 hl
    | 1, _ => exact h3 hl
    | 2, _ => exact h4 hl

theorem valid_replacement (X : Bytes) : Utf8.valid (Utf8.replacement ++ X) = Utf8.valid X := by
  have hl : Utf8.seqLen (0xEF :: ([0xBF, 0xBD] ++ X)) = some (1 + 2) := by
    rw [List.cons_append, seqLen_cons2]; rfl
  exact valid_seq (by decide) hl (by omega)

theorem valid_sanitize (s : Bytes) : Utf8.valid (sanitize s) = true := by
  fun_induction sanitize s
  · rw [Utf8.valid.eq_def]
  · rename_i b tl hb ih
    rw [valid_ascii _ hb, ih]
  · rename_i b tl hb hl ih
    obtain ⟨b1, tl', rfl, hX, _⟩ := seqLen_two hl
    simp only [List.take_succ_cons, List.take_zero, List.drop_succ_cons, List.drop_zero,
      List.cons_append, List.nil_append] at ih ⊢
    rw [valid_seq (n := 0) hb (hX _) (by omega)]
    exact ih
  · rename_i b tl hb hl ih
    obtain ⟨b1, b2, tl', rfl, hX, _⟩ := seqLen_three hl
    simp only [List.take_succ_cons, List.take_zero, List.drop_succ_cons, List.drop_zero,
      List.cons_append, List.nil_append] at ih ⊢
    rw [valid_seq (n := 1) hb (hX _) (by omega)]
    exact ih
  · rename_i b tl hb hl ih
    obtain ⟨b1, b2, b3, tl', rfl, hX, _⟩ := seqLen_four hl
    simp only [List.take_succ_cons, List.take_zero, List.drop_succ_cons, List.drop_zero,
      List.cons_append, List.nil_append] at ih ⊢
    rw [valid_seq (n := 2) hb (hX _) (by omega)]
    exact ih
  · rename_i b tl hb h2 h3 h4 ih
    rw [valid_replacement, ih]

/-- A second trip through writer and reader changes nothing more. -/
theorem sanitize_idem (s : Bytes) : sanitize (sanitize s) = sanitize s :=
  sanitize_valid _ (valid_sanitize s)


end Jl.JsonQuote

