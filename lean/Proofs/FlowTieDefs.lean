/-
  Proofs.FlowTieDefs — the interpreters of the regenerated flow facts (definitions only)
  (one of the files Proofs.FlowTie*: split so that a change of one function stops only the properties that
  rest on it; the overview is in Proofs/FlowTie.lean)
-/
import Model.FlowSpec
import Model.Stream
import Model.ValueSyntax
import Gen.FlowTable
import Gen.Sites
import Model.Template
import Model.Value

namespace Jl.FlowTie
open Jl Jl.Flow Jl.Value Jl.Template

/-- The format / raw type a builder declares, given the arguments of the call. -/
def _root_.Jl.Flow.FormatArg.eval (fparam : Format) : FormatArg → Option Format
  | .const f => some f
  | .param => some fparam
  | .unknown _ => none

def _root_.Jl.Flow.RawTypeArg.eval (tparam : Ty) : RawTypeArg → Option Ty
  | .nil => some .none
  | .param => some tparam
  | .unknown _ => none

/-- A builder of the table run on the prototype `t` with the arguments `(name, fparam, tparam, sub)`
    (`sub` = the prototype of the Template argument, `how` = what `CreateRowEmpty` hands out).
    `none` = abstain. -/
def builderG (env : Env) (how : RowSrc) (b : Builder) (t : Tmpl) (name : Bytes) (fparam : Format) (tparam : Ty)
    (sub : Tmpl) : Option (Outcome Tmpl) :=
  match b with
  | .column cell fa ta =>
    match fa.eval fparam, ta.eval tparam with
    | some f, some typ =>
      match cell with
      | .literal => some (.ok (upsert t name (.cell .nil f typ)))
      | .newValue =>
        some (match newValue env .nil f typ with
          | .ok c => .ok (upsert t name c)
          | .err e => .err e
          | .panic s => .panic s)
    | _, _ => none
  | .subRow =>
    match how with
    | .cloneOfProto =>
      some (match cloneRow env sub with
        | .ok r => .ok (upsert t name (.row (Members.ofList r)))
        | .err e => .err e
        | .panic s => .panic s)
    | _ => none
  | .unknown _ => none

def runBuilder (env : Env) (method : String) (t : Tmpl) (name : Bytes) (fparam : Format) (tparam : Ty) (sub : Tmpl) :
    Option (Outcome Tmpl) :=
  match Gen.flowTable.builders.lookup method with
  | some b => builderG env Gen.flowTable.createRowEmpty b t name fparam tparam sub
  | none => none

/-- The kind of an input, as `CreateRow`'s type switch sees it (nil and every other dynamic type: none of the cases). -/
def kindOf : Dyn → Option InputKind
  | .arr _ => some .slice
  | .gomap _ => some .map
  | .val (.row _) => some .row
  | .bytes _ => some .bytes
  | .str _ => some .string
  | _ => none

/-- The class (`errors.Is`) of the sentinel a `.fail` names. -/
def sentinelClass : String → Option ErrClass
  | "ErrUnsupportedImportType" => some .unsupportedImport
  | "ErrUnsupportedExportType" => some .unsupportedExport
  | "ErrUnsupportedFormat" => some .unsupportedFormat
  | _ => none

/-- One branch of the table on the row `row` (= what `on` says) and the input `v`, from the meaning of the
    constructors: by position = `fillSlice` (GetValueAtIndex / SetValueAtIndex), by key = `fillPairs`
    (GetValue / SetValue), text = `unmarshalInto`.  `none` = abstain. -/
def branchG (env : Env) (row : List (Bytes × Val)) (br : Flow.Branch) (v : Dyn) :
    Option (Outcome (List (Bytes × Val) × Option ErrClass)) :=
  let wrap (o : Outcome (List (Bytes × Val))) : Outcome (List (Bytes × Val) × Option ErrClass) :=
    match o with
    | .ok r => .ok (r, none)
    | .err e => .err e
    | .panic s => .panic s
  match br, v with
  | .fill .cloneOfProto .range "GetValueAtIndex" "SetValueAtIndex" false, .arr xs =>
    some (wrap (fillSlice env row 0 xs.toList))
  | .fill .cloneOfProto .range "GetValue" "SetValue" false, .gomap kvs =>
    some (wrap (fillPairs env row kvs.toList))
  | .fill .cloneOfProto .iterValues "GetValue" "SetValue" true, .val (.row ms) =>
    some (wrap (fillPairs env row (ms.toList.map fun (k, c) => (k, Cells.raw c))))
  | .text .cloneOfProto _ _, .bytes s => some (unmarshalInto env row s)
  | .text .cloneOfProto _ _, .str s => some (unmarshalInto env row s)
  | .fail _ s, _ => (sentinelClass s).map fun c => .ok (row, some c)
  | _, _ => none

/-- `CreateRow(v)` as the table says it: the clone first, then the branch of `v`'s kind. -/
def createRowG (c : Flow.CreateRow) (env : Env) (t : Tmpl) (v : Dyn) :
    Option (Outcome (List (Bytes × Val) × Option ErrClass)) :=
  match cloneRow env t with
  | .err e => some (.err e)
  | .panic s => some (.panic s)
  | .ok row =>
    match kindOf v with
    | some k =>
      match c.cases.lookup k with
      | some br => branchG env row br v
      | none => branchG env row c.dflt v
    | none => branchG env row c.dflt v

/-- `.oneWrite sep _`: `CreateRow`, `MarshalJSON`, ONE write of the bytes followed by `sep`; nothing
    written when one of the two failed.  The bytes of the write, or the error. `none` = abstain. -/
def exportG (e : Flow.Export) (env : Env) (t : Tmpl) (v : Dyn) : Option (Outcome (Bytes × Option ErrClass)) :=
  match e with
  | .oneWrite sep _ =>
    some (
      match createRow env t v with
      | .err e => .err e
      | .panic s => .panic s
      | .ok (_, some e) => .ok ([], some e)
      | .ok (row, none) =>
        match RowPrint.marshalRow env (Members.ofList row) with
        | .ok b => .ok (b ++ [UInt8.ofNat sep], none)
        | .err .ext => .err .ext
        | .err e => .ok ([], some e)
        | .panic s => .panic s)
  | .unknown _ => none

/-- `.scannerErrThenParse`: after a scan that left no error, `CreateRowEmpty` of the importer's template and
    `UnmarshalJSON` of the scanned bytes. -/
def getRowG (g : Flow.GetRow) (how : RowSrc) (env : Env) (t : Tmpl) (line : Bytes) :
    Option (Outcome (List (Bytes × Val) × Option ErrClass)) :=
  match g, how with
  | .scannerErrThenParse _ _, .cloneOfProto =>
    some (
      match cloneRow env t with
      | .err e => .err e
      | .panic s => .panic s
      | .ok row => unmarshalInto env row line)
  | _, _ => none

def procG : Processor → Option Stream.Proc
  | .returnsErr => some .default
  | .returnsNil => some .tolerant
  | .unknown _ => none

/-- What `Stream.loop` records for a processor call: (row ≠ nil, an error was passed).  `rowWithErr` =
    what GetRow returns as row together with an error; `failed` = the call follows a GetRow error. -/
def _root_.Jl.Flow.ProcCall.recorded (c : ProcCall) (rowWithErr : RowRet) (failed : Bool) : Bool × Bool :=
  (match c.row with
   | .nil => false
   | .row => if failed then (match rowWithErr with | .nil => false | .row => true) else true,
   match c.err with
   | .none => false
   | _ => true)

end Jl.FlowTie
