#!/bin/sh
# controls: apply each control patch alone to a scratch copy of /repo HEAD, rerun the extractor, compare RowFacts
export GOFLAGS=-mod=mod GOPROXY=off GOSUMDB=off GOTOOLCHAIN=local
for p in ${@:-H2-1 K4-3 H2-4 H2-5 H2-6 K2-5 K2-4 K2-6}; do
  t=/tmp/agentR_ctl/$p; rm -rf $t; mkdir -p $t/tree $t/gen
  git -C /repo archive HEAD | tar -x -C $t/tree
  (cd $t/tree && git apply --unsafe-paths /verif/seeded/$p/patch.diff 2>/dev/null || patch -p1 -s < /verif/seeded/$p/patch.diff) || echo "PATCH FAILED $p"
  (cd $t/tree && go build ./... ) || echo "BUILD FAILED $p"
  line=$(ROWFACTS_DEBUG=$ROWFACTS_DEBUG /root/scratch/agentR/extract.bin -repo $t/tree -out $t/gen | grep RowFacts)
  if cmp -s $t/gen/RowFacts.lean /root/scratch/agentR/lean/Gen/RowFacts.lean; then echo "$p: facts unchanged | $line"; else echo "$p: CHANGED | $line"; diff $t/gen/RowFacts.lean /root/scratch/agentR/lean/Gen/RowFacts.lean | grep '^<' | cut -c1-400; fi
done
# with LAKE=1: for a control whose facts changed (an accepted alternative), put them in lean/Gen and build the ties and the Props that use them
if [ -n "$LAKE" ]; then
  cp /root/scratch/agentR/lean/Gen/RowFacts.lean /tmp/agentR_ctl/RowFacts.clean
  for p in ${@:-H2-1 K4-3 H2-4 H2-5 H2-6 K2-5 K2-4 K2-6}; do
    if ! cmp -s /tmp/agentR_ctl/$p/gen/RowFacts.lean /tmp/agentR_ctl/RowFacts.clean; then
      cp /tmp/agentR_ctl/$p/gen/RowFacts.lean /root/scratch/agentR/lean/Gen/RowFacts.lean
      (cd /root/scratch/agentR/lean && lake build Proofs.RowTie Proofs.RowTieAll Proofs.RowTieGetters Proofs.RowTieMarshal Proofs.RowTieText Props.C01 Props.C03 Props.C06 Props.C16 Props.C17 Props.C18 >/tmp/agentR_ctl/$p/lake.log 2>&1 && echo "$p: ties and Props BUILD" || { echo "$p: ties FAIL"; grep "^error" /tmp/agentR_ctl/$p/lake.log | cut -c1-200 | head -5; })
    fi
  done
  cp /tmp/agentR_ctl/RowFacts.clean /root/scratch/agentR/lean/Gen/RowFacts.lean
  (cd /root/scratch/agentR/lean && lake build Proofs.RowTie Proofs.RowTieAll Proofs.RowTieGetters Proofs.RowTieMarshal Proofs.RowTieText Props.C01 Props.C03 Props.C06 Props.C16 Props.C17 Props.C18 2>&1 | tail -1)
fi
