#!/bin/sh
# tools/rebaseline.sh — rewrite lean/Model/BaselineCast.lean from the cast tables of the tree as it is now (run on the
# unchanged tree, after a "fix:" commit that touches pkg/cast). The baseline is what the drivers fall back to for a
# caster the translator can no longer read (DESIGN §4.1); no theorem mentions it.
set -e
cd "$(dirname "$0")/.."
[ -z "$(git -C "${VERIF_REPO:-/repo}" status --porcelain)" ] || { echo "tree not clean"; exit 2; }
.work/extract -repo "${VERIF_REPO:-/repo}" -out lean/Gen >/dev/null
{
  echo "-- BASELINE: the cast tables of the pinned tree (commit $(git -C "${VERIF_REPO:-/repo}" rev-parse --short HEAD)), written by tools/rebaseline.sh."
  echo "-- Used ONLY by the drivers, as the semantics to compare with when the translator cannot read a caster any more."
  sed -e '1d' -e 's/^namespace Jl.Gen$/namespace Jl.Baseline/' -e 's/^end Jl.Gen$/end Jl.Baseline/' lean/Gen/CastTable.lean
} > lean/Model/BaselineCast.lean
echo "baseline rewritten"
