#!/bin/sh
# tools/seedall.sh [tier]  — every seeded change against the check of the property it breaks (serially;
# /repo is restored after each). Extra properties recorded earlier in meta.json are kept.
cd "$(dirname "$0")/.."
tier="${1:-quick}"
for d in seeded/*/; do
  sid=$(basename "$d")
  printf '%s: ' "$sid"
  tools/seedcheck.py run "$sid" "$tier" 2>&1 | grep -E "^C[0-9][0-9] exit=" | sed -E 's/replay=[^ ]+//' | tr '\n' ' '
  echo
done
