#!/bin/sh
# tools/seedrun.sh <patch.diff> <tier> <Cxx> [<Cyy> …]
# Applies a seeded change to /repo (or $VERIF_REPO), runs the named checks, and restores the tree straight afterwards
# (also on interruption). Prints one line per check:  <Cxx> exit=<n> <VIOLATION line or "-">
# Never used by a registered check; evidence written during the run is restored from git afterwards.
set -u
patch="$1"; tier="$2"; shift 2
cd "$(dirname "$0")/.."
# VERIF_REPO (default /repo): the tree the change is applied to and the checks read — a scratch copy when the
# campaign runs beside other work (vp run --with-repo: VERIF_REPO=$VP_RUN_REPO)
repo="${VERIF_REPO:-/repo}"
if [ -n "$(git -C "$repo" status --porcelain)" ]; then echo "$repo is not clean"; exit 2; fi
restore() { git -C "$repo" checkout -- . ; git -C "$repo" clean -fdq; git checkout -q -- evidence lean/Gen 2>/dev/null; }
trap restore EXIT INT TERM
if ! git -C "$repo" apply "$patch"; then echo "patch does not apply"; exit 2; fi
for p in "$@"; do
  out=$(./check "$p" --tier "$tier" 2>&1); rc=$?
  v=$(printf '%s\n' "$out" | grep '^VIOLATION' | head -1)
  printf '%s exit=%s %s\n' "$p" "$rc" "${v:--}"
  if [ -n "$v" ]; then
    rp=$(printf '%s' "$v" | sed -E 's/.*replay=([^ ]+).*/\1/')
    [ -f "$rp" ] && python3 -c "
import json,sys
r=json.load(open('$rp'))
d=r.get('detail') or r.get('correspondence_detail') or r.get('what') or ''
b=r.get('broken_obligations') or []
print('   detail:', d[:300].replace('\n',' '))
for x in b[:3]: print('   broken:', x['what'], '|', x['detail'][:300].replace('\n',' '))
"
  fi
done
