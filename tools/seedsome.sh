#!/bin/sh
# tools/seedsome.sh <tier> <glob of seeded ids> [all]  — like seedall.sh for the ids matching the shell pattern;
# with "all" every check is run against each (controls). Honours VERIF_REPO (see seedrun.sh).
cd "$(dirname "$0")/.."
tier="$1"; pat="$2"; what="${3:-}"
for d in seeded/$pat/; do
  sid=$(basename "$d")
  printf '%s: ' "$sid"
  tools/seedcheck.py run "$sid" "$tier" $what 2>&1 | grep -E "^C[0-9][0-9] exit=[1-9]|^C[0-9][0-9] exit=0" | grep -v "exit=0 -" | sed -E 's/replay=[^ ]+//' | tr '\n' ' '
  echo
done
echo ALLDONE
