#!/bin/sh
# tools/seedconfirm.sh <worktree> <seed dir with patch.diff and demo/>
# Confirms a seeded change in a scratch worktree of /repo (never /repo itself):
#   patch applies; go build + full test suite pass with it; the demonstration fails with it
#   and passes without it.  Demo conventions: demo/*_test.go (dropped into the package its
#   `package` clause names), demo/main.go, or demo/run.sh <tree> (exit status 0 = property holds).
# Prints: applies=… suite=… demo_with=… demo_without=…
set -u
wt="$1"; sd="$2"
export GOFLAGS=-mod=mod GOPROXY=off GOSUMDB=off GOTOOLCHAIN=local
cd "$wt" || exit 2
git checkout -q -- . ; git clean -fdq
pkgdir_of() { # package clause -> directory
  p=$(grep -m1 -E '^package ' "$1" | awk '{print $2}')
  case "$p" in
    jsonline|jsonline_test) echo pkg/jsonline ;;
    cast|cast_test) echo pkg/cast ;;
    main) if grep -q 'cgi-fr/jsonline/cmd/jl\|package main' "$1" && grep -q 'func Test' "$1"; then echo cmd/jl; else echo ""; fi ;;
    *) echo "" ;;
  esac
}
run_demo() {
  rc=0
  found=0
  for f in "$sd"/demo/*_test.go; do
    [ -f "$f" ] || continue
    found=1
    d=$(pkgdir_of "$f"); [ -n "$d" ] || { echo "unknown package for $f" >&2; return 3; }
    cp "$f" "$d/zz_seed_$(basename "$f")"
  done
  if [ $found = 1 ]; then
    for d in pkg/jsonline pkg/cast cmd/jl; do
      if ls $d/zz_seed_* >/dev/null 2>&1; then
        names=$(grep -ohE '^func (Test[A-Za-z0-9_]+)' $d/zz_seed_* | awk '{print $2}' | paste -sd'|')
        go test -vet=off -count=1 -run "^($names)\$" ./$d >/tmp/seedconfirm.$$ 2>&1 || rc=1
        tail -5 /tmp/seedconfirm.$$ | sed 's/^/      /' >&2
        rm -f $d/zz_seed_*
      fi
    done
    rm -f /tmp/seedconfirm.$$
    return $rc
  fi
  if [ -f "$sd/demo/main.go" ]; then
    mkdir -p zz_seed_demo && cp "$sd"/demo/*.go zz_seed_demo/
    go run ./zz_seed_demo >/tmp/seedconfirm.$$ 2>&1 || rc=1
    tail -5 /tmp/seedconfirm.$$ | sed 's/^/      /' >&2
    rm -rf zz_seed_demo /tmp/seedconfirm.$$
    return $rc
  fi
  if [ -f "$sd/demo/run.sh" ]; then
    sh "$sd/demo/run.sh" "$wt" >/tmp/seedconfirm.$$ 2>&1 || rc=1
    tail -3 /tmp/seedconfirm.$$ | sed 's/^/      /' >&2
    rm -f /tmp/seedconfirm.$$
    return $rc
  fi
  echo "no demo recognised" >&2; return 3
}
run_demo; without=$?
if git apply "$sd/patch.diff"; then applies=yes; else echo "applies=no"; exit 1; fi
if go build ./... >/dev/null 2>&1 && go test -vet=off -count=1 ./... >/tmp/seedsuite.$$ 2>&1; then suite=pass; else suite=FAIL; tail -20 /tmp/seedsuite.$$ >&2; fi
rm -f /tmp/seedsuite.$$
run_demo; with=$?
git checkout -q -- . ; git clean -fdq
echo "applies=$applies suite=$suite demo_with=$([ $with = 1 ] && echo violated || echo rc$with) demo_without=$([ $without = 0 ] && echo holds || echo rc$without)"
