#!/usr/bin/env python3
"""Robustness table of Proofs.RowTie: each edit of row.go alone on a scratch copy of /repo's HEAD (must still
`go build ./...`), the extractor rerun, `lake build Proofs.RowTie`.  Needs extract.bin built; restores Gen/RowFacts.lean.
Usage: python3 rowtie_robustness.py [edit numbers…]; scratch under /tmp/agentR_* (remove afterwards)."""
import os, re, shutil, subprocess, sys, json
ENV = dict(os.environ, GOFLAGS="-mod=mod", GOPROXY="off", GOSUMDB="off", GOTOOLCHAIN="local")
CLEAN = "/tmp/agentR_tree"
LEAN = "/root/scratch/agentR/lean"
EXTRACT = "/root/scratch/agentR/extract.bin"
ROB = "/tmp/agentR_rob"
TARGETS = ["Proofs.RowTie", "Proofs.RowTieAll", "Proofs.RowTieGetters", "Proofs.RowTieMarshal", "Proofs.RowTieText"]

def sub1(s, old, new, count=1):
    assert s.count(old) >= 1, "pattern not found: " + old[:60]
    if count == 0:
        return s.replace(old, new)
    assert s.count(old) == count, "pattern count %d != %d: %s" % (s.count(old), count, old[:60])
    return s.replace(old, new)

def rename(s):
    for a, b in [("r", "self"), ("key", "name"), ("val", "thing"), ("value", "cellv"), ("cur", "elt"), ("index", "pos"),
                 ("exist", "present"), ("res", "buf"), ("b", "piece"), ("e", "el"), ("k", "kk"), ("t", "tok"), ("dec", "d"),
                 ("existing", "old"), ("values", "items"), ("sub", "inner"), ("row", "cursor"), ("keys", "segs"), ("ok", "yes")]:
        if a in ("row", "keys", "value"):
            continue
        s = re.sub(r"\b%s\b" % a, b, s)
    return s

def rename2(s):
    # locals that collide with type / field names: done by hand
    s = s.replace("value, exist := r.m[key]; exist {", "cellv, exist := r.m[key]; exist {")
    s = s.replace("if err := value.Import(val); err != nil {\n\t\t\treturn fmt.Errorf(\"%w\", err)\n\t\t}\n\n\t\tr.m[key] = value",
                  "if err := cellv.Import(val); err != nil {\n\t\t\treturn fmt.Errorf(\"%w\", err)\n\t\t}\n\n\t\tr.m[key] = cellv")
    s = s.replace("cast.To(value.GetRawType(), val)", "cast.To(cellv.GetRawType(), val)")
    s = s.replace("NewValue(raw, value.GetFormat(), value.GetRawType())", "NewValue(raw, cellv.GetFormat(), cellv.GetRawType())")
    s = s.replace("NewValue(val, value.GetFormat(), value.GetRawType())", "NewValue(val, cellv.GetFormat(), cellv.GetRawType())")
    s = s.replace("\tkeys := strings.Split(path, \".\")\n\n\tvar row Row = r\n\n\tfor i, key := range keys {\n\t\tvalue, exist := row.GetValue(key)\n\t\tif !exist {\n\t\t\treturn nil, false\n\t\t}\n\n\t\tif i == len(keys)-1 {\n\t\t\treturn value, true\n\t\t}\n\n\t\tsub, ok := asRow(value)\n\t\tif !ok {\n\t\t\treturn nil, false\n\t\t}\n\n\t\trow = sub\n\t}\n\n\treturn row, true",
                  "\tsegs := strings.Split(path, \".\")\n\n\tvar at Row = r\n\n\tfor n, seg := range segs {\n\t\tfound, has := at.GetValue(seg)\n\t\tif !has {\n\t\t\treturn nil, false\n\t\t}\n\n\t\tif n == len(segs)-1 {\n\t\t\treturn found, true\n\t\t}\n\n\t\tinner, yes := asRow(found)\n\t\tif !yes {\n\t\t\treturn nil, false\n\t\t}\n\n\t\tat = inner\n\t}\n\n\treturn at, true")
    return rename(s)

def has_helper(s):
    return sub1(s, "if _, ok := r.m[key]; !ok {", "if !r.Has(key) {", 3)

def early_returns(s):
    s = sub1(s, """	if value, exist := r.GetValueAtPath(path); exist {
		if err := value.Import(val); err != nil {
			return fmt.Errorf("%w", err)
		}
	} else {
		return fmt.Errorf("%w", ErrPathNotFound)
	}

	return nil""", """	value, exist := r.GetValueAtPath(path)
	if !exist {
		return fmt.Errorf("%w", ErrPathNotFound)
	}

	if err := value.Import(val); err != nil {
		return fmt.Errorf("%w", err)
	}

	return nil""")
    s = sub1(s, """	if value, exist := r.m[key]; exist {
		if err := value.Import(val); err != nil {
			return fmt.Errorf("%w", err)
		}

		r.m[key] = value
	} else if value, ok := val.(Value); ok {
		r.m[key] = value
	} else {
		r.m[key] = NewValueAuto(val)
	}

	return nil""", """	if value, exist := r.m[key]; exist {
		err := value.Import(val)
		if err == nil {
			r.m[key] = value

			return nil
		}

		return fmt.Errorf("%w", err)
	}

	if value, ok := val.(Value); ok {
		r.m[key] = value

		return nil
	}

	r.m[key] = NewValueAuto(val)

	return nil""")
    s = sub1(s, """	val, ok := r.m[key]
	if ok {
		return val.Raw(), ok
	}

	return nil, ok""", """	if val, ok := r.m[key]; !ok {
		return nil, false
	} else {
		return val.Raw(), true
	}""")
    return s

def push_helper(s):
    s = sub1(s, "r.keys[key] = r.l.PushBack(key)", "r.push(key)", 4)
    return s + "\nfunc (r *row) push(key string) {\n\tr.keys[key] = r.l.PushBack(key)\n}\n"

def messages(s):
    s = sub1(s, 'fmt.Errorf("%w", err)', 'fmt.Errorf("row: cannot import: %w", err)', 0)
    s = sub1(s, 'fmt.Errorf("%w", ErrPathNotFound)', 'fmt.Errorf("no such path %q: %w", path, ErrPathNotFound)')
    s = sub1(s, 'fmt.Errorf("%w", ErrUnsupportedImportType)', 'fmt.Errorf("%w: %T", ErrUnsupportedImportType, v)')
    s = sub1(s, """fmt.Errorf("expect JSON object open with '{'")""", """fmt.Errorf("a row is a JSON object")""")
    s = sub1(s, 'fmt.Errorf("expecting JSON key should be always a string: %T: %v", t, t)', 'fmt.Errorf("member name %v is a %T, not a string", t, t)')
    s = sub1(s, 'fmt.Errorf("expect end of JSON object but got more token: %T: %v or err: %v", t, t, err)', 'fmt.Errorf("trailing data after the object (%v)", err)')
    s = sub1(s, """fmt.Errorf("expect JSON object close with '}'")""", """fmt.Errorf("unterminated object")""")
    s = sub1(s, 'fmt.Errorf("Unexpected delimiter: %q", delim)', 'fmt.Errorf("delimiter %v out of place", delim)')
    return s

def reorder(s):
    head, *funcs = re.split(r"\n(?=(?://nolint\n)?func )", s)
    # keep "// asRow ..." comment lines attached: they end the previous chunk, harmless
    funcs = [f.rstrip("\n") + "\n" for f in funcs]
    funcs.reverse()
    return head.rstrip("\n") + "\n\n" + "\n".join(funcs)

def append_grouping_a(s):
    s = sub1(s, "\t\t\tres = append(res, b...)\n\t\t\tres = append(res, ':')\n", "\t\t\tres = append(append(res, b...), ':')\n")
    s = sub1(s, "\t\t\tres = append(res, b...)\n\t\t\tres = append(res, ',')\n", "\t\t\tres = append(append(res, b...), ',')\n")
    s = sub1(s, "\tres = append(res, '{')\n", "\tres = []byte{'{'}\n")
    return s

def append_grouping_b(s):
    return sub1(s, """			var b []byte

			b, err = json.Marshal(k)
			if err != nil {
				return
			}

			res = append(res, b...)
			res = append(res, ':')

			b, err = json.Marshal(r.m[k])
			if err != nil {
				return
			}

			res = append(res, b...)
			res = append(res, ',')""", """			var kb, vb []byte

			kb, err = json.Marshal(k)
			if err != nil {
				return
			}

			vb, err = json.Marshal(r.m[k])
			if err != nil {
				return
			}

			res = append(res, kb...)
			res = append(append(append(res, ':'), vb...), ',')""")

SET_PRESENT = """		if raw, err := cast.To(value.GetRawType(), val); err != nil {
			r.m[key] = NewValue(raw, value.GetFormat(), value.GetRawType())
		} else {
			r.m[key] = NewValue(val, value.GetFormat(), value.GetRawType())
		}
"""

def set_in_place(s):
    return sub1(s, "	if value, exist := r.m[key]; exist {\n" + SET_PRESENT, """	if existing, exist := r.m[key]; exist {
		if cell, isCell := existing.(*value); isCell {
			if raw, err := cast.To(cell.typ, val); err != nil {
				cell.raw = raw
			} else {
				cell.raw = val
			}
		}
""")

def set_is_import(s):
    i = s.index("func (r *row) Set(key string, val interface{}) {")
    j = s.index("func (r *row) SetAtIndex(")
    return s[:i] + "func (r *row) Set(key string, val interface{}) {\n\t_ = r.ImportAtKey(key, val)\n}\n\n" + s[j:]

def push_always(s):
    return sub1(s, """func (r *row) SetValue(key string, val Value) Row {
	if _, ok := r.m[key]; !ok {
		r.keys[key] = r.l.PushBack(key)
	}
""", """func (r *row) SetValue(key string, val Value) Row {
	r.keys[key] = r.l.PushBack(key)
""")

def setvalue_clones(s):
    return sub1(s, "\tr.m[key] = val\n\n\treturn r\n", "\tr.m[key] = CloneValue(val)\n\n\treturn r\n")

def marshal_percent_q(s):
    return sub1(s, """			b, err = json.Marshal(k)
			if err != nil {
				return
			}
""", """			b = []byte(fmt.Sprintf("%q", k))
""")

def marshal_plain_keys(s):
    return sub1(s, """			b, err = json.Marshal(k)
			if err != nil {
				return
			}

			res = append(res, b...)
""", """			res = append(res, '"')
			res = append(res, k...)
			res = append(res, '"')
""")

def marshal_comma_by_position(s):
    s = sub1(s, """			var b []byte

			b, err = json.Marshal(k)""", """			var b []byte

			if e != r.l.Front() {
				res = append(res, ',')
			}

			b, err = json.Marshal(k)""")
    s = sub1(s, "\t\t\tres = append(res, b...)\n\t\t\tres = append(res, ',')\n", "\t\t\tres = append(res, b...)\n")
    s = sub1(s, """	if len(res) > 1 {
		res[len(res)-1] = '}'
	} else {
		res = append(res, '}')
	}
""", "\tres = append(res, '}')\n")
    return s

def marshal_skip_nil(s):
    return sub1(s, "if r.m[k].GetFormat() != Hidden {", "if r.m[k].Raw() != nil {")

def no_usenumber(s):
    return sub1(s, "\tdec.UseNumber()\n", "")

def case_insensitive(s):
    return sub1(s, """			return fmt.Errorf("expecting JSON key should be always a string: %T: %v", t, t)
		}
""", """			return fmt.Errorf("expecting JSON key should be always a string: %T: %v", t, t)
		}

		key = strings.ToLower(key)
""")

def case_insensitive_lookup(s):
    return sub1(s, "\t\tif existing, ok := r.m[key]; ok {\n\t\t\tif err := existing.Import(value)", """		if existing, ok := r.foldedLookup(key); ok {
			if err := existing.Import(value)""") + """
func (r *row) foldedLookup(key string) (Value, bool) {
	for k, v := range r.m {
		if strings.EqualFold(k, key) {
			return v, true
		}
	}

	return nil, false
}
"""

def parse_by_path(s):
    return sub1(s, "\t\tif existing, ok := r.m[key]; ok {\n\t\t\tif err := existing.Import(value)", "\t\tif existing, ok := r.GetValueAtPath(key); ok {\n\t\t\tif err := existing.Import(value)")

def import_continues(s):
    return sub1(s, """		for i, val := range values {
			if err := r.ImportAtIndex(i, val); err != nil {
				return err
			}
		}
""", """		var first error

		for i, val := range values {
			if err := r.ImportAtIndex(i, val); err != nil && first == nil {
				first = err
			}
		}

		return first
""")

def import_skips(s):
    return sub1(s, """			if err := r.ImportAtIndex(i, val); err != nil {
				return err
			}
""", """			if err := r.ImportAtIndex(i, val); err != nil {
				continue
			}
""")

def importatkey_early(s):
    return sub1(s, """func (r *row) ImportAtKey(key string, val interface{}) error {
	if _, ok := r.m[key]; !ok {
		r.keys[key] = r.l.PushBack(key)
	}
""", """func (r *row) ImportAtKey(key string, val interface{}) error {
	if _, ok := r.m[key]; !ok {
		r.keys[key] = r.l.PushBack(key)

		if val == nil {
			return nil
		}
	}
""")

def path_literal_first(s):
    return sub1(s, """func (r *row) GetValueAtPath(path string) (Value, bool) {
	keys := strings.Split(path, ".")
""", """func (r *row) GetValueAtPath(path string) (Value, bool) {
	if whole, ok := r.m[path]; ok {
		return whole, true
	}

	keys := strings.Split(path, ".")
""")

def path_literal_rest(s):
    return sub1(s, """		if i == len(keys)-1 {
			return value, true
		}
""", """		if i == len(keys)-1 {
			return value, true
		}

		if rest, ok := row.GetValue(key + "." + strings.Join(keys[i+1:], ".")); ok {
			return rest, true
		}
""")

def getter_conversion(s):
    return sub1(s, """	result, _ := cast.ToInt8(r.GetOrNil(key))

	v, _ := result.(int8)

	return v""", """	result, _ := cast.ToInt64(r.GetOrNil(key))

	v, _ := result.(int64)

	return int8(v)""")

def getter_single_assert(s):
    return sub1(s, "\tv, _ := result.(int16)\n\n\treturn v", "\treturn result.(int16)")

def mapto_no_canint(s):
    return sub1(s, """			if i, _ := cast.ToInt64(val); field.CanInt() {
				field.SetInt(i.(int64))
			}""", """			i, _ := cast.ToInt64(val)
			field.SetInt(i.(int64))""")


WALK = """	for cur := r.l.Front(); cur != nil; cur = cur.Next() {
		if index == 0 {
			key, _ = cur.Value.(string)

			break
		}
		index--
	}
"""

def walk_rewritten(s):
    return sub1(s, WALK, """	for cur := r.l.Front(); cur != nil; cur = cur.Next() {
		if index != 0 {
			index--

			continue
		}

		key, _ = cur.Value.(string)

		break
	}
""", 6)

def import_if_chain(s):
    i = s.index("func (r *row) Import(v interface{}) error {")
    j = s.index("func (r *row) ImportAtKey(")
    return s[:i] + """func (r *row) Import(v interface{}) error {
	if values, ok := v.([]interface{}); ok {
		for i, val := range values {
			err := r.ImportAtIndex(i, val)
			if err != nil {
				return err
			}
		}

		return nil
	}

	if values, ok := v.(map[string]interface{}); ok {
		for key, val := range values {
			err := r.ImportAtKey(key, val)
			if err != nil {
				return err
			}
		}

		return nil
	}

	return fmt.Errorf("%w", ErrUnsupportedImportType)
}

""" + s[j:]

def delete_method(s):
    return s + """
func (r *row) Delete(key string) {
	if e, ok := r.keys[key]; ok {
		r.l.Remove(e)
		delete(r.m, key)
		delete(r.keys, key)
	}
}
"""

def set_moves_to_back(s):
    return sub1(s, "	if value, exist := r.m[key]; exist {\n" + SET_PRESENT, "	if value, exist := r.m[key]; exist {\n		r.l.MoveToBack(r.keys[key])\n" + SET_PRESENT)

def import_accepts_row(s):
    return sub1(s, """	default:
		return fmt.Errorf("%w", ErrUnsupportedImportType)""", """	case Row:
		iter := values.IterValues()
		for k, val, ok := iter(); ok; k, val, ok = iter() {
			if err := r.ImportAtKey(k, val); err != nil {
				return err
			}
		}
	default:
		return fmt.Errorf("%w", ErrUnsupportedImportType)""")

def parse_replaces(s):
    return sub1(s, """		if existing, ok := r.m[key]; ok {
			if err := existing.Import(value); err != nil {
				return err
			}
		} else {""", """		if _, ok := r.m[key]; ok {
			r.m[key] = NewValueAuto(value)
		} else {""")

def set_wraps_values(s):
    return sub1(s, """	} else if value, ok := val.(Value); ok {
		r.m[key] = value
	} else {
		r.m[key] = NewValueAuto(val)
	}
}""", """	} else {
		r.m[key] = NewValueAuto(val)
	}
}""")

def unmarshal_allows_trailing(s):
    return sub1(s, """	t, err = dec.Token()
	if err != io.EOF {
		return fmt.Errorf("expect end of JSON object but got more token: %T: %v or err: %v", t, t, err)
	}

	return nil""", """	return nil""")

K24_TYPE = """
// rowIterator walks the members of a row in the order of the keys.
type rowIterator struct {
	r       *row
	current *list.Element
}

func (r *row) newIterator() *rowIterator {
	return &rowIterator{r: r, current: r.l.Front()}
}

func (it *rowIterator) nextValue() (string, Value, bool) {
	if it.current == nil {
		return "", nil, false
	}

	key, _ := it.current.Value.(string)
	it.current = it.current.Next()

	return key, it.r.m[key], true
}

func (it *rowIterator) nextRaw() (string, interface{}, bool) {
	key, val, ok := it.nextValue()
	if !ok {
		return "", nil, false
	}

	return key, val.Raw(), true
}
"""

def k24(s):
    i = s.index("func (r *row) Iter() func() (string, interface{}, bool) {")
    j = s.index("func (r *row) GetValue(")
    s = s[:i] + "func (r *row) Iter() func() (string, interface{}, bool) {\n\treturn r.newIterator().nextRaw\n}\n\n" + s[j:]
    i = s.index("func (r *row) IterValues() func() (string, Value, bool) {")
    j = s.index("func (r *row) MapTo(")
    s = s[:i] + "func (r *row) IterValues() func() (string, Value, bool) {\n\treturn r.newIterator().nextValue\n}\n" + K24_TYPE + "\n" + s[j:]
    return s

def k24_second(s):
    return sub1(k24(s), "\treturn &rowIterator{r: r, current: r.l.Front()}\n", "\tfirst := r.l.Front()\n\tif first != nil {\n\t\tfirst = first.Next()\n\t}\n\n\treturn &rowIterator{r: r, current: first}\n")

def k24_twice(s):
    return sub1(k24(s), "\tit.current = it.current.Next()\n", "\tit.current = it.current.Next()\n\tif it.current != nil {\n\t\tit.current = it.current.Next()\n\t}\n")

def k24_not_raw(s):
    return sub1(k24(s), "\treturn key, val.Raw(), true\n", "\treturn key, val, true\n")

def k24_no_advance(s):
    return sub1(k24(s), "\tit.current = it.current.Next()\n", "")

def k24_back(s):
    return sub1(sub1(k24(s), "current: r.l.Front()}", "current: r.l.Back()}"), "\tit.current = it.current.Next()\n", "\tit.current = it.current.Prev()\n")

EDITS = [
 ("H", "clean tree", lambda s: s),
 ("H", "rename locals and the receiver", rename2),
 ("H", "`_, ok := r.m[key]; !ok` rewritten `!r.Has(key)`", has_helper),
 ("H", "early returns vs else (ImportAtPath, ImportAtKey, Get)", early_returns),
 ("H", "helper r.push(key) extracted", push_helper),
 ("H", "message texts changed", messages),
 ("H", "functions reordered in the file", reorder),
 ("H", "MarshalJSON: nested appends, []byte{'{'}", append_grouping_a),
 ("H", "MarshalJSON: both marshals first, then one append chain", append_grouping_b),
 ("H", "positional walk written `if index != 0 { index--; continue }; key = …; break`", walk_rewritten),
 ("H", "Import's type switch written as two comma-ok ifs", import_if_chain),
 ("A", "(K2-4) iterators as bound methods of a small struct", k24),
 ("B", "Set on a present key writes cell.raw in place", set_in_place),
 ("B", "Set becomes `_ = r.ImportAtKey(key, val)`", set_is_import),
 ("B", "SetValue pushes the key unconditionally", push_always),
 ("B", "SetValue clones the Value", setvalue_clones),
 ("B", "MarshalJSON quotes keys with fmt %q", marshal_percent_q),
 ("B", "MarshalJSON copies plain keys between quotes", marshal_plain_keys),
 ("B", "MarshalJSON writes the comma by list position", marshal_comma_by_position),
 ("B", "MarshalJSON skips hidden by raw nil instead of format", marshal_skip_nil),
 ("B", "UnmarshalJSON without UseNumber", no_usenumber),
 ("B", "parseobject lower-cases the member name", case_insensitive),
 ("B", "parseobject looks the name up with EqualFold", case_insensitive_lookup),
 ("B", "parseobject looks the name up with GetValueAtPath", parse_by_path),
 ("B", "Import(slice) goes on after a refused value, returns the first error", import_continues),
 ("B", "Import(slice) skips a refused value", import_skips),
 ("B", "ImportAtKey returns early before storing the Value of a new key", importatkey_early),
 ("B", "GetValueAtPath tries the whole path as a literal key first", path_literal_first),
 ("B", "GetValueAtPath tries the remaining path as a literal key at each level", path_literal_rest),
 ("B", "GetInt8 narrows with a plain conversion", getter_conversion),
 ("B", "GetInt16 asserts with the single-value form", getter_single_assert),
 ("B", "MapTo without the CanInt guard", mapto_no_canint),
 ("B", "(K2-4 shape) the struct iterator starts at the second element", k24_second),
 ("B", "(K2-4 shape) nextValue advances twice", k24_twice),
 ("B", "(K2-4 shape) nextRaw hands out the Value, not its raw value", k24_not_raw),
 ("B", "(K2-4 shape) nextValue does not advance", k24_no_advance),
 ("B", "(K2-4 shape) the struct iterator walks from the back", k24_back),
 ("B", "(extra) a new method Delete removes the key from list and maps", delete_method),
 ("B", "(extra) Set on a present key moves it to the back", set_moves_to_back),
 ("B", "(extra) Import accepts a Row", import_accepts_row),
 ("B", "(extra) parseobject replaces the cell of a present key", parse_replaces),
 ("B", "(extra) Set on an absent key wraps a Value argument too", set_wraps_values),
 ("B", "(extra) UnmarshalJSON does not look for trailing content", unmarshal_allows_trailing),
]

def sh(cmd, cwd=None):
    p = subprocess.run(cmd, cwd=cwd, env=ENV, stdout=subprocess.PIPE, stderr=subprocess.STDOUT, text=True)
    return p.returncode, p.stdout

def main():
    only = sys.argv[1:]
    os.makedirs(ROB, exist_ok=True)
    if not os.path.isdir(CLEAN):
        os.makedirs(CLEAN)
        subprocess.run("git -C /repo archive HEAD | tar -x -C " + CLEAN, shell=True, check=True)
    clean_facts = open(os.path.join(LEAN, "Gen/RowFacts.lean")).read()
    saved = clean_facts
    rows = []
    try:
        for i, (kind, name, fn) in enumerate(EDITS):
            if only and str(i) not in only:
                continue
            tree = os.path.join(ROB, "tree%02d" % i)
            shutil.rmtree(tree, ignore_errors=True)
            shutil.copytree(CLEAN, tree)
            path = os.path.join(tree, "pkg/jsonline/row.go")
            src = open(path).read()
            new = fn(src)
            open(path, "w").write(new)
            rc, out = sh(["gofmt", "-l", "pkg/jsonline/row.go"], cwd=tree)
            rc, out = sh(["go", "build", "./..."], cwd=tree)
            if rc != 0:
                rows.append((kind, name, "DOES NOT BUILD", "", "")); print(out); continue
            rc, out = sh(["go", "vet", "./pkg/jsonline/"], cwd=tree)
            gen = os.path.join(ROB, "gen%02d" % i)
            os.makedirs(gen, exist_ok=True)
            rc, out = sh([EXTRACT, "-repo", tree, "-out", gen])
            summary = [l for l in out.splitlines() if l.startswith("Gen/RowFacts.lean")]
            facts = open(os.path.join(gen, "RowFacts.lean")).read()
            same = facts == clean_facts
            other_same = all(open(os.path.join(gen, f)).read() == open(os.path.join(LEAN, "Gen", f)).read() for f in ["ValueTable.lean", "CastTable.lean"])
            open(os.path.join(LEAN, "Gen/RowFacts.lean"), "w").write(facts)
            rc, out = sh(["lake", "build"] + TARGETS, cwd=LEAN)
            tie = "builds" if rc == 0 else "FAILS"
            failing = sorted(set(re.findall(r"error: Proofs/(RowTie\w*)\.lean:\d+", out)))
            diff = ""
            if not same:
                a, b = clean_facts.splitlines(), facts.splitlines()
                changed = [y for y in b if y not in a]
                diff = " | ".join(x.strip()[:150] for x in changed[:3])
            rows.append((kind, name, "unchanged" if same else "CHANGED", tie, (summary[0].split(": ",1)[1] if summary else "?") + ("" if other_same else " [other Gen files differ]"), diff, ",".join(failing)))
            print(rows[-1], flush=True)
            shutil.rmtree(tree, ignore_errors=True)
    finally:
        open(os.path.join(LEAN, "Gen/RowFacts.lean"), "w").write(saved)
        sh(["lake", "build"] + TARGETS, cwd=LEAN)
    json.dump(rows, open(os.path.join(ROB, "result.json"), "w"), indent=1)
    bad = [r for r in rows if (r[0] == "A" and r[3] != "builds") or (r[0] == "H" and not (r[2] == "unchanged" and r[3] == "builds")) or (r[0] == "B" and not (r[2] == "CHANGED" and r[3] == "FAILS"))]
    print("UNEXPECTED:", bad)

main()
