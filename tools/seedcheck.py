#!/usr/bin/env python3
"""tools/seedcheck.py — bookkeeping for seeded changes (never used by a registered check).

  import <Cxx> <k> <src dir> <worktree> "<change>" "<needs>"
        confirm the change in the scratch worktree (tools/seedconfirm.sh), copy patch.diff, demo/ and
        README.md to seeded/<Cxx>-<k>/ and write meta.json
  harmless <Hx> <k> <src dir> <worktree> "<change>"
        a behaviour-preserving change (control): confirm that it applies and that the suite passes, keep it
        under seeded/<Hx>-<k>/ with breaks = null; `run <sid> <tier> all` then expects every check to stay silent
  run <sid> <tier> [<Cyy> … | all]
        apply seeded/<sid>/patch.diff to /repo (tools/seedrun.sh), run the checks (default: the property
        it breaks), restore /repo, record the outcome in meta.json
"""
import json
import os
import re
import shutil
import subprocess
import sys

ROOT = os.path.dirname(os.path.dirname(os.path.abspath(__file__)))


def sh(cmd, **kw):
    return subprocess.run(cmd, stdout=subprocess.PIPE, stderr=subprocess.STDOUT, text=True, **kw)


def do_import(pid, k, src, wt, change, needs):
    sid = f"{pid}-{k}"
    dst = os.path.join(ROOT, "seeded", sid)
    r = sh([os.path.join(ROOT, "tools", "seedconfirm.sh"), wt, src])
    last = r.stdout.strip().splitlines()[-1] if r.stdout.strip() else ""
    print(r.stdout[-1500:])
    conf = dict(re.findall(r"(\w+)=(\S+)", last))
    ok = conf.get("applies") == "yes" and conf.get("suite") == "pass" and conf.get("demo_with") == "violated" \
        and conf.get("demo_without") == "holds"
    if not ok:
        print(f"NOT CONFIRMED: {last}")
        return 1
    shutil.rmtree(dst, ignore_errors=True)
    os.makedirs(dst)
    shutil.copy(os.path.join(src, "patch.diff"), dst)
    if os.path.isdir(os.path.join(src, "demo")):
        shutil.copytree(os.path.join(src, "demo"), os.path.join(dst, "demo"))
    if os.path.exists(os.path.join(src, "README.md")):
        shutil.copy(os.path.join(src, "README.md"), dst)
    meta = {"id": sid, "breaks": pid, "change": change, "needs": needs,
            "confirmed": {"how": "tools/seedconfirm.sh in a scratch worktree of /repo: patch applies, go build and the full "
                                 "pinned suite pass with it, the demonstration fails with it and passes without it",
                          **conf},
            "author": "fresh sub-agent given only the property text and a scratch worktree",
            "results": {}}
    json.dump(meta, open(os.path.join(dst, "meta.json"), "w"), indent=1)
    print(f"imported {sid}")
    return 0


def do_harmless(hid, k, src, wt, change):
    sid = f"{hid}-{k}"
    dst = os.path.join(ROOT, "seeded", sid)
    env = dict(os.environ, GOFLAGS="-mod=mod", GOPROXY="off", GOSUMDB="off", GOTOOLCHAIN="local")
    sh(["git", "checkout", "-q", "--", "."], cwd=wt)
    a = sh(["git", "apply", os.path.join(src, "patch.diff")], cwd=wt)
    ok = a.returncode == 0
    suite = "-"
    if ok:
        t = sh("go build ./... && go test -vet=off -count=1 ./...", cwd=wt, env=env, shell=True)
        suite = "pass" if t.returncode == 0 else "FAIL"
        ok = t.returncode == 0
    sh(["git", "checkout", "-q", "--", "."], cwd=wt)
    sh(["git", "clean", "-fdq"], cwd=wt)
    if not ok:
        print(f"NOT CONFIRMED: applies={a.returncode == 0} suite={suite}")
        return 1
    shutil.rmtree(dst, ignore_errors=True)
    os.makedirs(dst)
    shutil.copy(os.path.join(src, "patch.diff"), dst)
    if os.path.exists(os.path.join(src, "README.md")):
        shutil.copy(os.path.join(src, "README.md"), dst)
    meta = {"id": sid, "breaks": None, "change": change, "needs": "nothing: behaviour-preserving control",
            "confirmed": {"how": "patch applies; go build and the full pinned suite pass with it; behaviour preservation argued in README.md",
                          "applies": "yes", "suite": suite},
            "author": "fresh sub-agent given only the area of the code base and a scratch worktree",
            "results": {}}
    json.dump(meta, open(os.path.join(dst, "meta.json"), "w"), indent=1)
    print(f"imported {sid}")
    return 0


ALL = ["C%02d" % i for i in range(1, 21)]


def do_run(sid, tier, props):
    d = os.path.join(ROOT, "seeded", sid)
    mp = os.path.join(d, "meta.json")
    meta = json.load(open(mp))
    if props == ["all"]:
        props = ALL
    props = props or [meta["breaks"]]
    r = sh([os.path.join(ROOT, "tools", "seedrun.sh"), os.path.join(d, "patch.diff"), tier] + props, cwd=ROOT)
    print(r.stdout)
    cur = None
    for line in r.stdout.splitlines():
        m = re.match(r"(C\d\d) exit=(\d+) (.*)", line)
        if m:
            cur = m.group(1)
            v = m.group(3)
            caught = v.startswith("VIOLATION")
            how = "-"
            if caught:
                how = "no-failing-input-found" if v.rstrip().endswith("no-failing-input-found") else "failing input"
            prev = meta["results"].get(cur)
            if prev and prev.get("caught") and not caught and prev.get("tier") != tier:
                continue
            meta["results"][cur] = {"tier": tier, "caught": caught, "exit": int(m.group(2)), "how": how, "detail": ""}
        elif cur and line.startswith("   ") and meta["results"][cur].get("detail", "") == "":
            meta["results"][cur]["detail"] = line.strip()[:400]
    meta["ran"] = "tools/seedrun.sh: git -C /repo apply patch.diff; ./check <id> --tier <tier>; git -C /repo checkout -- ."
    json.dump(meta, open(mp, "w"), indent=1)
    return 0


if __name__ == "__main__":
    if sys.argv[1] == "import":
        sys.exit(do_import(*sys.argv[2:8]))
    if sys.argv[1] == "harmless":
        sys.exit(do_harmless(*sys.argv[2:7]))
    if sys.argv[1] == "run":
        sys.exit(do_run(sys.argv[2], sys.argv[3], sys.argv[4:]))
