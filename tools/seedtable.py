#!/usr/bin/env python3
"""tools/seedtable.py — prints the §14 table of DESIGN.md from seeded/*/meta.json;
with --write, replaces the block between the SEEDTABLE markers in DESIGN.md."""
import glob
import json
import os
import sys

ROOT = os.path.dirname(os.path.dirname(os.path.abspath(__file__)))


def table():
    rows = []
    for mp in sorted(glob.glob(os.path.join(ROOT, "seeded", "*", "meta.json"))):
        m = json.load(open(mp))
        sid = os.path.basename(os.path.dirname(mp))
        res = m.get("results", {})
        caught = [f"{p} ({r['tier']}: {r['how']})" for p, r in sorted(res.items()) if r.get("caught")]
        if m["breaks"] is None:
            silent = [p for p, r in res.items() if not r.get("caught")]
            status = (f"silent on all {len(silent)} checks run" if not caught else
                      "**alarm** (property still holds): " + "; ".join(caught) + f"; silent on {len(silent)}")
        else:
            status = "; ".join(caught) if caught else "**not caught**"
        if m.get("note"):
            status += " — " + m["note"]
        rows.append(f"| `{sid}` | {m['breaks'] or 'none (control)'} | {m['change']} | {m['needs']} | {status} |")
    head = ("| seeded change | breaks | what it does | needs to manifest | caught by |\n"
            "|---|---|---|---|---|\n")
    return head + "\n".join(rows) + "\n"


if __name__ == "__main__":
    t = table()
    if "--write" in sys.argv:
        p = os.path.join(ROOT, "DESIGN.md")
        s = open(p, encoding="utf-8").read()
        b, e = "<!-- SEEDTABLE:BEGIN -->", "<!-- SEEDTABLE:END -->"
        if b in s:
            s = s[:s.index(b) + len(b)] + "\n" + t + s[s.index(e):]
        else:
            s = s.replace("SEEDTABLE\n", b + "\n" + t + e + "\n")
        open(p, "w", encoding="utf-8").write(s)
    else:
        print(t)
