"""Per-property configuration of ./check (see DESIGN.md §7)."""

KERNEL = "Lean 4.33.0 kernel (axioms allowed: propext, Classical.choice, Quot.sound; audited per theorem on every run)"
CORR = ("correspondence check: harness/ (Go, calls the real code in-process) and the compiled Lean driver "
        "run the same protocol lines; generators, canonicalisation and the protocol codec are trusted")
EXTRACT = "extract/ (Go, go/ast + go/types): regenerates lean/Gen/*.lean from /repo on every run"

PROPS = {
    "C06": {
        "kind": "c06",
        "module": "Props.C06",
        "namespace": "Jl.C06",
        "extra_theorem_files": [("Proofs.RowTie", "Jl.RowTie"), ("Proofs.RowTieAll", "Jl.RowTie")],
        "supplement": "Props.C06S",
        "supplement_theorem_files": [("Proofs.RowSerial", "Jl.RowSerial")],
        "rule": ("histories of row mutators over the key alphabet {'', a, ab, b, é, a.b}: every history of length "
                 "1 and 2 (thorough: 3) over a fixed op alphabet, plus random histories of length 3-60; after every "
                 "step Len, IterValues, Has, Get, GetValueAtIndex(-1..len) and the key order of MarshalJSON are "
                 "compared with the code-shaped model (LRow) and the specification (OMap). distinct = distinct "
                 "op sequences; non-trivial = at least two ops and (final row has >= 2 keys or a syntax error occurred)"),
        "trusted_base": [KERNEL, CORR,
                         "model of row.go's mutators (lean/Model/Row.lean) written by hand from the source, tied by correspondence",
                         "cell behaviour in the histories is restricted to cells without raw type in format Auto/Hidden and nested rows (lean/Model/Cells.lean); the theorems hold for every cell behaviour"],
        "assumptions": ["row.keys is write-only in the source and does not influence behaviour",
                        "Go map iteration order: Import(map) with several new keys inserts them in an unspecified order; the harness feeds the model the order the implementation used"],
    },
    "C09": {
        "kind": "c09,std",
        "module": "Props.C09",
        "namespace": "Jl.C09",
        "extra_theorem_files": [("Proofs.CastInt", "Jl"), ("Proofs.LineInts", "Jl.LineInts"), ("Proofs.GettersExact", "Jl.GettersExact")],
        "rule": ("10 integer casters x sources: every int8/uint8 value (exhaustive), int16/uint16 within 260 of every power of "
                 "two plus a 1/40 sample (thorough: exhaustive), every value within 2 of every power of two and type bound "
                 "carried by every Go integer type that holds it, by decimal text and by json.Number; float64/float32 within "
                 "2 ulps of every power of two up to 2^65, +-0.5 and +-1 around them, NaN payloads, +-Inf, +-0, subnormals, "
                 "extremes; non-canonical and non-numeric text; uniformly random values. Each case is cast by the real code "
                 "and by the interpreter of the regenerated tables; the oracle CastSpec.intCastViolation (exact value or "
                 "error; integral values that fit succeed) is applied to the implementation's result. distinct = distinct "
                 "(caster, source) pairs; all are non-trivial (each exercises one branch of one caster)"),
        "trusted_base": [KERNEL, EXTRACT, CORR,
                         "lean/Model/Cast.lean: interpreter of the extracted branch language (hand-written; validated by correspondence on every case)",
                         "lean/Model/Float.lean: exact decoding of IEEE-754 bit patterns (hand-written port)",
                         "lean/Model/IntText.lean: port of strconv.ParseInt/ParseUint base 0 (validated against strconv by correspondence)"],
        "assumptions": ["amd64: int and uint are 64 bits wide",
                        "text sources: the theorem fixes the parse call (base 0, the target's bit size, sentinel); that strconv's result is the exact value of canonical decimal text is shown for the ported parser in C12 and validated against strconv"],
    },
    "C10": {
        "kind": "c10,std",
        "jl": True,
        "module": "Props.C10",
        "namespace": "Jl.C10",
        "extra_theorem_files": [("Proofs.CastTyped", "Jl.CastTyped"), ("Proofs.ValueTie", "Jl.ValueTie"), ("Proofs.TypedHistory", "Jl.TypedHistory")],
        "rule": ("19 casters + cast.To with each of the 18 sample types (and an unsupported one) x a universe of ~140 source values of "
                 "~60 dynamic types: nil, the 19 supported types with several values each (boundary numbers, look-alike strings, byte "
                 "slices of sizes 0/1/2/4/8, times incl. years < 0 and > 9999), named variants, typed nils, pointers, structs, maps, "
                 "slices, byte arrays of every length 0-16, arrays of a named byte type, funcs, channels, complex, errors. Each call runs "
                 "under recover(); the result's dynamic type, nil-ness and errors.Is(err, cast.ErrUnableToCast) are compared with the "
                 "interpreter of the regenerated tables and judged by CastSpec.typedViolation. The std sub-run validates the stdlib "
                 "ports against the stdlib. distinct = distinct (callee, source) pairs; all non-trivial"),
        "trusted_base": [KERNEL, EXTRACT, CORR, "lean/Model/Cast.lean (interpreter, hand-written, validated by correspondence)"],
        "assumptions": ["Go values outside the Dyn universe are abstracted to `other` (their dynamic type is all the code looks at: they hit the default branch)",
                        "times whose Unix seconds exceed +-2^62 are outside the model (package time wraps there): the model abstains"],
    },
    "C11": {
        "kind": "c11",
        "jl": True,
        "module": "Props.C11",
        "namespace": "Jl.C11",
        "extra_theorem_files": [("Proofs.CastBin", "Jl"), ("Proofs.LE", "Jl.LE"), ("Proofs.LineBinary", "Jl.LineBinary")],
        "rule": ("ToBinary(v) and cast.To(type of v, those bytes) for every int8/uint8 value, every 257th (thorough: every) int16/uint16 "
                 "value, every value within 2 of every power of two / bound in every integer type that holds it, float boundaries, "
                 "NaN payload classes, +-0, subnormals, random 32/64-bit values; cast.To(T, bytes) for every fixed-width T and byte "
                 "slices of every length 0-17 (zero, 0xff and random contents), every 1-byte content and every 251st (thorough: every) "
                 "2-byte content. Judged by CastSpec.binaryViolation (little-endian image; decode is the inverse; other lengths "
                 "rejected). distinct = distinct (callee, source); all non-trivial"),
        "trusted_base": [KERNEL, EXTRACT, CORR, "lean/Model/LE.lean, lean/Model/Cast.lean (hand-written, validated by correspondence)"],
        "assumptions": ["amd64: int and uint are 8 bytes"],
    },
    "C12": {
        "kind": "c12,std",
        "jl": True,
        "module": "Props.C12",
        "namespace": "Jl.C12",
        "extra_theorem_files": [("Proofs.IntText", "Jl.IntText"), ("Proofs.LineFloats", "Jl.LineFloats")],
        "rule": ("ToString(v)/ToNumber(v) followed by cast.To(type of v, rendering) for every int8/uint8, every 257th (thorough: every) "
                 "int16/uint16, boundaries of all ten integer types, every float64 and float32 binade boundary and its neighbours, "
                 "subnormals, extremes, shortest-representation corner cases, non-finite values, random bit patterns, booleans. Judged "
                 "by CastSpec.renderViolation (plain decimal JSON number; reads back bit-identically; non-finite never marshals). The "
                 "std sub-run validates FormatInt/ParseInt/ParseUint/ParseBool ports against strconv. distinct = distinct (via, source)"),
        "trusted_base": [KERNEL, EXTRACT, CORR, "lean/Model/IntText.lean (port of strconv integer text, validated against strconv)",
                         "strconv.FormatFloat/ParseFloat: NOT modelled — parameter Ext with the round-trip law as explicit hypothesis (FloatLaw); the law itself is exercised on every float case by the harness"],
        "assumptions": ["FloatLaw: strconv.ParseFloat(strconv.FormatFloat(x,'f',-1,bits),bits) == x for finite x (documented strconv behaviour)"],
    },
    "C01": {
        "kind": "c01,std",
        "jl": True,
        "module": "Props.C01",
        "namespace": "Jl.C01",
        "extra_theorem_files": [("Proofs.JsonQuote", "Jl.JsonQuote"), ("Proofs.JsonPrint", "Jl.JsonPrint"), ("Proofs.RowTieMarshal", "Jl.RowTie"), ("Proofs.FlowTieExport", "Jl.FlowTie")],
        "supplement": "Props.C01S",
        "supplement_theorem_files": [("Proofs.ExportText", "Jl.ExportText")],
        "rule": ("one input line through importer (template ti) and exporter (template to) as jl does, and Go values handed to Export "
                 "through the API (maps, slices, rows): random templates (0-5 columns, 9 formats x 18 raw types, hidden anywhere, "
                 "sub-rows to depth 3) with keys from every class the writer treats differently (controls, quotes, backslash, DEL, C1, "
                 "U+2028/2029, BOM, U+FFFD, non-characters, astral incl. unassigned, invalid UTF-8; thorough: every code point "
                 "U+0000-U+FFFF as a key), values of every JSON type and number spelling, raw Go values incl. NaN/Inf, invalid "
                 "json.Number, times outside years 0-9999, nested rows and cells. The bytes received by the writer (and the number of "
                 "Write calls) are compared with the model and judged: exactly one write, one valid JSON object (the reader's "
                 "recogniser), newline-terminated, no inner newline; zero bytes on error. distinct = distinct (templates, input); "
                 "non-trivial = explicitly constructed key/value classes and all API-built values"),
        "trusted_base": [KERNEL, EXTRACT, CORR,
                         "lean/Model/RowPrint.lean, Value.lean, Template.lean (hand-written from row.go/value.go/exporter.go; tied by byte-exact correspondence)",
                         "lean/Model/JsonWrite.lean, JsonRead.lean (ports of encoding/json's string encoder and of the decoder the reader uses; validated against encoding/json)",
                         "json.Marshal of floats and of Go values outside the Dyn universe: parameters (Ext.jsonFloat), not modelled"],
        "assumptions": ["the validity oracle is the model of jsonline's own reader (Json.accepts); C16 relates it to the RFC 8259 grammar",
                        "Go map iteration order: API-built maps carry at most one undeclared key"],
    },
    "C03": {
        "kind": "c03",
        "jl": True,
        "module": "Props.C03",
        "namespace": "Jl.C03",
        "extra_theorem_files": [("Proofs.Order", "Jl.Order"), ("Proofs.LineKeys", "Jl.LineLevel"), ("Proofs.RowTie", "Jl.RowTie"), ("Proofs.FlowTie", "Jl.FlowTie"), ("Proofs.RowTieMarshal", "Jl.RowTie")],
        "supplement": "Props.C03S",
        "supplement_theorem_files": [("Proofs.LineValues", "Jl.LineValues")],
        "rule": ("templates with 0-6 columns in non-alphabetical order (names incl. '', 'é', 'a.b'), hidden anywhere, sub-rows to depth 3; "
                 "input and output template share names and structure as jl builds them; inputs: every permutation of the declared keys "
                 "(<= 4 keys; thorough 5), missing keys, extra keys, objects/arrays with >= 2 members in non-alphabetical order under "
                 "declared and undeclared keys. One case in three also hands the line as JSON text (string or []byte) straight to Exporter.Export under the rendering template. The member order of every object of the emitted line is judged by "
                 "LineSpec.orderViolation (visible columns in declaration order, then undeclared keys in first-appearance order; nested "
                 "objects keep the input's shape; declared sub-rows follow the same rule). distinct = distinct (templates, input)"),
        "trusted_base": [KERNEL, CORR, "lean/Model/Template.lean, Value.lean, Row.lean, RowPrint.lean (hand-written; byte-exact correspondence)",
                         "lean/Model/LineSpec.lean: the statement of the rule (specification)"],
        "assumptions": ["input objects have unique member names (the property's domain)",
                        "input and output templates declare the same names (as every jl definition does)"],
    },
    "C04": {
        "kind": "c04",
        "jl": True,
        "module": "Props.C04",
        "namespace": "Jl.C04",
        "extra_theorem_files": [("Proofs.TimeShape", "Jl.TimeShape"), ("Proofs.LineLevel", "Jl.LineLevel"), ("Proofs.ValueTie", "Jl.ValueTie"), ("Proofs.FlowTie", "Jl.FlowTie"), ("Proofs.FlowTieBuilders", "Jl.FlowTie")],
        "rule": ("9 output formats x (18 raw types + none) x 9 x 19 input descriptors (sampled) x ~85 JSON values (null, booleans, numbers "
                 "of every spelling and magnitude incl. 1e400, 30 digits, timestamps around years 0, 1970, 9999, 10000, +-2^63; strings "
                 "incl. numeric / boolean / base64 / date / date-time look-alikes and near-misses; arrays; objects), at top level and inside a "
                 "declared sub-row. The lexical class of each declared member of the emitted line is judged by LineSpec.classViolation; "
                 "rejected lines must write nothing. distinct = distinct (templates, input)"),
        "trusted_base": [KERNEL, EXTRACT, CORR, "lean/Model/Value.lean (Import/Export dispatch, hand-written), lean/Model/Cast.lean (interpreter of regenerated tables)",
                         "lean/Model/LineSpec.lean: the lexical classes (specification)"],
        "assumptions": ["float spellings come from strconv/encoding/json (Ext)"],
    },
    "C02": {
        "kind": "c02",
        "jl": True,
        "module": "Props.C02",
        "namespace": "Jl.C02",
        "extra_theorem_files": [("Proofs.JsonPrint", "Jl.JsonPrint"), ("Proofs.RoundTrip", "Jl.RoundTrip"), ("Proofs.RowTieMarshal", "Jl.RowTie"), ("Proofs.RowTieText", "Jl.RowTie"), ("Proofs.FlowTieExport", "Jl.FlowTie"), ("Proofs.FlowTieImport", "Jl.FlowTie")],
        "rule": ("grammar-directed RFC 8259 objects: any member order, depth <= 4 random plus fixed depth 64, arrays of objects, empty "
                 "containers, every escape spelling (raw UTF-8, \\uXXXX, surrogate pairs, all short escapes, escaped and raw U+2028, DEL), "
                 "number spellings (-0, 1E+2, 0.10, 30-digit integers, 1e-400, 1e400), arbitrary insignificant whitespace; out-of-domain "
                 "inputs (duplicate names, lone surrogates, invalid UTF-8) are run for correspondence only. Read with an empty template, "
                 "written with an empty template, and the output fed back once more; judged by c02Violation: accepted, the output denotes "
                 "the same ordered tree (strings decoded, number literals verbatim), second pass byte-identical. distinct = distinct "
                 "input texts; non-trivial = in-domain"),
        "trusted_base": [KERNEL, CORR, "lean/Model/JsonRead.lean, RowPrint.lean, Value.lean (hand-written; byte-exact correspondence)"],
        "assumptions": ["domain as stated by the property: unique member names at every depth, well-formed Unicode"],
    },
    "C16": {
        "kind": "c16",
        "jl": True,
        "module": "Props.C16",
        "namespace": "Jl.C16",
        "extra_theorem_files": [("Proofs.JsonAccept", "Jl.JsonAcc"), ("Proofs.JsonLexical", "Jl.JsonLex"), ("Proofs.FlowTieImport", "Jl.FlowTie"), ("Proofs.RowTieText", "Jl.RowTie")],
        "supplement": "Props.C16S",
        "supplement_theorem_files": [("Proofs.LineAccept", "Jl.LineAccept")],
        "rule": ("~90 hand-written texts (every rejection class named by the property, truncations, trailing content, comments, BOM, NUL, "
                 "vertical tab, form feed, NBSP, 70 KB string) and, per random valid object: the object, a truncation at a random offset, a "
                 "1-3 byte mutation (insert / delete / replace from the structural alphabet plus control and non-UTF-8 bytes), trailing "
                 "content; thorough: every string of length <= 5 over the 15-character structural alphabet. Importer.GetRow, "
                 "Template.CreateRow(string) and Row.UnmarshalJSON must agree; judged: accepted iff the Lean recogniser accepts (and declared "
                 "columns convert); a rejected line returns a nil row. The recogniser is also compared with encoding/json's json.Valid on "
                 "every case. distinct = distinct (template, text); non-trivial = hand-written, truncated, mutated or extended texts"),
        "trusted_base": [KERNEL, CORR, "lean/Model/JsonRead.lean: port of json.Decoder token mode + row.go's parser (validated against the code and against json.Valid)",
                         "lean/Model/JsonGrammar.lean: RFC 8259 at byte level (specification)"],
        "assumptions": ["ill-formed UTF-8 and escaped lone surrogates inside string literals are accepted (implementation-defined in RFC 8259; DESIGN.md §10)"],
    },
    "C07": {
        "kind": "c07,scan",
        "jl": True,
        "module": "Props.C07",
        "namespace": "Jl.C07",
        "extra_theorem_files": [("Proofs.Scanner", "Jl.Scanner"), ("Proofs.Stream", "Jl.Stream"), ("Proofs.FlowTieStream", "Jl.FlowTie"), ("Proofs.FlowTieImport", "Jl.FlowTie")],
        "supplement": "Props.C07S",
        "supplement_theorem_files": [("Proofs.StreamAccept", "Jl.StreamAccept")],
        "rule": ("streams of 0-7 lines drawn from valid objects, blank lines, invalid JSON, non-object values, lines rejected by the template "
                 "and trailing-content lines, with LF / CRLF / missing final newline, delivered by readers returning 1-byte, 3-, 7-byte, "
                 "mixed-with-empty-reads, 64-, 1000-byte and whole-buffer chunks, under the default and the tolerant processor; line "
                 "lengths around the 64 KiB initial buffer and 1 MiB (thorough: around 10 MiB). Stream()'s return, the processor call "
                 "log and the bytes written are compared with the model and with specObs (per-line outcomes folded through the "
                 "processor). The scan sub-run validates the scanner port against bufio.Scanner on random scripts with tiny buffers "
                 "(all bookkeeping branches: compaction, doubling, too-long, read errors with and without data, empty reads). distinct = "
                 "distinct (processor, reader script)"),
        "trusted_base": [KERNEL, CORR, "lean/Model/Scanner.lean (port of bufio.Scanner, validated against bufio.Scanner), lean/Model/Stream.lean (hand-written from streamer.go/importer.go/exporter.go)"],
        "assumptions": ["the reader honours io.Reader's contract (0 <= n <= len(p))"],
    },
    "C08": {
        "kind": "c08",
        "jl": True,
        "module": "Props.C08",
        "namespace": "Jl.C08",
        "extra_theorem_files": [("Proofs.Stream", "Jl.Stream"), ("Proofs.ScannerLimit", "Jl.ScannerLimit"), ("Proofs.FlowTieStream", "Jl.FlowTie"), ("Proofs.FlowTieImport", "Jl.FlowTie"), ("Proofs.JlTie", "Jl.JlTie")],
        "rule": ("for each of 5 streams (<= 4 lines; LF/CRLF/blank/rejected lines; with and without final newline; empty): the reader failing "
                 "at EVERY byte offset k (as (0,err) after k bytes, as (k,err) with the data, and after 1-byte reads) and the writer failing "
                 "at EVERY write index j (plain failure and short write), each under the default, tolerant and fail-at-call-1 processors; "
                 "101 empty reads (no progress); thorough: an over-long line first / middle / last. Judged by c08Violation on Stream()'s "
                 "return, the processor call log and the writes: reader failure reported, every write before the failing one is a complete "
                 "valid line, nothing written after a fatal write failure. distinct = distinct (stream, fault, processor)"),
        "trusted_base": [KERNEL, CORR, "lean/Model/Scanner.lean, lean/Model/Stream.lean (as C07)"],
        "assumptions": ["a Write returning n < len(p) returns an error (io.Writer's contract)"],
    },
    "C17": {
        "kind": "c17",
        "module": "Props.C17",
        "namespace": "Jl.C17",
        "extra_theorem_files": [("Proofs.NoPanic", "Jl.NoPanic"), ("Proofs.MapTo", "Jl.MapTo"), ("Proofs.GettersExact", "Jl.GettersExact"), ("Proofs.RowTieGetters", "Jl.RowTie")],
        "rule": ("probes under recover() on three rows (empty, parsed from JSON with nulls / nested rows / arrays / look-alike strings, built "
                 "through the API with every raw type incl. a struct and a typed cell): all 16 typed getters x 14 keys (present, absent, empty, "
                 "null, nested, unconvertible); every positional operation x indexes -1, 0, 1, 5, 100, MinInt64, MaxInt64; GetAtPath / "
                 "GetAtPathOrNil / FindValuesAtPath / ImportAtPath x 19 paths with 0-4 segments incl. empty segments and paths ending on "
                 "arrays, scalars and nulls; MapTo with matching, mismatching, unexported, empty, non-pointer, non-struct and nil-pointer "
                 "targets; String/DebugString/Raw/Export/Iter; Import of nil and weird values; every Value method for 9 formats x 15 raw "
                 "values incl. chan, func, pointers; Format(42); CreateRow with 12 weird inputs; parser and marshaller at nesting depth "
                 "100 and 10^4 (arrays and objects). distinct = distinct probes; all non-trivial"),
        "trusted_base": [KERNEL, EXTRACT, "the probe list (harness/path.go): execution evidence, not proof",
                         "Props/C17.lean expectedSites: the per-site discharge arguments are reviewed comments; only the equality of the inventory is machine-checked"],
        "assumptions": ["nil interface arguments (Value, Row, Template, reader, writer) are API misuse (DESIGN.md §10)",
                        "stack exhaustion and runtime crashes cannot be exhibited by the model: covered by execution to depth 10^4 only"],
    },
    "C18": {
        "kind": "c18",
        "module": "Props.C18",
        "namespace": "Jl.C18",
        "extra_theorem_files": [("Proofs.RowTieText", "Jl.RowTie")],
        "supplement": "Props.C18S",
        "supplement_theorem_files": [("Proofs.PathRoundTrip", "Jl.PathRoundTrip")],
        "rule": ("5 documents (objects nested to depth 6, arrays of objects, mixed arrays, nested arrays, nulls, empty keys) given as JSON "
                 "text, as the equivalent programmatic construction, and mixed (a built row holding a parsed row holding built values); "
                 "GetValueAtPath/GetAtPath and FindValuesAtPath for every path of 1 and 2 segments over a 28-key alphabet plus 33 "
                 "hand-picked paths (missing at each depth, through scalars, nulls and arrays, empty segments, 6 segments) and random "
                 "paths of 1-5 segments; ImportAtPath of 7 kinds of values at random and hand-picked paths (the whole row afterwards is "
                 "compared). Judged against key-by-key navigation (`navigate`) and document-order collection (`collect`). distinct = "
                 "distinct (document, op, path, value)"),
        "trusted_base": [KERNEL, CORR, "lean/Model/Path.lean (hand-written from row.go; tied by correspondence incl. the row after ImportAtPath)"],
        "assumptions": ["keys containing '.' are not addressable by a dotted path (excluded)"],
    },
    "C20": {
        "kind": "c20",
        "race": True,
        "module": "Props.C20",
        "namespace": "Jl.C20",
        "rule": ("12 rounds (thorough: 40): a template with numeric(int), binary([]byte), a declared sub-row, datetime, hidden and a random "
                 "subset of the 9 formats with random raw types is shared by 2-16 goroutines, each running 60 (thorough: 300) operations "
                 "drawn from CreateRowEmpty, CreateRow from map / slice / JSON text / Row, import + set on a created row, and a "
                 "per-goroutine importer/exporter stream, with runtime.Gosched() interleaved; the binary is built with -race; per-goroutine "
                 "outputs are compared with the same programs run sequentially. distinct = rounds (distinct templates and goroutine "
                 "counts); every round is non-trivial (>= 2 goroutines, >= 7 kinds of operations)"),
        "trusted_base": [KERNEL, EXTRACT, "the Go race detector and scheduler (exploration, not proof)",
                         "atomicity of single operations in Model.Conc is a modelling assumption"],
        "assumptions": ["the Go memory model, compiler reorderings and runtime are outside the model: data races as such are judged by the race detector only"],
    },
    "C15": {
        "kind": "c15",
        "module": "Props.C15",
        "namespace": "Jl.C15",
        "extra_theorem_files": [("Proofs.Alias", "Jl.Alias"), ("Proofs.AliasFamily", "Jl.AliasFamily"), ("Proofs.FlowTie", "Jl.FlowTie")],
        "rule": ("600 (thorough: 20000) interleavings of 2-40 operations — CreateRowEmpty, CreateRow from map / slice / JSON text / an existing "
                 "row, UnmarshalJSON into a live row (accepted, rejected by the template, syntactically invalid, duplicate keys), Set and "
                 "ImportAtKey on a live row (declared, undeclared, empty keys; convertible and unconvertible values), Export of a live row "
                 "through an exporter of the template, CloneRow of a live row, streaming one line — over templates with numeric(int), "
                 "binary([]byte), string, optionally a declared sub-row and a random subset of the 9 formats with raw types. After EVERY "
                 "step the product of the template (a fresh CreateRowEmpty) and every live row are snapshotted (format, raw type and raw "
                 "value of every cell) and compared with the value-level model; the oracle checks on the implementation's own snapshots "
                 "that nothing but the operated root changed. distinct = distinct (template, history); non-trivial = >= 3 operations"),
        "trusted_base": [KERNEL, CORR, "lean/Model/Alias.lean: the allocation / in-place-mutation behaviour is transcribed by hand from template.go, row.go, value.go (Gen.Sites lists the assignments through receivers it is based on)",
                         "lean/Model/Template.lean, Value.lean (value-level models; correspondence)"],
        "assumptions": ["handing one row's live Value cell to another row's SetValue / ImportAtKey shares that cell by construction of the API (excluded, DESIGN.md §10)",
                        "sharing below the top level (a nested row reached through two parents) is outside the statement"],
    },
    "C14": {
        "kind": "c14,std",
        "jl": True,
        "module": "Props.C14",
        "namespace": "Jl.C14",
        "extra_theorem_files": [("Proofs.Time", "Jl.Time"), ("Proofs.Civil", "Jl.Time"), ("Proofs.LineTime", "Jl.LineTime"), ("Proofs.LineTimeMore", "Jl.LineTimeMore")],
        "rule": ("under process zones UTC, +05:30, -03:00, Europe/Paris and America/New_York (time.Local switched in-process, tz database "
                 "embedded): ToTime(src), ToString of the result, ToTimestamp(src) and ToTimestamp(ToTime(src)) for date-time strings with "
                 "explicit offsets (hand-picked boundaries: years 0001 and 9999, offsets +-23:59, leap days, DST gaps and overlaps of both "
                 "zones, fractions with '.' and ',', 1-digit hour, missing zone, +24:00; random instants over years 0001-9999 x offsets "
                 "-23:59..+23:59 at 1 s resolution, with and without sub-second digits), for integer timestamps (0, +-1, +-1 s around EVERY "
                 "DST transition of both zones in sampled years 1970-2037, 253402214400, random 0..253402214400) carried by int64, int32 "
                 "and decimal text, and for []byte carriers. Judged by c14Violation with the ported parser as the reading of texts; the "
                 "std sub-run validates the time port against package time. distinct = distinct (zone, source)"),
        "trusted_base": [KERNEL, EXTRACT, CORR, "lean/Model/Time.lean: port of package time for the two layouts (validated against package time incl. the general parser's leniencies)",
                         "the tz database: parameter Ext.zoneOffset (arbitrary function in the theorems)"],
        "assumptions": ["offsets are whole minutes and |offset| < 24 h (true of the zones in scope after 1970); years 0..9999"],
    },
    "C13": {
        "kind": "c13",
        "module": "Props.C13",
        "namespace": "Jl.C13",
        "extra_theorem_files": [("Proofs.Pairings", "Jl.Pairings"), ("Proofs.RowRoundTrip", "Jl.RowRoundTrip"), ("Proofs.RowRoundTripN", "Jl.RowRoundTripN"), ("Proofs.ValueTie", "Jl.ValueTie"), ("Proofs.RowTieMarshal", "Jl.RowTie"), ("Proofs.RowTieText", "Jl.RowTie"), ("Proofs.FlowTieExport", "Jl.FlowTie"), ("Proofs.FlowTieImport", "Jl.FlowTie")],
        "rule": ("every pairing of 8 formats x (18 raw types + none) — the ~95 of the lossless table AND the pairings outside it (to confirm the "
                 "table is tight) — x boundary and random values of the raw type (integers: bounds, +-1, powers of two; floats: +-0, "
                 "subnormals, extremes, 2^53+1, NaN/Inf; strings: valid UTF-8 incl. escapes-needing characters, look-alikes, and ill-formed "
                 "bytes; byte slices; times: years 0000, 0001, 9999, 10000, leap day, offsets, nanoseconds; json.Number: valid and invalid "
                 "literals), through CreateRow -> MarshalJSON -> CreateRowEmpty -> UnmarshalJSON -> Get and through Exporter -> Importer "
                 "(the two routes must agree). Judged for pairings in Tables.lossless on values in Tables.inDomain: written, read back, "
                 "equal value and Go type (times as instants at 1 s). distinct = distinct (format, type, value)"),
        "trusted_base": [KERNEL, EXTRACT, CORR, "lean/Model/Tables.lean: the lossless table and value domains of DESIGN.md §8 (specification)",
                         "lean/Model/Value.lean, Template.lean, RowPrint.lean (hand-written; byte-exact correspondence)"],
        "assumptions": ["floats, times and strings: validated by the oracle on every case, not yet lifted to theorems (floats depend on strconv: Ext)"],
    },
    "C05": {
        "kind": "c05",
        "module": "Props.C05",
        "namespace": "Jl.C05",
        "extra_theorem_files": [("Proofs.Pairings", "Jl.Pairings"), ("Proofs.SelfReadable", "Jl.SelfReadable"), ("Proofs.LineFixedPoint", "Jl.LineFixedPoint"), ("Proofs.ValueTie", "Jl.ValueTie"), ("Proofs.RowTieMarshal", "Jl.RowTie"), ("Proofs.RowTieText", "Jl.RowTie"), ("Proofs.FlowTieExport", "Jl.FlowTie"), ("Proofs.FlowTieImport", "Jl.FlowTie")],
        "rule": ("under process zones UTC, +05:30, -03:00, Europe/Paris, America/New_York: output templates of 1-5 columns whose descriptors are "
                 "drawn from the self-readable table (all 9 formats, raw types incl. none; hidden included), input templates equal to the "
                 "output template or with independent formats / raw types / auto, input lines with values chosen to be mostly accepted "
                 "(44% accepted) plus undeclared keys; the emitted line is fed back through (to, to). Judged: second pass accepted and "
                 "byte-identical; deviations are attributed by the model (a cast swallowed by NewValue on some output column -> "
                 "swallowed-cast; +24:60 offsets; ill-formed UTF-8 escapes) and anything unattributed is a violation. distinct = "
                 "distinct (zone, templates, line); non-trivial = accepted lines"),
        "trusted_base": [KERNEL, EXTRACT, CORR, "lean/Model/Tables.lean: the self-readable table (specification)",
                         "attribution of deviations to known findings is computed by the model (Driver/TypedCase.lean)"],
        "assumptions": ["same time zone for both passes (the property's premise)", "string([]byte) is not self-readable (corrected table, DESIGN.md §13)"],
    },
    "C19": {
        "kind": "c19",
        "jl": True,
        "module": "Props.C19",
        "namespace": "Jl.C19",
        "extra_theorem_files": [("Proofs.JlDescriptor", "Jl.JlDescriptor"), ("Proofs.FlowTieAll", "Jl.FlowTie"), ("Proofs.JlTie", "Jl.JlTie")],
        "rule": ("the jl binary built from the working tree, run in scratch directories (TZ=UTC): 120 (thorough: 3000) random column lists "
                 "(1-4 columns, names incl. non-ASCII and spaces, sub-rows to depth 2; input and output descriptors drawn from: absent, "
                 "every format, format(type) for all 19 type names, unknown names, wrong case, and the regexp's edge cases 'string()', "
                 "'string(int', '(int)', 'numeric(int)x', 'a)b', 'string(a(b)', embedded spaces) rendered as row.yml and as an inline -t "
                 "template, with 1-5 input lines (valid, rejected by the template, invalid JSON, blank): (a) row.yml only, (b) -t only, "
                 "(c) -t with a different row.yml present, (d) the library streamer in-process with independently constructed templates; "
                 "stdout bytes, exit status and the number of logged line errors must coincide and match the model. Malformed templates "
                 "(6 inline, 5 YAML) must exit non-zero with empty stdout; '-t {}' and '-t \'\'' keep the file definition. distinct = "
                 "distinct (definitions, stdin)"),
        "trusted_base": [KERNEL, EXTRACT, CORR, "lean/Model/Jl.lean (hand-written from definition.go/root.go; the registries are regenerated from the source)",
                         "yaml.v3, cobra, viper, zerolog and the process boundary: executed, not modelled"],
        "assumptions": ["common domain of the two languages: descriptors without ':', declared sub-rows with at least one column, unique names",
                        "unknown format or type names are accepted by design (auto / none)"],
    },
}


# Generator extensions of round 2 (prompted by the seeded-change campaign, DESIGN.md §14), appended to the rules.
_ROUND2 = {
    "C01": "lines of 4000-70000 bytes (thorough: 1 MiB) around the 4 KiB and 64 KiB buffer sizes, incl. rows rejected on a late column after kilobytes of rendered output",
    "C02": "batches of 2-8 lines through ONE importer/exporter pair (each line must come out as it does alone)",
    "C03": "the input side without a template or with the columns declared in reverse order; exactly the declared key set in every permutation; JSON text handed straight to Exporter.Export; one case in four run after a line that was rejected (at import, at export) on the same importer and exporter",
    "C04": "JSON text handed straight to Exporter.Export; instants within a day of the year 0000 and 9999 boundaries rendered by date / datetime / string / timestamp columns under the five process zones",
    "C05": "integers beyond 2^53 and the 64-bit bounds; when the model cannot compute a line the deviation is attributed through a hint computed on the implementation (cast.To of the output raw type on the imported raw value)",
    "C07": "three template pairs: import-side rejection; export-side rejection of a line that was read without error; undeclared keys on both sides",
    "C08": "an over-long (10 MiB) last line without final newline under the tolerant processor in the quick tier; a failure counts as reported only through a call carrying the scanner's own error class or a return value",
    "C09": "boundary, text, float, bool and random sources also go through the dispatcher cast.To(sample of the target type, v)",
    "C10": "row level: 9 formats x (18 raw types + none) x 41 values through ImportAtKey into a declared column of a fresh row; after a successful import the raw value must be nil or of the declared type",
    "C11": "column level: base64 payloads of every length 0-17 into a binary(T) column for every fixed-width T and bool (accepted iff well-sized; the accepted bytes are re-emitted)",
    "C13": "strings of every character class the JSON writer treats differently (C0 controls, DEL, C1, U+2028/2029, BOM, non-characters, astral); all the values of a pairing once more through ONE exporter and ONE importer, every row held until the last line was read",
    "C14": "the same instant rendered consecutively with different offsets; column level: date-time strings with explicit offsets (both passes of the hour repeated at the end of DST, the skipped hour, offsets equal to and different from the process zone's, fractions, year bounds) through datetime / timestamp / string(time) columns, judged by c14LineViolation",
    "C15": "the next line of one long-lived importer (lines rejected at the first token, after members were stored, on a later column, with trailing content); a row it hands out must be what its line gives on its own",
    "C16": "objects whose closing brace falls on and around 512, 1024, 4096 ... 65536 bytes, alone and followed by trailing content; every line is followed by `{}` on the same importer, whose row must be what `{}` gives alone",
    "C17": "MapTo: 12 stored values x 21 field types as one-field struct types built with reflect",
    "C18": "ImportAtPath: on the implementation's own before/after rows nothing but the addressed cell may change",
    "C20": "the shared template is cold when the goroutines start (the sequential reference runs afterwards on a second, identically built template); date-times are RFC 3339 strings that differ per goroutine and iteration; importers that failed earlier in the process precede the concurrent phase",
}
for _pid, _txt in _ROUND2.items():
    PROPS[_pid]["rule"] += " Also: " + _txt + "."

# Generator and oracle extensions of rounds 4 and 5 of the seeded-change campaign (DESIGN.md §14).
_JLROUTE = "one case in 25 also goes through the jl BINARY built from the tree (inline template equivalent to the case's templates, raw types under every name the descriptor language has for them, now and then a name outside the registries), judged like the others"
_API = "the equivalent spellings of the API are taken in turn (importer / exporter from the template or built on their own, Import+GetRow or ReadOne, With or the builder method named after the format)"
_ROUND5 = {
    "C01": "literal backslash in front of escape-like text in keys and strings; batches of 3-8 lines through ONE importer and exporter (every other batch reads all rows first, then exports them); " + _JLROUTE + "; " + _API,
    "C02": "a rejected line inside the batches; one round trip in 25 also through the jl binary without template, twice",
    "C03": "repeated member names at every depth (the oracle resolves them: first position, last value); columns with a raw type (a missing column is null whatever its type: missingColumnViolation); wide templates and inputs (8-130 columns); batches of lines, every other one holding all rows before exporting; " + _JLROUTE + "; " + _API,
    "C04": "the same column pair fed with every scalar text in turn through one importer and exporter; rows made by the output template itself whose cell was replaced by a Value of another format, exported through that template; " + _JLROUTE + "; " + _API,
    "C05": "base64 texts that look like a hex literal, a number, a keyword or a date, also broken over lines; literal backslash in front of escape-like text; the second pass is repeated reading the emitted line into a row that has just held another line with the same member names",
    "C06": "cells with a declared raw type and values they reject (the driver replays on the Value-level cell operations); names differing only by case; another object over a name that holds one; rows that grow past 8/16/32/64 keys through every mutator; rows made by templates with names declared twice (as a column and as a sub-row); clones taken and grown between the operations",
    "C07": "lines of other framings (starting with a closing or separating character, stopping with a bracket open, concatenated objects, byte order mark, control bytes, an escaped line feed in a member name); streams of 70, 300 and 1100 lines; a header read with ReadOne, then WithTemplate, then the rest streamed; one stream in 12 also through the jl binary",
    "C08": "a writer that fails after writing everything; array-form and CR-separated streams; faults late in a 200-line stream; Stream() called again after a fatal write failure; without any fault success only after every line had its outcome; the jl binary with an unreadable standard input, the base streams and the line of 10 485 760 bytes",
    "C09": "numbers in carriers outside the supported set (big numbers, raw JSON, durations, named and pointer types), judged by their carried value; casts with cast.TimeStringFormat assigned digits-only and date-only layouts; column level: formats that read text x 10 integer raw types x 40 decimal texts as JSON strings and numbers",
    "C10": "carriers and standard-library types outside the supported set; byte slices and texts of 17 to 70000 bytes; imports into a cell that has just refused something, next to a sibling row whose column took Values of other declarations",
    "C11": "imports after rejected payloads; whole lines through the library and through the jl binary (byte = uint8, rune = int32), judged by c11LineViolation (width of the accepted payload, re-emission of the accepted bytes)",
    "C12": "the same renderings taken from numeric / string columns (marshalled, exported, after Set twice on the key with a first value of another Go type; constructor named after the format or the general one)",
    "C13": "one exporter per pairing kept for every value of the run, refused values included",
    "C14": "raw types that cannot hold a time (the cast fails, the value is kept); calendar-rule date-times (century years, year 0004, 1582, the last second of a year east and west, -00:00, maximal offsets); a date-time member that comes twice in a line (the oracle resolves repeated names); the column texts in turn through one importer and exporter; " + _JLROUTE,
    "C15": "Row.Import handed another row; a sub-row inside a sub-row with three-segment ImportAtPath",
    "C16": "lines with 12000 and 70000 sibling containers at small depth; a repeated name whose occurrences are of different kinds; days the calendar does not have under a date column, judged against the hand-written calendar whatever the cast tables say",
    "C17": "a systematic sweep: every format x every raw type x a universe of ~250 Go values (edge texts of every parser, non-finite floats, far-away times, rows, values, structs with unexported fields, pointers, big numbers, raw JSON) through every entry point that takes a value and every Value constructor, and the same texts as lines",
    "C18": "rows used before they are read (path reads, path imports, growth, cloning); Values taken out of parsed rows as imported values; what a path finds against key-by-key navigation of the document as the row PRINTS it (rows without Go maps)",
    "C19": "column names a loader could take for paths or YAML / JSON look-alikes; a name declared twice at one level",
    "C20": "a sub-row inside a sub-row with path imports on each goroutine's own rows; the first round starts with no importer created before in the process; every input starts with a byte order mark",
}
for _pid, _txt in _ROUND5.items():
    PROPS[_pid]["rule"] += " Rounds 4-5: " + _txt + "."


# Which casters of pkg/cast (names as the translator reports them: ToXxx, "To" for the dispatcher,
# "binary_ops" for the xxxToBytes / xxxFromBytes functions) the theorems of a property are about: a source
# shape the translator cannot read in one of THESE is a broken obligation of that property ("*": all).
_INT = ["ToInt", "ToInt64", "ToInt32", "ToInt16", "ToInt8", "ToUint", "ToUint64", "ToUint32", "ToUint16", "ToUint8"]
_CASTERS = {
    "C04": ["ToString", "ToNumber", "ToBool", "ToBinary", "ToDate", "ToTime", "ToTimestamp", "ToInt64", "binary_ops"],
    "C05": "*", "C10": "*", "C13": "*", "C17": "*",
    "C09": _INT + ["To"],
    "C11": ["ToBinary", "binary_ops", "To"],
    "C12": _INT + ["ToString", "ToNumber", "ToBool", "ToFloat64", "ToFloat32", "To"],
    "C14": ["ToTime", "ToDate", "ToTimestamp", "ToString", "ToInt64", "To"],
    "C16": ["ToNumber", "ToDate", "ToInt", "ToInt64", "To"],
}
for _pid, _c in _CASTERS.items():
    PROPS[_pid]["casters"] = _c
