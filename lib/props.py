"""Per-property configuration of ./check (see DESIGN.md §7)."""

KERNEL = "Lean 4.33.0 kernel (axioms allowed: propext, Classical.choice, Quot.sound; audited per theorem on every run)"
CORR = ("correspondence check: harness/ (Go, calls the real code in-process) and the compiled Lean driver "
        "run the same protocol lines; generators, canonicalisation and the protocol codec are trusted")
EXTRACT = "extract/ (Go, go/ast + go/types): regenerates lean/Gen/*.lean from /repo on every run"

PROPS = {
    "C06": {
        "kind": "c06",
        "module": "Props.C06",
        "namespace": "Jl.C06",
        "rule": ("histories of row mutators over the key alphabet {'', a, ab, b, é, a.b}: every history of length "
                 "1 and 2 (thorough: 3) over a fixed op alphabet, plus random histories of length 3-60; after every "
                 "step Len, IterValues, Has, Get, GetValueAtIndex(-1..len) and the key order of MarshalJSON are "
                 "compared with the code-shaped model (LRow) and the specification (OMap). distinct = distinct "
                 "op sequences; non-trivial = at least two ops and (final row has >= 2 keys or a syntax error occurred)"),
        "trusted_base": [KERNEL, CORR,
                         "model of row.go's mutators (lean/Model/Row.lean) written by hand from the source, tied by correspondence",
                         "cell behaviour in the histories is restricted to cells without raw type in format Auto/Hidden and nested rows (lean/Model/Cells.lean); the theorems hold for every cell behaviour"],
        "assumptions": ["row.keys is write-only in the source and does not influence behaviour",
                        "Go map iteration order: Import(map) with several new keys inserts them in an unspecified order; the harness feeds the model the order the implementation used"],
    },
}
