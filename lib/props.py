"""Per-property configuration of ./check (see DESIGN.md §7)."""

KERNEL = "Lean 4.33.0 kernel (axioms allowed: propext, Classical.choice, Quot.sound; audited per theorem on every run)"
CORR = ("correspondence check: harness/ (Go, calls the real code in-process) and the compiled Lean driver "
        "run the same protocol lines; generators, canonicalisation and the protocol codec are trusted")
EXTRACT = "extract/ (Go, go/ast + go/types): regenerates lean/Gen/*.lean from /repo on every run"

PROPS = {
    "C06": {
        "kind": "c06",
        "module": "Props.C06",
        "namespace": "Jl.C06",
        "rule": ("histories of row mutators over the key alphabet {'', a, ab, b, é, a.b}: every history of length "
                 "1 and 2 (thorough: 3) over a fixed op alphabet, plus random histories of length 3-60; after every "
                 "step Len, IterValues, Has, Get, GetValueAtIndex(-1..len) and the key order of MarshalJSON are "
                 "compared with the code-shaped model (LRow) and the specification (OMap). distinct = distinct "
                 "op sequences; non-trivial = at least two ops and (final row has >= 2 keys or a syntax error occurred)"),
        "trusted_base": [KERNEL, CORR,
                         "model of row.go's mutators (lean/Model/Row.lean) written by hand from the source, tied by correspondence",
                         "cell behaviour in the histories is restricted to cells without raw type in format Auto/Hidden and nested rows (lean/Model/Cells.lean); the theorems hold for every cell behaviour"],
        "assumptions": ["row.keys is write-only in the source and does not influence behaviour",
                        "Go map iteration order: Import(map) with several new keys inserts them in an unspecified order; the harness feeds the model the order the implementation used"],
    },
    "C09": {
        "kind": "c09",
        "module": "Props.C09",
        "namespace": "Jl.C09",
        "extra_theorem_files": [("Proofs.CastInt", "Jl")],
        "rule": ("10 integer casters x sources: every int8/uint8 value (exhaustive), int16/uint16 within 260 of every power of "
                 "two plus a 1/40 sample (thorough: exhaustive), every value within 2 of every power of two and type bound "
                 "carried by every Go integer type that holds it, by decimal text and by json.Number; float64/float32 within "
                 "2 ulps of every power of two up to 2^65, +-0.5 and +-1 around them, NaN payloads, +-Inf, +-0, subnormals, "
                 "extremes; non-canonical and non-numeric text; uniformly random values. Each case is cast by the real code "
                 "and by the interpreter of the regenerated tables; the oracle CastSpec.intCastViolation (exact value or "
                 "error; integral values that fit succeed) is applied to the implementation's result. distinct = distinct "
                 "(caster, source) pairs; all are non-trivial (each exercises one branch of one caster)"),
        "trusted_base": [KERNEL, EXTRACT, CORR,
                         "lean/Model/Cast.lean: interpreter of the extracted branch language (hand-written; validated by correspondence on every case)",
                         "lean/Model/Float.lean: exact decoding of IEEE-754 bit patterns (hand-written port)",
                         "lean/Model/IntText.lean: port of strconv.ParseInt/ParseUint base 0 (validated against strconv by correspondence)"],
        "assumptions": ["amd64: int and uint are 64 bits wide",
                        "text sources: the theorem fixes the parse call (base 0, the target's bit size, sentinel); that strconv's result is the exact value of canonical decimal text is shown for the ported parser in C12 and validated against strconv"],
    },
}
