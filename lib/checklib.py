"""Orchestration shared by every property check (see DESIGN.md §2, §5, §11).

One run of `./check Cxx`:
  1. regenerate lean/Gen/*.lean from /repo (extract/), under a lock
  2. lake build Props.Cxx + driver; audit axioms of every property theorem; forbidden-token grep
  3. build harness against /repo (-tags verif), generate cases, run the real code
  4. pipe the protocol lines through the compiled Lean driver (model + oracle)
  5. verdict, evidence/<id>.json
"""
import fcntl
import json
import os
import re
import shutil
import subprocess
import sys
import time

VERIF = os.path.dirname(os.path.dirname(os.path.abspath(__file__)))
REPO = os.environ.get("VERIF_REPO", "/repo")
WORK = os.path.join(VERIF, ".work")
LEAN = os.path.join(VERIF, "lean")
ALLOWED_AXIOMS = {"propext", "Classical.choice", "Quot.sound"}
FORBIDDEN = re.compile(r"\b(sorry|admit|native_decide|bv_decide|implemented_by)\b|^\s*axiom\s|unsafe\s|maxHeartbeats\s+0")

GOENV = dict(os.environ, GOFLAGS="-mod=mod", GOPROXY="off", GOSUMDB="off", GOTOOLCHAIN="local",
             GOCACHE=os.environ.get("GOCACHE", os.path.join(WORK, "gocache")))


def log(msg):
    print(msg, flush=True)


def run(cmd, cwd=None, env=None, timeout=None, stdin=None, stdout=subprocess.PIPE):
    return subprocess.run(cmd, cwd=cwd, env=env, timeout=timeout, stdin=stdin, stdout=stdout,
                          stderr=subprocess.STDOUT, text=True)


class Lock:
    def __init__(self, name):
        os.makedirs(WORK, exist_ok=True)
        self.path = os.path.join(WORK, name + ".lock")

    def __enter__(self):
        self.f = open(self.path, "w")
        fcntl.flock(self.f, fcntl.LOCK_EX)
        return self

    def __exit__(self, *a):
        fcntl.flock(self.f, fcntl.LOCK_UN)
        self.f.close()


def strip_comments(text):
    """Remove Lean comments (nested block comments and line comments)."""
    out = []
    i, depth, n = 0, 0, len(text)
    while i < n:
        if text.startswith("/-", i):
            depth += 1
            i += 2
        elif depth and text.startswith("-/", i):
            depth -= 1
            i += 2
        elif depth:
            if text[i] == "\n":
                out.append("\n")
            i += 1
        elif text.startswith("--", i):
            while i < n and text[i] != "\n":
                i += 1
        else:
            out.append(text[i])
            i += 1
    return "".join(out)


def forbidden_tokens():
    """grep model/proof sources for anything that would weaken the kernel's verdict."""
    hits = []
    for root, _, files in os.walk(LEAN):
        if ".lake" in root:
            continue
        for fn in files:
            if not fn.endswith(".lean"):
                continue
            p = os.path.join(root, fn)
            body = strip_comments(open(p, encoding="utf-8").read())
            for ln, line in enumerate(body.split("\n"), 1):
                if FORBIDDEN.search(line):
                    hits.append(f"{os.path.relpath(p, VERIF)}:{ln}: {line.strip()[:120]}")
    return hits


def extract_gen():
    """Regenerate lean/Gen/*.lean from /repo's working tree. Returns (ok, notes)."""
    ex_dir = os.path.join(VERIF, "extract")
    if not os.path.isdir(ex_dir):
        return True, ["no extractor yet"]
    binp = os.path.join(WORK, "extract")
    r = run(["go", "build", "-o", binp, "."], cwd=ex_dir, env=GOENV)
    if r.returncode != 0:
        return False, ["extractor build failed: " + r.stdout[-2000:]]
    r = run([binp, "-repo", REPO, "-out", os.path.join(LEAN, "Gen")], env=GOENV)
    notes = [l for l in r.stdout.splitlines() if l.strip()]
    return r.returncode == 0, notes


def lake_build(targets):
    r = run(["lake", "build"] + targets, cwd=LEAN)
    return r.returncode == 0, r.stdout


def theorem_names(prop_file, namespace=None):
    """Fully qualified names of the (non-private) theorems declared in a Lean file, following its
    `namespace … / end …` nesting. `namespace` is only a fallback for a file without any."""
    text = strip_comments(open(prop_file, encoding="utf-8").read())
    stack, names = [], []
    for line in text.splitlines():
        m = re.match(r"^\s*namespace\s+(\S+)", line)
        if m:
            stack.append(m.group(1))
            continue
        m = re.match(r"^\s*end\s+(\S+)", line)
        if m and stack and stack[-1] == m.group(1):
            stack.pop()
            continue
        m = re.match(r"^\s*(?:@\[[^\]]*\]\s*)?(?:protected\s+)?theorem\s+([^\s\(\{\[:]+)", line)
        if m:
            prefix = ".".join(stack) if stack else (namespace or "")
            name = m.group(1)
            if name.startswith("_root_."):
                names.append(name[len("_root_."):])
            else:
                names.append((prefix + "." if prefix else "") + name)
    return names


def audit_axioms(module, names, tag):
    """#print axioms for every name; returns {name: [axioms]} (None when unknown)."""
    src = os.path.join(WORK, f"Audit_{tag}.lean")
    with open(src, "w") as f:
        f.write(f"import {module}\n")
        for n in names:
            f.write(f"#print axioms {n}\n")
    r = run(["lake", "env", "lean", src], cwd=LEAN)
    res = {n: None for n in names}
    text = r.stdout.replace("\n  ", " ")
    for m in re.finditer(r"'([^\s]+)' depends on axioms: \[([^\]]*)\]", text):
        res[m.group(1)] = [a.strip() for a in m.group(2).replace("\n", " ").split(",") if a.strip()]
    for m in re.finditer(r"'([^\s]+)' does not depend on any axioms", text):
        res[m.group(1)] = []
    return res, r.stdout


def build_harness(race=False):
    hdir = os.path.join(VERIF, "harness")
    # go.sum of the implementation under test (replace => /repo)
    try:
        with open(os.path.join(REPO, "go.sum")) as src, open(os.path.join(hdir, "go.sum"), "w") as dst:
            dst.write(src.read())
    except OSError:
        pass
    binp = os.path.join(WORK, "harness-race" if race else "harness")
    if os.path.exists(binp):
        os.remove(binp)
    modflag = []
    if os.path.abspath(REPO) != "/repo":
        # a tree elsewhere (VERIF_REPO, used by tools/ for seeded changes in a scratch copy): the same go.mod with
        # its replace directive pointing there
        os.makedirs(WORK, exist_ok=True)
        mod = open(os.path.join(hdir, "go.mod")).read().replace("=> /repo", "=> " + os.path.abspath(REPO))
        open(os.path.join(WORK, "harness.mod"), "w").write(mod)
        try:
            shutil.copy(os.path.join(REPO, "go.sum"), os.path.join(WORK, "harness.sum"))
        except OSError:
            pass
        modflag = ["-modfile=" + os.path.join(WORK, "harness.mod")]
    cmd = ["go", "build"] + modflag + (["-race"] if race else []) + ["-tags", "verif", "-o", binp, "."]
    r = run(cmd, cwd=hdir, env=GOENV)
    return r.returncode == 0, r.stdout, binp


def run_driver_bin(drv, cases_path, out_path, jobs=None):
    """Pipe the cases through the compiled Lean driver. Cases are independent of one another, so a large
    file is cut into consecutive chunks judged by several driver processes; the case numbers the driver
    prints (line numbers within its chunk) are shifted back to line numbers of the whole file."""
    jobs = jobs or min(16, os.cpu_count() or 1)
    size = os.path.getsize(cases_path)
    if jobs <= 1 or size < 8 << 20:
        with open(cases_path) as fin, open(out_path, "w") as fout:
            r = subprocess.run([drv], stdin=fin, stdout=fout, stderr=subprocess.PIPE, text=True)
        return r.returncode, r.stderr
    # cut at line boundaries, by size
    target = size // jobs + 1
    chunks, offsets = [], []
    base = os.path.splitext(cases_path)[0]
    with open(cases_path, "rb") as f:
        idx, k, cur, cur_size, first = 0, 0, None, 0, 0
        for line in f:
            if cur is None:
                name = f"{base}.chunk{k}"
                cur = open(name, "wb")
                chunks.append(name)
                offsets.append(idx)
            cur.write(line)
            cur_size += len(line)
            idx += 1
            if cur_size >= target:
                cur.close()
                cur, cur_size, k = None, 0, k + 1
        if cur is not None:
            cur.close()
    procs = []
    for name in chunks:
        fin = open(name)
        fout = open(name + ".out", "w")
        procs.append((subprocess.Popen([drv], stdin=fin, stdout=fout, stderr=subprocess.PIPE, text=True), fin, fout))
    rc, errs = 0, []
    for p, fin, fout in procs:
        _, err = p.communicate()
        fin.close()
        fout.close()
        if p.returncode != 0:
            rc = p.returncode
            errs.append(err or "")
    with open(out_path, "w") as out:
        for name, off in zip(chunks, offsets):
            with open(name + ".out") as f:
                for line in f:
                    parts = line.split("\t", 2)
                    if off and len(parts) > 1 and parts[1].strip().isdigit():
                        nl = "" if len(parts) > 2 else "\n"
                        parts[1] = str(int(parts[1]) + off) + nl
                        line = "\t".join(parts)
                    out.write(line)
            os.remove(name)
            os.remove(name + ".out")
    return rc, "\n".join(errs)


def read_known_findings():
    findings, fixed = [], []
    p = os.path.join(VERIF, "known_findings.txt")
    if os.path.exists(p):
        for line in open(p):
            line = line.strip()
            if line.startswith("finding:"):
                m = re.match(r"finding:\s+property=(\S+)\s+key=(\S+)\s+(.*)", line)
                if m:
                    findings.append({"property": m.group(1), "key": m.group(2), "what": m.group(3)})
            elif line.startswith("fixed:"):
                fixed.append(line)
    return findings, fixed


def write_evidence(pid, ev):
    os.makedirs(os.path.join(VERIF, "evidence"), exist_ok=True)
    p = os.path.join(VERIF, "evidence", f"{pid}.json")
    with open(p, "w") as f:
        json.dump(ev, f, indent=1, sort_keys=True)
    return p


def write_replay(pid, payload):
    d = os.path.join(VERIF, "replays")
    os.makedirs(d, exist_ok=True)
    p = os.path.join(d, f"{pid}-{payload.get('kind','violation')}-{int(time.time())}.json")
    with open(p, "w") as f:
        json.dump(payload, f, indent=1)
    return p
