package main

// value.go — translator for pkg/jsonline's value.go, conversions_import.go and conversions_export.go
// (Gen/ValueTable.lean, in the syntax of Model.ValueSyntax).
//
// How it reads the source.  `value.Import`, `value.Export`, `NewValue` and `CloneValue` are run by a
// small SYMBOLIC EXECUTOR over the AST (go/ast + the go/types facts loadPkg recorded), once per Format
// constant of the package and once for "any other Format": the receiver's format field holds that
// constant, so every test on it (`switch v.f`, `v.f == Auto || v.f == Hidden`, an if-chain …) is decided
// statically; the package's own functions (importFromX, exportToX, helpers) are inlined; what remains is
// a decision tree whose inner nodes are
//
//	call#k fn(args)            a call that is not inlined (cast.ToString, base64.StdEncoding.DecodeString, a
//	                           method of an interface value …), numbered along the path
//	if isnil(x) / is(x,T)      a nil test or a comma-ok / type-switch test on a symbolic value
//
// and whose leaves are the returned values plus the receiver's fields at that point.  Spelling does not
// survive this: order of switch cases, merged or split cases, names of locals, `if t == nil` against
// `switch t.(type) { case nil: }`, early returns against else, error message texts (an error built with
// one `%w` is FAIL(<sentinel>) whatever its text).  Behaviour does: which caster is called on what,
// which sentinel wraps, what is written to v.raw on which path, which nil / Row / Value test guards what.
//
// The tree of each format is then CLASSIFIED against the few shapes of Model.ValueSyntax (byType, binary,
// castTo; chain, binary, raw; the preambles; NewValue; CloneValue).  A tree of no known shape is emitted
// as `.unknown "<the tree>"`, never guessed; a statement or expression the executor does not understand
// (loops, defer, go, goto/break/fallthrough, closures, arithmetic, writes to package variables …) becomes an
// UNKNOWN<text> node, which no shape accepts.
//
// What the executor takes for granted (so what a change could hide behind): symbolic values are pure —
// a single-value type assertion `x.(T)` is the value assert(x,T), its panic is not a branch of the tree;
// calls that are not inlined are opaque and only their order along a path is kept; the arguments of
// fmt.Errorf other than the one `%w` refers to must be plain values and are then ignored; the error of a
// call that was tested and found nil is nil (`return x, err` after `if err != nil {…}` is `return x, nil`;
// `if err != nil { return err }; return nil` is `return err`).  The output does not depend on whether
// go/types could resolve the import of pkg/cast (it cannot when the extractor runs outside the module):
// the few places that need a type use the syntax when the checker recorded nothing.
//
// rowfacts.go and flow.go run the same executor on row.go and on template.go, exporter.go, importer.go,
// streamer.go; what they need beyond the above (loops, calls of function values, builtins, sorted type switches,
// map and list accesses) comes in through the hooks and flags of valX, all unset here.

import (
	"fmt"
	"go/ast"
	"go/constant"
	"go/token"
	"go/types"
	"sort"
	"strings"
)

// ---------------------------------------------------------------------------------------------------
// trees

type vtree struct {
	kind   string // "call" | "if" | "leaf" | "unknown" | "loop" (rowfacts.go only: cond = header, then = body, next = what follows)
	id     int    // call
	fn     string
	args   []string
	next   *vtree
	cond   string // if
	then   *vtree
	els    *vtree
	rets   []string          // leaf
	fields map[string]string // leaf: the receiver's fields by role (raw, f, typ); nil without receiver
	text   string            // unknown
}

func vunknown(format string, a ...interface{}) *vtree {
	return &vtree{kind: "unknown", text: fmt.Sprintf(format, a...)}
}

func fieldsText(m map[string]string) string {
	keys := make([]string, 0, len(m))
	for k := range m {
		keys = append(keys, k)
	}
	sort.Strings(keys)
	parts := make([]string, len(keys))
	for i, k := range keys {
		parts[i] = k + "=" + m[k]
	}
	return strings.Join(parts, ",")
}

func (t *vtree) String() string {
	if t == nil {
		return "<nil>"
	}
	switch t.kind {
	case "call":
		return fmt.Sprintf("call#%d %s(%s); %s", t.id, t.fn, strings.Join(t.args, ","), t.next)
	case "if":
		return fmt.Sprintf("if %s {%s} else {%s}", t.cond, t.then, t.els)
	case "loop":
		return fmt.Sprintf("loop#%d %s {%s}; %s", t.id, t.cond, t.then, t.next)
	case "leaf":
		s := "return [" + strings.Join(t.rets, ",") + "]"
		if t.fields != nil {
			s += " with {" + fieldsText(t.fields) + "}"
		}
		return s
	}
	return "UNKNOWN<" + t.text + ">"
}

// merged: `if isnil(e) {return A} else {return B}`, e the error of a call, where A is B with e replaced by nil,
// is `return B` (`if err != nil { return err }; return nil` is `return err`).
func (t *vtree) merged() *vtree {
	if t == nil {
		return t
	}
	switch t.kind {
	case "call":
		t.next = t.next.merged()
	case "loop":
		t.then, t.next = t.then.merged(), t.next.merged()
	case "if":
		t.then, t.els = t.then.merged(), t.els.merged()
		if strings.HasPrefix(t.cond, "isnil(err#") && t.then.kind == "leaf" && t.els.kind == "leaf" &&
			len(t.then.rets) == len(t.els.rets) && fieldsText(t.then.fields) == fieldsText(t.els.fields) {
			e := t.cond[len("isnil(") : len(t.cond)-1]
			same := true
			for i, r := range t.els.rets {
				same = same && (r == t.then.rets[i] || (r == e && t.then.rets[i] == "nil"))
			}
			if same {
				return t.els
			}
		}
	}
	return t
}

func vwrap(pend []*vtree, t *vtree) *vtree {
	for i := len(pend) - 1; i >= 0; i-- {
		pend[i].next = t
		t = pend[i]
	}
	return t
}

// ---------------------------------------------------------------------------------------------------
// symbolic state

type vstate struct {
	vars   map[types.Object]string
	pos    map[token.Pos]string // the variable of a type switch guard (one implicit object per clause, all at the guard's position)
	fields map[string]string    // receiver fields by role
	known  map[string]bool      // conditions already decided on this path
	ncall  int
}

func (s *vstate) clone() *vstate {
	c := &vstate{vars: make(map[types.Object]string, len(s.vars)), pos: make(map[token.Pos]string, len(s.pos)),
		known: make(map[string]bool, len(s.known)), ncall: s.ncall}
	for k, v := range s.vars {
		c.vars[k] = v
	}
	for k, v := range s.pos {
		c.pos[k] = v
	}
	for k, v := range s.known {
		c.known[k] = v
	}
	if s.fields != nil {
		c.fields = make(map[string]string, len(s.fields))
		for k, v := range s.fields {
			c.fields[k] = v
		}
	}
	return c
}

// norm: the error of a call, once tested and found nil on this path, is nil.
func (s *vstate) norm(sym string) string {
	if strings.HasPrefix(sym, "err#") && s.known["isnil("+sym+")"] {
		return "nil"
	}
	return sym
}

type vframe struct {
	nres  int
	named []types.Object
	ret   func(st *vstate, rets []string) *vtree
	stack []string
}

type valX struct {
	p        *pkgInfo
	funcs    map[string]*ast.FuncDecl // "NewValue", "value.Import"
	noInline map[string]bool
	inlined  map[string]bool   // functions inlined during the current run
	roles    map[string]string // field name of the cell struct -> role (raw, f, typ)
	cellType string            // name of the cell struct ("value")
	depth    int               // nesting of one-expression helpers being evaluated
	cur      *vframe           // the frame of the statement being executed (for calls inlined inside conditions)

	// extension points of rowfacts.go (all nil while the value table is computed): an expression, a
	// statement or an assignment target the executor above does not know is offered to them first.
	evalHook   func(e ast.Expr, st *vstate, pend *[]*vtree) (sym string, ok, handled bool)
	stmtHook   func(s ast.Stmt, rest []ast.Stmt, st *vstate, fr *vframe) *vtree
	assignHook func(lhs ast.Expr, sym string, st *vstate) (ok, handled bool)

	// extension points used by flow.go (all nil / false for Gen/ValueTable.lean); stmtHook above is shared
	callHook     func(n *ast.CallExpr, st *vstate, pend *[]*vtree, want int) (rs []string, ok bool, handled bool) // sees every call that is not inlined first
	wrapCalls    bool                                                                                             // fmt.Errorf arguments may be calls (they become nodes of the tree)
	funcValues   bool                                                                                             // a function of the package used as a value is the symbol func:<name>
	loopBranches bool                                                                                             // break / continue of a loop nested in a switch case belong to that loop (flow.go runs loops)
}

func vfuncKey(fd *ast.FuncDecl) string {
	if fd.Recv == nil || len(fd.Recv.List) == 0 {
		return fd.Name.Name
	}
	t := fd.Recv.List[0].Type
	if s, ok := t.(*ast.StarExpr); ok {
		t = s.X
	}
	if id, ok := t.(*ast.Ident); ok {
		return id.Name + "." + fd.Name.Name
	}
	return "?." + fd.Name.Name
}

func newValX(p *pkgInfo) *valX {
	x := &valX{p: p, funcs: map[string]*ast.FuncDecl{}, noInline: map[string]bool{}, inlined: map[string]bool{}, roles: map[string]string{}}
	for _, f := range p.files {
		for _, d := range f.Decls {
			if fd, ok := d.(*ast.FuncDecl); ok && fd.Body != nil {
				x.funcs[vfuncKey(fd)] = fd
			}
		}
	}
	// the cell struct: the receiver type of the Import method that has a field of type Format
	for key := range x.funcs {
		if !strings.HasSuffix(key, ".Import") {
			continue
		}
		tn := strings.TrimSuffix(key, ".Import")
		obj, ok := p.pkg.Scope().Lookup(tn).(*types.TypeName)
		if !ok {
			continue
		}
		st, ok := obj.Type().Underlying().(*types.Struct)
		if !ok {
			continue
		}
		roles := map[string]string{}
		for i := 0; i < st.NumFields(); i++ {
			f := st.Field(i)
			switch x.typeStr(f.Type()) {
			case "Format":
				roles[f.Name()] = "f"
			case "RawType":
				roles[f.Name()] = "typ"
			case "interface{}", "any":
				roles[f.Name()] = "raw"
			default:
				roles[f.Name()] = f.Name()
			}
		}
		seen := map[string]bool{}
		for _, r := range roles {
			seen[r] = true
		}
		if len(roles) == 3 && seen["f"] && seen["typ"] && seen["raw"] && (x.cellType == "" || tn < x.cellType) {
			x.cellType, x.roles = tn, roles
		}
	}
	return x
}

func (x *valX) typeStr(t types.Type) string {
	if t == nil {
		return "?"
	}
	s := types.TypeString(t, func(p *types.Package) string {
		if p == x.p.pkg {
			return ""
		}
		return p.Name()
	})
	return strings.ReplaceAll(s, "uint8", "byte")
}

// typeExprStr renders a type expression; when go/types recorded nothing for it (the operand's own type was
// unknown to the checker) the source text is what there is.
func (x *valX) typeExprStr(e ast.Expr) string {
	if tv, ok := x.p.info.Types[e]; ok && tv.Type != nil {
		if b, isBasic := tv.Type.(*types.Basic); !isBasic || b.Kind() != types.Invalid {
			return x.typeStr(tv.Type)
		}
	}
	return strings.ReplaceAll(x.p.text(e), "uint8", "byte")
}

func (x *valX) zeroSym(t types.Type) string {
	switch u := t.Underlying().(type) {
	case *types.Interface, *types.Pointer, *types.Slice, *types.Map, *types.Chan, *types.Signature:
		return "nil"
	case *types.Basic:
		switch {
		case u.Info()&types.IsBoolean != 0:
			return "lit:false"
		case u.Info()&types.IsString != 0:
			return `lit:""`
		case u.Info()&types.IsNumeric != 0:
			if _, named := t.(*types.Named); named {
				return "const(" + x.typeStr(t) + ":0)"
			}
			return "lit:0"
		}
	}
	return "zero(" + x.typeStr(t) + ")"
}

func fmtSym(n string) string { return "const(Format:" + n + ")" }

func (x *valX) constSym(tv types.TypeAndValue) string {
	if _, named := tv.Type.(*types.Named); named {
		return "const(" + x.typeStr(tv.Type) + ":" + tv.Value.ExactString() + ")"
	}
	return "lit:" + tv.Value.ExactString()
}

func isConstSym(s string) bool { return strings.HasPrefix(s, "const(") || strings.HasPrefix(s, "lit:") }

func (x *valX) unk(n ast.Node) *vtree { return vunknown("%s", x.p.text(n)) }

// ---------------------------------------------------------------------------------------------------
// expressions

func (x *valX) eval(e ast.Expr, st *vstate, pend *[]*vtree) (string, bool) {
	e = ast.Unparen(e)
	if tv, ok := x.p.info.Types[e]; ok && !tv.IsType() {
		if tv.IsNil() {
			return "nil", true
		}
		if tv.Value != nil {
			return x.constSym(tv), true
		}
	}
	if x.evalHook != nil {
		if s, ok, handled := x.evalHook(e, st, pend); handled {
			return s, ok
		}
	}
	switch n := e.(type) {
	case *ast.Ident:
		obj := x.p.info.Uses[n]
		if obj == nil {
			obj = x.p.info.Defs[n]
		}
		if obj == nil {
			return "", false
		}
		if s, ok := st.vars[obj]; ok {
			return st.norm(s), true
		}
		if v, ok := obj.(*types.Var); ok {
			if s, ok := st.pos[v.Pos()]; ok {
				return st.norm(s), true
			}
			if v.Parent() == x.p.pkg.Scope() {
				return "G." + v.Name(), true
			}
		}
		if fo, ok := obj.(*types.Func); ok && x.funcValues && fo.Pkg() == x.p.pkg {
			return "func:" + fo.Name(), true
		}
		return "", false
	case *ast.SelectorExpr:
		if id, ok := n.X.(*ast.Ident); ok {
			if pn, ok := x.p.info.Uses[id].(*types.PkgName); ok {
				if _, isFunc := x.p.info.Uses[n.Sel].(*types.Func); isFunc {
					return "", false // a function value
				}
				return pn.Imported().Name() + "." + n.Sel.Name, true
			}
		}
		xs, ok := x.eval(n.X, st, pend)
		if !ok {
			return "", false
		}
		if xs == "R" {
			if role, ok := x.roles[n.Sel.Name]; ok {
				if s, ok := st.fields[role]; ok {
					return st.norm(s), true
				}
			}
		}
		return "", false
	case *ast.TypeAssertExpr:
		if n.Type == nil {
			return "", false
		}
		xs, ok := x.eval(n.X, st, pend)
		if !ok {
			return "", false
		}
		return "assert(" + xs + "," + x.typeExprStr(n.Type) + ")", true
	case *ast.UnaryExpr:
		if n.Op == token.AND {
			if cl, ok := ast.Unparen(n.X).(*ast.CompositeLit); ok {
				s, ok := x.composite(cl, st, pend)
				return "&" + s, ok
			}
		}
		return "", false
	case *ast.CompositeLit:
		return x.composite(n, st, pend)
	case *ast.CallExpr:
		rs, ok := x.evalCall(n, st, pend, 1)
		if !ok || len(rs) != 1 {
			return "", false
		}
		return rs[0], true
	}
	return "", false
}

// composite renders a struct literal with its fields sorted (the cell struct's by role) and the omitted ones zero.
func (x *valX) composite(cl *ast.CompositeLit, st *vstate, pend *[]*vtree) (string, bool) {
	tv, ok := x.p.info.Types[cl]
	if !ok || tv.Type == nil {
		return "", false
	}
	stt, ok := tv.Type.Underlying().(*types.Struct)
	if !ok {
		return "", false
	}
	tname := x.typeStr(tv.Type)
	role := func(n string) string {
		if tname == x.cellType {
			if r, ok := x.roles[n]; ok {
				return r
			}
		}
		return n
	}
	vals := map[string]string{}
	for i, el := range cl.Elts {
		name, val := "", el
		if kv, ok := el.(*ast.KeyValueExpr); ok {
			id, ok := kv.Key.(*ast.Ident)
			if !ok {
				return "", false
			}
			name, val = id.Name, kv.Value
		} else if i < stt.NumFields() {
			name = stt.Field(i).Name()
		} else {
			return "", false
		}
		s, ok := x.eval(val, st, pend)
		if !ok {
			return "", false
		}
		vals[role(name)] = s
	}
	for i := 0; i < stt.NumFields(); i++ {
		f := stt.Field(i)
		if _, ok := vals[role(f.Name())]; !ok {
			vals[role(f.Name())] = x.zeroSym(f.Type())
		}
	}
	return tname + "{" + fieldsText(vals) + "}", true
}

// verbs lists the verbs of a format string that consume an argument, in order; ok=false for `*` and `[n]`.
func fmtVerbs(format string) (vs []byte, ok bool) {
	for i := 0; i < len(format); i++ {
		if format[i] != '%' {
			continue
		}
		i++
		for i < len(format) && strings.IndexByte("+-# 0123456789.", format[i]) >= 0 {
			i++
		}
		if i >= len(format) {
			return nil, false
		}
		switch format[i] {
		case '%':
		case '*', '[':
			return nil, false
		default:
			vs = append(vs, format[i])
		}
	}
	return vs, true
}

// errorf: an error built by fmt.Errorf with exactly one %w is FAIL(<sentinel>) when the wrapped argument is an
// Err… variable, WRAP(<value>) otherwise; without %w it is ERR(nowrap). The text never matters; the other
// arguments must be plain values (no call).
func (x *valX) errorf(n *ast.CallExpr, st *vstate, pend *[]*vtree) (string, bool) {
	if len(n.Args) == 0 {
		return "", false
	}
	tv, ok := x.p.info.Types[n.Args[0]]
	if !ok || tv.Value == nil || tv.Value.Kind() != constant.String {
		return "", false
	}
	vs, ok := fmtVerbs(constant.StringVal(tv.Value))
	if !ok || len(vs) != len(n.Args)-1 {
		return "", false
	}
	before := len(*pend)
	var syms []string
	for _, a := range n.Args[1:] {
		s, ok := x.eval(a, st, pend)
		if !ok || (len(*pend) != before && !x.wrapCalls) {
			return "", false
		}
		syms = append(syms, s)
	}
	w := -1
	for i, v := range vs {
		if v == 'w' {
			if w >= 0 {
				return "", false
			}
			w = i
		}
	}
	if w < 0 {
		return "ERR(nowrap)", true
	}
	s := syms[w]
	name := strings.TrimPrefix(s, "G.")
	last := name
	if k := strings.LastIndex(name, "."); k >= 0 {
		last = name[k+1:]
	}
	if strings.HasPrefix(last, "Err") && !strings.ContainsAny(name, "(#") {
		return "FAIL(" + name + ")", true
	}
	return "WRAP(" + s + ")", true
}

// evalCall evaluates a call that is not inlined: a conversion, fmt.Errorf, or an opaque call recorded as a
// node of the tree. `want` is the number of results the context needs (-1: whatever the call has).
func (x *valX) evalCall(n *ast.CallExpr, st *vstate, pend *[]*vtree, want int) ([]string, bool) {
	if x.callHook != nil {
		if rs, ok, handled := x.callHook(n, st, pend, want); handled {
			return rs, ok
		}
	}
	if tv, ok := x.p.info.Types[n.Fun]; ok && tv.IsType() {
		if len(n.Args) != 1 {
			return nil, false
		}
		a, ok := x.eval(n.Args[0], st, pend)
		return []string{"conv(" + x.typeStr(tv.Type) + "," + a + ")"}, ok
	}
	if n.Ellipsis.IsValid() {
		return nil, false
	}
	fn := ""
	var args []string
	switch f := ast.Unparen(n.Fun).(type) {
	case *ast.Ident:
		fo, ok := x.p.info.Uses[f].(*types.Func)
		if !ok || fo.Pkg() != x.p.pkg {
			return nil, false // builtins, function values
		}
		fn = x.p.pkg.Name() + "." + f.Name
	case *ast.SelectorExpr:
		if id, ok := f.X.(*ast.Ident); ok {
			if pn, ok := x.p.info.Uses[id].(*types.PkgName); ok {
				fn = pn.Imported().Name() + "." + f.Sel.Name
			}
		}
		if fn == "" {
			rs, ok := x.eval(f.X, st, pend)
			if !ok {
				return nil, false
			}
			fn = "." + f.Sel.Name
			args = append(args, rs)
		}
	default:
		return nil, false
	}
	if fn == "fmt.Errorf" {
		s, ok := x.errorf(n, st, pend)
		return []string{s}, ok
	}
	for _, a := range n.Args {
		s, ok := x.eval(a, st, pend)
		if !ok {
			return nil, false
		}
		args = append(args, s)
	}
	// a one-expression helper of the package (`func f(…) T { return e }`, e.g. an error constructor) is its expression
	if id, ok := ast.Unparen(n.Fun).(*ast.Ident); ok && want == 1 && x.depth < 4 && !x.noInline[id.Name] {
		if fd := x.funcs[id.Name]; fd != nil && fd.Recv == nil && len(fd.Body.List) == 1 && countResults(fd) == 1 {
			if r, ok := fd.Body.List[0].(*ast.ReturnStmt); ok && len(r.Results) == 1 {
				i, bound := 0, true
				for _, f := range fd.Type.Params.List {
					if _, variadic := f.Type.(*ast.Ellipsis); variadic || len(f.Names) == 0 {
						bound = false
						break
					}
					for _, nm := range f.Names {
						if i >= len(args) {
							bound = false
							break
						}
						if obj := x.p.info.Defs[nm]; obj != nil && nm.Name != "_" {
							st.vars[obj] = args[i]
						}
						i++
					}
				}
				if bound && i == len(args) {
					x.depth++
					s, ok := x.eval(r.Results[0], st, pend)
					x.depth--
					return []string{s}, ok
				}
				return nil, false
			}
		}
	}
	nres := want
	if nres < 0 {
		tv, ok := x.p.info.Types[n]
		if !ok || tv.Type == nil {
			return nil, false
		}
		if tup, ok := tv.Type.(*types.Tuple); ok {
			nres = tup.Len()
		} else if b, ok := tv.Type.(*types.Basic); ok && b.Kind() == types.Invalid {
			return nil, false
		} else {
			nres = 1
		}
	}
	st.ncall++
	id := st.ncall
	*pend = append(*pend, &vtree{kind: "call", id: id, fn: fn, args: args})
	switch nres {
	case 0:
		return nil, true
	case 1:
		return []string{fmt.Sprintf("res#%d", id)}, true
	case 2:
		return []string{fmt.Sprintf("res#%d", id), fmt.Sprintf("err#%d", id)}, true
	}
	rs := make([]string, nres)
	for i := range rs {
		rs[i] = fmt.Sprintf("res#%d.%d", id, i)
	}
	return rs, true
}

// ---------------------------------------------------------------------------------------------------
// conditions

func (x *valX) ifNode(cond string, st *vstate, tk, ek func(*vstate) *vtree) *vtree {
	if v, ok := st.known[cond]; ok {
		if v {
			return tk(st)
		}
		return ek(st)
	}
	s1, s2 := st.clone(), st.clone()
	s1.known[cond], s2.known[cond] = true, false
	return &vtree{kind: "if", cond: cond, then: tk(s1), els: ek(s2)}
}

func (x *valX) branchEq(l, r string, st *vstate, tk, ek func(*vstate) *vtree) *vtree {
	switch {
	case l == r:
		return tk(st)
	case isConstSym(l) && isConstSym(r):
		return ek(st)
	case l == "nil":
		return x.ifNode("isnil("+r+")", st, tk, ek)
	case r == "nil":
		return x.ifNode("isnil("+l+")", st, tk, ek)
	}
	if r < l {
		l, r = r, l
	}
	return x.ifNode("eq("+l+","+r+")", st, tk, ek)
}

func (x *valX) branch(c ast.Expr, st *vstate, tk, ek func(*vstate) *vtree) *vtree {
	c = ast.Unparen(c)
	if tv, ok := x.p.info.Types[c]; ok && tv.Value != nil && tv.Value.Kind() == constant.Bool {
		if constant.BoolVal(tv.Value) {
			return tk(st)
		}
		return ek(st)
	}
	switch n := c.(type) {
	case *ast.UnaryExpr:
		if n.Op == token.NOT {
			return x.branch(n.X, st, ek, tk)
		}
	case *ast.BinaryExpr:
		switch n.Op {
		case token.LOR:
			return x.branch(n.X, st, tk, func(s2 *vstate) *vtree { return x.branch(n.Y, s2, tk, ek) })
		case token.LAND:
			return x.branch(n.X, st, func(s2 *vstate) *vtree { return x.branch(n.Y, s2, tk, ek) }, ek)
		case token.EQL, token.NEQ:
			var pend []*vtree
			l, ok1 := x.eval(n.X, st, &pend)
			r, ok2 := x.eval(n.Y, st, &pend)
			if !ok1 || !ok2 {
				return x.unk(c)
			}
			if n.Op == token.NEQ {
				tk, ek = ek, tk
			}
			return vwrap(pend, x.branchEq(l, r, st, tk, ek))
		}
	}
	onValue := func(s2 *vstate, s string) *vtree {
		switch {
		case s == "lit:true":
			return tk(s2)
		case s == "lit:false":
			return ek(s2)
		case !strings.HasPrefix(s, "is("):
			s = "true(" + s + ")"
		}
		return x.ifNode(s, s2, tk, ek)
	}
	if call, isCall := c.(*ast.CallExpr); isCall && x.cur != nil {
		// a boolean function of the package (or method of the receiver): inlined, each of its returns decides
		if key, fd := x.inlinable(call, st, x.cur); fd != nil && countResults(fd) == 1 {
			return x.inline(call, key, fd, st, x.cur, func(s2 *vstate, rets []string) *vtree { return onValue(s2, rets[0]) })
		}
	}
	var pend []*vtree
	s, ok := x.eval(c, st, &pend)
	if !ok {
		return x.unk(c)
	}
	if isConstSym(s) {
		return vwrap(pend, onValue(st, s))
	}
	if !strings.HasPrefix(s, "is(") {
		s = "true(" + s + ")"
	}
	return vwrap(pend, x.ifNode(s, st, tk, ek))
}

// ---------------------------------------------------------------------------------------------------
// statements

func vconcat(a, b []ast.Stmt) []ast.Stmt {
	out := make([]ast.Stmt, 0, len(a)+len(b))
	out = append(out, a...)
	return append(out, b...)
}

func hasBranchStmt(ss []ast.Stmt) bool {
	found := false
	for _, s := range ss {
		ast.Inspect(s, func(n ast.Node) bool {
			if _, ok := n.(*ast.BranchStmt); ok {
				found = true
			}
			return !found
		})
	}
	return found
}

// caseHasBranch: a case body holds a break / continue / goto / fallthrough the switch cannot be run with. When the
// loops are run (loopBranches), the unlabelled break / continue inside a for / range nested in the body are that loop's.
func (x *valX) caseHasBranch(ss []ast.Stmt) bool {
	if !x.loopBranches {
		return hasBranchStmt(ss)
	}
	found := false
	var visit func(n ast.Node, inLoop bool)
	visit = func(n ast.Node, inLoop bool) {
		ast.Inspect(n, func(m ast.Node) bool {
			if found || m == nil {
				return false
			}
			switch b := m.(type) {
			case *ast.BranchStmt:
				if !inLoop || b.Label != nil || (b.Tok != token.BREAK && b.Tok != token.CONTINUE) {
					found = true
				}
			case *ast.ForStmt:
				if m != n {
					visit(b.Body, true)
					return false
				}
			case *ast.RangeStmt:
				if m != n {
					visit(b.Body, true)
					return false
				}
			case *ast.SwitchStmt, *ast.TypeSwitchStmt, *ast.SelectStmt:
				if m != n && inLoop {
					// a break inside a nested switch is that switch's: leave it to the nested run
					visit(m, false)
					return false
				}
			}
			return true
		})
	}
	visit(&ast.BlockStmt{List: ss}, false)
	return found
}

func (x *valX) assign(lhs ast.Expr, sym string, st *vstate) bool {
	if x.assignHook != nil {
		if ok, handled := x.assignHook(lhs, sym, st); handled {
			return ok
		}
	}
	switch l := ast.Unparen(lhs).(type) {
	case *ast.Ident:
		if l.Name == "_" {
			return true
		}
		obj := x.p.info.Defs[l]
		if obj == nil {
			obj = x.p.info.Uses[l]
		}
		v, ok := obj.(*types.Var)
		if !ok || v.Parent() == x.p.pkg.Scope() {
			return false // a package-level variable is written: not a function of the arguments any more
		}
		st.vars[obj] = sym
		return true
	case *ast.SelectorExpr:
		if id, ok := l.X.(*ast.Ident); ok {
			if obj := x.p.info.Uses[id]; obj != nil && st.vars[obj] == "R" {
				if role, ok := x.roles[l.Sel.Name]; ok && st.fields != nil {
					st.fields[role] = sym
					return true
				}
			}
		}
	}
	return false
}

func countResults(fd *ast.FuncDecl) int {
	n := 0
	if fd.Type.Results != nil {
		for _, f := range fd.Type.Results.List {
			if len(f.Names) == 0 {
				n++
			} else {
				n += len(f.Names)
			}
		}
	}
	return n
}

// inlinable: a call of a function of the package (or of a method of the receiver under execution) whose body is known.
func (x *valX) inlinable(call *ast.CallExpr, st *vstate, fr *vframe) (string, *ast.FuncDecl) {
	if call.Ellipsis.IsValid() {
		return "", nil
	}
	key := ""
	switch f := ast.Unparen(call.Fun).(type) {
	case *ast.Ident:
		fo, ok := x.p.info.Uses[f].(*types.Func)
		if !ok || fo.Pkg() != x.p.pkg {
			return "", nil
		}
		key = f.Name
	case *ast.SelectorExpr:
		id, ok := f.X.(*ast.Ident)
		if !ok {
			return "", nil
		}
		if obj := x.p.info.Uses[id]; obj == nil || st.vars[obj] != "R" {
			return "", nil
		}
		fo, ok := x.p.info.Uses[f.Sel].(*types.Func)
		if !ok {
			return "", nil
		}
		sig, ok := fo.Type().(*types.Signature)
		if !ok || sig.Recv() == nil {
			return "", nil
		}
		rt := sig.Recv().Type()
		if p, ok := rt.(*types.Pointer); ok {
			rt = p.Elem()
		}
		named, ok := rt.(*types.Named)
		if !ok {
			return "", nil
		}
		key = named.Obj().Name() + "." + f.Sel.Name
	default:
		return "", nil
	}
	fd := x.funcs[key]
	if fd == nil || x.noInline[key] || len(fr.stack) >= 6 {
		return "", nil
	}
	for _, s := range fr.stack {
		if s == key {
			return "", nil
		}
	}
	if ps := fd.Type.Params.List; len(ps) > 0 {
		if _, variadic := ps[len(ps)-1].Type.(*ast.Ellipsis); variadic {
			return "", nil
		}
	}
	return key, fd
}

func (x *valX) inline(call *ast.CallExpr, key string, fd *ast.FuncDecl, st *vstate, fr *vframe, k func(*vstate, []string) *vtree) *vtree {
	var pend []*vtree
	var args []string
	for _, a := range call.Args {
		s, ok := x.eval(a, st, &pend)
		if !ok {
			return x.unk(call)
		}
		args = append(args, s)
	}
	i := 0
	for _, f := range fd.Type.Params.List {
		if len(f.Names) == 0 {
			i++
			continue
		}
		for _, nm := range f.Names {
			if i >= len(args) {
				return x.unk(call)
			}
			if obj := x.p.info.Defs[nm]; obj != nil && nm.Name != "_" {
				st.vars[obj] = args[i]
			}
			i++
		}
	}
	if i != len(args) {
		return x.unk(call)
	}
	if fd.Recv != nil && len(fd.Recv.List) == 1 && len(fd.Recv.List[0].Names) == 1 {
		if obj := x.p.info.Defs[fd.Recv.List[0].Names[0]]; obj != nil {
			st.vars[obj] = "R"
		}
	}
	fr2 := &vframe{nres: countResults(fd), ret: k, stack: append(append([]string{}, fr.stack...), key)}
	x.bindNamedResults(fd, st, fr2)
	x.inlined[key] = true
	return vwrap(pend, x.exec(fd.Body.List, st, fr2))
}

func (x *valX) bindNamedResults(fd *ast.FuncDecl, st *vstate, fr *vframe) {
	if fd.Type.Results == nil {
		return
	}
	for _, f := range fd.Type.Results.List {
		for _, nm := range f.Names {
			if obj := x.p.info.Defs[nm]; obj != nil {
				st.vars[obj] = x.zeroSym(obj.Type())
				fr.named = append(fr.named, obj)
			}
		}
	}
}

func (x *valX) exec(stmts []ast.Stmt, st *vstate, fr *vframe) *vtree {
	if len(stmts) == 0 {
		if fr.nres == 0 {
			return fr.ret(st, nil)
		}
		return vunknown("no return")
	}
	s, rest := stmts[0], stmts[1:]
	var pend []*vtree
	x.cur = fr
	if x.stmtHook != nil {
		if t := x.stmtHook(s, rest, st, fr); t != nil {
			return t
		}
	}
	switch n := s.(type) {
	case *ast.BlockStmt:
		return x.exec(vconcat(n.List, rest), st, fr)
	case *ast.EmptyStmt:
		return x.exec(rest, st, fr)
	case *ast.DeclStmt:
		gd, ok := n.Decl.(*ast.GenDecl)
		if !ok || gd.Tok != token.VAR {
			return x.unk(s)
		}
		for _, sp := range gd.Specs {
			vs := sp.(*ast.ValueSpec)
			if len(vs.Values) == 0 {
				for _, id := range vs.Names {
					if obj := x.p.info.Defs[id]; obj != nil {
						st.vars[obj] = x.zeroSym(obj.Type())
					}
				}
				continue
			}
			if len(vs.Values) != len(vs.Names) {
				return x.unk(s)
			}
			syms := make([]string, len(vs.Values))
			for i, v := range vs.Values {
				sym, ok := x.eval(v, st, &pend)
				if !ok {
					return x.unk(s)
				}
				syms[i] = sym
			}
			for i, id := range vs.Names {
				if !x.assign(id, syms[i], st) {
					return x.unk(s)
				}
			}
		}
		return vwrap(pend, x.exec(rest, st, fr))
	case *ast.ExprStmt:
		call, ok := ast.Unparen(n.X).(*ast.CallExpr)
		if !ok {
			return x.unk(s)
		}
		if key, fd := x.inlinable(call, st, fr); fd != nil {
			return x.inline(call, key, fd, st, fr, func(st2 *vstate, _ []string) *vtree { return x.exec(rest, st2, fr) })
		}
		if _, ok := x.evalCall(call, st, &pend, -1); !ok {
			return x.unk(s)
		}
		return vwrap(pend, x.exec(rest, st, fr))
	case *ast.AssignStmt:
		if n.Tok != token.DEFINE && n.Tok != token.ASSIGN {
			return x.unk(s)
		}
		if len(n.Rhs) == 1 {
			rhs := ast.Unparen(n.Rhs[0])
			if ta, ok := rhs.(*ast.TypeAssertExpr); ok && len(n.Lhs) == 2 && ta.Type != nil {
				xs, ok := x.eval(ta.X, st, &pend)
				if !ok {
					return x.unk(s)
				}
				tn := x.typeExprStr(ta.Type)
				if !x.assign(n.Lhs[0], "as("+xs+","+tn+")", st) || !x.assign(n.Lhs[1], "is("+xs+","+tn+")", st) {
					return x.unk(s)
				}
				return vwrap(pend, x.exec(rest, st, fr))
			}
			if call, ok := rhs.(*ast.CallExpr); ok {
				if key, fd := x.inlinable(call, st, fr); fd != nil {
					return x.inline(call, key, fd, st, fr, func(st2 *vstate, rets []string) *vtree {
						if len(rets) != len(n.Lhs) {
							return x.unk(s)
						}
						for i, l := range n.Lhs {
							if !x.assign(l, rets[i], st2) {
								return x.unk(s)
							}
						}
						return x.exec(rest, st2, fr)
					})
				}
				rets, ok := x.evalCall(call, st, &pend, len(n.Lhs))
				if !ok || len(rets) != len(n.Lhs) {
					return x.unk(s)
				}
				for i, l := range n.Lhs {
					if !x.assign(l, rets[i], st) {
						return x.unk(s)
					}
				}
				return vwrap(pend, x.exec(rest, st, fr))
			}
		}
		if len(n.Lhs) != len(n.Rhs) {
			return x.unk(s)
		}
		syms := make([]string, len(n.Rhs))
		for i, r := range n.Rhs {
			sym, ok := x.eval(r, st, &pend)
			if !ok {
				return x.unk(s)
			}
			syms[i] = sym
		}
		for i, l := range n.Lhs {
			if !x.assign(l, syms[i], st) {
				return x.unk(s)
			}
		}
		return vwrap(pend, x.exec(rest, st, fr))
	case *ast.ReturnStmt:
		if len(n.Results) == 0 {
			if len(fr.named) != fr.nres {
				return x.unk(s)
			}
			rets := make([]string, len(fr.named))
			for i, obj := range fr.named {
				rets[i] = st.norm(st.vars[obj])
			}
			return fr.ret(st, rets)
		}
		if len(n.Results) == 1 {
			if call, ok := ast.Unparen(n.Results[0]).(*ast.CallExpr); ok {
				if key, fd := x.inlinable(call, st, fr); fd != nil {
					return x.inline(call, key, fd, st, fr, func(st2 *vstate, rets []string) *vtree {
						if len(rets) != fr.nres {
							return x.unk(s)
						}
						return fr.ret(st2, rets)
					})
				}
				rets, ok := x.evalCall(call, st, &pend, fr.nres)
				if !ok || len(rets) != fr.nres {
					return x.unk(s)
				}
				return vwrap(pend, fr.ret(st, rets))
			}
		}
		if len(n.Results) != fr.nres {
			return x.unk(s)
		}
		rets := make([]string, len(n.Results))
		for i, r := range n.Results {
			sym, ok := x.eval(r, st, &pend)
			if !ok {
				if tv, typed := x.p.info.Types[r]; typed && len(n.Results) == 1 && len(pend) == 0 && tv.Type != nil {
					if b, isBasic := tv.Type.Underlying().(*types.Basic); isBasic && b.Info()&types.IsBoolean != 0 {
						// `return a == b || …`: the condition decides between returning true and false
						return x.branch(r, st,
							func(s2 *vstate) *vtree { return fr.ret(s2, []string{"lit:true"}) },
							func(s2 *vstate) *vtree { return fr.ret(s2, []string{"lit:false"}) })
					}
				}
				return x.unk(s)
			}
			rets[i] = sym
		}
		return vwrap(pend, fr.ret(st, rets))
	case *ast.IfStmt:
		if n.Init != nil {
			cp := *n
			cp.Init = nil
			return x.exec(vconcat([]ast.Stmt{n.Init, &cp}, rest), st, fr)
		}
		tk := func(s2 *vstate) *vtree { return x.exec(vconcat(n.Body.List, rest), s2, fr) }
		ek := func(s2 *vstate) *vtree {
			switch e := n.Else.(type) {
			case nil:
				return x.exec(rest, s2, fr)
			case *ast.BlockStmt:
				return x.exec(vconcat(e.List, rest), s2, fr)
			default:
				return x.exec(vconcat([]ast.Stmt{e}, rest), s2, fr)
			}
		}
		return x.branch(n.Cond, st, tk, ek)
	case *ast.SwitchStmt:
		if n.Init != nil {
			cp := *n
			cp.Init = nil
			return x.exec(vconcat([]ast.Stmt{n.Init, &cp}, rest), st, fr)
		}
		var cases []*ast.CaseClause
		var dflt *ast.CaseClause
		for _, c := range n.Body.List {
			cc := c.(*ast.CaseClause)
			if x.caseHasBranch(cc.Body) {
				return x.unk(s) // break, fallthrough, goto, continue
			}
			if cc.List == nil {
				dflt = cc
			} else {
				cases = append(cases, cc)
			}
		}
		tag := ""
		if n.Tag != nil {
			var ok bool
			if tag, ok = x.eval(n.Tag, st, &pend); !ok {
				return x.unk(n.Tag)
			}
		}
		var build func(i int, s2 *vstate) *vtree
		var oneCase func(cc *ast.CaseClause, j int, s2 *vstate, tk, ek func(*vstate) *vtree) *vtree
		oneCase = func(cc *ast.CaseClause, j int, s2 *vstate, tk, ek func(*vstate) *vtree) *vtree {
			if j == len(cc.List) {
				return ek(s2)
			}
			next := func(s3 *vstate) *vtree { return oneCase(cc, j+1, s3, tk, ek) }
			if n.Tag == nil {
				return x.branch(cc.List[j], s2, tk, next)
			}
			var p2 []*vtree
			es, ok := x.eval(cc.List[j], s2, &p2)
			if !ok {
				return x.unk(cc.List[j])
			}
			return vwrap(p2, x.branchEq(tag, es, s2, tk, next))
		}
		build = func(i int, s2 *vstate) *vtree {
			if i == len(cases) {
				if dflt != nil {
					return x.exec(vconcat(dflt.Body, rest), s2, fr)
				}
				return x.exec(rest, s2, fr)
			}
			cc := cases[i]
			return oneCase(cc, 0, s2,
				func(s3 *vstate) *vtree { return x.exec(vconcat(cc.Body, rest), s3, fr) },
				func(s3 *vstate) *vtree { return build(i+1, s3) })
		}
		return vwrap(pend, build(0, st))
	case *ast.TypeSwitchStmt:
		if n.Init != nil {
			cp := *n
			cp.Init = nil
			return x.exec(vconcat([]ast.Stmt{n.Init, &cp}, rest), st, fr)
		}
		var guard *ast.TypeAssertExpr
		var bind *ast.Ident
		switch a := n.Assign.(type) {
		case *ast.ExprStmt:
			guard, _ = ast.Unparen(a.X).(*ast.TypeAssertExpr)
		case *ast.AssignStmt:
			if len(a.Lhs) == 1 && len(a.Rhs) == 1 {
				bind, _ = a.Lhs[0].(*ast.Ident)
				guard, _ = ast.Unparen(a.Rhs[0]).(*ast.TypeAssertExpr)
			}
		}
		if guard == nil {
			return x.unk(s)
		}
		xs, ok := x.eval(guard.X, st, &pend)
		if !ok {
			return x.unk(s)
		}
		var cases []*ast.CaseClause
		var dflt *ast.CaseClause
		for _, c := range n.Body.List {
			cc := c.(*ast.CaseClause)
			if x.caseHasBranch(cc.Body) {
				return x.unk(s)
			}
			if cc.List == nil {
				dflt = cc
			} else {
				cases = append(cases, cc)
			}
		}
		body := func(cc *ast.CaseClause, sym string) func(*vstate) *vtree {
			return func(s3 *vstate) *vtree {
				if bind != nil && bind.Name != "_" {
					s3.pos[bind.Pos()] = sym
				}
				return x.exec(vconcat(cc.Body, rest), s3, fr)
			}
		}
		var build func(i int, s2 *vstate) *vtree
		var oneCase func(cc *ast.CaseClause, j int, s2 *vstate, ek func(*vstate) *vtree) *vtree
		oneCase = func(cc *ast.CaseClause, j int, s2 *vstate, ek func(*vstate) *vtree) *vtree {
			if j == len(cc.List) {
				return ek(s2)
			}
			next := func(s3 *vstate) *vtree { return oneCase(cc, j+1, s3, ek) }
			tv := x.p.info.Types[cc.List[j]]
			if tv.IsNil() {
				return x.branchEq(xs, "nil", s2, body(cc, xs), next)
			}
			tn := x.typeExprStr(cc.List[j])
			sym := xs
			if len(cc.List) == 1 {
				sym = "as(" + xs + "," + tn + ")"
			}
			return x.ifNode("is("+xs+","+tn+")", s2, body(cc, sym), next)
		}
		build = func(i int, s2 *vstate) *vtree {
			if i == len(cases) {
				if dflt != nil {
					return body(dflt, xs)(s2)
				}
				return x.exec(rest, s2, fr)
			}
			return oneCase(cases[i], 0, s2, func(s3 *vstate) *vtree { return build(i+1, s3) })
		}
		return vwrap(pend, build(0, st))
	}
	return x.unk(s)
}

// run executes the function `key` with its parameters P0, P1 … and, for a method of the cell struct, the
// receiver's fields R.raw, R.typ and the format `format`.
func (x *valX) run(key, format string) *vtree {
	x.inlined = map[string]bool{}
	fd := x.funcs[key]
	if fd == nil {
		return vunknown("no function %s", key)
	}
	st := &vstate{vars: map[types.Object]string{}, pos: map[token.Pos]string{}, known: map[string]bool{}}
	if fd.Recv != nil {
		if !strings.HasPrefix(key, x.cellType+".") || x.cellType == "" {
			return vunknown("receiver of %s is not the cell struct", key)
		}
		if _, ptr := fd.Recv.List[0].Type.(*ast.StarExpr); !ptr {
			return vunknown("%s has a value receiver: what it writes to the cell is lost", key)
		}
		st.fields = map[string]string{"raw": "R.raw", "f": format, "typ": "R.typ"}
		if len(fd.Recv.List) == 1 && len(fd.Recv.List[0].Names) == 1 {
			if obj := x.p.info.Defs[fd.Recv.List[0].Names[0]]; obj != nil {
				st.vars[obj] = "R"
			}
		}
	}
	i := 0
	for _, f := range fd.Type.Params.List {
		if len(f.Names) == 0 {
			i++
			continue
		}
		for _, nm := range f.Names {
			if obj := x.p.info.Defs[nm]; obj != nil && nm.Name != "_" {
				st.vars[obj] = fmt.Sprintf("P%d", i)
			}
			i++
		}
	}
	fr := &vframe{nres: countResults(fd), stack: []string{key}}
	fr.ret = func(st2 *vstate, rets []string) *vtree {
		leaf := &vtree{kind: "leaf"}
		for _, r := range rets {
			leaf.rets = append(leaf.rets, st2.norm(r))
		}
		if st2.fields != nil {
			leaf.fields = map[string]string{}
			for k, v := range st2.fields {
				leaf.fields[k] = st2.norm(v)
			}
		}
		return leaf
	}
	x.bindNamedResults(fd, st, fr)
	return x.exec(fd.Body.List, st, fr).merged()
}

// ---------------------------------------------------------------------------------------------------
// classification

func eqStrs(a, b []string) bool {
	if len(a) != len(b) {
		return false
	}
	for i := range a {
		if a[i] != b[i] {
			return false
		}
	}
	return true
}

func (t *vtree) isLeaf(rets []string, fields map[string]string) bool {
	return t != nil && t.kind == "leaf" && eqStrs(t.rets, rets) && fieldsText(t.fields) == fieldsText(fields) && (t.fields == nil) == (fields == nil)
}

func (t *vtree) isCall(fn string, args ...string) bool {
	return t != nil && t.kind == "call" && t.fn == fn && eqStrs(t.args, args)
}

func failSentinel(s string) (string, bool) {
	if strings.HasPrefix(s, "FAIL(") && strings.HasSuffix(s, ")") {
		return s[5 : len(s)-1], true
	}
	return "", false
}

// vctx says what a successful and a failed return look like in the function being classified.
type vctx struct {
	okLeaf   func(t *vtree, val string) bool
	failLeaf func(t *vtree) (string, bool)
}

// step matches `call#k fn(args…); if isnil(err#k) {ok} else {fail with a sentinel}`.
func (c vctx) step(t *vtree, args ...string) (fn, res string, ok *vtree, sentinel string, matched bool) {
	if t == nil || t.kind != "call" || !eqStrs(t.args, args) {
		return
	}
	n := t.next
	if n == nil || n.kind != "if" || n.cond != fmt.Sprintf("isnil(err#%d)", t.id) {
		return
	}
	s, isFail := c.failLeaf(n.els)
	if !isFail {
		return
	}
	return t.fn, fmt.Sprintf("res#%d", t.id), n.then, s, true
}

func casterName(fn string) (string, bool) {
	if strings.HasPrefix(fn, "cast.To") && fn != "cast.To" {
		return strings.TrimPrefix(fn, "cast."), true
	}
	return "", false
}

type vrow struct {
	lean     string // the ImportFn / ExportFn term, "" for the default
	dflt     string // sentinel of the default leaf
	sentinel string // sentinel the row's functions wrap with ("" when none is used)
	unknown  bool
}

func sameSentinel(ss ...string) (string, bool) {
	out := ""
	for _, s := range ss {
		if out != "" && s != out {
			return "", false
		}
		out = s
	}
	return out, true
}

// importCore classifies what Import does for one format with a value that is neither nil, a Row nor a Value.
func (x *valX) importCore(t *vtree, format string) vrow {
	fields := func(raw string) map[string]string { return map[string]string{"raw": raw, "f": format, "typ": "R.typ"} }
	c := vctx{
		okLeaf: func(t *vtree, val string) bool { return t.isLeaf([]string{"nil"}, fields(val)) },
		failLeaf: func(t *vtree) (string, bool) {
			if t == nil || t.kind != "leaf" || len(t.rets) != 1 || !t.isLeaf(t.rets, fields("nil")) {
				return "", false
			}
			return failSentinel(t.rets[0])
		},
	}
	unknown := vrow{lean: "(.unknown " + lstr(t.String()) + ")", unknown: true}
	if t == nil {
		return unknown
	}
	// default: the error and nothing written
	if t.kind == "leaf" && len(t.rets) == 1 && t.isLeaf(t.rets, fields("R.raw")) {
		if s, ok := failSentinel(t.rets[0]); ok {
			return vrow{dflt: s}
		}
		return unknown
	}
	// castTo: v.raw, err = cast.To(v.typ, val); return err
	if t.isCall("cast.To", "R.typ", "P0") {
		if t.next.isLeaf([]string{fmt.Sprintf("err#%d", t.id)}, fields(fmt.Sprintf("res#%d", t.id))) {
			return vrow{lean: ".castTo"}
		}
		return unknown
	}
	// byType
	if t.kind == "if" && t.cond == "isnil(R.typ)" {
		fn1, r1, ok1, s1, m1 := c.step(t.then, "P0")
		fn2, r2, ok2, s2, m2 := c.step(t.els, "R.typ", "P0")
		if m1 && m2 && fn2 == "cast.To" && c.okLeaf(ok1, r1) && c.okLeaf(ok2, r2) {
			if name, ok := casterName(fn1); ok {
				if s, ok := sameSentinel(s1, s2); ok {
					return vrow{lean: "(.byType " + lstr(name) + ")", sentinel: s}
				}
			}
		}
		return unknown
	}
	// binary
	if fn1, r1, ok1, s1, m1 := c.step(t, "P0"); m1 {
		name, isCaster := casterName(fn1)
		fn2, r2, ok2, s2, m2 := c.step(ok1, "base64.StdEncoding", "assert("+r1+",string)")
		if isCaster && m2 && fn2 == ".DecodeString" && ok2 != nil && ok2.kind == "if" && ok2.cond == "isnil(R.typ)" && c.okLeaf(ok2.then, r2) {
			fn3, r3, ok3, s3, m3 := c.step(ok2.els, "R.typ", r2)
			if m3 && fn3 == "cast.To" && c.okLeaf(ok3, r3) {
				if s, ok := sameSentinel(s1, s2, s3); ok {
					return vrow{lean: "(.binary " + lstr(name) + ")", sentinel: s}
				}
			}
		}
	}
	return unknown
}

// exportCore classifies what Export does for one format with a raw value that is not nil.
func (x *valX) exportCore(t *vtree, format string) vrow {
	fields := map[string]string{"raw": "R.raw", "f": format, "typ": "R.typ"}
	c := vctx{
		okLeaf: func(t *vtree, val string) bool { return t.isLeaf([]string{val, "nil"}, fields) },
		failLeaf: func(t *vtree) (string, bool) {
			if t == nil || t.kind != "leaf" || len(t.rets) != 2 || t.rets[0] != "nil" || !t.isLeaf(t.rets, fields) {
				return "", false
			}
			return failSentinel(t.rets[1])
		},
	}
	unknown := vrow{lean: "(.unknown " + lstr(t.String()) + ")", unknown: true}
	if t == nil {
		return unknown
	}
	if s, ok := c.failLeaf(t); ok {
		return vrow{dflt: s}
	}
	if c.okLeaf(t, "R.raw") {
		return vrow{lean: ".raw"}
	}
	cur := "R.raw"
	var names, sents []string
	for {
		fn, r, okT, s, m := c.step(t, cur)
		if !m {
			break
		}
		name, isCaster := casterName(fn)
		if !isCaster {
			return unknown
		}
		names, sents = append(names, name), append(sents, s)
		t, cur = okT, r
	}
	if len(names) == 0 {
		return unknown
	}
	s, ok := sameSentinel(sents...)
	if !ok {
		return unknown
	}
	if c.okLeaf(t, cur) {
		q := make([]string, len(names))
		for i, n := range names {
			q[i] = lstr(n)
		}
		return vrow{lean: "(.chain [" + strings.Join(q, ", ") + "])", sentinel: s}
	}
	if len(names) == 1 && t.isCall(".EncodeToString", "base64.StdEncoding", "assert("+cur+",[]byte)") && c.okLeaf(t.next, fmt.Sprintf("res#%d", t.id)) {
		return vrow{lean: "(.binary " + lstr(names[0]) + ")", sentinel: s}
	}
	return unknown
}

// getters matches the calls `.Raw`, `.GetFormat`, `.GetRawType` on `on`, in any order, and returns what follows.
func getters(t *vtree, on string) (raw, f, typ string, next *vtree, ok bool) {
	got := map[string]string{}
	for i := 0; i < 3; i++ {
		if t == nil || t.kind != "call" || !eqStrs(t.args, []string{on}) {
			return
		}
		if _, dup := got[t.fn]; dup {
			return
		}
		got[t.fn] = fmt.Sprintf("res#%d", t.id)
		t = t.next
	}
	raw, f, typ = got[".Raw"], got[".GetFormat"], got[".GetRawType"]
	return raw, f, typ, t, raw != "" && f != "" && typ != ""
}

// importSplit checks Import's preamble for one format and returns the core:
//
//	if isnil(P0) { raw := nil; return nil }
//	else if is(P0,Row) { Auto, Hidden with no raw type: raw := the row; return nil — otherwise: the core }
//	else if is(P0,Value) { f, raw, typ := its GetFormat(), Raw(), GetRawType(); return nil }
//	else the core
func (x *valX) importSplit(t *vtree, format string, keepsRow bool) (core *vtree, preambleOK bool) {
	// the core is where a value that is neither nil, a Row nor a Value ends up, whatever the preamble looks like
	core = t
	for core != nil && core.kind == "if" && (core.cond == "isnil(P0)" || strings.HasPrefix(core.cond, "is(P0,")) {
		core = core.els
	}
	fields := func(raw string) map[string]string { return map[string]string{"raw": raw, "f": format, "typ": "R.typ"} }
	if t == nil || t.kind != "if" || t.cond != "isnil(P0)" || !t.then.isLeaf([]string{"nil"}, fields("nil")) {
		return core, false
	}
	t1 := t.els
	if t1 == nil || t1.kind != "if" || t1.cond != "is(P0,Row)" {
		return core, false
	}
	t2 := t1.els
	if t2 == nil || t2.kind != "if" || t2.cond != "is(P0,Value)" || t2.els != core {
		return core, false
	}
	if keepsRow {
		// Auto, Hidden: the row is kept when the column has no raw type; a column declared with one takes the core
		k := t1.then
		if k == nil || k.kind != "if" || k.cond != "isnil(R.typ)" || !k.then.isLeaf([]string{"nil"}, fields("as(P0,Row)")) ||
			k.els == nil || k.els.String() != core.String() {
			return core, false
		}
	} else if t1.then.String() != core.String() {
		return core, false
	}
	raw, f, typ, leaf, ok := getters(t2.then, "as(P0,Value)")
	if !ok || !leaf.isLeaf([]string{"nil"}, map[string]string{"raw": raw, "f": f, "typ": typ}) {
		return core, false
	}
	return core, true
}

// exportSplit: `if isnil(R.raw) { return nil, nil } else the core`.
func (x *valX) exportSplit(t *vtree, format string) (core *vtree, preambleOK bool) {
	fields := map[string]string{"raw": "R.raw", "f": format, "typ": "R.typ"}
	if t != nil && t.kind == "if" && t.cond == "isnil(R.raw)" {
		return t.els, t.then.isLeaf([]string{"nil", "nil"}, fields)
	}
	return t, false
}

// newValueOK: `r, err := cast.To(typ, v)`; the cell {r, f, typ} when err is nil, the cell {v, f, typ} otherwise.
func (x *valX) newValueOK(t *vtree) bool {
	cell := func(raw string) string {
		return "&" + x.cellType + "{" + fieldsText(map[string]string{"raw": raw, "f": "P1", "typ": "P2"}) + "}"
	}
	if !t.isCall("cast.To", "P2", "P0") {
		return false
	}
	n := t.next
	return n != nil && n.kind == "if" && n.cond == fmt.Sprintf("isnil(err#%d)", t.id) &&
		n.then.isLeaf([]string{cell(fmt.Sprintf("res#%d", t.id))}, nil) && n.els.isLeaf([]string{cell("P0")}, nil)
}

// cloneValueOK: `return NewValue(v.Raw(), v.GetFormat(), v.GetRawType())` (NewValue not inlined).
func (x *valX) cloneValueOK(t *vtree) bool {
	raw, f, typ, n, ok := getters(t, "P0")
	return ok && n.isCall(x.p.pkg.Name()+".NewValue", raw, f, typ) && n.next.isLeaf([]string{fmt.Sprintf("res#%d", n.id)}, nil)
}

// ---------------------------------------------------------------------------------------------------
// the table

var leanFormats = map[string]string{"String": ".string", "Numeric": ".numeric", "Boolean": ".boolean", "Binary": ".binary",
	"Date": ".date", "DateTime": ".datetime", "Timestamp": ".timestamp", "Auto": ".auto", "Hidden": ".hidden"}

type fmtConst struct {
	name string
	val  int64
}

// formatConsts lists the constants of type Format in declaration order.
func (x *valX) formatConsts() []fmtConst {
	var out []fmtConst
	for _, f := range x.p.files {
		for _, d := range f.Decls {
			gd, ok := d.(*ast.GenDecl)
			if !ok || gd.Tok != token.CONST {
				continue
			}
			for _, sp := range gd.Specs {
				for _, n := range sp.(*ast.ValueSpec).Names {
					c, ok := x.p.info.Defs[n].(*types.Const)
					if !ok || x.typeStr(c.Type()) != "Format" {
						continue
					}
					if v, exact := constant.Int64Val(constant.ToInt(c.Val())); exact {
						out = append(out, fmtConst{n.Name, v})
					}
				}
			}
		}
	}
	return out
}

type valueTable struct {
	text                 string
	nImport, nExport, nU int
	where                []string
}

func valueTableOf(p *pkgInfo) valueTable {
	x := newValX(p)
	consts := x.formatConsts()
	var where []string
	addWhere := func(names ...string) {
		for _, n := range names {
			dup := false
			for _, w := range where {
				dup = dup || w == n
			}
			if !dup {
				where = append(where, n)
			}
		}
	}
	inlinedNames := func(fallback string) []string {
		var ns []string
		for n := range x.inlined {
			ns = append(ns, n)
		}
		sort.Strings(ns)
		if len(ns) == 0 {
			ns = []string{fallback}
		}
		return ns
	}
	importKey, exportKey := x.cellType+".Import", x.cellType+".Export"

	type fmtRun struct {
		lean, sym, name string
		keepsRow        bool
	}
	var runs []fmtRun
	seenVal := map[int64]bool{}
	for _, c := range consts {
		if seenVal[c.val] {
			continue // an alias of an earlier constant: same behaviour
		}
		seenVal[c.val] = true
		lean, ok := leanFormats[c.name]
		if !ok {
			lean = ""
		}
		runs = append(runs, fmtRun{lean, fmtSym(fmt.Sprint(c.val)), c.name, c.name == "Auto" || c.name == "Hidden"})
	}
	runs = append(runs, fmtRun{"", fmtSym("other"), "", false})

	var importRows, exportRows []string
	importPre, exportPre := ".asModelled", ".asModelled"
	importDefault, exportDefault := "", ""
	importSent, exportSent := "", ""
	row := func(r vrow, fr fmtRun, rows *[]string, sent *string, dflt *string, fallback string) {
		switch {
		case fr.name == "": // any other Format
			switch {
			case r.unknown:
				*dflt = r.lean
				addWhere(inlinedNames(fallback)...)
			case r.lean != "":
				*dflt = "(.unknown " + lstr("a Format that is not declared is handled as "+r.lean) + ")"
				addWhere(fallback)
			default:
				*dflt = "(.fail " + lstr(r.dflt) + ")"
			}
			return
		case r.lean == "" && !r.unknown:
			return // the format falls to the default: no row
		case fr.lean == "":
			*rows = append(*rows, "    (.bad, .unknown "+lstr("Format constant "+fr.name+" has no counterpart in Model.Basic: "+r.lean)+")")
			addWhere(fallback)
			return
		}
		if !r.unknown && r.sentinel != "" {
			if *sent == "" {
				*sent = r.sentinel
			} else if *sent != r.sentinel {
				r = vrow{lean: "(.unknown " + lstr("wraps "+r.sentinel+" where the other formats wrap "+*sent+": "+r.lean) + ")", unknown: true}
			}
		}
		if r.unknown {
			addWhere(inlinedNames(fallback)...)
		}
		*rows = append(*rows, "    ("+fr.lean+", "+strings.TrimSuffix(strings.TrimPrefix(r.lean, "("), ")")+")")
	}
	for _, fr := range runs {
		t := x.run(importKey, fr.sym)
		core, okPre := x.importSplit(t, fr.sym, fr.keepsRow)
		if !okPre && importPre == ".asModelled" {
			importPre = "(.unknown " + lstr("format "+fr.name+": "+t.String()) + ")"
			addWhere("Import")
		}
		row(x.importCore(core, fr.sym), fr, &importRows, &importSent, &importDefault, "Import")

		t = x.run(exportKey, fr.sym)
		core, okPre = x.exportSplit(t, fr.sym)
		if !okPre && exportPre == ".asModelled" {
			exportPre = "(.unknown " + lstr("format "+fr.name+": "+t.String()) + ")"
			addWhere("Export")
		}
		row(x.exportCore(core, fr.sym), fr, &exportRows, &exportSent, &exportDefault, "Export")
	}

	newValue := ".asModelled"
	if t := x.run("NewValue", ""); !x.newValueOK(t) {
		newValue = "(.unknown " + lstr(t.String()) + ")"
		addWhere("NewValue")
	}
	cloneValue := ".asModelled"
	x.noInline["NewValue"] = true
	if t := x.run("CloneValue", ""); !x.cloneValueOK(t) {
		cloneValue = "(.unknown " + lstr(t.String()) + ")"
		addWhere("CloneValue")
	}
	x.noInline = map[string]bool{}

	var fc []string
	for _, c := range consts {
		fc = append(fc, fmt.Sprintf("(%s, %d)", lstr(c.name), c.val))
	}
	sent := (&castX{p: p}).sentinels()
	for i := range sent {
		sent[i] = strings.TrimSpace(sent[i])
	}

	var b strings.Builder
	b.WriteString("-- GENERATED by extract/ from /repo/pkg/jsonline (value.go, conversions_import.go, conversions_export.go, errors.go) on every run. Do not edit.\n")
	b.WriteString("import Model.ValueSyntax\n\nnamespace Jl.Gen\nopen Jl\n\n")
	b.WriteString("/-- What `value.Import`, `value.Export`, `NewValue` and `CloneValue` do, format by format. -/\n")
	b.WriteString("def valueTable : ValueTable :=\n")
	b.WriteString("  { formats := [" + strings.Join(fc, ", ") + "],\n")
	b.WriteString("    sentinels := [" + strings.Join(sent, ", ") + "],\n")
	b.WriteString("    importPreamble := " + importPre + ",\n")
	b.WriteString("    importRows := [\n  " + strings.Join(importRows, ",\n  ") + "],\n")
	b.WriteString("    importSentinel := " + lstr(importSent) + ",\n")
	b.WriteString("    importDefault := " + importDefault + ",\n")
	b.WriteString("    exportPreamble := " + exportPre + ",\n")
	b.WriteString("    exportRows := [\n  " + strings.Join(exportRows, ",\n  ") + "],\n")
	b.WriteString("    exportSentinel := " + lstr(exportSent) + ",\n")
	b.WriteString("    exportDefault := " + exportDefault + ",\n")
	b.WriteString("    newValue := " + newValue + ",\n")
	b.WriteString("    cloneValue := " + cloneValue + " }\n\n")
	b.WriteString("end Jl.Gen\n")
	text := b.String()
	return valueTable{text: text, nImport: len(importRows), nExport: len(exportRows), nU: strings.Count(text, ".unknown"), where: where}
}
