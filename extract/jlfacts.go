package main

import (
	"fmt"
	"go/ast"
	"go/token"
	"go/types"
	"sort"
	"strings"
)

// jlX: the executor of flow.go set up for package main of cmd/jl.
type jlX struct {
	fx       *flowX
	p        *pkgInfo
	closures []*ast.FuncLit
}

func newJlX(p *pkgInfo) *jlX {
	x := newValX(p)
	fx := &flowX{x: x, p: p, cellRoles: x.roles, loops: map[*vframe]*flowLoopCtx{}, done: map[ast.Stmt]bool{},
		nextMark: &ast.BranchStmt{Tok: token.CONTINUE}}
	x.wrapCalls, x.funcValues, x.loopBranches = true, true, true
	fx.hoisted, fx.markers, fx.pass = map[ast.Stmt][]ast.Stmt{}, map[ast.Stmt]ast.Stmt{}, map[ast.Stmt]bool{}
	fx.roleOf = map[string]map[string]string{}
	fx.carried = true
	j := &jlX{fx: fx, p: p}
	x.stmtHook, x.callHook, x.evalHook, x.assignHook = j.stmtHook, j.callHook, j.evalHook, j.assignHook
	// the functions the facts are about are seen as calls from each other; every other function (a helper) is inlined
	for _, n := range jlAnchors {
		x.noInline[n] = true
	}
	return j
}

var jlAnchors = []string{"parseDescriptor", "parse", "createTemplateFromRow", "createTemplateFromString", "ParseRowDefinition",
	"ReadRowDefinition", "createTemplate", "getTemplateFlags", "logFlags", "run", "NewRootCommand", "initConfig", "main"}

// setField rewrites the literal `&T{a=x,b=y}` with field `name` set to `val`.
func jlSetField(lit, name, val string) (string, bool) {
	m := flowLitRe.FindStringSubmatch(lit)
	if m == nil {
		return "", false
	}
	vals := map[string]string{}
	if m[2] != "" {
		for _, kv := range flowSplitTop(m[2]) {
			i := strings.Index(kv, "=")
			if i < 0 {
				return "", false
			}
			vals[kv[:i]] = kv[i+1:]
		}
	}
	if val != "" {
		vals[name] = val
	}
	v, ok := vals[name]
	if !ok {
		return "", false
	}
	if val == "" {
		return v, true
	}
	return lit[:strings.Index(lit, "{")] + "{" + fieldsText(vals) + "}", true
}

func (j *jlX) assignHook(lhs ast.Expr, sym string, st *vstate) (bool, bool) {
	sel, ok := ast.Unparen(lhs).(*ast.SelectorExpr)
	if !ok {
		return false, false
	}
	id, ok := sel.X.(*ast.Ident)
	if !ok {
		return false, false
	}
	obj := j.p.info.Uses[id]
	if cur, ok := st.vars[obj]; ok && obj != nil {
		if lit, ok := jlSetField(cur, sel.Sel.Name, sym); ok {
			st.vars[obj] = lit
			return true, true
		}
	}
	return false, false
}

var jlOps = map[token.Token]string{token.GTR: "gt", token.LSS: "lt", token.GEQ: "ge", token.LEQ: "le", token.ADD: "add", token.SUB: "sub"}

func (j *jlX) evalHook(e ast.Expr, st *vstate, pend *[]*vtree) (string, bool, bool) {
	x := j.fx.x
	switch n := ast.Unparen(e).(type) {
	case *ast.Ident:
		// a package-level `var re = regexp.MustCompile(<constant>)` nobody assigns is the call where it is used
		if v, ok := j.p.info.Uses[n].(*types.Var); ok && v.Parent() == j.p.pkg.Scope() {
			if call := j.compiledOnce(v); call != nil {
				rs, ok := x.evalCall(call, st, pend, 1)
				if ok && len(rs) == 1 {
					return rs[0], true, true
				}
				return "", false, true
			}
		}
		return "", false, false
	case *ast.FuncLit:
		for i, c := range j.closures {
			if c == n {
				return fmt.Sprintf("closure#%d", i), true, true
			}
		}
		j.closures = append(j.closures, n)
		return fmt.Sprintf("closure#%d", len(j.closures)-1), true, true
	case *ast.UnaryExpr:
		if n.Op == token.AND {
			if _, isLit := ast.Unparen(n.X).(*ast.CompositeLit); isLit {
				s, ok := x.eval(n.X, st, pend)
				return "&" + s, ok, true
			}
		}
		return "", false, false
	case *ast.CompositeLit:
		// by its syntax: the checker may not know the type (an import it could not load)
		var parts []string
		vals := map[string]string{}
		for _, el := range n.Elts {
			if kv, ok := el.(*ast.KeyValueExpr); ok {
				if id, ok := kv.Key.(*ast.Ident); ok {
					if _, isVar := j.p.info.Uses[id].(*types.Var); isVar || j.p.info.Uses[id] == nil {
						v, ok := x.eval(kv.Value, st, pend)
						if !ok {
							return "", false, true
						}
						vals[id.Name] = v
						continue
					}
				}
				return "", false, true
			}
			v, ok := x.eval(el, st, pend)
			if !ok {
				return "", false, true
			}
			parts = append(parts, v)
		}
		if len(vals) > 0 && len(parts) > 0 {
			return "", false, true
		}
		ty := strings.ReplaceAll(j.p.text(n.Type), " ", "")
		if len(vals) > 0 {
			return ty + "{" + fieldsText(vals) + "}", true, true
		}
		return ty + "{" + strings.Join(parts, ",") + "}", true, true
	case *ast.BinaryExpr:
		op, ok := jlOps[n.Op]
		if !ok {
			return "", false, false
		}
		if tv, ok := j.p.info.Types[e]; ok && tv.Value != nil {
			return "", false, false
		}
		l, ok1 := x.eval(n.X, st, pend)
		r, ok2 := x.eval(n.Y, st, pend)
		if !ok1 || !ok2 {
			return "", false, true
		}
		if n.Op == token.LSS || n.Op == token.LEQ { // a < b is b > a
			l, r = r, l
			op = map[string]string{"lt": "gt", "le": "ge"}[op]
		}
		return op + "(" + l + "," + r + ")", true, true
	case *ast.IndexExpr:
		l, ok1 := x.eval(n.X, st, pend)
		r, ok2 := x.eval(n.Index, st, pend)
		if !ok1 || !ok2 {
			return "", false, true
		}
		return "index(" + l + "," + r + ")", true, true
	case *ast.SelectorExpr:
		// a field of a value that is not the receiver: field(<value>,<name>)
		if id, ok := n.X.(*ast.Ident); ok {
			if _, isPkg := j.p.info.Uses[id].(*types.PkgName); isPkg {
				return "", false, false
			}
		}
		if v, ok := j.p.info.Uses[n.Sel].(*types.Var); ok && v.IsField() {
			l, ok := x.eval(n.X, st, pend)
			if !ok {
				return "", false, true
			}
			if v, ok := jlSetField(l, n.Sel.Name, ""); ok {
				return v, true, true
			}
			return "field(" + l + "," + n.Sel.Name + ")", true, true
		}
	}
	return "", false, false
}

// compiledOnce: the initialiser `regexp.MustCompile(<constant string>)` of the package-level variable v, when v is
// declared with it and never written anywhere in the package (nor has its address taken).
func (j *jlX) compiledOnce(v *types.Var) *ast.CallExpr {
	var init *ast.CallExpr
	for _, f := range j.p.files {
		for _, d := range f.Decls {
			gd, ok := d.(*ast.GenDecl)
			if !ok || gd.Tok != token.VAR {
				continue
			}
			for _, sp := range gd.Specs {
				vs := sp.(*ast.ValueSpec)
				for i, nm := range vs.Names {
					if j.p.info.Defs[nm] == types.Object(v) && len(vs.Values) == len(vs.Names) {
						if c, ok := ast.Unparen(vs.Values[i]).(*ast.CallExpr); ok && j.p.text(c.Fun) == "regexp.MustCompile" && len(c.Args) == 1 {
							if tv, ok := j.p.info.Types[c.Args[0]]; ok && tv.Value != nil {
								init = c
							}
						}
					}
				}
			}
		}
	}
	if init == nil {
		return nil
	}
	written := false
	for _, f := range j.p.files {
		ast.Inspect(f, func(n ast.Node) bool {
			switch m := n.(type) {
			case *ast.AssignStmt:
				for _, l := range m.Lhs {
					if id, ok := ast.Unparen(l).(*ast.Ident); ok && j.p.info.Uses[id] == types.Object(v) {
						written = true
					}
				}
			case *ast.IncDecStmt:
				if id, ok := ast.Unparen(m.X).(*ast.Ident); ok && j.p.info.Uses[id] == types.Object(v) {
					written = true
				}
			case *ast.UnaryExpr:
				if id, ok := ast.Unparen(m.X).(*ast.Ident); ok && m.Op == token.AND && j.p.info.Uses[id] == types.Object(v) {
					written = true
				}
			}
			return !written
		})
	}
	if written {
		return nil
	}
	return init
}

func (j *jlX) stmtHook(s ast.Stmt, rest []ast.Stmt, st *vstate, fr *vframe) *vtree {
	x := j.fx.x
	switch n := s.(type) {
	case *ast.DeclStmt:
		if gd, ok := n.Decl.(*ast.GenDecl); ok && (gd.Tok == token.CONST || gd.Tok == token.TYPE) {
			return x.exec(rest, st, fr) // constants are values the checker knows
		}
	case *ast.ExprStmt:
		if call, ok := ast.Unparen(n.X).(*ast.CallExpr); ok {
			switch j.p.text(call.Fun) {
			case "os.Exit", "panic":
				var pend []*vtree
				if len(call.Args) == 1 {
					if a, ok := x.eval(call.Args[0], st, &pend); ok {
						return vwrap(pend, &vtree{kind: "leaf", rets: []string{"EXIT:" + j.p.text(call.Fun) + "(" + a + ")"}})
					}
				}
			}
		}
	case *ast.AssignStmt:
		// pkg.Var = value: a node `set pkg.Var(value)`
		if len(n.Lhs) == 1 && len(n.Rhs) == 1 && n.Tok == token.ASSIGN {
			if sel, ok := n.Lhs[0].(*ast.SelectorExpr); ok {
				if id, ok := sel.X.(*ast.Ident); ok {
					if pn, ok := j.p.info.Uses[id].(*types.PkgName); ok {
						var pend []*vtree
						v, ok := x.eval(n.Rhs[0], st, &pend)
						if ok {
							st.ncall++
							pend = append(pend, &vtree{kind: "call", id: st.ncall, fn: "set " + pn.Imported().Name() + "." + sel.Sel.Name, args: []string{v}})
							return vwrap(pend, x.exec(rest, st, fr))
						}
					}
				}
			}
		}
		// v, ok := m[k]
		if len(n.Lhs) == 2 && len(n.Rhs) == 1 && (n.Tok == token.DEFINE || n.Tok == token.ASSIGN) {
			if ix, ok := ast.Unparen(n.Rhs[0]).(*ast.IndexExpr); ok {
				var pend []*vtree
				m, ok1 := x.eval(ix.X, st, &pend)
				k, ok2 := x.eval(ix.Index, st, &pend)
				if ok1 && ok2 && x.assign(n.Lhs[0], "index("+m+","+k+")", st) && x.assign(n.Lhs[1], "has("+m+","+k+")", st) {
					return vwrap(pend, x.exec(rest, st, fr))
				}
			}
		}
	}
	return j.fx.stmtHook(s, rest, st, fr)
}

func (j *jlX) callHook(n *ast.CallExpr, st *vstate, pend *[]*vtree, want int) ([]string, bool, bool) {
	x := j.fx.x
	if rs, ok, handled := j.fx.callHook(n, st, pend, want); handled {
		return rs, ok, handled
	}
	if tv, ok := j.p.info.Types[n.Fun]; ok && tv.IsType() {
		return nil, false, false
	}
	if j.p.text(n.Fun) == "fmt.Errorf" {
		return nil, false, false
	}
	// a call whose results are dropped, or whose type the checker does not know (imports it could not load)
	fn := ""
	var args []string
	switch f := ast.Unparen(n.Fun).(type) {
	case *ast.Ident:
		fo, ok := j.p.info.Uses[f].(*types.Func)
		if !ok || fo.Pkg() != j.p.pkg {
			return nil, false, false
		}
		if want == 1 {
			return nil, false, false // one-expression helpers are evalCall's
		}
		fn = j.p.pkg.Name() + "." + f.Name
	case *ast.SelectorExpr:
		if id, ok := f.X.(*ast.Ident); ok {
			if pn, ok := j.p.info.Uses[id].(*types.PkgName); ok {
				fn = pn.Imported().Name() + "." + f.Sel.Name
			} else if j.p.info.Uses[id] == nil {
				fn = id.Name + "." + f.Sel.Name // an import whose package name the checker could not determine (gopkg.in/yaml.v3)
			}
		}
		if fn == "" {
			rs, ok := x.eval(f.X, st, pend)
			if !ok {
				return nil, false, true
			}
			fn = "." + f.Sel.Name
			args = append(args, rs)
		}
	default:
		return nil, false, false
	}
	if want < 0 {
		want = 0
		if tv, ok := j.p.info.Types[n]; ok && tv.Type != nil {
			if tup, ok := tv.Type.(*types.Tuple); ok {
				want = tup.Len()
			}
		}
	}
	return j.fx.opaque(fn, args, n, st, pend, want)
}

// run executes a function of package main: parameters P0, P1 …
func (j *jlX) run(name string) *vtree {
	x := j.fx.x
	fd := x.funcs[name]
	if fd == nil {
		return vunknown("no function %s", name)
	}
	return j.runBody(name, fd.Type, fd.Body, nil)
}

func (j *jlX) runBody(name string, ft *ast.FuncType, body *ast.BlockStmt, captured map[types.Object]string) *vtree {
	x := j.fx.x
	x.inlined = map[string]bool{}
	j.fx.loops = map[*vframe]*flowLoopCtx{}
	st := &vstate{vars: map[types.Object]string{}, pos: map[token.Pos]string{}, known: map[string]bool{}}
	for k, v := range captured {
		st.vars[k] = v
	}
	i := 0
	for _, f := range ft.Params.List {
		for _, nm := range f.Names {
			if obj := j.p.info.Defs[nm]; obj != nil && nm.Name != "_" {
				st.vars[obj] = fmt.Sprintf("P%d", i)
			}
			i++
		}
	}
	nres := 0
	if ft.Results != nil {
		for _, f := range ft.Results.List {
			if len(f.Names) == 0 {
				nres++
			} else {
				nres += len(f.Names)
			}
		}
	}
	fr := &vframe{nres: nres, stack: []string{name}}
	fr.ret = func(st2 *vstate, rets []string) *vtree {
		leaf := &vtree{kind: "leaf"}
		for _, r := range rets {
			leaf.rets = append(leaf.rets, st2.norm(r))
		}
		return leaf
	}
	return flowMerged(x.exec(body.List, st, fr))
}

func pnext(rets ...string) fpat {
	return func(t *vtree, b fbind) bool {
		if t == nil || t.kind != "next" || len(t.rets) != len(rets) {
			return false
		}
		for i, r := range rets {
			if !funify(r, t.rets[i], b) {
				return false
			}
		}
		return true
	}
}

// plog: any chain of calls that starts at a zerolog event of the level named (`log.Error()…Msg(…)`) and nothing else.
func plog(level string, next fpat) fpat {
	return func(t *vtree, b fbind) bool {
		if t == nil || t.kind != "call" || t.fn != "log."+level || len(t.args) != 0 {
			return false
		}
		cur := fmt.Sprintf("res#%d", t.id)
		t = t.next
		for t != nil && t.kind == "call" && strings.HasPrefix(t.fn, ".") && len(t.args) > 0 && t.args[0] == cur {
			cur = fmt.Sprintf("res#%d", t.id)
			last := t.fn
			t = t.next
			if last == ".Msg" || last == ".Msgf" || last == ".Send" {
				return next(t, b)
			}
		}
		return false
	}
}

type jlC struct {
	j     *jlX
	where []string
	nF    int
}

func (c *jlC) unknown(fact string, t *vtree) string {
	dup := false
	for _, w := range c.where {
		dup = dup || w == fact
	}
	if !dup {
		c.where = append(c.where, fact)
	}
	return "(.unknown " + lstr(flowText(t)) + ")"
}

type jlAlt struct {
	p    fpat
	emit func(b fbind) (string, bool)
}

func (c *jlC) fact(name string, t *vtree, alts ...jlAlt) string {
	c.nF++
	for _, a := range alts {
		if b, ok := fmatch(a.p, t, nil); ok {
			if s, ok := a.emit(b); ok {
				return s
			}
		}
	}
	return c.unknown(name, t)
}

func jlNat(s string) bool {
	if s == "" {
		return false
	}
	for _, r := range s {
		if r < '0' || r > '9' {
			return false
		}
	}
	return true
}

// stdStreams lists every mention of os.Stdin / os.Stdout / os.Stderr (function, stream, what receives it) and every call
// that prints without a writer (fmt.Print…, print, println).
func jlStreams(p *pkgInfo) (streams []string, prints []string) {
	for _, f := range p.files {
		for _, d := range f.Decls {
			fd, ok := d.(*ast.FuncDecl)
			if !ok || fd.Body == nil {
				continue
			}
			var stack []ast.Node
			ast.Inspect(fd.Body, func(n ast.Node) bool {
				if n == nil {
					stack = stack[:len(stack)-1]
					return true
				}
				stack = append(stack, n)
				if sel, ok := n.(*ast.SelectorExpr); ok {
					if id, ok := sel.X.(*ast.Ident); ok && id.Name == "os" && (sel.Sel.Name == "Stdin" || sel.Sel.Name == "Stdout" || sel.Sel.Name == "Stderr") {
						ctx := "?"
						for i := len(stack) - 2; i >= 0; i-- {
							switch m := stack[i].(type) {
							case *ast.CallExpr:
								ctx = strings.ReplaceAll(p.text(m.Fun), " ", "")
								if s, ok := m.Fun.(*ast.SelectorExpr); ok {
									if _, isPkg := s.X.(*ast.Ident); !isPkg || s.X == ast.Expr(sel) {
										ctx = "." + s.Sel.Name
									}
									if id2, ok := s.X.(*ast.Ident); ok && p.info.Uses[id2] != nil {
										if _, isPkg := p.info.Uses[id2].(*types.PkgName); !isPkg {
											ctx = "." + s.Sel.Name
										}
									}
								}
							case *ast.KeyValueExpr:
								if i > 0 {
									if cl, ok := stack[i-1].(*ast.CompositeLit); ok {
										ctx = strings.ReplaceAll(p.text(cl.Type), " ", "") + "." + p.text(m.Key)
									}
								}
							default:
								continue
							}
							break
						}
						streams = append(streams, fmt.Sprintf("(%s, %s, %s)", lstr(fd.Name.Name), lstr("os."+sel.Sel.Name), lstr(ctx)))
					}
				}
				if call, ok := n.(*ast.CallExpr); ok {
					name := strings.ReplaceAll(p.text(call.Fun), " ", "")
					if name == "print" || name == "println" || strings.HasPrefix(name, "fmt.Print") {
						prints = append(prints, fmt.Sprintf("(%s, %s)", lstr(fd.Name.Name), lstr(name)))
					}
				}
				return true
			})
		}
	}
	sort.Strings(streams)
	sort.Strings(prints)
	return streams, prints
}

func jlRowBr(pkg string) fpat {
	return pc(pkg+".createTemplateFromRow", []string{"as(res#$e,jsonline.Row)"}, "s", pif("isnil(res#$s.2)",
		pc(".WithRow", []string{"$ti", "res#$n.0", "res#$s.0"}, "wi", pc(".WithRow", []string{"$to", "res#$n.0", "res#$s.1"}, "wo",
			pnext("res#$wi", "res#$wo"))),
		pret("$ti", "$to", "res#$s.2")))
}

func jlInlineReplaces(pkg string) fpat {
	return pc(pkg+".createTemplateFromString", []string{"field(res#$f,template)"}, "s",
		pif("isnil(res#$s.2)", pret("res#$s.0", "res#$s.1", "nil"), pret("nil", "nil", "res#$s.2")))
}

func jlStrBr(pkg string) fpat {
	// the other spelling: `len(parts) < n` → (parts[0], parts[0]) else (parts[0], parts[1]); both parsed, then both declared.
	// parseDescriptor is a function of its text (the registries are never written), so parsing parts[0] again IS the input's.
	pair := func(out, i, o string) fpat {
		return pc(pkg+".parseDescriptor", []string{"index(res#$p,lit:0)"}, i, pc(pkg+".parseDescriptor", []string{"index(res#$p,lit:" + out + ")"}, o,
			pc(".With", []string{"$ti", "res#$n.0", "res#$" + i, "err#$" + i}, "", pc(".With", []string{"$to", "res#$n.0", "res#$" + o, "err#$" + o}, "", pnext("$ti", "$to")))))
	}
	alt := pc("strings.$split", []string{"as(res#$e,string)", "lit:$sep", "lit:$cnt"}, "p",
		pif("true(gt(lit:$cnt,len(res#$p)))", pair("0", "i1", "o1"), pair("1", "i2", "o2")))
	return por(jlStrBrPlain(pkg), func(t *vtree, b fbind) bool { return alt(t, b) && b["cnt"] == "2" })
}

func jlStrBrPlain(pkg string) fpat {
	return pc("strings.$split", []string{"as(res#$e,string)", "lit:$sep", "lit:$cnt"}, "p",
		pc(pkg+".parseDescriptor", []string{"index(res#$p,lit:0)"}, "i", pc(".With", []string{"$ti", "res#$n.0", "res#$i", "err#$i"}, "",
			pif("true(gt(len(res#$p),lit:1))",
				pc(pkg+".parseDescriptor", []string{"index(res#$p,lit:1)"}, "o", pc(".With", []string{"$to", "res#$n.0", "res#$o", "err#$o"}, "", pnext("$ti", "$to"))),
				pc(".With", []string{"$to", "res#$n.0", "res#$i", "err#$i"}, "", pnext("$ti", "$to"))))))
}

type jlFacts struct {
	text  string
	nF    int
	nU    int
	where []string
}

func jlFactsOf(p *pkgInfo) jlFacts {
	j := newJlX(p)
	c := &jlC{j: j}
	konst := func(s string) func(fbind) (string, bool) { return func(fbind) (string, bool) { return s, true } }
	nilSym := func(s string) bool { return s == "nil" || strings.HasPrefix(s, "zero(") }
	pkg := p.pkg.Name()

	// parseDescriptor
	tail := func(f string, k string) fpat {
		return pif("true(gt(len(res#$m),lit:$g2))", pret(f, "index(G.$treg,index(res#$m,lit:$tg))"), pret(f, "$nil"+k))
	}
	descriptor := c.fact("parseDescriptor", j.run("parseDescriptor"), jlAlt{
		pc("regexp.MustCompile", []string{"lit:$re"}, "r", pc(".FindStringSubmatch", []string{"res#$r", "P0"}, "m",
			pif("true(gt(len(res#$m),lit:$g1))",
				pif("true(has(G.$freg,index(res#$m,lit:$fg)))", tail("index(G.$freg,index(res#$m,lit:$fg))", "a"), tail("jsonline.$dflt", "b")),
				tail("jsonline.$dflt", "c")))),
		func(b fbind) (string, bool) {
			if b["g1"] != b["fg"] || b["g2"] != b["tg"] || !jlNat(b["fg"]) || !jlNat(b["tg"]) || !nilSym(b["nila"]) || !nilSym(b["nilb"]) || !nilSym(b["nilc"]) {
				return "", false
			}
			re := b["re"] // a Go-quoted string
			return fmt.Sprintf("(.regexp %s %s %s %s %s %s)", re, b["fg"], b["tg"], lstr(b["freg"]), lstr(b["dflt"]), lstr(b["treg"])), true
		}})

	// parse (the file route)
	fileRoute := c.fact("parse", j.run("parse"), jlAlt{
		ploop("range(P2)",
			pc(pkg+".parseDescriptor", []string{"field($col,Input)"}, "i", pc(pkg+".parseDescriptor", []string{"field($col,Output)"}, "o",
				pc(".With", []string{"$ti", "field($col,Name)", "res#$i", "err#$i"}, "", pc(".With", []string{"$to", "field($col,Name)", "res#$o", "err#$o"}, "",
					pif("true(gt(len(field($col,Columns)),lit:0))",
						pc("jsonline.NewTemplate", nil, "a", pc("jsonline.NewTemplate", nil, "b",
							pc(pkg+".parse", []string{"res#$a", "res#$b", "field($col,Columns)"}, "s",
								pif("isnil(res#$s.2)",
									pc(".WithRow", []string{"$ti", "field($col,Name)", "res#$s.0"}, "wi", pc(".WithRow", []string{"$to", "field($col,Name)", "res#$s.1"}, "wo",
										pnext("res#$wi", "res#$wo"))),
									pret("$ti", "$to", "res#$s.2"))))),
						pnext("$ti", "$to")))))),
			pret("$ti", "$to", "nil")),
		func(b fbind) (string, bool) {
			return ".withThenSubRows", b["ti"] != b["to"] && strings.HasPrefix(b["ti"], "lv#")
		}})

	// ParseRowDefinition
	parseRowDef := c.fact("ParseRowDefinition", j.run("ParseRowDefinition"), jlAlt{
		pc(pkg+".ReadRowDefinition", []string{"P0"}, "d", pif("isnil(err#$d)",
			pc("jsonline.NewTemplate", nil, "a", pc("jsonline.NewTemplate", nil, "b",
				pc(pkg+".parse", []string{"res#$a", "res#$b", "field(res#$d,Columns)"}, "s",
					pif("isnil(res#$s.2)", pret("res#$s.0", "res#$s.1", "nil"), pret("nil", "nil", "res#$s.2"))))),
			pret("nil", "nil", "err#$d"))),
		konst(".readThenParse")})

	// ReadRowDefinition
	readFile := c.fact("ReadRowDefinition", j.run("ReadRowDefinition"), jlAlt{
		pc("os.Stat", []string{"P0"}, "s", pif("isnil(err#$s)",
			pc("$rf.ReadFile", []string{"P0"}, "r", pif("isnil(err#$r)",
				pc("yaml.Unmarshal", []string{"res#$r", "$def"}, "y", pif("isnil(res#$y)", pret("$def", "nil"), pret("nil", "WRAP(res#$y)"))),
				pret("nil", "WRAP(err#$r)"))),
			plog("Warn", pret("$def", "nil")))),
		func(b fbind) (string, bool) {
			// ioutil.ReadFile is os.ReadFile (io/ioutil: "As of Go 1.16, this function simply calls os.ReadFile")
			return ".statReadYaml", b["def"] == "&RowDefinition{Columns=[]ColumnDefinition{}}" && (b["rf"] == "ioutil" || b["rf"] == "os")
		}})

	// createTemplateFromString
	fromString := c.fact("createTemplateFromString", j.run("createTemplateFromString"), jlAlt{
		pc("jsonline.NewRow", nil, "r", pc("json.Unmarshal", []string{"conv([]byte,P0)", "res#$r"}, "u", pif("isnil(res#$u)",
			pc(pkg+".createTemplateFromRow", []string{"res#$r"}, "t", pret("res#$t.0", "res#$t.1", "res#$t.2")),
			pret("nil", "nil", "WRAP(res#$u)")))),
		konst(".unmarshalIntoNewRow")})

	// createTemplateFromRow (the inline route)
	inline := c.fact("createTemplateFromRow", j.run("createTemplateFromRow"), jlAlt{
		pc("jsonline.NewTemplate", nil, "a", pc("jsonline.NewTemplate", nil, "b", pc(".IterValues", []string{"P0"}, "it",
			ploop("", pc("()", []string{"res#$it"}, "n", pif("true(res#$n.2)",
				pc(".Export", []string{"res#$n.1"}, "e", pif("isnil(err#$e)",
					por(
						pif("is(res#$e,jsonline.Row)", jlRowBr(pkg), pif("is(res#$e,string)", jlStrBr(pkg), pnext("$ti", "$to"))),
						// the two case types exclude each other (a string is no Row): either order of the cases
						pif("is(res#$e,string)", jlStrBr(pkg), pif("is(res#$e,jsonline.Row)", jlRowBr(pkg), pnext("$ti", "$to")))),
					pret("$ti", "$to", "WRAP(err#$e)"))),
				func(t *vtree, b fbind) bool { return t != nil && t.kind == "break" })),
				pret("$ti", "$to", "nil"))))),
		func(b fbind) (string, bool) {
			if b["split"] != "SplitN" || b["ti"] == b["to"] || !strings.HasPrefix(b["ti"], "lv#") || !jlNat(b["cnt"]) {
				return "", false
			}
			return fmt.Sprintf("(.splitN %s %s .sameAsInput)", b["sep"], b["cnt"]), true
		}})

	// getTemplateFlags
	flags := c.fact("getTemplateFlags", j.run("getTemplateFlags"), jlAlt{
		pc(".Flags", []string{"P0"}, "f1", pc(".GetString", []string{"res#$f1", "lit:$fname"}, "a", pif("isnil(err#$a)",
			pc(".Flags", []string{"P0"}, "f2", pc(".GetString", []string{"res#$f2", "lit:$tname"}, "b", pif("isnil(err#$b)",
				pc(pkg+".logFlags", []string{"$tf"}, "", pret("$tf", "nil")),
				pret("nil", "WRAP(err#$b)")))),
			pret("nil", "WRAP(err#$a)")))),
		func(b fbind) (string, bool) {
			return fmt.Sprintf("(.flags %s %s)", b["fname"], b["tname"]), b["tf"] == "&templateFlags{filename=res#"+b["a"]+",template=res#"+b["b"]+"}"
		}})

	// createTemplate
	createTemplate := c.fact("createTemplate", j.run("createTemplate"), jlAlt{
		pc(pkg+".getTemplateFlags", []string{"P0"}, "f", pif("isnil(err#$f)",
			pc(pkg+".ParseRowDefinition", []string{"field(res#$f,filename)"}, "d", pif("isnil(res#$d.2)",
				por(
					pif("true(gt(len(field(res#$f,template)),lit:$min))",
						pif("eq(field(res#$f,template),lit:$empty)", pret("res#$d.0", "res#$d.1", "nil"), jlInlineReplaces(pkg)),
						pret("res#$d.0", "res#$d.1", "nil")),
					// `template == ""` is `!(len(template) > 0)`
					func(t *vtree, b fbind) bool {
						b["min"] = "0"
						return pif("eq(field(res#$f,template),lit:\"\")", pret("res#$d.0", "res#$d.1", "nil"),
							pif("eq(field(res#$f,template),lit:$empty)", pret("res#$d.0", "res#$d.1", "nil"), jlInlineReplaces(pkg)))(t, b)
					}),
				pret("nil", "nil", "res#$d.2"))),
			pret("nil", "nil", "err#$f"))),
		func(b fbind) (string, bool) {
			return fmt.Sprintf("(.fileThenInlineReplaces %s %s)", b["min"], b["empty"]), jlNat(b["min"])
		}})

	// run
	ending := func(k string) fpat {
		return pc("time.Since", []string{"res#$t0"}, "", plog("Info", pret()))
	}
	runFact := c.fact("run", j.run("run"), jlAlt{
		pc(pkg+".createTemplate", []string{"P0"}, "t", pif("isnil(res#$t.2)",
			pc(".GetImporter", []string{"res#$t.$in", "os.$stdin"}, "i", pc(".GetExporter", []string{"res#$t.$out", "os.$stdout"}, "e",
				pc("jsonline.NewStreamer", []string{"res#$i", "res#$e"}, "s", pc("overlog.AddGlobalFields", []string{"$lf"}, "", pc("time.Now", nil, "t0",
					pc(".WithProcessor", []string{"res#$s", "closure#$c"}, "w", pc(".Stream", []string{"res#$w"}, "r",
						pif("isnil(res#$r)", ending("a"), plog("Error", ending("b")))))))))),
			plog("Error", pret("EXIT:os.Exit(lit:$code)")))),
		func(b fbind) (string, bool) {
			if !jlNat(b["in"]) || !jlNat(b["out"]) || !jlNat(b["code"]) {
				return "", false
			}
			return fmt.Sprintf("(.stream %s %s %s %s %s)", b["code"], b["in"], lstr(b["stdin"]), b["out"], lstr(b["stdout"])), true
		}})

	// the processor: the closure handed to WithProcessor
	processor := "(.unknown \"no closure\")"
	c.nF++
	if len(j.closures) == 1 {
		fl := j.closures[0]
		captured := map[types.Object]string{}
		k := 0
		ast.Inspect(fl.Body, func(n ast.Node) bool {
			if id, ok := n.(*ast.Ident); ok {
				if v, ok := p.info.Uses[id].(*types.Var); ok && !v.IsField() && v.Parent() != p.pkg.Scope() && (v.Pos() < fl.Pos() || v.Pos() >= fl.End()) {
					if _, seen := captured[v]; !seen {
						captured[v] = fmt.Sprintf("cap#%d", k)
						k++
					}
				}
			}
			return true
		})
		t := j.runBody("closure", fl.Type, fl.Body, captured)
		// every path returns nil, and a non-nil error is logged at level Error
		allNil, logsErr := true, false
		var walk func(t *vtree, errKnownNonNil bool, loggedErr bool)
		walk = func(t *vtree, nonNil bool, logged bool) {
			if t == nil {
				allNil = false
				return
			}
			switch t.kind {
			case "call":
				if t.fn == "log.Error" && nonNil {
					logged = true
				}
				walk(t.next, nonNil, logged)
			case "if":
				if t.cond == "isnil(P1)" {
					walk(t.then, false, logged)
					walk(t.els, true, logged)
				} else {
					walk(t.then, nonNil, logged)
					walk(t.els, nonNil, logged)
				}
			case "leaf":
				if len(t.rets) != 1 || t.rets[0] != "nil" {
					allNil = false
				}
				if nonNil && !logged {
					logsErr = false
				} else if nonNil {
					logsErr = logsErr || logged
				}
			default:
				allNil = false
			}
		}
		// logsErr: true iff every path with a non-nil error passed log.Error
		logsErr = true
		var check func(t *vtree, nonNil, logged bool)
		check = func(t *vtree, nonNil, logged bool) {
			if t == nil {
				return
			}
			switch t.kind {
			case "call":
				check(t.next, nonNil, logged || (t.fn == "log.Error" && nonNil))
			case "if":
				if t.cond == "isnil(P1)" {
					check(t.then, false, logged)
					check(t.els, true, logged)
				} else {
					check(t.then, nonNil, logged)
					check(t.els, nonNil, logged)
				}
			case "leaf":
				if nonNil && !logged {
					logsErr = false
				}
			}
		}
		_ = walk
		var nilOnly func(t *vtree) bool
		nilOnly = func(t *vtree) bool {
			if t == nil {
				return false
			}
			switch t.kind {
			case "call":
				return nilOnly(t.next)
			case "if":
				return nilOnly(t.then) && nilOnly(t.els)
			case "leaf":
				return len(t.rets) == 1 && t.rets[0] == "nil"
			}
			return false
		}
		allNil = nilOnly(t)
		check(t, false, false)
		hasTest := strings.Contains(flowText(t), "isnil(P1)")
		if allNil && logsErr && hasTest {
			processor = ".logsAndReturnsNil"
		} else {
			processor = c.unknown("processor", t)
		}
	} else {
		c.where = append(c.where, "processor")
	}

	// main
	mainFact := c.fact("main", j.run("main"), jlAlt{
		pc("log.Output", []string{"zerolog.ConsoleWriter{Out=os.$w}"}, "o", pc("set log.Logger", []string{"res#$o"}, "",
			pc(pkg+".NewRootCommand", nil, "c", pif("isnil(err#$c)",
				pc(".Execute", []string{"res#$c"}, "x", pif("isnil(res#$x)", pret(), plog("Error", pret("EXIT:os.Exit(lit:$c2)")))),
				plog("Error", pret("EXIT:os.Exit(lit:$c1)")))))),
		func(b fbind) (string, bool) {
			return fmt.Sprintf("(.exits %s %s %s)", lstr(b["w"]), b["c1"], b["c2"]), jlNat(b["c1"]) && jlNat(b["c2"])
		}})

	streams, prints := jlStreams(p)

	var sb strings.Builder
	sb.WriteString("-- GENERATED by extract/ from /repo/cmd/jl (root.go, definition.go, main.go) on every run. Do not edit.\n")
	sb.WriteString("import Model.JlFactsSyntax\n\nnamespace Jl.Gen\nopen Jl Jl.JlFacts\n\n")
	sb.WriteString("/-- What the functions of cmd/jl do. -/\ndef jlFacts : JlFacts :=\n")
	sb.WriteString("  { descriptor := " + descriptor + ",\n")
	sb.WriteString("    fileRoute := " + fileRoute + ",\n")
	sb.WriteString("    parseRowDefinition := " + parseRowDef + ",\n")
	sb.WriteString("    readFile := " + readFile + ",\n")
	sb.WriteString("    fromString := " + fromString + ",\n")
	sb.WriteString("    inlineRoute := " + inline + ",\n")
	sb.WriteString("    templateFlags := " + flags + ",\n")
	sb.WriteString("    createTemplate := " + createTemplate + ",\n")
	sb.WriteString("    run := " + runFact + ",\n")
	sb.WriteString("    processor := " + processor + ",\n")
	sb.WriteString("    mainFn := " + mainFact + ",\n")
	sb.WriteString("    stdStreams := [\n      " + strings.Join(streams, ",\n      ") + "],\n")
	sb.WriteString("    printCalls := [" + strings.Join(prints, ", ") + "] }\n\nend Jl.Gen\n")
	text := sb.String()
	return jlFacts{text: text, nF: c.nF, nU: strings.Count(text, ".unknown"), where: c.where}
}

func jlDump(p *pkgInfo) string {
	j := newJlX(p)
	var keys []string
	for k := range j.fx.x.funcs {
		keys = append(keys, k)
	}
	sort.Strings(keys)
	var b strings.Builder
	for _, k := range keys {
		if k == "NewRootCommand" || k == "initConfig" || k == "bindViper" {
			continue
		}
		b.WriteString(k + ":\n    " + flowText(j.run(k)) + "\n")
	}
	return b.String()
}
