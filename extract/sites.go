package main

// Inventory of panic-capable sites of pkg/jsonline (C17) and of the shared state reachable
// from the read-only template operations (C20).

import (
	"fmt"
	"go/ast"
	"go/token"
	"go/types"
	"sort"
	"strings"
)

type site struct {
	fn, kind string
}

// panicSites counts, per function: single-value type assertions, index/slice expressions on
// slices/arrays/strings, explicit panic calls, reflect calls that panic on misuse, and
// possibly-nil map writes are not counted (all maps are made in constructors).
func panicSites(p *pkgInfo) map[site]int {
	out := map[site]int{}
	for _, f := range p.files {
		for _, d := range f.Decls {
			fd, ok := d.(*ast.FuncDecl)
			if !ok || fd.Body == nil {
				continue
			}
			name := fd.Name.Name
			if fd.Recv != nil && len(fd.Recv.List) == 1 {
				name = strings.TrimPrefix(p.text(fd.Recv.List[0].Type), "*") + "." + name
			}
			var stack []ast.Node
			ast.Inspect(fd.Body, func(n ast.Node) bool {
				if n == nil {
					stack = stack[:len(stack)-1]
					return true
				}
				var parent ast.Node
				if len(stack) > 0 {
					parent = stack[len(stack)-1]
				}
				stack = append(stack, n)
				switch x := n.(type) {
				case *ast.TypeAssertExpr:
					if x.Type == nil {
						break // type switch guard
					}
					commaOk := false
					switch pa := parent.(type) {
					case *ast.AssignStmt:
						commaOk = len(pa.Lhs) == 2 && len(pa.Rhs) == 1
					case *ast.ValueSpec:
						commaOk = len(pa.Names) == 2 && len(pa.Values) == 1
					}
					if !commaOk {
						out[site{name, "assert"}]++
					}
				case *ast.IndexExpr:
					if tv, ok := p.info.Types[x.X]; ok {
						switch tv.Type.Underlying().(type) {
						case *types.Slice, *types.Array, *types.Basic, *types.Pointer:
							out[site{name, "index"}]++
						}
					}
				case *ast.SliceExpr:
					out[site{name, "slice"}]++
				case *ast.CallExpr:
					if id, ok := x.Fun.(*ast.Ident); ok && id.Name == "panic" {
						out[site{name, "panic"}]++
					}
					if sel, ok := x.Fun.(*ast.SelectorExpr); ok {
						if tv, ok := p.info.Types[sel.X]; ok && strings.HasPrefix(tv.Type.String(), "reflect.") {
							out[site{name, "reflect:" + sel.Sel.Name}]++
						}
					}
				}
				return true
			})
		}
	}
	return out
}

func renderSites(m map[site]int) string {
	keys := make([]site, 0, len(m))
	for k := range m {
		keys = append(keys, k)
	}
	sort.Slice(keys, func(i, j int) bool {
		if keys[i].fn != keys[j].fn {
			return keys[i].fn < keys[j].fn
		}
		return keys[i].kind < keys[j].kind
	})
	var rows []string
	for _, k := range keys {
		rows = append(rows, fmt.Sprintf("  (%s, %s, %d)", lstr(k.fn), lstr(k.kind), m[k]))
	}
	return "[\n" + strings.Join(rows, ",\n") + "\n]"
}

// sharedWrites: for every function of the package, the assignments whose left side is rooted
// at a receiver, a parameter or a package-level variable (a conservative write footprint),
// and the package-level variables themselves.
// sharedTypes returns the named struct types of the package whose objects can be shared between
// goroutines through the package's API: the types implementing one of its exported interfaces
// (the objects handed to callers), the types of its package-level variables, and everything
// reachable from those through fields, pointers, slices, maps and non-empty interfaces. A
// struct type outside this set (a private helper such as an iterator created afresh by the call
// that returns it) is owned by the call that made it, and writes to its fields are not writes
// to shared state; writes THROUGH it to a field of a shared type are still attributed to that
// shared type (the owner of a written location is the struct that holds it).
func sharedTypes(p *pkgInfo) map[string]bool {
	scope := p.pkg.Scope()
	var structs []*types.Named
	var ifaces []*types.Interface
	for _, n := range scope.Names() {
		tn, ok := scope.Lookup(n).(*types.TypeName)
		if !ok {
			continue
		}
		nt, ok := tn.Type().(*types.Named)
		if !ok {
			continue
		}
		switch u := nt.Underlying().(type) {
		case *types.Struct:
			structs = append(structs, nt)
		case *types.Interface:
			if tn.Exported() && u.NumMethods() > 0 {
				ifaces = append(ifaces, u)
			}
		}
	}
	implementers := func(it *types.Interface) []*types.Named {
		var out []*types.Named
		for _, nt := range structs {
			if types.Implements(nt, it) || types.Implements(types.NewPointer(nt), it) {
				out = append(out, nt)
			}
		}
		return out
	}
	shared := map[string]bool{}
	seen := map[types.Type]bool{}
	var reach func(t types.Type)
	reach = func(t types.Type) {
		if t == nil || seen[t] {
			return
		}
		seen[t] = true
		switch u := t.(type) {
		case *types.Named:
			if u.Obj().Pkg() != p.pkg {
				return
			}
			switch uu := u.Underlying().(type) {
			case *types.Struct:
				shared[u.Obj().Name()] = true
				for i := 0; i < uu.NumFields(); i++ {
					reach(uu.Field(i).Type())
				}
			case *types.Interface:
				if uu.NumMethods() > 0 {
					for _, nt := range implementers(uu) {
						reach(nt)
					}
				}
			default:
				reach(uu)
			}
		case *types.Pointer:
			reach(u.Elem())
		case *types.Slice:
			reach(u.Elem())
		case *types.Array:
			reach(u.Elem())
		case *types.Chan:
			reach(u.Elem())
		case *types.Map:
			reach(u.Key())
			reach(u.Elem())
		case *types.Struct:
			for i := 0; i < u.NumFields(); i++ {
				reach(u.Field(i).Type())
			}
		case *types.Interface:
			if u.NumMethods() > 0 {
				for _, nt := range implementers(u) {
					reach(nt)
				}
			}
		}
	}
	for _, it := range ifaces {
		for _, nt := range implementers(it) {
			reach(nt)
		}
	}
	for _, n := range scope.Names() {
		if v, ok := scope.Lookup(n).(*types.Var); ok {
			reach(v.Type())
		}
	}
	return shared
}

// ownerStruct gives the struct type of this package that holds the location an assignment writes
// (x.f = …: the type of x; x.m[k] = …: the type of x), or "" when there is none in sight.
func ownerStruct(p *pkgInfo, lhs ast.Expr) string {
	for e := lhs; ; {
		switch x := e.(type) {
		case *ast.SelectorExpr:
			if tv, ok := p.info.Types[x.X]; ok && tv.Type != nil {
				t := tv.Type
				if pt, ok := t.Underlying().(*types.Pointer); ok {
					t = pt.Elem()
				}
				if nt, ok := t.(*types.Named); ok && nt.Obj().Pkg() == p.pkg {
					if _, ok := nt.Underlying().(*types.Struct); ok {
						return nt.Obj().Name()
					}
				}
			}
			e = x.X
		case *ast.IndexExpr:
			e = x.X
		case *ast.StarExpr:
			e = x.X
		case *ast.ParenExpr:
			e = x.X
		default:
			return ""
		}
	}
}

func sharedWrites(p *pkgInfo) (writes []string, globals []string) {
	shared := sharedTypes(p)
	for _, f := range p.files {
		for _, d := range f.Decls {
			switch x := d.(type) {
			case *ast.GenDecl:
				if x.Tok == token.VAR {
					for _, sp := range x.Specs {
						for _, n := range sp.(*ast.ValueSpec).Names {
							globals = append(globals, n.Name)
						}
					}
				}
			case *ast.FuncDecl:
				if x.Body == nil {
					continue
				}
				name := x.Name.Name
				roots := map[string]bool{}
				if x.Recv != nil && len(x.Recv.List) == 1 {
					name = strings.TrimPrefix(p.text(x.Recv.List[0].Type), "*") + "." + name
					for _, n := range x.Recv.List[0].Names {
						roots[n.Name] = true
					}
				}
				for _, prm := range x.Type.Params.List {
					for _, n := range prm.Names {
						roots[n.Name] = true
					}
				}
				ast.Inspect(x.Body, func(n ast.Node) bool {
					check := func(lhs ast.Expr) {
						root := lhs
						depth := 0
						for {
							switch e := root.(type) {
							case *ast.SelectorExpr:
								root = e.X
								depth++
								continue
							case *ast.IndexExpr:
								root = e.X
								depth++
								continue
							case *ast.StarExpr:
								root = e.X
								depth++
								continue
							case *ast.ParenExpr:
								root = e.X
								continue
							}
							break
						}
						id, ok := root.(*ast.Ident)
						if !ok {
							return
						}
						obj := p.info.Uses[id]
						if obj == nil {
							obj = p.info.Defs[id]
						}
						isGlobal := obj != nil && obj.Parent() == p.pkg.Scope()
						if (roots[id.Name] && depth > 0) || isGlobal {
							if own := ownerStruct(p, lhs); own != "" && !shared[own] && !isGlobal {
								return // a field of a private helper object owned by the call that made it
							}
							writes = append(writes, name+"\x00"+p.text(lhs))
						}
					}
					switch s := n.(type) {
					case *ast.AssignStmt:
						for _, l := range s.Lhs {
							check(l)
						}
					case *ast.IncDecStmt:
						check(s.X)
					}
					return true
				})
			}
		}
	}
	sort.Strings(writes)
	sort.Strings(globals)
	return
}

// refGlobals: the package-level variables whose type is a slice, a map, a pointer, a channel, an array or a struct
// (memory that every goroutine of the process reaches, and that a caller who is handed it can write to), with their
// type. Error values (interfaces), strings, numbers and functions are not listed.
func refGlobals(p *pkgInfo) []string {
	var out []string
	for _, f := range p.files {
		for _, d := range f.Decls {
			x, ok := d.(*ast.GenDecl)
			if !ok || x.Tok != token.VAR {
				continue
			}
			for _, sp := range x.Specs {
				for _, n := range sp.(*ast.ValueSpec).Names {
					obj := p.info.Defs[n]
					if obj == nil || obj.Type() == nil {
						continue
					}
					switch obj.Type().Underlying().(type) {
					case *types.Slice, *types.Map, *types.Pointer, *types.Chan, *types.Array, *types.Struct:
						out = append(out, n.Name+" "+obj.Type().String())
					}
				}
			}
		}
	}
	sort.Strings(out)
	return out
}

func lstrList(xs []string) string {
	parts := make([]string, len(xs))
	for i, x := range xs {
		if j := strings.IndexByte(x, 0); j >= 0 {
			parts[i] = "  (" + lstr(x[:j]) + ", " + lstr(x[j+1:]) + ")"
		} else {
			parts[i] = "  " + lstr(x)
		}
	}
	return "[\n" + strings.Join(parts, ",\n") + "\n]"
}

// rootedCalls lists, for the named functions, every call expression that has the given root
// expression (e.g. "t.empty", or a parameter name) as receiver or argument.
func rootedCalls(p *pkgInfo, fnName string, root string) []string {
	var out []string
	for _, f := range p.files {
		for _, d := range f.Decls {
			fd, ok := d.(*ast.FuncDecl)
			if !ok || fd.Body == nil {
				continue
			}
			name := fd.Name.Name
			if fd.Recv != nil && len(fd.Recv.List) == 1 {
				name = strings.TrimPrefix(p.text(fd.Recv.List[0].Type), "*") + "." + name
			}
			if name != fnName && !(strings.HasSuffix(fnName, ".*") && strings.HasPrefix(name, strings.TrimSuffix(fnName, "*"))) {
				continue
			}
			ast.Inspect(fd.Body, func(n ast.Node) bool {
				call, ok := n.(*ast.CallExpr)
				if !ok {
					return true
				}
				uses := false
				if sel, ok := call.Fun.(*ast.SelectorExpr); ok && p.text(sel.X) == root {
					uses = true
				}
				for _, a := range call.Args {
					if p.text(a) == root {
						uses = true
					}
				}
				if uses {
					txt := p.text(call.Fun)
					out = append(out, name+"\x00"+txt)
				}
				return true
			})
		}
	}
	sort.Strings(out)
	return out
}

// registries renders cmd/jl's formatRegistry and typeRegistry (name -> Format / dynamic type).
func registries(p *pkgInfo) (formats []string, typesOut []string) {
	consts := map[string]string{}
	for _, f := range p.files {
		for _, d := range f.Decls {
			gd, ok := d.(*ast.GenDecl)
			if !ok {
				continue
			}
			for _, sp := range gd.Specs {
				vs, ok := sp.(*ast.ValueSpec)
				if !ok {
					continue
				}
				for i, n := range vs.Names {
					if gd.Tok == token.CONST && i < len(vs.Values) {
						if bl, ok := vs.Values[i].(*ast.BasicLit); ok && bl.Kind == token.STRING {
							consts[n.Name] = strings.Trim(bl.Value, "\"")
						}
					}
					if gd.Tok == token.VAR && i < len(vs.Values) && (n.Name == "formatRegistry" || n.Name == "typeRegistry") {
						cl, ok := vs.Values[i].(*ast.CompositeLit)
						if !ok {
							continue
						}
						for _, el := range cl.Elts {
							kv, ok := el.(*ast.KeyValueExpr)
							if !ok {
								continue
							}
							key := ""
							switch k := kv.Key.(type) {
							case *ast.BasicLit:
								key = strings.Trim(k.Value, "\"")
							case *ast.Ident:
								key = consts[k.Name]
							}
							if n.Name == "formatRegistry" {
								val := p.text(kv.Value)
								formats = append(formats, fmt.Sprintf("  (%s, .%s)", lbytes(key), lowerFirst(strings.TrimPrefix(val, "jsonline."))))
							} else {
								ty := ".other"
								if tv, ok := p.info.Types[kv.Value]; ok && tv.Type != nil {
									ty = tyOf(tv.Type)
								}
								typesOut = append(typesOut, fmt.Sprintf("  (%s, %s)", lbytes(key), ty))
							}
						}
					}
				}
			}
		}
	}
	return
}

func lowerFirst(s string) string {
	if s == "" {
		return s
	}
	if s == "DateTime" {
		return "datetime"
	}
	return strings.ToLower(s[:1]) + s[1:]
}
