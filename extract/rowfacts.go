package main

// rowfacts.go — translator for pkg/jsonline's row.go (Gen/RowFacts.lean, in the syntax of Model.RowFactsSyntax).
//
// How it reads the source.  Every function of row.go that has a fact is run by the SYMBOLIC EXECUTOR of
// value.go (same trees: `call#k fn(args)`, `if cond`, leaves), extended here — through the three hooks
// value.go offers — with what row.go needs and value.go does not have:
//
//	maps            `v, ok := A[k]` is the pair (A[k], has(A,k)); `A[k] = v` on a map reached from the receiver is
//	                the effect node `call#k mapset(A,k,v)` (and has(A,k) is true from there on; storing A[k] back
//	                into A[k] is no effect and leaves no node); on a local it is a new value put(A,k,v) of the local
//	loops           `for …` / `range` are a node  loop#n <header> {body}; <what follows>.  The body is run once with
//	                the variables it assigns (and that live outside it) bound to L<n>.v0, L<n>.v1 … — numbered in
//	                order of first assignment — and ends in `<continue>` / `<break>` leaves that say what those
//	                variables hold then, or in a return; after the loop they are L<n>out.v<i>.  Headers:
//	                walk(R.l) as E<n> (front to back over the key list, `E<n>.Value` the element), count(N) as I<n>,
//	                range(x) as K<n>,V<n>, and `forever` for everything else (`for cond` is `forever` with
//	                `if !cond { break }` in front, a post statement runs before every <continue>).
//	                The positional walk of the …AtIndex methods (front to back, decrementing the index, taking the
//	                element's string at zero) has no effect: it is recognised from its body tree and replaced by
//	                the value keyAt(index) of the key variable (keyAtOr(index,k) when the variable held k before).
//	pure calls      len, append (a flattened cat(…)), make, slice and map literals, `+`/`-`/`<`/`>`, and the three
//	                getters Raw / GetFormat / GetRawType of a Value or Row that is not the receiver: raw(v), fmt(v), typ(v)
//	                A call of a function of the package in the MIDDLE of an expression (`r.Get(r.keyAtIndex(index))`) that
//	                comes down to one value without effect is that value (inlineValue); the walk may RETURN the key from
//	                inside the loop and a default after it (a helper): the same keyAt(index).
//	                errors.New("…") is an error that wraps nothing, like fmt.Errorf without %w; the size of make(map…, n)
//	                and the capacity of make([]T, 0, n) are hints.
//	delimiters      "the token X is the delimiter n" is delim(X,n), whether the source compares the interface value with
//	                the constant (`t != json.Delim('{')`) or asserts the type and compares then, both failures alike.
//	closures        a function literal is the value func from {v0=…}{<its tree>}, the variables it captures and assigns bound
//	                like loop variables (C<n>.v<i>; `from` says what they hold when the closure is made); calling a
//	                function held in a local is `call#k call(f,…)`.  A METHOD VALUE `x.m`, x a pointer to a struct
//	                literal of the package (`r.newIterator().nextValue`), is the same thing: the fields of the struct
//	                that its methods assign are the captured variables (numbered in declaration order), the other
//	                fields are the values of the literal, calls of the struct's other methods on it are inlined.
//
// The functions that have their own fact — the exported methods of the row struct but Has, parseobject, NewRow,
// CloneRow, asRow, parsearray, handledelim, LcFirst, NewValue, CloneValue — are never inlined into each other
// (SetAtIndex is «walk, then Set», whatever Set is); everything else of the package (Has, NewValueAuto, a helper
// someone extracts, …) is inlined.
//
// What is taken for granted, beyond what value.go lists: Raw / GetFormat / GetRawType of a Value have no effect;
// a loop's header expression (`range x`, `i < N`) is evaluated once; the buffer MarshalJSON returns next to an
// error is not looked at (no caller does), nor the slice parsearray returns next to one (handledelim drops it);
// the clauses of MapTo's type switch name distinct types, so they are listed by type name.
//
// Two rewrites are a different algorithm with the same result and have a constructor of their own (accepted by the
// tie theorems, which are proved for either): MarshalJSON writing the separator in FRONT of every member but the
// first and appending the closing byte (`.separated`), and a clause of MapTo testing CanX before the cast
// (`.guardThenCast`).
//
// Each tree is then CLASSIFIED: compared with the tree of each shape of Model.RowFactsSyntax, built here from
// the few parameters read off the tree first (which method is delegated to, which caster, which type is
// asserted, which byte, whether the decoder uses numbers, whether an error is wrapped).  Equal: the
// constructor with those parameters.  Anything else: `.unknown "<the tree>"` — never guessed.
// Spelling does not survive the executor (names of locals and of the receiver, `!r.Has(key)` against
// `_, ok := r.m[key]; !ok`, early returns against else, extracted helpers, message texts, the order of
// the functions in the file, how appends are grouped); behaviour does.

import (
	"fmt"
	"go/ast"
	"go/token"
	"go/types"
	"regexp"
	"sort"
	"strconv"
	"strings"
)

func strconvUnquote(s string) (string, error) { return strconv.Unquote(s) }

// ---------------------------------------------------------------------------------------------------
// the executor's extension

type loopCtx struct {
	id      int
	carried []types.Object
	entry   map[types.Object]string
	post    ast.Stmt
	marker  *ast.BranchStmt
	maxCall int
	prefix  string            // "L" for loops, "C" for closures
	ofields []string          // a bound method: the fields of its object the methods assign (keys of vstate.fields), numbered after `carried`
	oentry  map[string]string // what they hold when the method is entered
}

type rowX struct {
	p       *pkgInfo
	x       *valX
	rowType string // the struct with a *list.List, a map to Value and a map to *list.Element
	loops   []*loopCtx
	nloop   int
	objType map[string]string // O<n> -> the struct of the object of a bound method
}

func newRowX(p *pkgInfo) *rowX {
	rx := &rowX{p: p, x: newValX(p), objType: map[string]string{}}
	// the row struct, by the types of its fields
	var names []string
	for _, n := range p.pkg.Scope().Names() {
		names = append(names, n)
	}
	sort.Strings(names)
	for _, n := range names {
		tn, ok := p.pkg.Scope().Lookup(n).(*types.TypeName)
		if !ok {
			continue
		}
		st, ok := tn.Type().Underlying().(*types.Struct)
		if !ok {
			continue
		}
		roles := map[string]string{}
		for i := 0; i < st.NumFields(); i++ {
			f := st.Field(i)
			switch rx.fieldRole(f.Type()) {
			case "m":
				roles[f.Name()] = "m"
			case "l":
				roles[f.Name()] = "l"
			case "keys":
				roles[f.Name()] = "keys"
			default:
				roles[f.Name()] = "?" + f.Name()
			}
		}
		seen := map[string]int{}
		for _, r := range roles {
			seen[r]++
		}
		if len(roles) == 3 && seen["m"] == 1 && seen["l"] == 1 && seen["keys"] == 1 && rx.rowType == "" {
			rx.rowType = n
			for k, v := range roles {
				rx.x.roles[k] = v // next to the roles of the cell struct (raw, f, typ), which newValX found
			}
		}
	}
	rx.x.evalHook = rx.evalHook
	rx.x.stmtHook = rx.stmtHook
	rx.x.assignHook = rx.assignHook
	return rx
}

func (rx *rowX) fieldRole(t types.Type) string {
	if p, ok := t.(*types.Pointer); ok {
		if rx.x.typeStr(p.Elem()) == "list.List" {
			return "l"
		}
		return ""
	}
	if m, ok := t.Underlying().(*types.Map); ok {
		switch rx.x.typeStr(m.Elem()) {
		case "Value":
			return "m"
		case "*list.Element":
			return "keys"
		}
	}
	return ""
}

func (rx *rowX) objOf(id *ast.Ident) types.Object {
	if obj := rx.p.info.Defs[id]; obj != nil {
		return obj
	}
	return rx.p.info.Uses[id]
}

func (rx *rowX) isReceiverIdent(e ast.Expr, st *vstate) bool {
	id, ok := ast.Unparen(e).(*ast.Ident)
	if !ok {
		return false
	}
	obj := rx.objOf(id)
	return obj != nil && st.vars[obj] == "R"
}

// catJoin flattens append chains: cat(a,b,…); a leading nil (the zero slice) disappears.
func catJoin(parts ...string) string {
	var out []string
	for _, p := range parts {
		if (p == "nil" || strings.HasPrefix(p, "empty(")) && len(out) == 0 {
			continue // the zero slice, or an empty one, in front
		}
		if strings.HasPrefix(p, "cat(") && strings.HasSuffix(p, ")") && balanced(p[4:len(p)-1]) {
			out = append(out, splitTop(p[4:len(p)-1])...)
			continue
		}
		out = append(out, p)
	}
	return "cat(" + strings.Join(out, ",") + ")"
}

func balanced(s string) bool {
	d := 0
	for _, c := range s {
		switch c {
		case '(', '[', '{':
			d++
		case ')', ']', '}':
			d--
			if d < 0 {
				return false
			}
		}
	}
	return d == 0
}

func splitTop(s string) []string {
	var out []string
	d, start := 0, 0
	for i, c := range s {
		switch c {
		case '(', '[', '{':
			d++
		case ')', ']', '}':
			d--
		case ',':
			if d == 0 {
				out = append(out, s[start:i])
				start = i + 1
			}
		}
	}
	return append(out, s[start:])
}

var pureGetters = map[string]string{"Raw": "raw", "GetFormat": "fmt", "GetRawType": "typ"}

// callKind says whether a call is one of those this file evaluates itself.
func (rx *rowX) callKind(n *ast.CallExpr, st *vstate) string {
	switch f := ast.Unparen(n.Fun).(type) {
	case *ast.Ident:
		switch obj := rx.p.info.Uses[f].(type) {
		case *types.Builtin:
			return "builtin"
		case *types.Var:
			if _, isSig := obj.Type().Underlying().(*types.Signature); isSig {
				return "funcvalue"
			}
		}
	case *ast.SelectorExpr:
		if id, ok := f.X.(*ast.Ident); ok && f.Sel.Name == "New" && len(n.Args) == 1 {
			if pn, ok := rx.p.info.Uses[id].(*types.PkgName); ok && pn.Imported().Path() == "errors" {
				return "errnew"
			}
		}
		if _, ok := pureGetters[f.Sel.Name]; ok && len(n.Args) == 0 && !rx.isReceiverIdent(f.X, st) {
			if tv, ok := rx.p.info.Types[f.X]; ok && tv.Type != nil {
				switch rx.x.typeStr(tv.Type) {
				case "Value", "Row":
					return "getter"
				}
			}
		}
	}
	return ""
}

// evalCallX evaluates a call of one of those kinds; `want` results (-1: as many as there are).
func (rx *rowX) evalCallX(n *ast.CallExpr, st *vstate, pend *[]*vtree, want int) ([]string, bool) {
	x := rx.x
	args := func() ([]string, bool) {
		var out []string
		for _, a := range n.Args {
			s, ok := x.eval(a, st, pend)
			if !ok {
				return nil, false
			}
			out = append(out, s)
		}
		return out, true
	}
	switch rx.callKind(n, st) {
	case "errnew": // errors.New("text") is fmt.Errorf("text") without verb: an error that wraps nothing
		if tv, ok := rx.p.info.Types[n.Args[0]]; ok && tv.Value != nil {
			return []string{"ERR(nowrap)"}, true
		}
		return nil, false
	case "getter":
		sel := ast.Unparen(n.Fun).(*ast.SelectorExpr)
		a, ok := x.eval(sel.X, st, pend)
		if !ok {
			return nil, false
		}
		return []string{pureGetters[sel.Sel.Name] + "(" + a + ")"}, true
	case "funcvalue":
		f, ok := x.eval(n.Fun, st, pend)
		if !ok {
			return nil, false
		}
		as, ok := args()
		if !ok || n.Ellipsis.IsValid() {
			return nil, false
		}
		sig := rx.p.info.Uses[ast.Unparen(n.Fun).(*ast.Ident)].Type().Underlying().(*types.Signature)
		nres := sig.Results().Len()
		if want >= 0 && want != nres {
			return nil, false
		}
		st.ncall++
		id := st.ncall
		*pend = append(*pend, &vtree{kind: "call", id: id, fn: "call", args: append([]string{f}, as...)})
		rs := make([]string, nres)
		for i := range rs {
			rs[i] = fmt.Sprintf("res#%d.%d", id, i)
		}
		return rs, true
	case "builtin":
		name := ast.Unparen(n.Fun).(*ast.Ident).Name
		switch name {
		case "len":
			as, ok := args()
			if !ok || len(as) != 1 {
				return nil, false
			}
			return []string{"len(" + as[0] + ")"}, true
		case "append":
			as, ok := args()
			if !ok || len(as) < 1 {
				return nil, false
			}
			parts := []string{as[0]}
			for i, a := range as[1:] {
				if n.Ellipsis.IsValid() && i == len(as)-2 {
					parts = append(parts, a)
				} else {
					parts = append(parts, "["+a+"]")
				}
			}
			return []string{catJoin(parts...)}, true
		case "make":
			if len(n.Args) == 0 {
				return nil, false
			}
			// a map's size and a slice's capacity are hints (a constant or the pure `r.l.Len()`); a slice's length must be 0
			_, isMap := rx.p.info.Types[n.Args[0]].Type.Underlying().(*types.Map)
			for i, a := range n.Args[1:] {
				var tmp []*vtree
				saved := st.ncall
				s, ok := x.eval(a, st, &tmp)
				st.ncall = saved
				if !ok {
					return nil, false
				}
				hint := isMap || i == 1
				pure := len(tmp) == 0 || (len(tmp) == 1 && tmp[0].fn == ".Len" && eqStrs(tmp[0].args, []string{"R.l"}))
				if !(hint && pure) && !(len(tmp) == 0 && s == "lit:0") {
					return nil, false
				}
			}
			return []string{"empty(" + x.typeExprStr(n.Args[0]) + ")"}, true
		case "panic":
			return nil, false
		}
	}
	return nil, false
}

var binOps = map[token.Token]string{token.ADD: "add", token.SUB: "sub", token.LSS: "lt", token.GTR: "gt", token.LEQ: "le", token.GEQ: "ge"}

var elemSym = regexp.MustCompile(`^E\d+$`)

func (rx *rowX) evalHook(e ast.Expr, st *vstate, pend *[]*vtree) (string, bool, bool) {
	x := rx.x
	switch n := e.(type) {
	case *ast.IndexExpr:
		a, ok := x.eval(n.X, st, pend)
		if !ok {
			return "", false, true
		}
		i, ok := x.eval(n.Index, st, pend)
		if !ok {
			return "", false, true
		}
		if w, ok := st.fields["w:"+a+"["+i+"]"]; ok {
			return w, true, true
		}
		return a + "[" + i + "]", true, true
	case *ast.SelectorExpr:
		if fo, isFunc := rx.p.info.Uses[n.Sel].(*types.Func); isFunc {
			if sig, ok := fo.Type().(*types.Signature); ok && sig.Recv() != nil {
				return rx.methodValue(n, st, pend) // a method value (a call's Fun never comes here)
			}
		}
		id, ok := n.X.(*ast.Ident)
		if !ok {
			if v, isVar := rx.p.info.Uses[n.Sel].(*types.Var); isVar && v.IsField() {
				if _, isSel := ast.Unparen(n.X).(*ast.SelectorExpr); !isSel {
					s, ok := x.eval(n.X, st, pend)
					return s + "." + n.Sel.Name, ok, true
				}
				// a field of a field: `it.current.Value`; `it.r.m`, where `it.r` is the row, is left to the executor
				var tmp []*vtree
				saved := st.ncall
				s, ok := x.eval(n.X, st, &tmp)
				if !ok || s == "R" || len(tmp) != 0 {
					st.ncall = saved
					return "", false, false
				}
				return s + "." + n.Sel.Name, true, true
			}
			return "", false, false
		}
		obj := rx.p.info.Uses[id]
		if _, isPkg := obj.(*types.PkgName); isPkg || obj == nil {
			return "", false, false
		}
		if v, isVar := rx.p.info.Uses[n.Sel].(*types.Var); !isVar || !v.IsField() {
			return "", false, false
		}
		s, bound := st.vars[obj]
		if !bound || s == "R" {
			return "", false, false
		}
		if objRef.MatchString(s) {
			if v, ok := st.fields["o:"+s+"."+n.Sel.Name]; ok {
				return st.norm(v), true, true // a field of the object of a bound method
			}
		}
		return st.norm(s) + "." + n.Sel.Name, true, true
	case *ast.CallExpr:
		if rx.callKind(n, st) == "" {
			if s, ok := rx.inlineValue(n, st, pend); ok {
				return s, true, true
			}
			return "", false, false
		}
		rs, ok := rx.evalCallX(n, st, pend, 1)
		if !ok || len(rs) != 1 {
			return "", false, true
		}
		return rs[0], true, true
	case *ast.BinaryExpr:
		op, ok := binOps[n.Op]
		if !ok {
			return "", false, false
		}
		l, ok1 := x.eval(n.X, st, pend)
		r, ok2 := x.eval(n.Y, st, pend)
		return op + "(" + l + "," + r + ")", ok1 && ok2, true
	case *ast.CompositeLit:
		tv, ok := rx.p.info.Types[n]
		if !ok || tv.Type == nil {
			return "", false, false
		}
		switch tv.Type.Underlying().(type) {
		case *types.Slice:
			if len(n.Elts) == 0 {
				return "empty(" + x.typeStr(tv.Type) + ")", true, true
			}
			parts := []string{"empty(" + x.typeStr(tv.Type) + ")"}
			for _, el := range n.Elts {
				if _, kv := el.(*ast.KeyValueExpr); kv {
					return "", false, true
				}
				s, ok := x.eval(el, st, pend)
				if !ok {
					return "", false, true
				}
				parts = append(parts, "["+s+"]")
			}
			return catJoin(parts...), true, true
		case *types.Map:
			if len(n.Elts) == 0 {
				return "empty(" + x.typeStr(tv.Type) + ")", true, true
			}
		}
		return "", false, false
	case *ast.FuncLit:
		return rx.closure(n, st)
	}
	return "", false, false
}

// inlineValue: a call, in the middle of an expression, of a function of the package (or a method of the receiver)
// that comes down to ONE value without effect — `r.keyAtIndex(index)` — is that value.
func (rx *rowX) inlineValue(call *ast.CallExpr, st *vstate, pend *[]*vtree) (string, bool) {
	x := rx.x
	if x.cur == nil {
		return "", false
	}
	key, fd := x.inlinable(call, st, x.cur)
	if fd == nil || countResults(fd) != 1 {
		return "", false
	}
	savedCall, savedLoop, savedCur, savedInl := st.ncall, rx.nloop, x.cur, x.inlined[key]
	fail := func() (string, bool) {
		st.ncall, rx.nloop, x.cur = savedCall, savedLoop, savedCur
		if !savedInl {
			delete(x.inlined, key)
		}
		return "", false
	}
	var tmp []*vtree
	var args []string
	for _, a := range call.Args {
		s, ok := x.eval(a, st, &tmp)
		if !ok {
			return fail()
		}
		args = append(args, s)
	}
	st2 := st.clone()
	i := 0
	for _, f := range fd.Type.Params.List {
		if len(f.Names) == 0 {
			i++
			continue
		}
		for _, nm := range f.Names {
			if i >= len(args) {
				return fail()
			}
			if obj := rx.p.info.Defs[nm]; obj != nil && nm.Name != "_" {
				st2.vars[obj] = args[i]
			}
			i++
		}
	}
	if i != len(args) {
		return fail()
	}
	if fd.Recv != nil && len(fd.Recv.List) == 1 && len(fd.Recv.List[0].Names) == 1 {
		if obj := rx.p.info.Defs[fd.Recv.List[0].Names[0]]; obj != nil {
			st2.vars[obj] = "R"
		}
	}
	fr2 := &vframe{nres: 1, stack: append(append([]string{}, savedCur.stack...), key)}
	fr2.ret = func(st3 *vstate, rets []string) *vtree {
		leaf := &vtree{kind: "leaf"}
		for _, r := range rets {
			leaf.rets = append(leaf.rets, st3.norm(r))
		}
		return leaf
	}
	x.bindNamedResults(fd, st2, fr2)
	savedLoops := rx.loops
	rx.loops = nil
	t := x.exec(fd.Body.List, st2, fr2)
	rx.loops = savedLoops
	// straight-line calls, then the value (`return &rowIterator{r: r, current: r.l.Front()}`)
	var chain []*vtree
	for t != nil && t.kind == "call" {
		chain = append(chain, t)
		t = t.next
	}
	if t == nil || t.kind != "leaf" || len(t.rets) != 1 || len(t.fields) != 0 || strings.HasPrefix(t.rets[0], "<") {
		return fail()
	}
	x.cur, rx.nloop = savedCur, savedLoop
	*pend = append(*pend, tmp...)
	for _, c := range chain {
		*pend = append(*pend, &vtree{kind: "call", id: c.id, fn: c.fn, args: c.args})
		if c.id > st.ncall {
			st.ncall = c.id
		}
	}
	return t.rets[0], true
}

func (rx *rowX) assignHook(lhs ast.Expr, sym string, st *vstate) (bool, bool) {
	if sel, ok := ast.Unparen(lhs).(*ast.SelectorExpr); ok {
		if id, ok := ast.Unparen(sel.X).(*ast.Ident); ok {
			if o := rx.p.info.Uses[id]; o != nil && objRef.MatchString(st.vars[o]) {
				key := "o:" + st.vars[o] + "." + sel.Sel.Name
				if _, has := st.fields[key]; has {
					st.fields[key] = sym // the state of a bound method's object
					return true, true
				}
				return false, true
			}
		}
		return false, false
	}
	ix, ok := ast.Unparen(lhs).(*ast.IndexExpr)
	if !ok {
		return false, false
	}
	id, ok := ast.Unparen(ix.X).(*ast.Ident)
	if !ok {
		return false, true
	}
	obj := rx.objOf(id)
	v, isVar := obj.(*types.Var)
	if !isVar || v.Parent() == rx.p.pkg.Scope() {
		return false, true
	}
	base, bound := st.vars[obj]
	if !bound {
		return false, true
	}
	var tmp []*vtree
	i, ok := rx.x.eval(ix.Index, st, &tmp)
	if !ok || len(tmp) != 0 {
		return false, true
	}
	st.vars[obj] = "put(" + st.norm(base) + "," + i + "," + sym + ")"
	return true, true
}

// assigned lists, in order of first assignment, the variables the statements assign and that are declared outside [lo,hi).
func (rx *rowX) assigned(ss []ast.Stmt, lo, hi token.Pos) []types.Object {
	var out []types.Object
	seen := map[types.Object]bool{}
	add := func(e ast.Expr) {
		e = ast.Unparen(e)
		if ix, ok := e.(*ast.IndexExpr); ok {
			e = ast.Unparen(ix.X)
		}
		id, ok := e.(*ast.Ident)
		if !ok || id.Name == "_" {
			return
		}
		obj, ok := rx.p.info.Uses[id].(*types.Var)
		if !ok || obj.Parent() == rx.p.pkg.Scope() || seen[obj] || (obj.Pos() >= lo && obj.Pos() < hi) {
			return
		}
		seen[obj] = true
		out = append(out, obj)
	}
	for _, s := range ss {
		if s == nil {
			continue
		}
		ast.Inspect(s, func(n ast.Node) bool {
			switch a := n.(type) {
			case *ast.FuncLit:
				return false
			case *ast.AssignStmt:
				for _, l := range a.Lhs {
					add(l)
				}
			case *ast.IncDecStmt:
				add(a.X)
			}
			return true
		})
	}
	return out
}

func (rx *rowX) top() *loopCtx {
	if len(rx.loops) == 0 {
		return nil
	}
	return rx.loops[len(rx.loops)-1]
}

// loopLeaf: the end of one pass through a loop body (or of a closure's body): what the carried variables hold now.
func (rx *rowX) loopLeaf(c *loopCtx, st *vstate, rets []string) *vtree {
	leaf := &vtree{kind: "leaf", rets: rets, fields: map[string]string{}}
	for i, obj := range c.carried {
		if v := st.norm(st.vars[obj]); v != c.entry[obj] {
			leaf.fields[fmt.Sprintf("v%d", i)] = v
		}
	}
	for i, key := range c.ofields {
		if v := st.norm(st.fields[key]); v != c.oentry[key] {
			leaf.fields[fmt.Sprintf("v%d", len(c.carried)+i)] = v
		}
	}
	if st.ncall > c.maxCall {
		c.maxCall = st.ncall
	}
	return leaf
}

// loopLeaves lists the <continue> / <break> leaves of a loop body (not those of the loops nested in it).
func loopLeaves(t *vtree, out *[]*vtree) {
	if t == nil {
		return
	}
	switch t.kind {
	case "call":
		loopLeaves(t.next, out)
	case "if":
		loopLeaves(t.then, out)
		loopLeaves(t.els, out)
	case "loop":
		loopLeaves(t.next, out)
	case "leaf":
		if len(t.rets) == 1 && (t.rets[0] == "<continue>" || t.rets[0] == "<break>") {
			*out = append(*out, t)
		}
	}
}

// runLoop executes a loop body and what follows the loop.
//
// A variable the body assigns but that holds, at every <continue> and <break>, what it held before the loop is
// not carried (it is that value throughout); a carried variable that neither the body nor what follows reads
// is dropped from the leaves.
func (rx *rowX) runLoop(header string, id int, body []ast.Stmt, post ast.Stmt, lo, hi token.Pos, bind map[types.Object]string,
	rest []ast.Stmt, st *vstate, fr *vframe, pend []*vtree) *vtree {
	x := rx.x
	carried := rx.assigned(append(append([]ast.Stmt{}, body...), post), lo, hi)
	fixed := map[types.Object]bool{}
	var c *loopCtx
	var bodyTree *vtree
	for pass := 0; pass < 2; pass++ {
		rx.nloop = id
		c = &loopCtx{id: id, post: post, marker: &ast.BranchStmt{Tok: token.CONTINUE}, entry: map[types.Object]string{}, prefix: "L", maxCall: st.ncall, carried: carried}
		st2 := st.clone()
		st2.known = map[string]bool{}
		rx.forgetWrites(st2)
		for i, obj := range carried {
			if fixed[obj] {
				c.entry[obj] = st.norm(st.vars[obj])
			} else {
				c.entry[obj] = fmt.Sprintf("L%d.v%d", id, i)
			}
			st2.vars[obj] = c.entry[obj]
		}
		for obj, s := range bind {
			st2.vars[obj] = s
		}
		rx.loops = append(rx.loops, c)
		bodyTree = x.exec(append(append([]ast.Stmt{}, body...), c.marker), st2, fr)
		rx.loops = rx.loops[:len(rx.loops)-1]
		if pass == 1 {
			break
		}
		var leaves []*vtree
		loopLeaves(bodyTree, &leaves)
		found := false
		for i, obj := range carried {
			init, bound := st.vars[obj]
			if !bound {
				continue
			}
			init = st.norm(init)
			same := true
			for _, l := range leaves {
				if v, ok := l.fields[fmt.Sprintf("v%d", i)]; ok && v != init {
					same = false
				}
			}
			if same {
				fixed[obj], found = true, true
			}
		}
		if !found {
			break
		}
	}
	innerLoops := rx.nloop

	st3 := st.clone()
	st3.known = map[string]bool{}
	rx.forgetWrites(st3)
	st3.ncall = c.maxCall
	for i, obj := range carried {
		if !fixed[obj] {
			st3.vars[obj] = fmt.Sprintf("L%dout.v%d", id, i)
		}
	}
	// the positional walk: no effect, one value
	if header == fmt.Sprintf("walk(R.l) as E%d", id) && len(carried) == 2 && len(fixed) == 0 {
		for k := 0; k < 2; k++ {
			kv, iv := fmt.Sprintf("v%d", k), fmt.Sprintf("v%d", 1-k)
			want := fmt.Sprintf("if eq(L%d.%s,lit:0) {return [<break>] with {%s=as(E%d.Value,string)}} else {return [<continue>] with {%s=dec(L%d.%s)}}",
				id, iv, kv, id, iv, id, iv)
			if bodyTree.String() == want {
				keyObj, idxObj := carried[k], carried[1-k]
				idx, prev := st.norm(st.vars[idxObj]), st.norm(st.vars[keyObj])
				if prev == `lit:""` {
					st3.vars[keyObj] = "keyAt(" + idx + ")"
				} else {
					st3.vars[keyObj] = "keyAtOr(" + idx + "," + prev + ")"
				}
				st3.ncall = st.ncall
				rx.nloop = id - 1
				return vwrap(pend, x.exec(rest, st3, fr))
			}
		}
	}
	rx.nloop = innerLoops
	after := x.exec(rest, st3, fr)
	// the positional walk of a helper that RETURNS the key from inside the loop and a default after it
	if header == fmt.Sprintf("walk(R.l) as E%d", id) && len(carried) == 1 && len(fixed) == 0 && len(pend) == 0 &&
		after != nil && after.kind == "leaf" && len(after.rets) == 1 && len(after.fields) == 0 &&
		bodyTree.String() == fmt.Sprintf("if eq(L%d.v0,lit:0) {return [as(E%d.Value,string)]} else {return [<continue>] with {v0=dec(L%d.v0)}}", id, id, id) {
		idx := st.norm(st.vars[carried[0]])
		rx.nloop = id - 1
		if after.rets[0] == `lit:""` {
			return &vtree{kind: "leaf", rets: []string{"keyAt(" + idx + ")"}}
		}
		return &vtree{kind: "leaf", rets: []string{"keyAtOr(" + idx + "," + after.rets[0] + ")"}}
	}
	// dead carried variables
	var leaves []*vtree
	loopLeaves(bodyTree, &leaves)
	bs, as := bodyTree.String(), after.String()
	var from []string
	for i, obj := range carried {
		if fixed[obj] {
			continue
		}
		in := regexp.MustCompile(fmt.Sprintf(`L%d\.v%d\b`, id, i))
		out := regexp.MustCompile(fmt.Sprintf(`L%dout\.v%d\b`, id, i))
		if !in.MatchString(bs) && !out.MatchString(as) {
			for _, l := range leaves {
				delete(l.fields, fmt.Sprintf("v%d", i))
			}
			continue
		}
		init := "?"
		if s, ok := st.vars[obj]; ok {
			init = st.norm(s)
		}
		from = append(from, fmt.Sprintf("v%d=%s", i, init))
	}
	if len(from) > 0 {
		header += " from {" + strings.Join(from, ",") + "}"
	}
	return vwrap(pend, &vtree{kind: "loop", id: id, cond: header, then: bodyTree, next: after})
}

func (rx *rowX) forgetWrites(st *vstate) {
	for k := range st.fields {
		if strings.HasPrefix(k, "w:") {
			delete(st.fields, k)
		}
	}
}

func (rx *rowX) assignedIn(obj types.Object, ss []ast.Stmt) bool {
	for _, o := range rx.assigned(ss, token.NoPos, token.NoPos) {
		if o == obj {
			return true
		}
	}
	return false
}

func (rx *rowX) stmtHook(s ast.Stmt, rest []ast.Stmt, st *vstate, fr *vframe) *vtree {
	x := rx.x
	var pend []*vtree
	switch n := s.(type) {
	case *ast.BranchStmt:
		c := rx.top()
		if c == nil || n.Label != nil || c.prefix != "L" {
			return nil
		}
		switch {
		case n == c.marker:
			return rx.loopLeaf(c, st, []string{"<continue>"})
		case n.Tok == token.CONTINUE:
			if c.post != nil {
				return x.exec([]ast.Stmt{c.post, c.marker}, st, fr)
			}
			return rx.loopLeaf(c, st, []string{"<continue>"})
		case n.Tok == token.BREAK:
			return rx.loopLeaf(c, st, []string{"<break>"})
		}
		return nil
	case *ast.IncDecStmt:
		id, ok := ast.Unparen(n.X).(*ast.Ident)
		if !ok {
			return nil
		}
		obj := rx.objOf(id)
		cur, bound := st.vars[obj]
		if v, isVar := obj.(*types.Var); !isVar || !bound || v.Parent() == rx.p.pkg.Scope() {
			return nil
		}
		op := "inc"
		if n.Tok == token.DEC {
			op = "dec"
		}
		st.vars[obj] = op + "(" + st.norm(cur) + ")"
		return x.exec(rest, st, fr)
	case *ast.ExprStmt:
		if call, ok := ast.Unparen(n.X).(*ast.CallExpr); ok {
			if key, fd, sym := rx.objMethod(call, st); fd != nil {
				return rx.inlineObj(call, key, fd, sym, st, fr, func(st2 *vstate, _ []string) *vtree { return x.exec(rest, st2, fr) })
			}
			if id, ok := ast.Unparen(call.Fun).(*ast.Ident); ok && id.Name == "panic" {
				if _, isB := rx.p.info.Uses[id].(*types.Builtin); isB {
					return &vtree{kind: "leaf", rets: []string{"<panic>"}}
				}
			}
		}
		return nil
	case *ast.ReturnStmt:
		if len(n.Results) == 1 {
			if call, ok := ast.Unparen(n.Results[0]).(*ast.CallExpr); ok {
				if key, fd, sym := rx.objMethod(call, st); fd != nil {
					return rx.inlineObj(call, key, fd, sym, st, fr, func(st2 *vstate, rets []string) *vtree {
						if len(rets) != fr.nres {
							return x.unk(s)
						}
						return fr.ret(st2, rets)
					})
				}
			}
			if call, ok := ast.Unparen(n.Results[0]).(*ast.CallExpr); ok && rx.callKind(call, st) != "" {
				rets, ok := rx.evalCallX(call, st, &pend, fr.nres)
				if !ok || len(rets) != fr.nres {
					return x.unk(s)
				}
				return vwrap(pend, fr.ret(st, rets))
			}
		}
		return nil
	case *ast.AssignStmt:
		if n.Tok != token.DEFINE && n.Tok != token.ASSIGN {
			return nil
		}
		if len(n.Rhs) != 1 {
			return nil
		}
		rhs := ast.Unparen(n.Rhs[0])
		if call, ok := rhs.(*ast.CallExpr); ok {
			if key, fd, sym := rx.objMethod(call, st); fd != nil {
				return rx.inlineObj(call, key, fd, sym, st, fr, func(st2 *vstate, rets []string) *vtree {
					if len(rets) != len(n.Lhs) {
						return x.unk(s)
					}
					for i, l := range n.Lhs {
						if !x.assign(l, rets[i], st2) {
							return x.unk(s)
						}
					}
					return x.exec(rest, st2, fr)
				})
			}
		}
		// v, ok := A[k]
		if ix, ok := rhs.(*ast.IndexExpr); ok && len(n.Lhs) == 2 {
			a, ok1 := x.eval(ix.X, st, &pend)
			i, ok2 := x.eval(ix.Index, st, &pend)
			if !ok1 || !ok2 {
				return x.unk(s)
			}
			val := a + "[" + i + "]"
			if w, ok := st.fields["w:"+val]; ok {
				val = w
			}
			if !x.assign(n.Lhs[0], val, st) || !x.assign(n.Lhs[1], "has("+a+","+i+")", st) {
				return x.unk(s)
			}
			return vwrap(pend, x.exec(rest, st, fr))
		}
		// a call this file evaluates
		if call, ok := rhs.(*ast.CallExpr); ok && rx.callKind(call, st) != "" {
			if _, isIndex := ast.Unparen(n.Lhs[0]).(*ast.IndexExpr); !isIndex || len(n.Lhs) != 1 {
				rets, ok := rx.evalCallX(call, st, &pend, len(n.Lhs))
				if !ok || len(rets) != len(n.Lhs) {
					return x.unk(s)
				}
				for i, l := range n.Lhs {
					if !x.assign(l, rets[i], st) {
						return x.unk(s)
					}
				}
				return vwrap(pend, x.exec(rest, st, fr))
			}
		}
		// A[k] = v, A a map reached from the receiver
		if ix, ok := ast.Unparen(n.Lhs[0]).(*ast.IndexExpr); ok && len(n.Lhs) == 1 {
			if _, local := ast.Unparen(ix.X).(*ast.Ident); local {
				return nil // a local slice or map: assignHook
			}
			store := func(st2 *vstate, sym string, pend2 []*vtree) *vtree {
				a, ok1 := x.eval(ix.X, st2, &pend2)
				i, ok2 := x.eval(ix.Index, st2, &pend2)
				if !ok1 || !ok2 || !strings.HasPrefix(a, "R.") {
					return x.unk(s)
				}
				if sym != a+"["+i+"]" || st2.fields["w:"+a+"["+i+"]"] != "" {
					st2.ncall++
					pend2 = append(pend2, &vtree{kind: "call", id: st2.ncall, fn: "mapset", args: []string{a, i, sym}})
					st2.fields["w:"+a+"["+i+"]"] = sym
				}
				st2.known["true(has("+a+","+i+"))"] = true
				return vwrap(pend2, x.exec(rest, st2, fr))
			}
			if call, ok := rhs.(*ast.CallExpr); ok && rx.callKind(call, st) == "" {
				if key, fd := x.inlinable(call, st, fr); fd != nil {
					return x.inline(call, key, fd, st, fr, func(st2 *vstate, rets []string) *vtree {
						if len(rets) != 1 {
							return x.unk(s)
						}
						return store(st2, rets[0], nil)
					})
				}
			}
			sym, ok := x.eval(rhs, st, &pend)
			if !ok {
				return x.unk(s)
			}
			return store(st, sym, pend)
		}
		return nil
	case *ast.ForStmt:
		rx.nloop++
		id := rx.nloop
		// walk of the key list: for c := R.l.Front(); c != nil; c = c.Next()
		if obj := rx.listWalk(n, st); obj != nil {
			return rx.runLoop(fmt.Sprintf("walk(R.l) as E%d", id), id, n.Body.List, nil, n.Body.Pos(), n.Body.End(),
				map[types.Object]string{obj: fmt.Sprintf("E%d", id)}, rest, st, fr, nil)
		}
		// for i := 0; i < N; i++
		if obj, bound := rx.countLoop(n); obj != nil {
			ns, ok := x.eval(bound, st, &pend)
			if !ok {
				return x.unk(bound)
			}
			return rx.runLoop(fmt.Sprintf("count(%s) as I%d", ns, id), id, n.Body.List, nil, n.Body.Pos(), n.Body.End(),
				map[types.Object]string{obj: fmt.Sprintf("I%d", id)}, rest, st, fr, pend)
		}
		rx.nloop--
		if n.Init != nil {
			cp := *n
			cp.Init = nil
			return x.exec(vconcat([]ast.Stmt{n.Init, &cp}, rest), st, fr)
		}
		rx.nloop++
		body := n.Body.List
		if n.Cond != nil {
			guard := &ast.IfStmt{Cond: &ast.UnaryExpr{Op: token.NOT, X: n.Cond}, Body: &ast.BlockStmt{List: []ast.Stmt{&ast.BranchStmt{Tok: token.BREAK}}}}
			body = vconcat([]ast.Stmt{guard}, body)
		}
		if n.Post != nil {
			body = vconcat(body, []ast.Stmt{n.Post})
		}
		return rx.runLoop("forever", id, body, n.Post, n.Body.Pos(), n.Body.End(), nil, rest, st, fr, nil)
	case *ast.RangeStmt:
		if n.Tok != token.DEFINE && n.Key != nil {
			return nil
		}
		rx.nloop++
		id := rx.nloop
		xs, ok := x.eval(n.X, st, &pend)
		if !ok {
			return x.unk(n.X)
		}
		bind := map[types.Object]string{}
		as := ""
		for i, e := range []ast.Expr{n.Key, n.Value} {
			if e == nil {
				continue
			}
			idn, ok := e.(*ast.Ident)
			if !ok {
				return x.unk(s)
			}
			if idn.Name == "_" {
				continue
			}
			sym := fmt.Sprintf("%s%d", []string{"K", "V"}[i], id)
			bind[rx.p.info.Defs[idn]] = sym
			if as != "" {
				as += ","
			}
			as += sym
		}
		return rx.runLoop("range("+xs+") as "+as, id, n.Body.List, nil, n.Body.Pos(), n.Body.End(), bind, rest, st, fr, pend)
	}
	return nil
}

func (rx *rowX) listWalk(n *ast.ForStmt, st *vstate) types.Object {
	init, ok := n.Init.(*ast.AssignStmt)
	if !ok || init.Tok != token.DEFINE || len(init.Lhs) != 1 || len(init.Rhs) != 1 {
		return nil
	}
	c, ok := init.Lhs[0].(*ast.Ident)
	if !ok {
		return nil
	}
	obj := rx.p.info.Defs[c]
	call, ok := ast.Unparen(init.Rhs[0]).(*ast.CallExpr)
	if !ok || len(call.Args) != 0 || obj == nil {
		return nil
	}
	sel, ok := ast.Unparen(call.Fun).(*ast.SelectorExpr)
	if !ok || sel.Sel.Name != "Front" {
		return nil
	}
	var tmp []*vtree
	if l, ok := rx.x.eval(sel.X, st, &tmp); !ok || l != "R.l" || len(tmp) != 0 {
		return nil
	}
	cond, ok := ast.Unparen(n.Cond).(*ast.BinaryExpr)
	if !ok || cond.Op != token.NEQ {
		return nil
	}
	if id, ok := ast.Unparen(cond.X).(*ast.Ident); !ok || rx.p.info.Uses[id] != obj {
		return nil
	}
	if tv, ok := rx.p.info.Types[cond.Y]; !ok || !tv.IsNil() {
		return nil
	}
	post, ok := n.Post.(*ast.AssignStmt)
	if !ok || post.Tok != token.ASSIGN || len(post.Lhs) != 1 || len(post.Rhs) != 1 {
		return nil
	}
	if id, ok := post.Lhs[0].(*ast.Ident); !ok || rx.p.info.Uses[id] != obj {
		return nil
	}
	pc, ok := ast.Unparen(post.Rhs[0]).(*ast.CallExpr)
	if !ok || len(pc.Args) != 0 {
		return nil
	}
	ps, ok := ast.Unparen(pc.Fun).(*ast.SelectorExpr)
	if !ok || ps.Sel.Name != "Next" {
		return nil
	}
	if id, ok := ast.Unparen(ps.X).(*ast.Ident); !ok || rx.p.info.Uses[id] != obj {
		return nil
	}
	if rx.assignedIn(obj, n.Body.List) {
		return nil
	}
	return obj
}

func (rx *rowX) countLoop(n *ast.ForStmt) (types.Object, ast.Expr) {
	init, ok := n.Init.(*ast.AssignStmt)
	if !ok || init.Tok != token.DEFINE || len(init.Lhs) != 1 || len(init.Rhs) != 1 {
		return nil, nil
	}
	c, ok := init.Lhs[0].(*ast.Ident)
	if !ok {
		return nil, nil
	}
	obj := rx.p.info.Defs[c]
	if tv, ok := rx.p.info.Types[init.Rhs[0]]; !ok || tv.Value == nil || tv.Value.ExactString() != "0" || obj == nil {
		return nil, nil
	}
	cond, ok := ast.Unparen(n.Cond).(*ast.BinaryExpr)
	if !ok || cond.Op != token.LSS {
		return nil, nil
	}
	if id, ok := ast.Unparen(cond.X).(*ast.Ident); !ok || rx.p.info.Uses[id] != obj {
		return nil, nil
	}
	post, ok := n.Post.(*ast.IncDecStmt)
	if !ok || post.Tok != token.INC {
		return nil, nil
	}
	if id, ok := ast.Unparen(post.X).(*ast.Ident); !ok || rx.p.info.Uses[id] != obj {
		return nil, nil
	}
	if rx.assignedIn(obj, n.Body.List) {
		return nil, nil
	}
	return obj, cond.Y
}

// closure: a function literal as a value — its tree, the captured variables it assigns bound like loop variables.
func (rx *rowX) closure(n *ast.FuncLit, st *vstate) (string, bool, bool) {
	x := rx.x
	rx.nloop++
	id := rx.nloop
	c := &loopCtx{id: id, entry: map[types.Object]string{}, prefix: "C", maxCall: st.ncall}
	c.carried = rx.assigned(n.Body.List, n.Pos(), n.End())
	st2 := st.clone()
	st2.known = map[string]bool{}
	rx.forgetWrites(st2)
	var from []string
	for i, obj := range c.carried {
		c.entry[obj] = fmt.Sprintf("C%d.v%d", id, i)
		st2.vars[obj] = c.entry[obj]
		if init, ok := st.vars[obj]; ok {
			from = append(from, fmt.Sprintf("v%d=%s", i, st.norm(init))) // what the captured variable holds when the closure is made
		}
	}
	i := 0
	for _, f := range n.Type.Params.List {
		for _, nm := range f.Names {
			if obj := rx.p.info.Defs[nm]; obj != nil && nm.Name != "_" {
				st2.vars[obj] = fmt.Sprintf("A%d.%d", id, i)
			}
			i++
		}
	}
	nres := 0
	if n.Type.Results != nil {
		for _, f := range n.Type.Results.List {
			if len(f.Names) > 0 {
				return "", false, true // named results of a closure: not read
			}
			nres++
		}
	}
	fr := &vframe{nres: nres, stack: []string{fmt.Sprintf("closure%d", id)}}
	fr.ret = func(st3 *vstate, rets []string) *vtree {
		out := make([]string, len(rets))
		for i, r := range rets {
			out[i] = st3.norm(r)
		}
		return rx.loopLeaf(c, st3, out)
	}
	saved := x.cur
	rx.loops = append(rx.loops, c)
	t := x.exec(n.Body.List, st2, fr)
	rx.loops = rx.loops[:len(rx.loops)-1]
	x.cur = saved
	return "func" + fromHeader(from) + "{" + t.String() + "}", true, true
}

func fromHeader(from []string) string {
	if len(from) == 0 {
		return ""
	}
	return " from {" + strings.Join(from, ",") + "}"
}

var objSym = regexp.MustCompile(`^&(\w+)\{(.*)\}$`)
var objRef = regexp.MustCompile(`^O\d+$`)

// methodValue: `x.m` with m a method of a struct of the package and x a pointer to a struct literal (`r.newIterator().nextValue`)
// is a closure over that object: the fields the methods of the struct assign are its state, bound like the captured
// variables of a function literal (C<n>.v<i>, numbered in the order the struct declares them), the others are the
// values the literal gives them.  The method's calls of other methods on the same object are inlined.
func (rx *rowX) methodValue(n *ast.SelectorExpr, st *vstate, pend *[]*vtree) (string, bool, bool) {
	x := rx.x
	fo, ok := rx.p.info.Uses[n.Sel].(*types.Func)
	if !ok || fo.Pkg() != rx.p.pkg {
		return "", false, false
	}
	sig, ok := fo.Type().(*types.Signature)
	if !ok || sig.Recv() == nil {
		return "", false, false
	}
	var tmp []*vtree
	savedCall := st.ncall
	xs, ok := x.eval(n.X, st, &tmp)
	m := objSym.FindStringSubmatch(xs)
	if !ok || m == nil {
		st.ncall = savedCall
		return "", false, false
	}
	tname := m[1]
	fd := x.funcs[tname+"."+n.Sel.Name]
	tn, _ := rx.p.pkg.Scope().Lookup(tname).(*types.TypeName)
	if fd == nil || tn == nil || tname == rx.rowType {
		st.ncall = savedCall
		return "", false, false
	}
	stt, ok := tn.Type().Underlying().(*types.Struct)
	if !ok {
		st.ncall = savedCall
		return "", false, false
	}
	vals := map[string]string{}
	for _, kv := range splitTop(m[2]) {
		if i := strings.IndexByte(kv, '='); i > 0 {
			vals[kv[:i]] = kv[i+1:]
		}
	}
	// the fields any method of the struct assigns
	assigned := map[string]bool{}
	for key, mfd := range x.funcs {
		if !strings.HasPrefix(key, tname+".") || mfd.Recv == nil || len(mfd.Recv.List) != 1 || len(mfd.Recv.List[0].Names) != 1 {
			continue
		}
		recv := rx.p.info.Defs[mfd.Recv.List[0].Names[0]]
		ast.Inspect(mfd.Body, func(nd ast.Node) bool {
			mark := func(e ast.Expr) {
				if sel, ok := ast.Unparen(e).(*ast.SelectorExpr); ok {
					if id, ok := ast.Unparen(sel.X).(*ast.Ident); ok && rx.p.info.Uses[id] == recv {
						assigned[sel.Sel.Name] = true
					}
				}
			}
			switch a := nd.(type) {
			case *ast.AssignStmt:
				for _, l := range a.Lhs {
					mark(l)
				}
			case *ast.IncDecStmt:
				mark(a.X)
			case *ast.UnaryExpr:
				if a.Op == token.AND {
					mark(a.X) // its address is taken: anything may write it
				}
			}
			return true
		})
	}
	rx.nloop++
	id := rx.nloop
	obj := fmt.Sprintf("O%d", id)
	c := &loopCtx{id: id, entry: map[types.Object]string{}, prefix: "C", maxCall: st.ncall, oentry: map[string]string{}}
	st2 := st.clone()
	st2.known = map[string]bool{}
	rx.forgetWrites(st2)
	var from []string
	for i := 0; i < stt.NumFields(); i++ {
		f := stt.Field(i).Name()
		key := "o:" + obj + "." + f
		v, has := vals[f]
		if !has {
			st.ncall = savedCall
			rx.nloop = id - 1
			return "", false, false
		}
		if assigned[f] {
			k := len(c.ofields)
			c.ofields = append(c.ofields, key)
			c.oentry[key] = fmt.Sprintf("C%d.v%d", id, k)
			st2.fields[key] = c.oentry[key]
			from = append(from, fmt.Sprintf("v%d=%s", k, v))
		} else {
			st2.fields[key] = v
		}
	}
	rx.objType[obj] = tname
	if len(fd.Recv.List) == 1 && len(fd.Recv.List[0].Names) == 1 {
		if ro := rx.p.info.Defs[fd.Recv.List[0].Names[0]]; ro != nil {
			st2.vars[ro] = obj
		}
	}
	i := 0
	for _, f := range fd.Type.Params.List {
		for _, nm := range f.Names {
			if o := rx.p.info.Defs[nm]; o != nil && nm.Name != "_" {
				st2.vars[o] = fmt.Sprintf("A%d.%d", id, i)
			}
			i++
		}
	}
	if fd.Type.Results != nil {
		for _, f := range fd.Type.Results.List {
			if len(f.Names) > 0 {
				st.ncall = savedCall
				rx.nloop = id - 1
				return "", false, true
			}
		}
	}
	fr := &vframe{nres: countResults(fd), stack: []string{fmt.Sprintf("closure%d", id), tname + "." + n.Sel.Name}}
	fr.ret = func(st3 *vstate, rets []string) *vtree {
		out := make([]string, len(rets))
		for i, r := range rets {
			out[i] = st3.norm(r)
			if v, ok := st3.known["true("+out[i]+")"]; ok {
				out[i] = fmt.Sprintf("lit:%v", v)
			}
		}
		return rx.loopLeaf(c, st3, out)
	}
	saved := x.cur
	rx.loops = append(rx.loops, c)
	t := x.exec(fd.Body.List, st2, fr)
	rx.loops = rx.loops[:len(rx.loops)-1]
	x.cur = saved
	*pend = append(*pend, tmp...)
	return "func" + fromHeader(from) + "{" + t.String() + "}", true, true
}

// objMethod: a call `o.m(…)` on the object of a bound method under execution.
func (rx *rowX) objMethod(call *ast.CallExpr, st *vstate) (string, *ast.FuncDecl, string) {
	sel, ok := ast.Unparen(call.Fun).(*ast.SelectorExpr)
	if !ok || call.Ellipsis.IsValid() {
		return "", nil, ""
	}
	id, ok := ast.Unparen(sel.X).(*ast.Ident)
	if !ok {
		return "", nil, ""
	}
	o := rx.p.info.Uses[id]
	sym := ""
	if o != nil {
		sym = st.vars[o]
	}
	tname, isObj := rx.objType[sym]
	if !isObj || !objRef.MatchString(sym) {
		return "", nil, ""
	}
	key := tname + "." + sel.Sel.Name
	return key, rx.x.funcs[key], sym
}

// inlineObj inlines such a call (valX.inline with the receiver bound to the object instead of the row).
func (rx *rowX) inlineObj(call *ast.CallExpr, key string, fd *ast.FuncDecl, sym string, st *vstate, fr *vframe, k func(*vstate, []string) *vtree) *vtree {
	x := rx.x
	for _, s := range fr.stack {
		if s == key {
			return x.unk(call)
		}
	}
	var pend []*vtree
	var args []string
	for _, a := range call.Args {
		s, ok := x.eval(a, st, &pend)
		if !ok {
			return x.unk(call)
		}
		args = append(args, s)
	}
	i := 0
	for _, f := range fd.Type.Params.List {
		if _, variadic := f.Type.(*ast.Ellipsis); variadic {
			return x.unk(call)
		}
		if len(f.Names) == 0 {
			i++
			continue
		}
		for _, nm := range f.Names {
			if i >= len(args) {
				return x.unk(call)
			}
			if obj := rx.p.info.Defs[nm]; obj != nil && nm.Name != "_" {
				st.vars[obj] = args[i]
			}
			i++
		}
	}
	if i != len(args) || fd.Recv == nil || len(fd.Recv.List) != 1 || len(fd.Recv.List[0].Names) != 1 {
		return x.unk(call)
	}
	if obj := rx.p.info.Defs[fd.Recv.List[0].Names[0]]; obj != nil {
		st.vars[obj] = sym
	}
	fr2 := &vframe{nres: countResults(fd), ret: k, stack: append(append([]string{}, fr.stack...), key)}
	x.bindNamedResults(fd, st, fr2)
	return vwrap(pend, x.exec(fd.Body.List, st, fr2))
}

// run executes the function `key` (a method of the row struct, or a plain function) with its parameters P0, P1 …
func (rx *rowX) run(key string, noInline []string) *vtree {
	x := rx.x
	x.inlined = map[string]bool{}
	x.noInline = map[string]bool{}
	for _, n := range noInline {
		if n != key {
			x.noInline[n] = true
		}
	}
	rx.loops, rx.nloop = nil, 0
	fd := x.funcs[key]
	if fd == nil {
		return vunknown("no function %s", key)
	}
	st := &vstate{vars: map[types.Object]string{}, pos: map[token.Pos]string{}, known: map[string]bool{}, fields: map[string]string{}}
	if fd.Recv != nil {
		if !strings.HasPrefix(key, rx.rowType+".") || rx.rowType == "" {
			return vunknown("receiver of %s is not the row struct", key)
		}
		if _, ptr := fd.Recv.List[0].Type.(*ast.StarExpr); !ptr {
			return vunknown("%s has a value receiver", key)
		}
		st.fields = map[string]string{"m": "R.m", "l": "R.l", "keys": "R.keys"}
		if len(fd.Recv.List) == 1 && len(fd.Recv.List[0].Names) == 1 {
			if obj := rx.p.info.Defs[fd.Recv.List[0].Names[0]]; obj != nil {
				st.vars[obj] = "R"
			}
		}
	}
	i := 0
	for _, f := range fd.Type.Params.List {
		if len(f.Names) == 0 {
			i++
			continue
		}
		for _, nm := range f.Names {
			if obj := rx.p.info.Defs[nm]; obj != nil && nm.Name != "_" {
				st.vars[obj] = fmt.Sprintf("P%d", i)
			}
			i++
		}
	}
	fr := &vframe{nres: countResults(fd), stack: []string{key}}
	fr.ret = func(st2 *vstate, rets []string) *vtree {
		leaf := &vtree{kind: "leaf"}
		for _, r := range rets {
			r = st2.norm(r)
			if v, ok := st2.known["true("+r+")"]; ok {
				r = fmt.Sprintf("lit:%v", v)
			}
			leaf.rets = append(leaf.rets, r)
		}
		if c := rx.top(); c != nil && st2.ncall > c.maxCall {
			c.maxCall = st2.ncall
		}
		return leaf
	}
	x.bindNamedResults(fd, st, fr)
	return normDelim(prune(x.exec(fd.Body.List, st, fr).merged()))
}

var delimEqL = regexp.MustCompile(`^eq\(const\(json\.Delim:(\d+)\),(.+)\)$`)
var delimEqR = regexp.MustCompile(`^eq\((.+),const\(json\.Delim:(\d+)\)\)$`)

// normDelim: "the token X is the delimiter n" has one spelling, delim(X,n), whether the source compares the
// interface value with the constant (`t != json.Delim('{')`) or asserts the type first and compares then
// (`d, ok := t.(json.Delim); !ok || d != '{'`, both failures ending alike).
func normDelim(t *vtree) *vtree {
	if t == nil {
		return t
	}
	switch t.kind {
	case "call":
		t.next = normDelim(t.next)
	case "loop":
		t.then, t.next = normDelim(t.then), normDelim(t.next)
	case "if":
		t.then, t.els = normDelim(t.then), normDelim(t.els)
		if m := delimEqL.FindStringSubmatch(t.cond); m != nil && !strings.HasPrefix(m[2], "as(") {
			t.cond = "delim(" + m[2] + "," + m[1] + ")"
		} else if m := delimEqR.FindStringSubmatch(t.cond); m != nil && !strings.HasPrefix(m[1], "as(") {
			t.cond = "delim(" + m[1] + "," + m[2] + ")"
		}
		if strings.HasPrefix(t.cond, "is(") && strings.HasSuffix(t.cond, ",json.Delim)") && t.then != nil && t.then.kind == "if" {
			X := t.cond[3 : len(t.cond)-len(",json.Delim)")]
			if m := delimEqR.FindStringSubmatch(t.then.cond); m != nil && m[1] == "as("+X+",json.Delim)" && t.then.els.String() == t.els.String() {
				return &vtree{kind: "if", cond: "delim(" + X + "," + m[2] + ")", then: t.then.then, els: t.els}
			}
		}
	}
	return t
}

// prune: an error that was just built is not nil.
func prune(t *vtree) *vtree {
	if t == nil {
		return t
	}
	switch t.kind {
	case "call":
		t.next = prune(t.next)
	case "loop":
		t.then, t.next = prune(t.then), prune(t.next)
	case "if":
		for _, p := range []string{"isnil(ERR(", "isnil(FAIL(", "isnil(WRAP("} {
			if strings.HasPrefix(t.cond, p) {
				return prune(t.els)
			}
		}
		t.then, t.els = prune(t.then), prune(t.els)
	}
	return t
}

// noInlineAll lists the functions that have a fact of their own: they stay calls in each other's trees.
func (rx *rowX) noInlineAll(except ...string) []string {
	out := []string{"NewRow", "NewValue", "CloneValue", "CloneRow", "LcFirst", "asRow", "parsearray", "handledelim"}
	var ms []string
	for k, fd := range rx.x.funcs {
		// the exported methods (the API of Row and Value) and parseobject; Has and whatever helper someone extracts are inlined
		if strings.HasPrefix(k, rx.rowType+".") && fd.Name.Name != "Has" && (ast.IsExported(fd.Name.Name) || fd.Name.Name == "parseobject") {
			ms = append(ms, k)
		}
	}
	sort.Strings(ms)
	var res []string
	for _, n := range append(out, ms...) {
		skip := false
		for _, e := range except {
			skip = skip || n == e
		}
		if !skip {
			res = append(res, n)
		}
	}
	return res
}

// ---------------------------------------------------------------------------------------------------
// classification

type rfc struct {
	rx    *rowX
	seen  map[string]bool // the functions that were run
	where []string
	auto  string // the value of the constant Auto
}

func (c *rfc) unknown(where string, t *vtree) string {
	dup := false
	for _, w := range c.where {
		dup = dup || w == where
	}
	if !dup {
		c.where = append(c.where, where)
	}
	return "(.unknown " + lstr(t.String()) + ")"
}

func (c *rfc) method(name string) string { return c.rx.rowType + "." + name }

func (c *rfc) tree(name string, except ...string) *vtree {
	key := name
	if _, ok := c.rx.x.funcs[key]; !ok {
		key = c.method(name)
	}
	c.seen[key] = true
	return c.rx.run(key, c.rx.noInlineAll(except...))
}

func tIsCall(t *vtree, id int, fn string, args ...string) bool {
	return t != nil && t.kind == "call" && t.id == id && t.fn == fn && eqStrs(t.args, args)
}

func tIsLeaf(t *vtree, rets ...string) bool {
	return t != nil && t.kind == "leaf" && eqStrs(t.rets, rets) && len(t.fields) == 0
}

func tIsIf(t *vtree, cond string) bool { return t != nil && t.kind == "if" && t.cond == cond }

func methodName(fn string) (string, bool) {
	if strings.HasPrefix(fn, ".") && len(fn) > 1 {
		return fn[1:], true
	}
	return "", false
}

func pkgFunc(fn, pkg string) (string, bool) {
	if strings.HasPrefix(fn, pkg+".") {
		return strings.TrimPrefix(fn, pkg+"."), true
	}
	return "", false
}

func litNat(s string) (string, bool) {
	if !strings.HasPrefix(s, "lit:") {
		return "", false
	}
	for _, ch := range s[4:] {
		if ch < '0' || ch > '9' {
			return "", false
		}
	}
	return s[4:], len(s) > 4
}

var constRe = regexp.MustCompile(`^const\(([\w.]+):(-?\d+)\)$`)

func constOf(s, typ string) (string, bool) {
	m := constRe.FindStringSubmatch(s)
	if m == nil || m[1] != typ {
		return "", false
	}
	return m[2], true
}

func litStr(s string) (string, bool) {
	if !strings.HasPrefix(s, `lit:"`) {
		return "", false
	}
	u, err := strconvUnquote(s[4:])
	return u, err == nil
}

// pushOK: the discipline of Push.backWhenAbsent on the tree of a keyed mutator (has: -1 not tested, 0 absent, 1 present).
func pushOK(t *vtree, K string, has, pushed int, stored bool) bool {
	if t == nil {
		return false
	}
	switch t.kind {
	case "call":
		onList := false
		for _, a := range t.args {
			onList = onList || a == "R.l" || strings.Contains(a, "R.l")
		}
		switch {
		case t.fn == ".PushBack" && eqStrs(t.args, []string{"R.l", K}):
			if stored || has != 0 {
				return false
			}
			pushed++
		case onList && !(t.fn == ".Front" || t.fn == ".Len") || onList && len(t.args) != 1:
			return false
		case t.fn == "mapset" && len(t.args) == 3 && t.args[0] == "R.m":
			if t.args[1] != K {
				return false
			}
			stored = true
		}
		return pushOK(t.next, K, has, pushed, stored)
	case "if":
		if t.cond == "true(has(R.m,"+K+"))" {
			return pushOK(t.then, K, 1, pushed, stored) && pushOK(t.els, K, 0, pushed, stored)
		}
		return pushOK(t.then, K, has, pushed, stored) && pushOK(t.els, K, has, pushed, stored)
	case "leaf":
		switch has {
		case 1:
			return pushed == 0
		case 0:
			return pushed == 1
		}
		return pushed == 0 && !stored
	}
	return false
}

// keyed classifies `if r.m has K {PRESENT} else {push; ABSENT}`; call numbers start after `base`; ok is the leaf of success.
func (c *rfc) keyed(where string, t *vtree, K, V string, base int, ok string) string {
	push, present, absent := "", "", ""
	if pushOK(t, K, -1, 0, false) {
		push = ".backWhenAbsent"
	} else {
		push = c.unknown(where, t)
	}
	M := "R.m[" + K + "]"
	b1, b2, b3 := base+1, base+2, base+3
	if !tIsIf(t, "true(has(R.m,"+K+"))") {
		u := c.unknown(where, t)
		return "{ push := " + push + ", present := " + u + ", absent := " + u + " }"
	}
	cell := fmt.Sprintf("fmt(%s),typ(%s)", M, M)
	presents := [][2]string{
		{".castThenNewValue", fmt.Sprintf("call#%d cast.To(typ(%s),%s); if isnil(err#%d) {call#%d jsonline.NewValue(%s,%s); call#%d mapset(R.m,%s,res#%d); %s} else {call#%d jsonline.NewValue(res#%d,%s); call#%d mapset(R.m,%s,res#%d); %s}",
			b1, M, V, b1, b2, V, cell, b3, K, b2, ok, b2, b1, cell, b3, K, b2, ok)},
		{"(.importInPlace true)", fmt.Sprintf("call#%d .Import(%s,%s); if isnil(res#%d) {%s} else {return [WRAP(res#%d)]}", b1, M, V, b1, ok, b1)},
		{"(.importInPlace false)", fmt.Sprintf("call#%d .Import(%s,%s); if isnil(res#%d) {%s} else {return [res#%d]}", b1, M, V, b1, ok, b1)},
		{".storeArgument", fmt.Sprintf("call#%d mapset(R.m,%s,%s); %s", b1, K, V, ok)},
	}
	got := t.then.String()
	for _, p := range presents {
		if got == p[1] {
			present = p[0]
		}
	}
	if present == "" {
		present = c.unknown(where, t.then)
	}
	pushed := fmt.Sprintf("call#%d .PushBack(R.l,%s); call#%d mapset(R.keys,%s,res#%d); ", b1, K, b2, K, b1)
	auto := fmt.Sprintf("call#%d mapset(R.m,%s,&value{f=const(Format:%s),raw=%s,typ=nil}); %s", b3, K, c.auto, V, ok)
	absents := [][2]string{
		{".valueElseAuto", pushed + fmt.Sprintf("if is(%s,Value) {call#%d mapset(R.m,%s,as(%s,Value)); %s} else {%s}", V, b3, K, V, ok, auto)},
		{".auto", pushed + auto},
		{".storeArgument", pushed + fmt.Sprintf("call#%d mapset(R.m,%s,%s); %s", b3, K, V, ok)},
	}
	got = t.els.String()
	for _, a := range absents {
		if got == a[1] {
			absent = a[0]
		}
	}
	if absent == "" {
		absent = c.unknown(where, t.els)
	}
	return "{ push := " + push + ", present := " + present + ", absent := " + absent + " }"
}

func (c *rfc) nparams(name string) int {
	fd := c.rx.x.funcs[c.method(name)]
	if fd == nil {
		return 0
	}
	n := 0
	for _, f := range fd.Type.Params.List {
		if len(f.Names) == 0 {
			n++
		} else {
			n += len(f.Names)
		}
	}
	return n
}

func (c *rfc) delegate(name string) string {
	t := c.tree(name)
	if t.kind == "call" && t.id == 1 && len(t.args) >= 2 && t.args[0] == "R" && t.args[1] == "keyAt(P0)" {
		if target, ok := methodName(t.fn); ok {
			want := []string{"R", "keyAt(P0)"}
			for i := 1; i < c.nparams(name); i++ {
				want = append(want, fmt.Sprintf("P%d", i))
			}
			nres := countResults(c.rx.x.funcs[c.method(name)])
			rets := [][]string{{}, {"res#1"}, {"res#1", "err#1"}}
			if eqStrs(t.args, want) && nres < 3 && tIsLeaf(t.next, rets[nres]...) {
				return "(.walkThen " + lstr(target) + ")"
			}
		}
	}
	return c.unknown(name, t)
}

func (c *rfc) reader(name string) string {
	t := c.tree(name)
	s := t.String()
	switch s {
	case "return [has(R.m,P0)]":
		return ".mapHas"
	case "if true(has(R.m,P0)) {return [raw(R.m[P0]),lit:true]} else {return [nil,lit:false]}":
		return ".mapRaw"
	case "if true(has(R.m,P0)) {return [R.m[P0],lit:true]} else {return [nil,lit:false]}",
		"return [R.m[P0],has(R.m,P0)]": // `v, ok := r.m[key]; return v, ok`: a missing key gives the zero Value, nil
		return ".mapValue"
	case "call#1 .Len(R.l); return [res#1]":
		return ".listLen"
	}
	if t.kind == "call" && t.id == 1 && eqStrs(t.args, []string{"R", "P0"}) {
		if of, ok := methodName(t.fn); ok {
			switch t.next.String() {
			case "if true(err#1) {return [res#1]} else {return [nil]}":
				return "(.orNil " + lstr(of) + ")"
			case "if true(err#1) {return [raw(res#1),lit:true]} else {return [nil,lit:false]}":
				return "(.rawOf " + lstr(of) + ")"
			}
		}
	}
	return c.unknown(name, t)
}

var closureRe = regexp.MustCompile(`C\d+\.`)

func (c *rfc) iterator(name string) string {
	t := c.tree(name)
	s := closureRe.ReplaceAllString(t.String(), "C.")
	if s == `call#1 .Front(R.l); return [func from {v0=res#1}{if isnil(C.v0) {return [lit:"",nil,lit:false] with {}} else {call#2 .Next(C.v0); return [as(C.v0.Value,string),R.m[as(C.v0.Value,string)],lit:true] with {v0=res#2}}}]` {
		return ".listFrontToBack"
	}
	if s == `call#1 .Front(R.l); return [func from {v0=res#1}{if isnil(C.v0) {return [lit:"",nil,lit:false] with {}} else {call#2 .Next(C.v0); return [as(C.v0.Value,string),raw(R.m[as(C.v0.Value,string)]),lit:true] with {v0=res#2}}}]` {
		return ".listFrontToBackRaw"
	}
	if t.kind == "call" && t.id == 1 && eqStrs(t.args, []string{"R"}) {
		if of, ok := methodName(t.fn); ok && t.next.String() == "return [func{call#2 call(res#1); if true(res#2.2) {return [res#2.0,raw(res#2.1),res#2.2] with {}} else {return [res#2.0,res#2.1,res#2.2] with {}}}]" {
			return "(.rawOf " + lstr(of) + ")"
		}
	}
	return c.unknown(name, t)
}

func (c *rfc) importFact() string {
	t := c.tree("Import")
	var kinds []string
	for t != nil && t.kind == "if" && strings.HasPrefix(t.cond, "is(P0,") {
		ty := t.cond[len("is(P0,") : len(t.cond)-1]
		each := ""
		if l := t.then; l != nil && l.kind == "loop" && tIsLeaf(l.next, "nil") {
			b := l.then
			hdr := fmt.Sprintf("range(as(P0,%s)) as K%d,V%d", ty, l.id, l.id)
			if l.cond == hdr && b != nil && b.kind == "call" && b.id == 1 && eqStrs(b.args, []string{"R", fmt.Sprintf("K%d", l.id), fmt.Sprintf("V%d", l.id)}) {
				if m, ok := methodName(b.fn); ok && b.next.String() == "if isnil(res#1) {return [<continue>] with {}} else {return [res#1]}" {
					each = "(.stopAtFirstError " + lstr(m) + ")"
				}
			}
		}
		if each == "" {
			each = c.unknown("Import", t.then)
		}
		kinds = append(kinds, "("+lstr(ty)+", "+strings.TrimSuffix(strings.TrimPrefix(each, "("), ")")+")")
		t = t.els
	}
	other := ""
	if t != nil && t.kind == "leaf" && len(t.rets) == 1 && len(t.fields) == 0 {
		if s, ok := failSentinel(t.rets[0]); ok {
			other = "(.fail " + lstr(s) + ")"
		}
	}
	if other == "" {
		other = c.unknown("Import", t)
	}
	return "{ kinds := [" + strings.Join(kinds, ", ") + "], other := " + other + " }"
}

func (c *rfc) importAtPath() string {
	t := c.tree("ImportAtPath")
	if t.kind == "call" && t.id == 1 && eqStrs(t.args, []string{"R", "P0"}) && tIsIf(t.next, "true(err#1)") {
		if lookup, ok := methodName(t.fn); ok {
			nf := t.next.els
			if nf != nil && nf.kind == "leaf" && len(nf.rets) == 1 {
				if s, ok := failSentinel(nf.rets[0]); ok {
					for _, w := range []bool{true, false} {
						e := "res#2"
						if w {
							e = "WRAP(res#2)"
						}
						if t.next.then.String() == "call#2 .Import(res#1,P1); if isnil(res#2) {return [nil]} else {return ["+e+"]}" {
							return fmt.Sprintf("(.lookupThenImport %s %v %s)", lstr(lookup), w, lstr(s))
						}
					}
				}
			}
		}
	}
	return c.unknown("ImportAtPath", t)
}

func (c *rfc) getValueAtPath() string {
	t := c.tree("GetValueAtPath")
	if t.kind == "call" && t.id == 1 && t.fn == "strings.Split" && len(t.args) == 2 && t.args[0] == "P0" {
		if sep, ok := litStr(t.args[1]); ok {
			l := t.next
			if l != nil && l.kind == "loop" && l.then != nil && l.then.kind == "call" {
				lookup, ok1 := methodName(l.then.fn)
				var descend string
				ok2 := false
				if in := l.then.next; tIsIf(in, "true(err#2)") && in.then.kind == "if" && in.then.els.kind == "call" {
					descend, ok2 = pkgFunc(in.then.els.fn, c.rx.p.pkg.Name())
				}
				if ok1 && ok2 {
					n := l.id
					want := fmt.Sprintf("call#1 strings.Split(P0,%s); loop#%d range(res#1) as K%d,V%d from {v0=R} {call#2 .%s(L%d.v0,V%d); if true(err#2) {if eq(K%d,sub(len(res#1),lit:1)) {return [res#2,lit:true]} else {call#3 %s.%s(res#2); if true(err#3) {return [<continue>] with {v0=res#3}} else {return [nil,lit:false]}}} else {return [nil,lit:false]}}; return [L%dout.v0,lit:true]",
						t.args[1], n, n, n, lookup, n, n, n, c.rx.p.pkg.Name(), descend, n)
					if t.String() == want {
						return fmt.Sprintf("(.splitDescend %s %s %s)", lstr(sep), lstr(lookup), lstr(descend))
					}
				}
			}
		}
	}
	return c.unknown("GetValueAtPath", t)
}

func (c *rfc) asRow() string {
	t := c.tree("asRow")
	if t.String() == "if isnil(P0) {return [nil,lit:false]} else {if is(P0,Row) {return [as(P0,Row),lit:true]} else {return [as(raw(P0),Row),is(raw(P0),Row)]}}" {
		return ".rowOrRawRow"
	}
	return c.unknown("asRow", t)
}

func (c *rfc) findValues() string {
	t := c.tree("FindValuesAtPath")
	if t.kind == "call" && t.id == 1 && t.fn == "strings.SplitN" && len(t.args) == 3 && t.args[0] == "P0" && t.args[2] == "lit:2" {
		if sep, ok := litStr(t.args[1]); ok && t.next != nil && t.next.kind == "call" && tIsIf(t.next.next, "true(err#2)") {
			lookup, ok1 := methodName(t.next.fn)
			var descend string
			ok2 := false
			if in := t.next.next.then; in != nil && in.kind == "if" && in.els != nil && in.els.kind == "call" {
				descend, ok2 = pkgFunc(in.els.fn, c.rx.p.pkg.Name())
			}
			self := ""
			if fd := c.rx.x.funcs[c.method("FindValuesAtPath")]; fd != nil {
				self = fd.Name.Name
			}
			if ok1 && ok2 {
				want := fmt.Sprintf("call#1 strings.SplitN(P0,%s,lit:2); call#2 .%s(R,res#1[lit:0]); if true(err#2) {if eq(len(res#1),lit:1) {return [cat([res#2]),lit:true]} else {call#3 %s.%s(res#2); if true(err#3) {call#4 .%s(res#3,res#1[lit:1]); return [res#4,err#4]} else {if isnil(res#2) {return [nil,lit:false]} else {if is(raw(res#2),[]interface{}) {loop#1 range(as(raw(res#2),[]interface{})) as V1 from {v0=empty([]Value)} {if is(V1,Row) {call#4 .%s(as(V1,Row),res#1[lit:1]); if true(err#4) {return [<continue>] with {v0=cat(L1.v0,res#4)}} else {return [<continue>] with {}}} else {return [<continue>] with {}}}; return [L1out.v0,lit:true]} else {return [nil,lit:false]}}}}} else {return [nil,lit:false]}",
					t.args[1], lookup, c.rx.p.pkg.Name(), descend, self, self)
				if t.String() == want {
					return fmt.Sprintf("(.firstKeyThenRowOrArrayOfRows %s %s %s)", lstr(sep), lstr(lookup), lstr(descend))
				}
			}
		}
	}
	return c.unknown("FindValuesAtPath", t)
}

// blankErrBuffers: MarshalJSON's `return` on a failed json.Marshal hands back the buffer built so far next to the
// error; no caller looks at it (encoding/json drops it, String() prints the error), so it is not part of the shape.
func blankErrBuffers(t *vtree) {
	if t == nil {
		return
	}
	switch t.kind {
	case "call":
		blankErrBuffers(t.next)
	case "if":
		blankErrBuffers(t.then)
		blankErrBuffers(t.els)
	case "loop":
		blankErrBuffers(t.then)
		blankErrBuffers(t.next)
	case "leaf":
		if len(t.rets) == 2 && (strings.HasPrefix(t.rets[1], "err#") || strings.HasPrefix(t.rets[1], "ERR(")) {
			t.rets[0] = "_"
		}
	}
}

var marshalHdr = regexp.MustCompile(`^walk\(R\.l\) as E(\d+) from \{v(\d+)=cat\(((?:\[lit:\d+\],?)+)\)\}$`)
var marshalEnd = regexp.MustCompile(`^if true\(gt\(len\((L\d+out\.v\d+)\),lit:(\d+)\)\) \{return \[put\(L\d+out\.v\d+,sub\(len\(L\d+out\.v\d+\),lit:1\),lit:(\d+)\),nil\]\} else \{return \[cat\(L\d+out\.v\d+,\[lit:(\d+)\]\),nil\]\}$`)

func (c *rfc) marshal() string {
	t := c.tree("MarshalJSON")
	blankErrBuffers(t)
	unknown := func() string { return c.unknown("MarshalJSON", t) }
	if t.kind != "loop" {
		return unknown()
	}
	h := marshalHdr.FindStringSubmatch(t.cond)
	if h == nil || h[1] != fmt.Sprint(t.id) {
		return unknown()
	}
	n, v := h[1], h[2]
	var opening []string
	for _, p := range strings.Split(h[3], ",") {
		opening = append(opening, strings.TrimSuffix(strings.TrimPrefix(p, "[lit:"), "]"))
	}
	K := "as(E" + n + ".Value,string)"
	M := "R.m[" + K + "]"
	b := t.then
	if b == nil || b.kind != "if" || !tIsLeaf(b.then, "<continue>") {
		return unknown()
	}
	skip := ""
	if strings.HasPrefix(b.cond, "eq(") && strings.HasSuffix(b.cond, ",fmt("+M+"))") {
		skip, _ = constOf(b.cond[3:len(b.cond)-len(",fmt("+M+"))")], "Format")
	}
	if skip == "" {
		return unknown()
	}
	// member reads one member's sequence of marshals and appends, and checks it strictly: the pieces after `skipFirst` of them,
	// the buffer of the <continue> leaf
	bad := false
	member := func(start *vtree, skipFirst int) (pieces []string, parts []string, ok bool) {
		calls := map[string]string{} // res#k -> piece
		cur := start
		for cur != nil && cur.kind == "call" {
			if cur.fn == "json.Marshal" && len(cur.args) == 1 {
				switch cur.args[0] {
				case K:
					calls[fmt.Sprintf("res#%d", cur.id)] = ".key"
				case M:
					calls[fmt.Sprintf("res#%d", cur.id)] = ".cell"
				}
			}
			if cur.next == nil || cur.next.kind != "if" {
				return nil, nil, false
			}
			cur = cur.next.then
		}
		if cur == nil || cur.kind != "leaf" || !eqStrs(cur.rets, []string{"<continue>"}) || len(cur.fields) != 1 {
			return nil, nil, false
		}
		buf := cur.fields["v"+v]
		pre := "cat(L" + n + ".v" + v + ","
		if !strings.HasPrefix(buf, pre) || !strings.HasSuffix(buf, ")") {
			return nil, nil, false
		}
		want := ""
		k := 0
		closeBraces := ""
		parts = splitTop(buf[len(pre) : len(buf)-1])
		for _, p := range parts {
			if piece, ok := calls[p]; ok {
				k++
				if p != fmt.Sprintf("res#%d", k) {
					return nil, nil, false
				}
				arg := K
				if piece == ".cell" {
					arg = M
				}
				want += fmt.Sprintf("call#%d json.Marshal(%s); if isnil(err#%d) {", k, arg, k)
				closeBraces = fmt.Sprintf("} else {return [_,err#%d]}", k) + closeBraces
				pieces = append(pieces, piece)
			} else if strings.HasPrefix(p, "[lit:") && strings.HasSuffix(p, "]") {
				if d, ok := litNat(p[1 : len(p)-1]); ok {
					pieces = append(pieces, "(.byte "+d+")")
				} else {
					pieces = append(pieces, "(.other "+lstr(p)+")")
					bad = true
				}
			} else {
				pieces = append(pieces, "(.other "+lstr(p)+")")
				bad = true
			}
		}
		want += "return [<continue>] with {v" + v + "=" + buf + "}" + closeBraces
		if start.String() != want || len(pieces) < skipFirst {
			return nil, nil, false
		}
		return pieces[skipFirst:], parts, true
	}
	B := "L" + n + "out.v" + v
	// the separator in FRONT of every member but the first, the closing byte appended
	sepRe := regexp.MustCompile(`^true\(gt\(len\(L` + n + `\.v` + v + `\),lit:(\d+)\)\)$`)
	endRe := regexp.MustCompile(`^return \[cat\(` + regexp.QuoteMeta(B) + `,\[lit:(\d+)\]\),nil\]$`)
	if m := sepRe.FindStringSubmatch(b.els.cond); b.els.kind == "if" && m != nil {
		with, partsWith, ok1 := member(b.els.then, 1)
		without, partsWithout, ok2 := member(b.els.els, 0)
		e := endRe.FindStringSubmatch(t.next.String())
		if ok1 && ok2 && e != nil && !bad && len(partsWith) == len(partsWithout)+1 && eqStrs(partsWith[1:], partsWithout) && eqStrs(with, without) {
			if sep, ok := litNat(strings.TrimSuffix(strings.TrimPrefix(partsWith[0], "["), "]")); ok {
				return fmt.Sprintf("(.separated [%s] %s %s %s [%s] %s)", strings.Join(opening, ", "), skip, m[1], sep, strings.Join(with, ", "), e[1])
			}
		}
		return unknown()
	}
	pieces, _, ok := member(b.els, 0)
	if !ok {
		return unknown()
	}
	if bad {
		c.unknown("MarshalJSON", t)
	}
	e := marshalEnd.FindStringSubmatch(t.next.String())
	if e == nil || e[1] != B || e[3] != e[4] ||
		t.next.String() != fmt.Sprintf("if true(gt(len(%s),lit:%s)) {return [put(%s,sub(len(%s),lit:1),lit:%s),nil]} else {return [cat(%s,[lit:%s]),nil]}", B, e[2], B, B, e[3], B, e[3]) {
		return unknown()
	}
	return fmt.Sprintf("(.members [%s] %s [%s] %s %s)", strings.Join(opening, ", "), skip, strings.Join(pieces, ", "), e[2], e[3])
}

func (c *rfc) unmarshal() string {
	t := c.tree("UnmarshalJSON")
	var steps []string
	fail := func(t *vtree) string {
		steps = append(steps, strings.TrimSuffix(strings.TrimPrefix(c.unknown("UnmarshalJSON", t), "("), ")"))
		return "[" + strings.Join(steps, ", ") + "]"
	}
	if !tIsCall(t, 1, "bytes.NewReader", "P0") || !tIsCall(t.next, 2, "json.NewDecoder", "res#1") {
		return fail(t)
	}
	cur, n := t.next.next, 2
	if tIsCall(cur, 3, ".UseNumber", "res#2") {
		steps = append(steps, ".newDecoder true")
		cur, n = cur.next, 3
	} else {
		steps = append(steps, ".newDecoder false")
	}
	for cur != nil {
		n++
		switch {
		case tIsCall(cur, n, ".Token", "res#2") && tIsIf(cur.next, fmt.Sprintf("isnil(err#%d)", n)) && tIsLeaf(cur.next.els, fmt.Sprintf("err#%d", n)):
			a := cur.next.then
			pre := fmt.Sprintf("delim(res#%d,", n)
			if a != nil && a.kind == "if" && strings.HasPrefix(a.cond, pre) && tIsLeaf(a.els, "ERR(nowrap)") {
				if d, ok := litNat("lit:" + a.cond[len(pre):len(a.cond)-1]); ok {
					steps = append(steps, ".openDelim "+d)
					cur = a.then
					continue
				}
			}
			return fail(cur)
		case cur.kind == "call" && cur.id == n && eqStrs(cur.args, []string{"R", "res#2"}) && tIsIf(cur.next, fmt.Sprintf("isnil(res#%d)", n)) && tIsLeaf(cur.next.els, fmt.Sprintf("res#%d", n)):
			m, ok := methodName(cur.fn)
			if !ok {
				return fail(cur)
			}
			steps = append(steps, ".members "+lstr(m))
			cur = cur.next.then
			continue
		case cur.String() == fmt.Sprintf("call#%d .Token(res#2); if eq(err#%d,io.EOF) {return [nil]} else {return [ERR(nowrap)]}", n, n):
			steps = append(steps, ".onlyEOF")
			return "[" + strings.Join(steps, ", ") + "]"
		}
		return fail(cur)
	}
	return fail(cur)
}

func closingDelim(t *vtree, n int, dec, okLeaf string, errLeaf func(e string) string) (string, bool) {
	if t == nil || t.kind != "call" || t.id != n || t.fn != ".Token" || !eqStrs(t.args, []string{dec}) {
		return "", false
	}
	a := t.next
	if !tIsIf(a, fmt.Sprintf("isnil(err#%d)", n)) || a.els.String() != errLeaf(fmt.Sprintf("err#%d", n)) {
		return "", false
	}
	b := a.then
	pre := fmt.Sprintf("delim(res#%d,", n)
	if b == nil || b.kind != "if" || !strings.HasPrefix(b.cond, pre) || b.then.String() != okLeaf || b.els.String() != errLeaf("ERR(nowrap)") {
		return "", false
	}
	return litNat("lit:" + b.cond[len(pre):len(b.cond)-1])
}

func (c *rfc) parseObject() string {
	t := c.tree("parseobject", c.method("GetValue"))
	unknown := func() string { return c.unknown("parseobject", t) }
	pkg := c.rx.p.pkg.Name()
	if t.kind != "loop" || t.cond != "forever" {
		return unknown()
	}
	// the way to the store
	path := []func(*vtree) *vtree{
		func(n *vtree) *vtree { return n.then }, // loop body: call More
		func(n *vtree) *vtree { return n.next }, // if true(res#1)
		func(n *vtree) *vtree { return n.then }, // call Token
		func(n *vtree) *vtree { return n.next }, // if isnil(err#2)
		func(n *vtree) *vtree { return n.then }, // if is(res#2,string)
		func(n *vtree) *vtree { return n.then }, // call Token
		func(n *vtree) *vtree { return n.next }, // if eq(err#3,io.EOF)
		func(n *vtree) *vtree { return n.els },  // if isnil(err#3)
		func(n *vtree) *vtree { return n.then }, // call via
	}
	cur := t
	for _, step := range path {
		if cur == nil {
			return unknown()
		}
		cur = step(cur)
	}
	if cur == nil || cur.kind != "call" || cur.id != 4 || cur.next == nil || cur.next.kind != "if" || cur.next.then == nil {
		return unknown()
	}
	via, ok := pkgFunc(cur.fn, pkg)
	if !ok {
		return unknown()
	}
	store := cur.next.then
	storeStr := store.String()
	closing, ok := closingDelim(t.next, t.next.id, "P0", "return [nil]", func(e string) string { return "return [" + e + "]" })
	if !ok {
		return unknown()
	}
	skeleton := fmt.Sprintf("loop#%d forever {call#1 .More(P0); if true(res#1) {call#2 .Token(P0); if isnil(err#2) {if is(res#2,string) {call#3 .Token(P0); if eq(err#3,io.EOF) {return [<break>] with {}} else {if isnil(err#3) {call#4 %s.%s(res#3,P0); if isnil(err#4) {%s} else {return [err#4]}} else {return [err#3]}}} else {return [ERR(nowrap)]}} else {return [err#2]}} else {return [<break>] with {}}}; %s",
		t.id, pkg, via, storeStr, t.next.String())
	if t.String() != skeleton {
		return unknown()
	}
	return fmt.Sprintf("(.whileMore %s %s %s)", lstr(via), c.keyed("parseobject", store, "as(res#2,string)", "res#4", 4, "return [<continue>] with {}"), closing)
}

var arrHdr = regexp.MustCompile(`^forever from \{v(\d+)=empty\(\[\]interface\{\}\)\}$`)

func (c *rfc) parseArray() string {
	t := c.tree("parsearray")
	blankErrBuffers(t) // what comes back next to an error — the items so far, or nil — is dropped by handledelim
	pkg := c.rx.p.pkg.Name()
	if t.kind == "loop" && t.then != nil && t.next != nil {
		if h := arrHdr.FindStringSubmatch(t.cond); h != nil {
			v, n := h[1], t.id
			out := fmt.Sprintf("L%dout.v%s", n, v)
			closing, ok := closingDelim(t.next, t.next.id, "P0", "return ["+out+",nil]", func(e string) string { return "return [_," + e + "]" })
			via := ""
			if b := t.then; b.kind == "call" && b.next != nil && b.next.kind == "if" && b.next.then != nil && b.next.then.kind == "call" {
				if in := b.next.then.next; in != nil && in.kind == "if" && in.then != nil && in.then.kind == "call" {
					via, _ = pkgFunc(in.then.fn, pkg)
				}
			}
			if ok && via != "" {
				in := fmt.Sprintf("L%d.v%s", n, v)
				want := fmt.Sprintf("loop#%d %s {call#1 .More(P0); if true(res#1) {call#2 .Token(P0); if isnil(err#2) {call#3 %s.%s(res#2,P0); if isnil(err#3) {return [<continue>] with {v%s=cat(%s,[res#3])}} else {return [_,err#3]}} else {return [_,err#2]}} else {return [<break>] with {}}}; %s",
					n, t.cond, pkg, via, v, in, t.next.String())
				if t.String() == want {
					return fmt.Sprintf("(.whileMore %s %s)", lstr(via), closing)
				}
			}
		}
	}
	return c.unknown("parsearray", t)
}

func (c *rfc) handleDelim() string {
	t := c.tree("handledelim")
	pkg := c.rx.p.pkg.Name()
	unknown := func() string { return c.unknown("handledelim", t) }
	if !tIsIf(t, "is(P0,json.Delim)") || !tIsLeaf(t.els, "P0", "nil") || t.then == nil || t.then.kind != "if" {
		return unknown()
	}
	o := t.then
	pre := "eq(as(P0,json.Delim),"
	if !strings.HasPrefix(o.cond, pre) || o.els == nil || o.els.kind != "if" || !strings.HasPrefix(o.els.cond, pre) {
		return unknown()
	}
	od, ok1 := constOf(o.cond[len(pre):len(o.cond)-1], "json.Delim")
	ad, ok2 := constOf(o.els.cond[len(pre):len(o.els.cond)-1], "json.Delim")
	if !ok1 || !ok2 || o.then == nil || o.then.kind != "call" || o.then.next == nil || o.then.next.kind != "call" || o.els.then == nil || o.els.then.kind != "call" {
		return unknown()
	}
	newRow, ok1 := pkgFunc(o.then.fn, pkg)
	members, ok2 := methodName(o.then.next.fn)
	elements, ok3 := pkgFunc(o.els.then.fn, pkg)
	if !ok1 || !ok2 || !ok3 {
		return unknown()
	}
	r2 := "assert(res#1,*" + c.rx.rowType + ")"
	want := fmt.Sprintf("if is(P0,json.Delim) {if %s {call#1 %s.%s(); call#2 .%s(%s,P1); if isnil(res#2) {return [%s,nil]} else {return [nil,res#2]}} else {if %s {call#1 %s.%s(P1); if isnil(err#1) {return [res#1,nil]} else {return [nil,err#1]}} else {return [nil,ERR(nowrap)]}}} else {return [P0,nil]}",
		o.cond, pkg, newRow, members, r2, r2, o.els.cond, pkg, elements)
	if t.String() != want {
		return unknown()
	}
	return fmt.Sprintf("(.scalarObjectArray %s %s %s %s %s)", od, lstr(newRow), lstr(members), ad, lstr(elements))
}

var getterRe = regexp.MustCompile(`^call#1 \.(\w+)\(R,P0\); call#2 cast\.(\w+)\(res#1\); return \[(as|assert)\(res#2,([^()]+)\)\]$`)

func (c *rfc) getterNames() []string {
	var out []string
	for k, fd := range c.rx.x.funcs {
		if !strings.HasPrefix(k, c.rx.rowType+".Get") || countResults(fd) != 1 || c.nparams(fd.Name.Name) != 1 {
			continue
		}
		rt := c.rx.x.typeExprStr(fd.Type.Results.List[0].Type)
		pt := c.rx.x.typeExprStr(fd.Type.Params.List[0].Type)
		if pt != "string" || rt == "interface{}" || rt == "any" {
			continue
		}
		out = append(out, fd.Name.Name)
	}
	sort.Strings(out)
	return out
}

func (c *rfc) getter(name string) string {
	t := c.tree(name)
	if m := getterRe.FindStringSubmatch(t.String()); m != nil {
		fd := c.rx.x.funcs[c.method(name)]
		if c.rx.x.typeExprStr(fd.Type.Results.List[0].Type) == m[4] {
			kind := ".castCommaOk"
			if m[3] == "assert" {
				kind = ".castAssert"
			}
			return fmt.Sprintf("(%s %s %s %s)", kind, lstr(m[1]), lstr(m[2]), lstr(m[4]))
		}
	}
	return c.unknown(name, t)
}

func (c *rfc) mapTo() string {
	t := c.tree("MapTo")
	unknown := func() string { return c.unknown("MapTo", t) }
	pkg := c.rx.p.pkg.Name()
	// the guard
	if !tIsCall(t, 1, "reflect.ValueOf", "P0") || !tIsCall(t.next, 2, ".Kind", "res#1") || t.next.next == nil || t.next.next.kind != "if" {
		return unknown()
	}
	g := t.next.next
	if !strings.HasPrefix(g.cond, "eq(") || !strings.HasSuffix(g.cond, ",res#2)") || !tIsLeaf(g.els) {
		return unknown()
	}
	ptr, ok := constOf(g.cond[3:len(g.cond)-len(",res#2)")], "reflect.Kind")
	if !ok || !tIsCall(g.then, 3, ".IsNil", "res#1") || !tIsIf(g.then.next, "true(res#3)") || !tIsLeaf(g.then.next.then) {
		return unknown()
	}
	e := g.then.next.els
	if !tIsCall(e, 4, ".Elem", "res#1") || !tIsCall(e.next, 5, ".Kind", "res#4") || e.next.next == nil || e.next.next.kind != "if" {
		return unknown()
	}
	sg := e.next.next
	if !strings.HasPrefix(sg.cond, "eq(") || !strings.HasSuffix(sg.cond, ",res#5)") || !tIsLeaf(sg.els) {
		return unknown()
	}
	str, ok := constOf(sg.cond[3:len(sg.cond)-len(",res#5)")], "reflect.Kind")
	if !ok || !tIsCall(sg.then, 6, ".Elem", "res#1") || !tIsCall(sg.then.next, 7, ".Type", "res#6") || !tIsCall(sg.then.next.next, 8, ".NumField", "res#7") {
		return unknown()
	}
	l := sg.then.next.next.next
	if l == nil || l.kind != "loop" || l.cond != fmt.Sprintf("count(res#8) as I%d", l.id) || !tIsLeaf(l.next) {
		return unknown()
	}
	I := fmt.Sprintf("I%d", l.id)
	b := l.then
	if !tIsCall(b, 9, ".Field", "res#6", I) || !tIsCall(b.next, 10, ".CanSet", "res#9") || !tIsIf(b.next.next, "true(res#10)") || !tIsLeaf(b.next.next.els, "<continue>") {
		return unknown()
	}
	f := b.next.next.then
	if !tIsCall(f, 11, ".Field", "res#7", I) || f.next == nil || f.next.kind != "call" || f.next.id != 12 || !eqStrs(f.next.args, []string{"res#11.Name"}) {
		return unknown()
	}
	key, ok1 := pkgFunc(f.next.fn, pkg)
	lk := f.next.next
	if !ok1 || lk == nil || lk.kind != "call" || lk.id != 13 || !eqStrs(lk.args, []string{"R", "res#12"}) || !tIsIf(lk.next, "true(err#13)") || !tIsLeaf(lk.next.els, "<continue>") {
		return unknown()
	}
	lookup, ok := methodName(lk.fn)
	if !ok {
		return unknown()
	}
	cont := "return [<continue>] with {}"
	var cases []string
	cur := lk.next.then
	for cur != nil && cur.kind == "if" && strings.HasPrefix(cur.cond, "is(res#13,") {
		ty := cur.cond[len("is(res#13,") : len(cur.cond)-1]
		body := cur.then
		mc := ""
		bs := body.String()
		switch {
		case body.kind == "call" && body.id == 14 && strings.HasPrefix(body.fn, "cast.") && eqStrs(body.args, []string{"res#13"}) &&
			body.next != nil && body.next.kind == "call" && tIsIf(body.next.next, "true(res#15)") && body.next.next.then.kind == "call":
			caster := strings.TrimPrefix(body.fn, "cast.")
			can, ok1 := methodName(body.next.fn)
			set := body.next.next.then
			setter, ok2 := methodName(set.fn)
			if ok1 && ok2 && len(set.args) == 2 && strings.HasPrefix(set.args[1], "assert(res#14,") {
				asserted := set.args[1][len("assert(res#14,") : len(set.args[1])-1]
				if bs == fmt.Sprintf("call#14 cast.%s(res#13); call#15 .%s(res#9); if true(res#15) {call#16 .%s(res#9,assert(res#14,%s)); %s} else {%s}", caster, can, setter, asserted, cont, cont) {
					mc = fmt.Sprintf("(.viaCast %s %s %s %s)", lstr(caster), lstr(can), lstr(setter), lstr(asserted))
				}
			}
		case body.kind == "call" && body.id == 14 && eqStrs(body.args, []string{"res#9"}) && tIsIf(body.next, "true(res#14)") &&
			body.next.then != nil && body.next.then.kind == "call" && strings.HasPrefix(body.next.then.fn, "cast.") && body.next.then.next != nil && body.next.then.next.kind == "call":
			// the guard first, the cast under it (the cast has no effect: the same thing)
			can, ok1 := methodName(body.fn)
			caster := strings.TrimPrefix(body.next.then.fn, "cast.")
			set := body.next.then.next
			setter, ok2 := methodName(set.fn)
			if ok1 && ok2 && can != "Kind" && len(set.args) == 2 && strings.HasPrefix(set.args[1], "assert(res#15,") {
				asserted := set.args[1][len("assert(res#15,") : len(set.args[1])-1]
				if bs == fmt.Sprintf("call#14 .%s(res#9); if true(res#14) {call#15 cast.%s(res#13); call#16 .%s(res#9,assert(res#15,%s)); %s} else {%s}", can, caster, setter, asserted, cont, cont) {
					mc = fmt.Sprintf("(.guardThenCast %s %s %s %s)", lstr(caster), lstr(can), lstr(setter), lstr(asserted))
				}
			}
		case tIsCall(body, 14, ".Kind", "res#9") && body.next != nil && body.next.kind == "if" && strings.HasPrefix(body.next.cond, "eq(") && strings.HasSuffix(body.next.cond, ",res#14)"):
			kind, ok := constOf(body.next.cond[3:len(body.next.cond)-len(",res#14)")], "reflect.Kind")
			in := body.next.then
			if ok && in != nil && in.kind == "call" {
				if setter, ok := methodName(in.fn); ok && in.id == 15 &&
					bs == fmt.Sprintf("call#14 .Kind(res#9); if %s {call#15 .%s(res#9,as(res#13,%s)); %s} else {%s}", body.next.cond, setter, ty, cont, cont) {
					mc = fmt.Sprintf("(.whenKind %s %s)", kind, lstr(setter))
				} else if tIsCall(in, 15, ".Type", "res#9") && tIsCall(in.next, 16, ".Elem", "res#15") && tIsCall(in.next.next, 17, ".Kind", "res#16") {
					ei := in.next.next.next
					if ei != nil && ei.kind == "if" && strings.HasPrefix(ei.cond, "eq(") && strings.HasSuffix(ei.cond, ",res#17)") && ei.then != nil && ei.then.kind == "call" {
						elem, ok1 := constOf(ei.cond[3:len(ei.cond)-len(",res#17)")], "reflect.Kind")
						setter, ok2 := methodName(ei.then.fn)
						if ok1 && ok2 && bs == fmt.Sprintf("call#14 .Kind(res#9); if %s {call#15 .Type(res#9); call#16 .Elem(res#15); call#17 .Kind(res#16); if %s {call#18 .%s(res#9,as(res#13,%s)); %s} else {%s}} else {%s}",
							body.next.cond, ei.cond, setter, ty, cont, cont, cont) {
							mc = fmt.Sprintf("(.whenSliceOf %s %s %s)", kind, elem, lstr(setter))
						}
					}
				}
			}
		}
		if mc == "" {
			mc = c.unknown("MapTo", body)
		}
		cases = append(cases, "("+lstr(ty)+", "+strings.TrimSuffix(strings.TrimPrefix(mc, "("), ")")+")")
		cur = cur.els
	}
	if !tIsLeaf(cur, "<continue>") {
		return unknown()
	}
	sort.Strings(cases) // the clauses list distinct dynamic types: their order says nothing
	return fmt.Sprintf("(.fields %s %s %s %s [\n      %s])", ptr, str, lstr(key), lstr(lookup), strings.Join(cases, ",\n      "))
}

func (c *rfc) copyFact(name string) string {
	t := c.tree(name)
	pkg := c.rx.p.pkg.Name()
	s := t.String()
	iterLoop := func(first int, recv string) (iter string, ok bool) {
		if t.kind != "call" || t.id != first || !eqStrs(t.args, []string{recv}) {
			return "", false
		}
		return methodName(t.fn)
	}
	switch name {
	case "CloneRow":
		if t.kind == "call" && t.id == 1 && len(t.args) == 0 && t.next != nil && t.next.kind == "call" && t.next.id == 2 && eqStrs(t.next.args, []string{"P0"}) {
			newRow, ok1 := pkgFunc(t.fn, pkg)
			iter, ok2 := methodName(t.next.fn)
			if l := t.next.next; ok1 && ok2 && l != nil && l.next != nil && l.next.kind == "loop" && l.next.then != nil && l.next.then.kind == "if" && l.next.then.then != nil && l.next.then.then.kind == "call" && l.next.then.then.next != nil {
				clone, ok3 := pkgFunc(l.next.then.then.fn, pkg)
				setter, ok4 := methodName(l.next.then.then.next.fn)
				if ok3 && ok4 && s == fmt.Sprintf("call#1 %s.%s(); call#2 .%s(P0); call#3 call(res#2); loop#1 forever from {v0=res#3.0,v1=res#3.1,v2=res#3.2} {if true(L1.v2) {call#4 %s.%s(L1.v1); call#5 .%s(res#1,L1.v0,res#4); call#6 call(res#2); return [<continue>] with {v0=res#6.0,v1=res#6.1,v2=res#6.2}} else {return [<break>] with {}}}; return [res#1]",
					pkg, newRow, iter, pkg, clone, setter) {
					return fmt.Sprintf("(.freshRowOfClones %s %s %s %s)", lstr(newRow), lstr(iter), lstr(setter), lstr(clone))
				}
			}
		}
	case "Raw":
		if iter, ok := iterLoop(1, "R"); ok && s == fmt.Sprintf("call#1 .%s(R); call#2 call(res#1); loop#1 forever from {v0=empty(map[string]interface{}),v1=res#2.0,v2=res#2.1,v3=res#2.2} {if true(L1.v3) {call#3 call(res#1); return [<continue>] with {v0=put(L1.v0,L1.v1,L1.v2),v1=res#3.0,v2=res#3.1,v3=res#3.2}} else {return [<break>] with {}}}; return [L1out.v0]", iter) {
			return "(.mapOf " + lstr(iter) + ")"
		}
	case "Export":
		if iter, ok := iterLoop(1, "R"); ok && s == fmt.Sprintf("call#1 .%s(R); call#2 call(res#1); loop#1 forever from {v0=empty(map[string]interface{}),v1=res#2.0,v2=res#2.1,v3=res#2.2} {if true(L1.v3) {call#3 .Export(L1.v2); if isnil(err#3) {call#4 call(res#1); return [<continue>] with {v0=put(L1.v0,L1.v1,res#3),v1=res#4.0,v2=res#4.1,v3=res#4.2}} else {return [nil,WRAP(err#3)]}} else {return [<break>] with {}}}; return [L1out.v0,nil]", iter) {
			return "(.mapOfExports " + lstr(iter) + ")"
		}
	}
	return c.unknown(name, t)
}

// ---------------------------------------------------------------------------------------------------
// the facts

// listUses: the methods called on a *list.List anywhere in the package (sorted, once each), and the number of
// `delete` calls on a map whose elements are Values or list elements.
func (rx *rowX) listUses() ([]string, int) {
	seen := map[string]bool{}
	deletes := 0
	for _, f := range rx.p.files {
		ast.Inspect(f, func(n ast.Node) bool {
			call, ok := n.(*ast.CallExpr)
			if !ok {
				return true
			}
			switch fun := ast.Unparen(call.Fun).(type) {
			case *ast.SelectorExpr:
				if tv, ok := rx.p.info.Types[fun.X]; ok && tv.Type != nil && !tv.IsType() && rx.x.typeStr(tv.Type) == "*list.List" {
					seen[fun.Sel.Name] = true
				}
			case *ast.Ident:
				if _, isB := rx.p.info.Uses[fun].(*types.Builtin); isB && fun.Name == "delete" && len(call.Args) == 2 {
					if tv, ok := rx.p.info.Types[call.Args[0]]; ok && tv.Type != nil && rx.fieldRole(tv.Type) != "" {
						deletes++
					}
				}
			}
			return true
		})
	}
	var out []string
	for m := range seen {
		out = append(out, m)
	}
	sort.Strings(out)
	return out, deletes
}

type rowFacts struct {
	text   string
	nFuncs int
	nU     int
	where  []string
}

func pairList(indent string, names []string, f func(string) string) string {
	var rows []string
	for _, n := range names {
		rows = append(rows, "("+lstr(n)+", "+strings.TrimSuffix(strings.TrimPrefix(f(n), "("), ")")+")")
	}
	return "[\n" + indent + strings.Join(rows, ",\n"+indent) + "]"
}

func rowFactsOf(p *pkgInfo) rowFacts {
	rx := newRowX(p)
	c := &rfc{rx: rx, auto: "?", seen: map[string]bool{}}
	if k, ok := p.pkg.Scope().Lookup("Auto").(*types.Const); ok {
		c.auto = k.Val().ExactString()
	}
	var b strings.Builder
	b.WriteString("-- GENERATED by extract/ from /repo/pkg/jsonline (row.go) on every run. Do not edit.\n")
	b.WriteString("import Model.RowFactsSyntax\n\nnamespace Jl.Gen\nopen Jl\n\n")
	b.WriteString("/-- What the functions of row.go do, function by function (Model.RowFactsSyntax says what each constructor stands for). -/\n")
	b.WriteString("def rowFacts : RowFacts :=\n")
	if rx.rowType == "" {
		c.where = append(c.where, "row")
	}
	newRow := ".emptyListAndMaps"
	if t := c.tree("NewRow"); t.String() != fmt.Sprintf("call#1 list.New(); return [&%s{keys=empty(map[string]*list.Element),l=res#1,m=empty(map[string]Value)}]", rx.rowType) {
		newRow = c.unknown("NewRow", t)
	}
	selfFormat := "none"
	if t := c.tree("GetFormat"); t.kind == "leaf" && len(t.rets) == 1 {
		if v, ok := constOf(t.rets[0], "Format"); ok {
			selfFormat = "(some " + v + ")"
		}
	}
	if selfFormat == "none" {
		c.where = append(c.where, "GetFormat")
	}
	selfRaw := "false"
	if t := c.tree("GetRawType"); tIsLeaf(t, "nil") {
		selfRaw = "true"
	}
	listMethods, deletes := rx.listUses()
	b.WriteString("  { newRow := " + newRow + ",\n")
	for i := range listMethods {
		listMethods[i] = lstr(listMethods[i])
	}
	b.WriteString("    listMethods := [" + strings.Join(listMethods, ", ") + "],\n")
	b.WriteString(fmt.Sprintf("    mapDeletes := %d,\n", deletes))
	b.WriteString("    selfFormat := " + selfFormat + ",\n")
	b.WriteString("    selfRawTypeNil := " + selfRaw + ",\n")
	gv := c.method("GetValue")
	b.WriteString("    set := " + c.keyed("Set", c.tree("Set", gv), "P0", "P1", 0, "return []") + ",\n")
	b.WriteString("    setValue := " + c.keyed("SetValue", c.tree("SetValue", gv), "P0", "P1", 0, "return [R]") + ",\n")
	b.WriteString("    importAtKey := " + c.keyed("ImportAtKey", c.tree("ImportAtKey", gv), "P0", "P1", 0, "return [nil]") + ",\n")
	b.WriteString("    positional := " + pairList("      ", []string{"SetAtIndex", "SetValueAtIndex", "ImportAtIndex", "GetAtIndex", "GetAtIndexOrNil", "GetValueAtIndex"}, c.delegate) + ",\n")
	b.WriteString("    importKinds := " + c.importFact() + ",\n")
	b.WriteString("    importAtPath := " + c.importAtPath() + ",\n")
	b.WriteString("    readers := " + pairList("      ", []string{"Has", "Get", "GetOrNil", "GetValue", "Len", "GetAtPath", "GetAtPathOrNil"}, c.reader) + ",\n")
	b.WriteString("    iterators := " + pairList("      ", []string{"IterValues", "Iter"}, c.iterator) + ",\n")
	b.WriteString("    getValueAtPath := " + c.getValueAtPath() + ",\n")
	b.WriteString("    asRow := " + c.asRow() + ",\n")
	b.WriteString("    findValuesAtPath := " + c.findValues() + ",\n")
	b.WriteString("    marshal := " + c.marshal() + ",\n")
	b.WriteString("    unmarshal := " + c.unmarshal() + ",\n")
	b.WriteString("    parseObject := " + c.parseObject() + ",\n")
	b.WriteString("    parseArray := " + c.parseArray() + ",\n")
	b.WriteString("    handleDelim := " + c.handleDelim() + ",\n")
	b.WriteString("    getters := " + pairList("      ", c.getterNames(), c.getter) + ",\n")
	b.WriteString("    mapTo := " + c.mapTo() + ",\n")
	b.WriteString("    copies := " + pairList("      ", []string{"CloneRow", "Raw", "Export"}, c.copyFact) + " }\n\n")
	b.WriteString("end Jl.Gen\n")
	text := b.String()
	nU := strings.Count(text, ".unknown") + strings.Count(text, ".other ")
	if selfFormat == "none" {
		nU++
	}
	return rowFacts{text: text, nFuncs: len(c.seen), nU: nU, where: c.where}
}
