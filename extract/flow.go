package main

// flow.go — translator for pkg/jsonline's template.go, exporter.go, importer.go and streamer.go
// (Gen/FlowTable.lean, in the syntax of Model.FlowSyntax).
//
// How it reads the source.  Every function of the four files is run by the symbolic executor of value.go
// (valX) — the receiver is R with its fields R.<field>, the parameters are P0, P1 …, a call that is not inlined
// is a numbered node of the tree, a test is an `if` node, a return is a leaf holding the returned symbols and the
// receiver's fields at that point.  flow.go adds to the executor, through the hooks valX offers:
//
//	loops        `for init; cond; post { B }` and `for k, v := range x { B }` become a node
//	             loop <header> {body} then {what follows the loop}; the body is run ONCE, its leaves are NEXT (next
//	             iteration), BREAK, or a return.  The condition is the first thing of the body (`if !cond { break }`),
//	             so `for c() { B }` and `for { if !c() { break }; B }` are the same tree; `for a := f(); c; a = f()`
//	             (init and post the same assignment) is `for { a := f(); if !c { break } … }`.  A local variable a loop
//	             assigns and that was declared outside it is an opaque symbol lv#… at the head of the loop (so anything
//	             that depends on it is not recognised); a loop that writes a field is UNKNOWN.
//	type switches whose cases are mutually exclusive are run with their cases sorted by type, so the order of the
//	             cases in the source does not show; otherwise the order of the source is kept.
//	calls        of a function held by a field or a local (`s.processor(…)`, `iter()`) are nodes `()(<the function>, args…)`;
//	             append / make / len / cap are values; a call inside fmt.Errorf's arguments is a node.
//	fields       of the structs of the four files are named by their type (io.Reader → r, *bufio.Scanner → s, Template → t,
//	             io.Writer → w, Row → empty …): renaming a field changes nothing, storing into ANOTHER field does.
//	hoisting     `g(x, f(y))`, f a helper of the four files with a body of several statements, is run as `tmp := f(y);
//	             g(x, tmp)` with f inlined — only when nothing but plain values is evaluated before f(y).
//	idiom        a helper `func(b []byte) []byte` that copies b into a fresh buffer of len(b)+1 and sets the last byte to a
//	             constant c is the value append(b, c) (appendsOneByte: two spellings, anything else is not recognised).
//	inlining     only functions of the four files (and not their New… constructors) are inlined; the constructors
//	             of cells (`func NewValueX(v) Value { return &value{…} }`) are their literal.  Everything else
//	             (CloneRow, NewRow, NewValue, NewTemplate …) is an opaque call `jsonline.<name>(args)`.
//
// The tree of each function is then CLASSIFIED against the shapes of Model.FlowSyntax by tree patterns (pc, pif,
// pret, ploop … below: a call with its arguments, a test, a return with the receiver's fields, a loop; `$x` in a
// pattern is a variable).  A tree of no known shape is emitted as `.unknown "<the tree>"`, never guessed.  The
// builders are listed sorted by name and CreateRow's cases in the order of Model.FlowSyntax's InputKind, so the
// order of the source does not show.  FLOWDEBUG=1 prints the tree of every function of the four files.
//
// What is taken for granted, beyond value.go's list: the methods called on interface values (Row.SetValue,
// Template.CreateRow, io.Writer.Write, bufio.Scanner.Scan …) are opaque — what they do is the business of the other
// tables and of the model; a range loop's header is evaluated once; `append` yields a value and does not
// write to its argument.

import (
	"fmt"
	"go/ast"
	"go/token"
	"go/types"
	"path/filepath"
	"regexp"
	"sort"
	"strconv"
	"strings"
)

var flowFiles = map[string]bool{"template.go": true, "exporter.go": true, "importer.go": true, "streamer.go": true}

type flowLoopCtx struct {
	post ast.Stmt
	objs []types.Object // the outer variables the loop assigns
}

type flowX struct {
	x         *valX
	p         *pkgInfo
	cellRoles map[string]string
	loops     map[*vframe]*flowLoopCtx
	hoisted   map[ast.Stmt][]ast.Stmt // statement -> the `tmp := f(…)` assignments taken out of it
	markers   map[ast.Stmt]ast.Stmt   // marker -> the statement that follows it (its assignments are done)
	pass      map[ast.Stmt]bool       // the statement was reached through its marker
	nhoist    int
	carried   bool                         // NEXT and BREAK show the values of the variables the loop assigns (jlfacts.go)
	roleOf    map[string]map[string]string // struct type -> field name -> role (by the field's type)
	done      map[ast.Stmt]bool
	nextMark  *ast.BranchStmt
}

func (fx *flowX) fileOf(n ast.Node) string {
	return filepath.Base(fx.p.fset.Position(n.Pos()).Filename)
}

// cellCtor: `func F(…) Value { return &value{…} }` — a constructor of cells, used as its literal.
func (fx *flowX) cellCtor(fd *ast.FuncDecl) bool {
	if fd.Recv != nil || fd.Body == nil || len(fd.Body.List) != 1 {
		return false
	}
	r, ok := fd.Body.List[0].(*ast.ReturnStmt)
	if !ok || len(r.Results) != 1 {
		return false
	}
	e := ast.Unparen(r.Results[0])
	if u, ok := e.(*ast.UnaryExpr); ok && u.Op == token.AND {
		e = ast.Unparen(u.X)
	}
	cl, ok := e.(*ast.CompositeLit)
	if !ok {
		return false
	}
	tv, ok := fx.p.info.Types[cl]
	return ok && tv.Type != nil && fx.x.cellType != "" && fx.x.typeStr(tv.Type) == fx.x.cellType
}

func newFlowX(p *pkgInfo) *flowX {
	x := newValX(p)
	fx := &flowX{x: x, p: p, cellRoles: x.roles, loops: map[*vframe]*flowLoopCtx{}, done: map[ast.Stmt]bool{},
		nextMark: &ast.BranchStmt{Tok: token.CONTINUE}}
	x.wrapCalls, x.funcValues, x.loopBranches = true, true, true
	x.stmtHook, x.callHook = fx.stmtHook, fx.callHook
	fx.hoisted, fx.markers, fx.pass = map[ast.Stmt][]ast.Stmt{}, map[ast.Stmt]ast.Stmt{}, map[ast.Stmt]bool{}
	fx.roleOf = map[string]map[string]string{}
	flowCanon = fx.canonComposite
	for _, f := range p.files {
		if !flowFiles[fx.fileOf(f)] {
			continue
		}
		for _, d := range f.Decls {
			gd, ok := d.(*ast.GenDecl)
			if !ok || gd.Tok != token.TYPE {
				continue
			}
			for _, sp := range gd.Specs {
				ts := sp.(*ast.TypeSpec)
				obj, ok := p.pkg.Scope().Lookup(ts.Name.Name).(*types.TypeName)
				if !ok {
					continue
				}
				if stt, ok := obj.Type().Underlying().(*types.Struct); ok {
					fx.roleOf[ts.Name.Name] = fx.fieldRoles(stt)
				}
			}
		}
	}
	for key, fd := range x.funcs {
		in := flowFiles[fx.fileOf(fd)]
		switch {
		case !in && !fx.cellCtor(fd):
			x.noInline[key] = true
		case in && fd.Recv == nil && strings.HasPrefix(fd.Name.Name, "New"):
			x.noInline[key] = true
		}
	}
	return fx
}

// ---------------------------------------------------------------------------------------------------
// trees: text, merging

func flowText(t *vtree) string {
	if t == nil {
		return "<nil>"
	}
	switch t.kind {
	case "call":
		return fmt.Sprintf("call#%d %s(%s); %s", t.id, t.fn, strings.Join(t.args, ","), flowText(t.next))
	case "if":
		return fmt.Sprintf("if %s {%s} else {%s}", t.cond, flowText(t.then), flowText(t.els))
	case "loop":
		h := t.cond
		if h != "" {
			h += " "
		}
		return fmt.Sprintf("loop %s{%s} then {%s}", h, flowText(t.then), flowText(t.next))
	case "next":
		if len(t.rets) > 0 {
			return "NEXT[" + strings.Join(t.rets, ",") + "]"
		}
		return "NEXT"
	case "break":
		if len(t.rets) > 0 {
			return "BREAK[" + strings.Join(t.rets, ",") + "]"
		}
		return "BREAK"
	}
	return t.String()
}

// flowMerged is vtree.merged extended to loops.
func flowMerged(t *vtree) *vtree {
	if t == nil {
		return t
	}
	switch t.kind {
	case "call":
		t.next = flowMerged(t.next)
	case "loop":
		t.then, t.next = flowMerged(t.then), flowMerged(t.next)
	case "if":
		t.then, t.els = flowMerged(t.then), flowMerged(t.els)
		return t.merged() // both branches are merged already: only the node itself can change
	}
	return t
}

func maxCallID(t *vtree) int {
	if t == nil {
		return 0
	}
	m := 0
	up := func(n int) {
		if n > m {
			m = n
		}
	}
	switch t.kind {
	case "call":
		up(t.id)
		up(maxCallID(t.next))
	case "if":
		up(maxCallID(t.then))
		up(maxCallID(t.els))
	case "loop":
		up(maxCallID(t.then))
		up(maxCallID(t.next))
	}
	return m
}

// ---------------------------------------------------------------------------------------------------
// hooks

func (fx *flowX) unk(format string, a ...interface{}) *vtree { return vunknown(format, a...) }

// sameAssign: init `a, b := f()` and post `a, b = f()` assign the same right-hand side to the same variables,
// and the right-hand side does not mention them.
func (fx *flowX) sameAssign(init, post ast.Stmt) bool {
	a, ok1 := init.(*ast.AssignStmt)
	b, ok2 := post.(*ast.AssignStmt)
	if !ok1 || !ok2 || len(a.Lhs) != len(b.Lhs) || len(a.Rhs) != len(b.Rhs) {
		return false
	}
	if (a.Tok != token.DEFINE && a.Tok != token.ASSIGN) || b.Tok != token.ASSIGN {
		return false
	}
	objs := map[types.Object]bool{}
	for i := range a.Lhs {
		ia, ok1 := a.Lhs[i].(*ast.Ident)
		ib, ok2 := b.Lhs[i].(*ast.Ident)
		if !ok1 || !ok2 {
			return false
		}
		oa := fx.p.info.Defs[ia]
		if oa == nil {
			oa = fx.p.info.Uses[ia]
		}
		ob := fx.p.info.Uses[ib]
		if ia.Name == "_" && ib.Name == "_" {
			continue
		}
		if oa == nil || oa != ob {
			return false
		}
		objs[oa] = true
	}
	for i := range a.Rhs {
		if fx.p.text(a.Rhs[i]) != fx.p.text(b.Rhs[i]) {
			return false
		}
		mentions := false
		for _, r := range []ast.Expr{a.Rhs[i], b.Rhs[i]} {
			ast.Inspect(r, func(n ast.Node) bool {
				if id, ok := n.(*ast.Ident); ok && objs[fx.p.info.Uses[id]] {
					mentions = true
				}
				return !mentions
			})
		}
		if mentions {
			return false
		}
	}
	return true
}

// assignedOuter lists the local variables declared outside [lo,hi) that the nodes assign; bad = something else
// than a local variable is written (a field, an element, through a pointer) or a closure is made.
func (fx *flowX) assignedOuter(nodes []ast.Node, lo, hi token.Pos) (objs []types.Object, bad bool) {
	seen := map[types.Object]bool{}
	lhs := func(e ast.Expr) {
		id, ok := ast.Unparen(e).(*ast.Ident)
		if !ok {
			bad = true
			return
		}
		if id.Name == "_" {
			return
		}
		obj := fx.p.info.Defs[id]
		if obj == nil {
			obj = fx.p.info.Uses[id]
		}
		if obj == nil && id.Pos() >= lo && id.Pos() < hi {
			return // the symbol of a type switch inside the loop: one implicit object per clause
		}
		v, isVar := obj.(*types.Var)
		if !isVar {
			bad = true
			return
		}
		if v.Pos() >= lo && v.Pos() < hi {
			return
		}
		if !seen[obj] {
			seen[obj] = true
			objs = append(objs, obj)
		}
	}
	for _, n := range nodes {
		if n == nil {
			continue
		}
		ast.Inspect(n, func(n ast.Node) bool {
			switch s := n.(type) {
			case *ast.AssignStmt:
				for _, l := range s.Lhs {
					lhs(l)
				}
			case *ast.IncDecStmt:
				lhs(s.X)
			case *ast.RangeStmt:
				if s.Tok == token.ASSIGN {
					if s.Key != nil {
						lhs(s.Key)
					}
					if s.Value != nil {
						lhs(s.Value)
					}
				}
			case *ast.FuncLit:
				bad = true
			case *ast.UnaryExpr:
				if s.Op == token.AND {
					if _, isLit := ast.Unparen(s.X).(*ast.CompositeLit); !isLit {
						bad = true
					}
				}
			}
			return true
		})
	}
	return objs, bad
}

func (fx *flowX) notCondBreak(cond ast.Expr) ast.Stmt {
	return &ast.IfStmt{Cond: &ast.UnaryExpr{Op: token.NOT, X: cond},
		Body: &ast.BlockStmt{List: []ast.Stmt{&ast.BranchStmt{Tok: token.BREAK}}}}
}

func (fx *flowX) loop(hdr string, bind func(*vstate) bool, body []ast.Stmt, post ast.Stmt, whole ast.Node, rest []ast.Stmt, st *vstate, fr *vframe) *vtree {
	x := fx.x
	nodes := []ast.Node{}
	for _, s := range body {
		nodes = append(nodes, s)
	}
	if post != nil {
		nodes = append(nodes, post)
	}
	if r, ok := whole.(*ast.RangeStmt); ok && r.Tok == token.ASSIGN {
		nodes = append(nodes, &ast.RangeStmt{Key: r.Key, Value: r.Value, Tok: r.Tok, X: &ast.Ident{Name: "_"}, Body: &ast.BlockStmt{}})
	}
	objs, bad := fx.assignedOuter(nodes, whole.Pos(), whole.End())
	if bad {
		return fx.unk("a loop that writes something else than its own local variables: %s", fx.p.text(whole))
	}
	at := st.ncall
	for i, obj := range objs {
		st.vars[obj] = fmt.Sprintf("lv#%d.%d", at, i)
	}
	head := st.clone()
	if bind != nil && !bind(st) {
		return fx.unk("%s", fx.p.text(whole))
	}
	fr2 := &vframe{nres: fr.nres, named: fr.named, ret: fr.ret, stack: fr.stack}
	fx.loops[fr2] = &flowLoopCtx{post: post, objs: objs}
	stmts := vconcat(body, nil)
	if post != nil {
		stmts = append(stmts, post)
	}
	stmts = append(stmts, fx.nextMark)
	bodyTree := x.exec(stmts, st, fr2)
	if m := maxCallID(bodyTree); m > head.ncall {
		head.ncall = m
	}
	after := x.exec(rest, head, fr)
	return &vtree{kind: "loop", cond: hdr, then: bodyTree, next: after}
}

// exclusive: no value can match both case types.
func (fx *flowX) exclusive(a, b types.Type) bool {
	if a == nil || b == nil {
		return true // the nil case matches the nil interface only
	}
	ia, aIsI := a.Underlying().(*types.Interface)
	ib, bIsI := b.Underlying().(*types.Interface)
	switch {
	case aIsI && bIsI:
		return false
	case aIsI:
		return !types.Implements(b, ia)
	case bIsI:
		return !types.Implements(a, ib)
	}
	return !types.Identical(a, b)
}

// sortedSwitch: the type switch with its clauses sorted by type, when the order cannot matter.
func (fx *flowX) sortedSwitch(n *ast.TypeSwitchStmt) *ast.TypeSwitchStmt {
	type clause struct {
		cc  *ast.CaseClause
		key string
	}
	var all []types.Type
	var cs []clause
	for _, c := range n.Body.List {
		cc, ok := c.(*ast.CaseClause)
		if !ok {
			return nil
		}
		if cc.List == nil {
			cs = append(cs, clause{cc, "\xff"})
			continue
		}
		var names []string
		for _, e := range cc.List {
			tv, ok := fx.p.info.Types[e]
			if !ok {
				return nil
			}
			var t types.Type
			if !tv.IsNil() {
				t = tv.Type
				if t == nil {
					return nil
				}
				if b, isBasic := t.(*types.Basic); isBasic && b.Kind() == types.Invalid {
					return nil
				}
			}
			for _, o := range all {
				if !fx.exclusive(o, t) {
					return nil
				}
			}
			all = append(all, t)
			names = append(names, fx.x.typeExprStr(e))
		}
		sorted := append([]string{}, names...)
		sort.Strings(sorted)
		c2 := *cc
		c2.List = make([]ast.Expr, len(cc.List))
		used := make([]bool, len(names))
		for i, s := range sorted {
			for j, nm := range names {
				if nm == s && !used[j] {
					used[j] = true
					c2.List[i] = cc.List[j]
					break
				}
			}
		}
		cs = append(cs, clause{&c2, sorted[0]})
	}
	sort.SliceStable(cs, func(i, j int) bool { return cs[i].key < cs[j].key })
	cp := *n
	body := *n.Body
	body.List = make([]ast.Stmt, len(cs))
	for i, c := range cs {
		body.List[i] = c.cc
	}
	cp.Body = &body
	return &cp
}

// The fields of the structs of the four files are named by their TYPE (a field's name is free, what it holds is
// not): `r io.Reader`, `reader io.Reader` … are all R.r.  Two fields of one type keep their names.
var flowRoleByType = map[string]string{"io.Reader": "r", "*bufio.Scanner": "s", "Template": "t", "io.Writer": "w", "Row": "empty",
	"Importer": "importer", "Exporter": "exporter", "Processor": "processor"}

func (fx *flowX) fieldRoles(stt *types.Struct) map[string]string {
	count := map[string]int{}
	for i := 0; i < stt.NumFields(); i++ {
		count[fx.x.typeStr(stt.Field(i).Type())]++
	}
	roles := map[string]string{}
	for i := 0; i < stt.NumFields(); i++ {
		f := stt.Field(i)
		roles[f.Name()] = f.Name()
		if r, ok := flowRoleByType[fx.x.typeStr(f.Type())]; ok && count[fx.x.typeStr(f.Type())] == 1 {
			roles[f.Name()] = r
		}
	}
	// a role must not be taken by another field's own name
	seen := map[string]int{}
	for _, r := range roles {
		seen[r]++
	}
	for n, r := range roles {
		if seen[r] > 1 {
			roles[n] = n
		}
	}
	return roles
}

// flowCanon rewrites the literal of a struct of the four files with its fields named by role (set by newFlowX).
var flowCanon = func(s string) string { return s }

func flowSplitTop(s string) []string {
	var parts []string
	depth, last := 0, 0
	for i := 0; i < len(s); i++ {
		switch s[i] {
		case '(', '{', '[':
			depth++
		case ')', '}', ']':
			depth--
		case ',':
			if depth == 0 {
				parts = append(parts, s[last:i])
				last = i + 1
			}
		}
	}
	return append(parts, s[last:])
}

var flowLitRe = regexp.MustCompile(`^&?(\w+)\{(.*)\}$`)

func (fx *flowX) canonComposite(sym string) string {
	m := flowLitRe.FindStringSubmatch(sym)
	if m == nil || m[2] == "" {
		return sym
	}
	roles, ok := fx.roleOf[m[1]]
	if !ok {
		return sym
	}
	vals := map[string]string{}
	for _, kv := range flowSplitTop(m[2]) {
		i := strings.Index(kv, "=")
		if i < 0 {
			return sym
		}
		k := kv[:i]
		if r, ok := roles[k]; ok {
			k = r
		}
		vals[k] = fx.canonComposite(kv[i+1:])
	}
	return sym[:strings.Index(sym, "{")] + "{" + fieldsText(vals) + "}"
}

// ---------------------------------------------------------------------------------------------------
// hoisting: `g(x, f(y))` with f a function of the four files that has a body of several statements is run as
// `tmp := f(y); g(x, tmp)` (f inlined), when nothing is evaluated before f(y) but f's own arguments and plain values.

// hoistable finds the first such call of the statement and the slot that holds it.
func (fx *flowX) hoistable(s ast.Stmt, st *vstate, fr *vframe) (call *ast.CallExpr, slot *ast.Expr) {
	var direct ast.Expr // the call exec inlines by itself
	var roots []*ast.Expr
	switch n := s.(type) {
	case *ast.ExprStmt:
		direct = n.X
		roots = append(roots, &n.X)
	case *ast.AssignStmt:
		if len(n.Rhs) == 1 {
			direct = n.Rhs[0]
		}
		for _, l := range n.Lhs {
			if _, ok := l.(*ast.Ident); !ok {
				return nil, nil
			}
		}
		for i := range n.Rhs {
			roots = append(roots, &n.Rhs[i])
		}
	case *ast.ReturnStmt:
		if len(n.Results) == 1 {
			direct = n.Results[0]
		}
		for i := range n.Results {
			roots = append(roots, &n.Results[i])
		}
	default:
		return nil, nil
	}
	seen, depth, stop := 0, 0, false
	var walk func(e *ast.Expr)
	walk = func(e *ast.Expr) {
		if stop || *e == nil {
			return
		}
		switch n := (*e).(type) {
		case *ast.CallExpr:
			if tv, ok := fx.p.info.Types[n.Fun]; ok && tv.IsType() {
				for i := range n.Args {
					walk(&n.Args[i])
				}
				return
			}
			if *e != direct && seen == depth {
				if _, fd := fx.x.inlinable(n, st, fr); fd != nil && countResults(fd) == 1 && !n.Ellipsis.IsValid() {
					_, oneExpr := fd.Body.List[0].(*ast.ReturnStmt)
					if !(len(fd.Body.List) == 1 && oneExpr && fd.Recv == nil) && fx.appendsOneByte(fd) == nil {
						call, slot, stop = n, e, true
						return
					}
				}
			}
			seen++
			depth++
			walk(&n.Fun)
			for i := range n.Args {
				walk(&n.Args[i])
			}
			depth--
		case *ast.SelectorExpr:
			walk(&n.X)
		case *ast.ParenExpr:
			walk(&n.X)
		case *ast.UnaryExpr:
			walk(&n.X)
		case *ast.StarExpr:
			walk(&n.X)
		case *ast.TypeAssertExpr:
			walk(&n.X)
		case *ast.BinaryExpr:
			if n.Op == token.LAND || n.Op == token.LOR {
				walk(&n.X) // the right operand is not always evaluated
				stop = true
				return
			}
			walk(&n.X)
			walk(&n.Y)
		case *ast.IndexExpr:
			walk(&n.X)
			walk(&n.Index)
		case *ast.KeyValueExpr:
			walk(&n.Value)
		case *ast.CompositeLit:
			for i := range n.Elts {
				walk(&n.Elts[i])
			}
		case *ast.Ident, *ast.BasicLit:
		default:
			stop = true
		}
	}
	for _, r := range roots {
		walk(r)
	}
	return call, slot
}

func (fx *flowX) hoist(s ast.Stmt, rest []ast.Stmt, st *vstate, fr *vframe) *vtree {
	switch s.(type) {
	case *ast.ExprStmt, *ast.AssignStmt, *ast.ReturnStmt:
	default:
		return nil
	}
	arrived := fx.pass[s]
	delete(fx.pass, s)
	var todo []ast.Stmt
	if !arrived {
		todo = append(todo, fx.hoisted[s]...)
	}
	for {
		call, slot := fx.hoistable(s, st, fr)
		if call == nil {
			break
		}
		tv, ok := fx.p.info.Types[call]
		if !ok || tv.Type == nil {
			break
		}
		fx.nhoist++
		name := fmt.Sprintf("hoisted%d", fx.nhoist)
		obj := types.NewVar(call.Pos(), fx.p.pkg, name, tv.Type)
		def, use := &ast.Ident{NamePos: call.Pos(), Name: name}, &ast.Ident{NamePos: call.Pos(), Name: name}
		fx.p.info.Defs[def], fx.p.info.Uses[use] = obj, obj
		*slot = use
		a := &ast.AssignStmt{Lhs: []ast.Expr{def}, TokPos: call.Pos(), Tok: token.DEFINE, Rhs: []ast.Expr{call}}
		fx.hoisted[s] = append(fx.hoisted[s], a)
		todo = append(todo, a)
	}
	if len(todo) == 0 {
		return nil
	}
	mark := &ast.EmptyStmt{Semicolon: s.Pos()}
	fx.markers[mark] = s
	return fx.x.exec(vconcat(append(todo, mark, s), rest), st, fr)
}

func (fx *flowX) stmtHook(s ast.Stmt, rest []ast.Stmt, st *vstate, fr *vframe) *vtree {
	x := fx.x
	if m, ok := s.(*ast.EmptyStmt); ok {
		if target, ok := fx.markers[m]; ok {
			fx.pass[target] = true
			return x.exec(rest, st, fr)
		}
		return nil
	}
	if t := fx.hoist(s, rest, st, fr); t != nil {
		return t
	}
	switch n := s.(type) {
	case *ast.BranchStmt:
		ctx := fx.loops[fr]
		if ctx == nil || n.Label != nil {
			return fx.unk("%s", fx.p.text(s))
		}
		carried := func(kind string) *vtree {
			t := &vtree{kind: kind}
			if fx.carried {
				for _, o := range ctx.objs {
					t.rets = append(t.rets, st.norm(st.vars[o]))
				}
			}
			return t
		}
		if n == fx.nextMark {
			return carried("next")
		}
		switch n.Tok {
		case token.BREAK:
			return carried("break")
		case token.CONTINUE:
			if ctx.post != nil {
				return x.exec([]ast.Stmt{ctx.post, fx.nextMark}, st, fr)
			}
			return carried("next")
		}
		return fx.unk("%s", fx.p.text(s))
	case *ast.IncDecStmt:
		id, ok := ast.Unparen(n.X).(*ast.Ident)
		if !ok {
			return nil
		}
		obj, isVar := fx.p.info.Uses[id].(*types.Var)
		if !isVar || obj.Parent() == fx.p.pkg.Scope() || obj.IsField() {
			return nil
		}
		old, ok := st.vars[obj]
		if !ok {
			return nil
		}
		st.vars[obj] = "step(" + old + ")"
		return x.exec(rest, st, fr)
	case *ast.ForStmt:
		if n.Init != nil && n.Post != nil && fx.sameAssign(n.Init, n.Post) {
			cp := *n
			body := []ast.Stmt{n.Init}
			if n.Cond != nil {
				body = append(body, fx.notCondBreak(n.Cond))
			}
			body = append(body, n.Body.List...)
			cp.Init, cp.Cond, cp.Post = nil, nil, nil
			cp.Body = &ast.BlockStmt{Lbrace: n.Body.Lbrace, List: body, Rbrace: n.Body.Rbrace}
			return x.exec(vconcat([]ast.Stmt{&cp}, rest), st, fr)
		}
		if n.Init != nil {
			cp := *n
			cp.Init = nil
			return x.exec(vconcat([]ast.Stmt{n.Init, &cp}, rest), st, fr)
		}
		body := n.Body.List
		if n.Cond != nil {
			body = vconcat([]ast.Stmt{fx.notCondBreak(n.Cond)}, body)
		}
		return fx.loop("", nil, body, n.Post, n, rest, st, fr)
	case *ast.RangeStmt:
		var pend []*vtree
		xs, ok := x.eval(n.X, st, &pend)
		if !ok {
			return fx.unk("%s", fx.p.text(n.X))
		}
		at := st.ncall
		bind := func(s2 *vstate) bool {
			if n.Key != nil && !x.assign(n.Key, fmt.Sprintf("rk#%d", at), s2) {
				return false
			}
			if n.Value != nil && !x.assign(n.Value, fmt.Sprintf("rv#%d", at), s2) {
				return false
			}
			return true
		}
		return vwrap(pend, fx.loop("range("+xs+")", bind, n.Body.List, nil, n, rest, st, fr))
	case *ast.TypeSwitchStmt:
		if fx.done[n] || n.Init != nil {
			return nil
		}
		cp := fx.sortedSwitch(n)
		if cp == nil {
			return nil
		}
		fx.done[cp] = true
		return x.exec(vconcat([]ast.Stmt{cp}, rest), st, fr)
	}
	return nil
}

// opaque records a call that is not inlined as a node of the tree.
func (fx *flowX) opaque(fn string, args []string, n *ast.CallExpr, st *vstate, pend *[]*vtree, want int) ([]string, bool, bool) {
	x := fx.x
	if n.Ellipsis.IsValid() {
		return nil, false, true
	}
	for _, a := range n.Args {
		s, ok := x.eval(a, st, pend)
		if !ok {
			return nil, false, true
		}
		args = append(args, s)
	}
	nres := want
	if nres < 0 {
		tv, ok := fx.p.info.Types[n]
		if !ok || tv.Type == nil {
			return nil, false, true
		}
		if tup, ok := tv.Type.(*types.Tuple); ok {
			nres = tup.Len()
		} else if b, ok := tv.Type.(*types.Basic); ok && b.Kind() == types.Invalid {
			return nil, false, true
		} else {
			nres = 1
		}
	}
	st.ncall++
	id := st.ncall
	*pend = append(*pend, &vtree{kind: "call", id: id, fn: fn, args: args})
	switch nres {
	case 0:
		return nil, true, true
	case 1:
		return []string{fmt.Sprintf("res#%d", id)}, true, true
	case 2:
		return []string{fmt.Sprintf("res#%d", id), fmt.Sprintf("err#%d", id)}, true, true
	}
	rs := make([]string, nres)
	for i := range rs {
		rs[i] = fmt.Sprintf("res#%d.%d", id, i)
	}
	return rs, true, true
}

// appendsOneByte recognises the functions `func f(b []byte) []byte` whose value is b followed by one constant byte,
// built in a fresh buffer — the bytes `append(b, c)` has:
//
//	line := make([]byte, len(b)+1); copy(line, b); line[len(b)] = c; return line
//	line := make([]byte, 0, len(b)+1); line = append(line, b...); line = append(line, c)  [or: return append(line, c)]; return line
//
// and returns the expression c (nil when the body is anything else).
func (fx *flowX) appendsOneByte(fd *ast.FuncDecl) ast.Expr {
	if fd.Recv != nil || countResults(fd) != 1 || len(fd.Type.Params.List) != 1 || len(fd.Type.Params.List[0].Names) != 1 {
		return nil
	}
	if fx.x.typeExprStr(fd.Type.Params.List[0].Type) != "[]byte" || fx.x.typeExprStr(fd.Type.Results.List[0].Type) != "[]byte" {
		return nil
	}
	b := fd.Type.Params.List[0].Names[0].Name
	body := fd.Body.List
	if len(body) < 3 {
		return nil
	}
	def, ok := body[0].(*ast.AssignStmt)
	if !ok || def.Tok != token.DEFINE || len(def.Lhs) != 1 || len(def.Rhs) != 1 {
		return nil
	}
	id, ok := def.Lhs[0].(*ast.Ident)
	if !ok {
		return nil
	}
	l := id.Name
	txt := func(n ast.Node) string { return strings.ReplaceAll(fx.p.text(n), " ", "") }
	last, isRet := body[len(body)-1].(*ast.ReturnStmt)
	if !isRet || len(last.Results) != 1 {
		return nil
	}
	switch txt(def.Rhs[0]) {
	case "make([]byte,len(" + b + ")+1)":
		if len(body) != 4 || txt(body[1]) != "copy("+l+","+b+")" || txt(last.Results[0]) != l {
			return nil
		}
		set, ok := body[2].(*ast.AssignStmt)
		if !ok || set.Tok != token.ASSIGN || len(set.Lhs) != 1 || len(set.Rhs) != 1 || txt(set.Lhs[0]) != l+"[len("+b+")]" {
			return nil
		}
		return set.Rhs[0]
	case "make([]byte,0,len(" + b + ")+1)":
		if txt(body[1]) != l+"="+"append("+l+","+b+"...)" {
			return nil
		}
		var app ast.Expr
		switch {
		case len(body) == 3:
			app = last.Results[0]
		case len(body) == 4 && txt(last.Results[0]) == l:
			set, ok := body[2].(*ast.AssignStmt)
			if !ok || set.Tok != token.ASSIGN || len(set.Lhs) != 1 || len(set.Rhs) != 1 || txt(set.Lhs[0]) != l {
				return nil
			}
			app = set.Rhs[0]
		default:
			return nil
		}
		call, ok := app.(*ast.CallExpr)
		if !ok || len(call.Args) != 2 || call.Ellipsis.IsValid() || txt(call.Fun) != "append" || txt(call.Args[0]) != l {
			return nil
		}
		if _, isBuiltin := fx.p.info.Uses[call.Fun.(*ast.Ident)].(*types.Builtin); !isBuiltin {
			return nil
		}
		return call.Args[1]
	}
	return nil
}

func (fx *flowX) callHook(n *ast.CallExpr, st *vstate, pend *[]*vtree, want int) ([]string, bool, bool) {
	x := fx.x
	if tv, ok := fx.p.info.Types[n.Fun]; ok && tv.IsType() {
		return nil, false, false
	}
	switch f := ast.Unparen(n.Fun).(type) {
	case *ast.Ident:
		switch o := fx.p.info.Uses[f].(type) {
		case *types.Func:
			// a function of the four files that returns its []byte argument followed by one byte is `append(arg, byte)`
			if fd := x.funcs[f.Name]; fd != nil && o.Pkg() == fx.p.pkg && flowFiles[fx.fileOf(fd)] && len(n.Args) == 1 && !n.Ellipsis.IsValid() {
				if c := fx.appendsOneByte(fd); c != nil {
					a, ok1 := x.eval(n.Args[0], st, pend)
					b, ok2 := x.eval(c, st, pend)
					if ok1 && ok2 && isConstSym(b) {
						return []string{"append(" + a + "," + b + ")"}, true, true
					}
				}
			}
		case *types.Builtin:
			switch o.Name() {
			case "append", "len", "cap", "make":
				if n.Ellipsis.IsValid() || len(n.Args) == 0 {
					return nil, false, true
				}
				var args []string
				for i, a := range n.Args {
					if i == 0 && o.Name() == "make" {
						args = append(args, x.typeExprStr(a))
						continue
					}
					s, ok := x.eval(a, st, pend)
					if !ok {
						return nil, false, true
					}
					args = append(args, s)
				}
				return []string{o.Name() + "(" + strings.Join(args, ",") + ")"}, true, true
			}
			return nil, false, true
		case *types.Var:
			sym, ok := x.eval(f, st, pend)
			if !ok {
				return nil, false, true
			}
			return fx.opaque("()", []string{sym}, n, st, pend, want)
		}
	case *ast.SelectorExpr:
		if v, ok := fx.p.info.Uses[f.Sel].(*types.Var); ok && v.IsField() {
			sym, ok := x.eval(f, st, pend)
			if !ok {
				return nil, false, true
			}
			return fx.opaque("()", []string{sym}, n, st, pend, want)
		}
	}
	return nil, false, false
}

// ---------------------------------------------------------------------------------------------------
// running a function

// run executes the function `key`: parameters P0, P1 …; for a method, the receiver R and its fields R.<name>.
func (fx *flowX) run(key string) *vtree {
	x := fx.x
	x.inlined = map[string]bool{}
	fx.loops = map[*vframe]*flowLoopCtx{}
	fd := x.funcs[key]
	if fd == nil {
		return vunknown("no function %s", key)
	}
	st := &vstate{vars: map[types.Object]string{}, pos: map[token.Pos]string{}, known: map[string]bool{}}
	x.roles = fx.cellRoles
	if fd.Recv != nil {
		tn := strings.SplitN(key, ".", 2)[0]
		obj, ok := fx.p.pkg.Scope().Lookup(tn).(*types.TypeName)
		if !ok {
			return vunknown("receiver type of %s", key)
		}
		stt, ok := obj.Type().Underlying().(*types.Struct)
		if !ok {
			return vunknown("receiver of %s is not a struct", key)
		}
		if _, ptr := fd.Recv.List[0].Type.(*ast.StarExpr); !ptr {
			return vunknown("%s has a value receiver: what it writes to its fields is lost", key)
		}
		roles := map[string]string{}
		for k, v := range fx.cellRoles {
			roles[k] = v
		}
		st.fields = map[string]string{}
		for i := 0; i < stt.NumFields(); i++ {
			f := stt.Field(i)
			if f.Embedded() {
				return vunknown("receiver of %s has an embedded field", key)
			}
		}
		for n, r := range fx.fieldRoles(stt) {
			roles[n] = r
			st.fields[r] = "R." + r
		}
		x.roles = roles
		if len(fd.Recv.List) == 1 && len(fd.Recv.List[0].Names) == 1 {
			if obj := fx.p.info.Defs[fd.Recv.List[0].Names[0]]; obj != nil {
				st.vars[obj] = "R"
			}
		}
	}
	i := 0
	for _, f := range fd.Type.Params.List {
		if _, variadic := f.Type.(*ast.Ellipsis); variadic {
			return vunknown("%s is variadic", key)
		}
		if len(f.Names) == 0 {
			i++
			continue
		}
		for _, nm := range f.Names {
			if obj := fx.p.info.Defs[nm]; obj != nil && nm.Name != "_" {
				st.vars[obj] = fmt.Sprintf("P%d", i)
			}
			i++
		}
	}
	fr := &vframe{nres: countResults(fd), stack: []string{key}}
	fr.ret = func(st2 *vstate, rets []string) *vtree {
		leaf := &vtree{kind: "leaf"}
		for _, r := range rets {
			leaf.rets = append(leaf.rets, st2.norm(r))
		}
		if st2.fields != nil {
			leaf.fields = map[string]string{}
			for k, v := range st2.fields {
				leaf.fields[k] = st2.norm(v)
			}
		}
		return leaf
	}
	x.bindNamedResults(fd, st, fr)
	t := flowMerged(x.exec(fd.Body.List, st, fr))
	x.roles = fx.cellRoles
	return t
}

// ---------------------------------------------------------------------------------------------------
// patterns over trees
//
// A pattern is matched against a tree with a set of bindings: `$name` inside a pattern string is a variable —
// bound, it stands for its value; unbound, it takes whatever text is there (and is bound to it).  A call pattern
// binds the number of the call it matched (`"a"` → `$a`), so that `res#$a`, `err#$a` name its results later on.

type fbind map[string]string
type fpat func(t *vtree, b fbind) bool

var fvarRe = regexp.MustCompile(`\$[A-Za-z][A-Za-z0-9]*`)

func funify(pat, actual string, b fbind) bool {
	locs := fvarRe.FindAllStringIndex(pat, -1)
	if len(locs) == 0 {
		return pat == actual
	}
	var re strings.Builder
	re.WriteString("^")
	var names []string
	last := 0
	for _, l := range locs {
		re.WriteString(regexp.QuoteMeta(pat[last:l[0]]))
		name := pat[l[0]+1 : l[1]]
		if v, ok := b[name]; ok {
			re.WriteString(regexp.QuoteMeta(v))
		} else {
			re.WriteString("(.+?)")
			names = append(names, name)
		}
		last = l[1]
	}
	re.WriteString(regexp.QuoteMeta(pat[last:]))
	re.WriteString("$")
	m := regexp.MustCompile(re.String()).FindStringSubmatch(actual)
	if m == nil {
		return false
	}
	for i, n := range names {
		if prev, ok := b[n]; ok && prev != m[i+1] {
			return false
		}
		b[n] = m[i+1]
	}
	return true
}

func pc(fn string, args []string, id string, next fpat) fpat {
	return func(t *vtree, b fbind) bool {
		if t == nil || t.kind != "call" || len(t.args) != len(args) || !funify(fn, t.fn, b) {
			return false
		}
		for i, a := range args {
			if !funify(a, t.args[i], b) {
				return false
			}
		}
		if id != "" {
			n := strconv.Itoa(t.id)
			if prev, ok := b[id]; ok && prev != n {
				return false
			}
			b[id] = n
		}
		return next(t.next, b)
	}
}

func pif(cond string, th, el fpat) fpat {
	return func(t *vtree, b fbind) bool {
		return t != nil && t.kind == "if" && funify(cond, t.cond, b) && th(t.then, b) && el(t.els, b)
	}
}

// pretf: a return; the receiver's fields are what `fields` says, unchanged (R.<name>) where it says nothing.
func pretf(fields map[string]string, rets ...string) fpat {
	return func(t *vtree, b fbind) bool {
		if t == nil || t.kind != "leaf" || len(t.rets) != len(rets) {
			return false
		}
		for i, r := range rets {
			if !funify(r, flowCanon(t.rets[i]), b) {
				return false
			}
		}
		for k, v := range t.fields {
			want, ok := fields[k]
			if !ok {
				want = "R." + k
			}
			if !funify(want, v, b) {
				return false
			}
		}
		for k := range fields {
			if _, ok := t.fields[k]; !ok {
				return false
			}
		}
		return true
	}
}

func pret(rets ...string) fpat { return pretf(nil, rets...) }

func ploop(hdr string, body, after fpat) fpat {
	return func(t *vtree, b fbind) bool {
		return t != nil && t.kind == "loop" && funify(hdr, t.cond, b) && body(t.then, b) && after(t.next, b)
	}
}

func pkind(kind string) fpat {
	return func(t *vtree, b fbind) bool { return t != nil && t.kind == kind }
}

func pcap(dst **vtree) fpat {
	return func(t *vtree, b fbind) bool { *dst = t; return t != nil }
}

// por: the first of the alternatives that matches (its bindings are kept).
func por(ps ...fpat) fpat {
	return func(t *vtree, b fbind) bool {
		for _, p := range ps {
			b2 := fbind{}
			for k, v := range b {
				b2[k] = v
			}
			if p(t, b2) {
				for k, v := range b2 {
					b[k] = v
				}
				return true
			}
		}
		return false
	}
}

func fmatch(p fpat, t *vtree, init fbind) (fbind, bool) {
	b := fbind{}
	for k, v := range init {
		b[k] = v
	}
	if p(t, b) {
		return b, true
	}
	return nil, false
}

// ---------------------------------------------------------------------------------------------------
// classification

type flowC struct {
	fx      *flowX
	pkg     string            // "jsonline"
	cell    string            // "value"
	fmtName map[string]string // "7" -> "Auto"
	nU      int
	where   []string
}

func (c *flowC) unknown(fact string, t *vtree) string {
	return c.unknownText(fact, flowText(t))
}

func (c *flowC) unknownText(fact, text string) string {
	for _, w := range c.where {
		if w == fact {
			fact = ""
		}
	}
	if fact != "" {
		c.where = append(c.where, fact)
	}
	return "(.unknown " + lstr(text) + ")"
}

// method finds the method `name` declared in `file` and returns its receiver type and key.
func (c *flowC) method(name, file string) (recv, key string) {
	var keys []string
	for k, fd := range c.fx.x.funcs {
		if fd.Recv != nil && fd.Name.Name == name && c.fx.fileOf(fd) == file {
			keys = append(keys, k)
		}
	}
	sort.Strings(keys)
	if len(keys) == 0 {
		return "", ""
	}
	return strings.SplitN(keys[0], ".", 2)[0], keys[0]
}

func (c *flowC) paramType(fd *ast.FuncDecl, i int) string {
	k := 0
	for _, f := range fd.Type.Params.List {
		n := len(f.Names)
		if n == 0 {
			n = 1
		}
		for j := 0; j < n; j++ {
			if k == i {
				return c.fx.x.typeExprStr(f.Type)
			}
			k++
		}
	}
	return ""
}

func (c *flowC) paramIndex(sym string) int {
	if strings.HasPrefix(sym, "P") {
		if n, err := strconv.Atoi(sym[1:]); err == nil {
			return n
		}
	}
	return -1
}

func (c *flowC) formatArg(sym string, fd *ast.FuncDecl) string {
	if strings.HasPrefix(sym, "const(Format:") && strings.HasSuffix(sym, ")") {
		n := sym[len("const(Format:") : len(sym)-1]
		if name, ok := c.fmtName[n]; ok {
			if lean, ok := leanFormats[name]; ok {
				return "(.const " + lean + ")"
			}
			return "(.unknown " + lstr("Format constant "+name+" has no counterpart in Model.Basic") + ")"
		}
		return "(.unknown " + lstr("Format("+n+") is no declared constant") + ")"
	}
	if i := c.paramIndex(sym); i >= 0 && c.paramType(fd, i) == "Format" {
		return ".param"
	}
	return "(.unknown " + lstr(sym) + ")"
}

func (c *flowC) rawTypeArg(sym string, fd *ast.FuncDecl) string {
	if sym == "nil" {
		return ".nil"
	}
	if i := c.paramIndex(sym); i >= 0 && c.paramType(fd, i) == "RawType" {
		return ".param"
	}
	return "(.unknown " + lstr(sym) + ")"
}

func (c *flowC) builder(key string) string {
	fd := c.fx.x.funcs[key]
	t := c.fx.run(key)
	fact := strings.SplitN(key, ".", 2)[1]
	if c.paramType(fd, 0) != "string" {
		return c.unknown(fact, t)
	}
	lit := pc(".SetValue", []string{"R.empty", "P0", "&" + c.cell + "{f=$f,raw=nil,typ=$t}"}, "a", pret("R"))
	viaNew := pc(c.pkg+".NewValue", []string{"nil", "$f", "$t"}, "a",
		pc(".SetValue", []string{"R.empty", "P0", "res#$a"}, "b", pret("R")))
	sub := pc(".CreateRowEmpty", []string{"$p"}, "a", pc(".SetValue", []string{"R.empty", "P0", "res#$a"}, "b", pret("R")))
	col := func(how string, b fbind) string {
		f, ty := c.formatArg(b["f"], fd), c.rawTypeArg(b["t"], fd)
		if strings.Contains(f, ".unknown") || strings.Contains(ty, ".unknown") {
			c.unknownText(fact, "")
		}
		return "(.column " + how + " " + f + " " + ty + ")"
	}
	if b, ok := fmatch(lit, t, nil); ok {
		return col(".literal", b)
	}
	if b, ok := fmatch(viaNew, t, nil); ok {
		return col(".newValue", b)
	}
	if b, ok := fmatch(sub, t, nil); ok {
		if i := c.paramIndex(b["p"]); i >= 1 && c.paramType(fd, i) == "Template" {
			return ".subRow"
		}
	}
	return c.unknown(fact, t)
}

func (c *flowC) rowSrc(sym string, clones map[string]bool) string {
	switch {
	case clones[sym]:
		return ".cloneOfProto"
	case sym == "R.empty":
		return ".proto"
	}
	return "(.unknown " + lstr(sym) + ")"
}

var flowKinds = []struct{ ty, lean string }{
	{"[]interface{}", ".slice"}, {"map[string]interface{}", ".map"}, {"Row", ".row"}, {"[]byte", ".bytes"}, {"string", ".string"}, {"nil", ".nil"}}

func (c *flowC) errRet(sym, errSym string) (string, bool) {
	switch sym {
	case "WRAP(" + errSym + ")":
		return ".wrapped", true
	case errSym:
		return ".plain", true
	}
	return "", false
}

func (c *flowC) rowRet(sym, rowSym string) (string, bool) {
	switch sym {
	case "nil":
		return ".nil", true
	case rowSym:
		return ".row", true
	}
	return "", false
}

// branch classifies what CreateRow does for one kind of input (`ty` = the case type, "" for the default).
func (c *flowC) branch(t *vtree, ty string, clones map[string]bool) string {
	const fact = "CreateRow"
	cl := map[string]bool{}
	for k := range clones {
		cl[k] = true
	}
	for {
		var rest *vtree
		b, ok := fmatch(pc(c.pkg+".CloneRow", []string{"R.empty"}, "c", pcap(&rest)), t, nil)
		if !ok {
			break
		}
		cl["res#"+b["c"]] = true
		t = rest
	}
	in := "as(P0," + ty + ")"
	autoCell := func(v string) string { return "&" + c.cell + "{f=const(Format:$auto),raw=" + v + ",typ=nil}" }
	body := func(k, x string, rawOf, rawFirst bool) fpat {
		n := 0
		val := func(next func(v string) fpat) fpat {
			n++
			if rawOf && rawFirst {
				return next("res#$r0")
			}
			if rawOf {
				r := fmt.Sprintf("r%d", n)
				return pc(".Raw", []string{x}, r, next("res#$"+r))
			}
			return next(x)
		}
		auto := func() fpat {
			return val(func(v string) fpat {
				return pc(".$set", []string{"$row", k, autoCell(v)}, "", pkind("next"))
			})
		}
		typed := val(func(v string) fpat {
			return pc(".GetFormat", []string{"res#$g"}, "tf", pc(".GetRawType", []string{"res#$g"}, "tt",
				pc(c.pkg+".NewValue", []string{v, "res#$tf", "res#$tt"}, "nv",
					pc(".$set", []string{"$row", k, "res#$nv"}, "", pkind("next")))))
		})
		tests := pif("true(err#$g)", pif("isnil(res#$g)", auto(), typed), auto())
		if rawOf && rawFirst {
			// `x.Raw()` asked for once, before the (pure) tests instead of after them: the same calls in the same order
			tests = pc(".Raw", []string{x}, "r0", tests)
		}
		return pc(".$get", []string{"$row", k}, "g", tests)
	}
	done := func(b fbind, iter string, rawOf bool) (string, bool) {
		if c.fmtName[b["auto"]] != "Auto" {
			return "", false
		}
		on := c.rowSrc(b["row"], cl)
		if strings.Contains(on, ".unknown") {
			c.unknownText(fact, "")
		}
		return fmt.Sprintf("(.fill %s %s %s %s %v)", on, iter, lstr(b["get"]), lstr(b["set"]), rawOf), true
	}
	if ty != "" && ty != "nil" {
		for _, variant := range []struct{ rawOf, rawFirst bool }{{false, false}, {true, false}, {true, true}} {
			rawOf, rawFirst := variant.rawOf, variant.rawFirst
			p := ploop("range("+in+")", body("rk#$n", "rv#$n", rawOf, rawFirst), pret("$row", "nil"))
			if b, ok := fmatch(p, t, nil); ok {
				if s, ok := done(b, ".range", rawOf); ok {
					return s
				}
			}
			p = pc(".IterValues", []string{in}, "it", ploop("", pc("()", []string{"res#$it"}, "n",
				pif("true(res#$n.2)", body("res#$n.0", "res#$n.1", rawOf, rawFirst), pkind("break"))), pret("$row", "nil")))
			if b, ok := fmatch(p, t, nil); ok {
				if s, ok := done(b, ".iterValues", rawOf); ok {
					return s
				}
			}
		}
		for _, arg := range []string{in, "conv([]byte," + in + ")"} {
			if (arg == in) != (ty == "[]byte") {
				continue
			}
			p := pc(".UnmarshalJSON", []string{"$row", arg}, "u", pif("isnil(res#$u)", pret("$row", "nil"), pret("$r", "$e")))
			if b, ok := fmatch(p, t, nil); ok {
				r, ok1 := c.rowRet(b["r"], b["row"])
				e, ok2 := c.errRet(b["e"], "res#"+b["u"])
				if ok1 && ok2 {
					on := c.rowSrc(b["row"], cl)
					if strings.Contains(on, ".unknown") {
						c.unknownText(fact, "")
					}
					return fmt.Sprintf("(.text %s %s %s)", on, r, e)
				}
			}
		}
	}
	if b, ok := fmatch(pret("$r", "FAIL($s)"), t, nil); ok {
		rowSym := ""
		for k := range cl {
			rowSym = k
		}
		if len(cl) != 1 {
			rowSym = ""
		}
		if r, ok := c.rowRet(b["r"], rowSym); ok {
			return fmt.Sprintf("(.fail %s %s)", r, lstr(b["s"]))
		}
	}
	return c.unknown(fact, t)
}

func (c *flowC) createRow(key string) string {
	t := c.fx.run(key)
	clones := map[string]bool{}
	var rest *vtree
	if b, ok := fmatch(pc(c.pkg+".CloneRow", []string{"R.empty"}, "c", pcap(&rest)), t, nil); ok {
		clones["res#"+b["c"]] = true
		t = rest
	}
	type kase struct {
		order int
		text  string
	}
	var cases []kase
	for t != nil && t.kind == "if" {
		ty := ""
		switch {
		case t.cond == "isnil(P0)":
			ty = "nil"
		case strings.HasPrefix(t.cond, "is(P0,") && strings.HasSuffix(t.cond, ")"):
			ty = t.cond[len("is(P0,") : len(t.cond)-1]
		}
		if ty == "" {
			break
		}
		order, lean := len(flowKinds), ""
		for i, k := range flowKinds {
			if k.ty == ty {
				order, lean = i, k.lean
			}
		}
		if lean == "" {
			lean = "(.other " + lstr(ty) + ")"
			c.unknownText("CreateRow", "")
		}
		cases = append(cases, kase{order, "      (" + lean + ", " + strings.TrimSuffix(strings.TrimPrefix(c.branch(t.then, ty, clones), "("), ")") + ")"})
		t = t.els
	}
	sort.SliceStable(cases, func(i, j int) bool { return cases[i].order < cases[j].order })
	var rows []string
	for _, k := range cases {
		rows = append(rows, k.text)
	}
	return "{ cases := [\n" + strings.Join(rows, ",\n") + "],\n      dflt := " + c.branch(t, "", clones) + " }"
}

func (c *flowC) natLit(s string) (string, bool) {
	if _, err := strconv.ParseUint(s, 10, 64); err == nil {
		return s, true
	}
	return "", false
}

func (c *flowC) procCall(row, err, rowSym, errSym string) (string, bool) {
	r, ok := c.rowRet(row, rowSym)
	if !ok {
		return "", false
	}
	e := ""
	switch err {
	case "nil":
		e = ".none"
	case "WRAP(" + errSym + ")":
		e = ".wrapped"
	case errSym:
		e = ".plain"
	default:
		return "", false
	}
	return "{ row := " + r + ", err := " + e + " }", true
}

// getRowPat: the tree of importer.GetRow (also found inlined in ReadOne).  The scanner's error may be asked for
// once or twice, and the scanned bytes fetched before or after the row is made.
func (c *flowC) getRowPat() fpat {
	parse := pc(".UnmarshalJSON", []string{"res#$c", "res#$b"}, "u",
		pif("isnil(res#$u)", pret("res#$c", "nil"), pret("$r", "$e")))
	return pc(".Err", []string{"R.s"}, "a", pif("isnil(res#$a)",
		por(pc(".Bytes", []string{"R.s"}, "b", pc(".CreateRowEmpty", []string{"R.t"}, "c", parse)),
			pc(".CreateRowEmpty", []string{"R.t"}, "c", pc(".Bytes", []string{"R.s"}, "b", parse))),
		por(pc(".Err", []string{"R.s"}, "a2", pret("nil", "WRAP(res#$a2)")), pret("nil", "WRAP(res#$a)"))))
}

func (c *flowC) getRowOf(b fbind) (string, bool) {
	r, ok1 := c.rowRet(b["r"], "res#"+b["c"])
	e, ok2 := c.errRet(b["e"], "res#"+b["u"])
	if !ok1 || !ok2 {
		return "", false
	}
	return "(.scannerErrThenParse " + r + " " + e + ")", true
}

// isFailer: the type is `interface{ Err() error }` or a name for it.
func (c *flowC) isFailer(ty string) bool {
	const want = "interface{Err() error}"
	if ty == want {
		return true
	}
	obj, ok := c.fx.p.pkg.Scope().Lookup(ty).(*types.TypeName)
	return ok && c.fx.x.typeStr(obj.Type().Underlying()) == want
}

func (c *flowC) stream(key string) string {
	t := c.fx.run(key)
	proc := func(id, row, err string, next fpat) fpat {
		return pc("()", []string{"R.processor", row, err}, id, next)
	}
	loop := func(after fpat) fpat {
		return ploop("", pc(".Import", []string{"R.importer"}, "i", pif("true(res#$i)",
			pc(".GetRow", []string{"R.importer"}, "g", pif("isnil(err#$g)",
				proc("p1", "$r1", "$e1", pif("isnil(res#$p1)",
					pc(".Export", []string{"R.exporter", "res#$g"}, "x", pif("isnil(res#$x)", pkind("next"),
						proc("p3", "$r3", "$e3", pif("isnil(res#$p3)", pkind("next"), pret("res#$p3"))))),
					pret("res#$p1"))),
				proc("p2", "$r2", "$e2", pif("isnil(res#$p2)", pkind("next"), pret("res#$p2"))))),
			pkind("break"))), after)
	}
	// the importer is asked for `Err() error` through an interface that has this method only, named or not
	handover := pif("is(R.importer,$failer)",
		pc(".Err", []string{"as(R.importer,$failer)"}, "f", pif("isnil(res#$f)", pret("nil"),
			proc("p4", "$r4", "$e4", pret("res#$p4")))),
		pret("nil"))
	for _, withAfter := range []bool{true, false} {
		after := pret("nil")
		if withAfter {
			after = handover
		}
		b, ok := fmatch(loop(after), t, nil)
		if !ok {
			continue
		}
		if withAfter && !c.isFailer(b["failer"]) {
			break
		}
		row := "res#" + b["g"]
		c2, ok2 := c.procCall(b["r2"], b["e2"], row, "err#"+b["g"])
		c1, ok1 := c.procCall(b["r1"], b["e1"], row, "err#"+b["g"])
		c3, ok3 := c.procCall(b["r3"], b["e3"], row, "res#"+b["x"])
		if !ok1 || !ok2 || !ok3 {
			break
		}
		aft := ".nothing"
		if withAfter {
			c4, ok4 := c.procCall(b["r4"], b["e4"], row, "res#"+b["f"])
			if !ok4 {
				break
			}
			aft = "(.errHandover " + c4 + ")"
		}
		return "(.loop\n      " + c2 + "\n      " + c1 + "\n      " + c3 + "\n      " + aft + ")"
	}
	return c.unknown("Stream", t)
}

type flowTable struct {
	text  string
	nU    int
	nB    int
	where []string
}

func flowTableOf(p *pkgInfo) flowTable {
	fx := newFlowX(p)
	c := &flowC{fx: fx, pkg: p.pkg.Name(), cell: fx.x.cellType, fmtName: map[string]string{}}
	for _, fc := range fx.x.formatConsts() {
		k := fmt.Sprint(fc.val)
		if _, dup := c.fmtName[k]; !dup {
			c.fmtName[k] = fc.name
		}
	}
	// one fact: the tree of `key` against `pats` (pattern, what to emit); `.unknown` with the tree otherwise
	type alt struct {
		p    fpat
		emit func(b fbind) (string, bool)
	}
	konst := func(s string) func(fbind) (string, bool) { return func(fbind) (string, bool) { return s, true } }
	fact := func(name, key string, alts ...alt) string {
		if key == "" {
			return c.unknownText(name, "no such function")
		}
		t := fx.run(key)
		for _, a := range alts {
			if b, ok := fmatch(a.p, t, nil); ok {
				if s, ok := a.emit(b); ok {
					return s
				}
			}
		}
		return c.unknown(name, t)
	}
	fn := func(name, file string) string {
		if fd := fx.x.funcs[name]; fd != nil && fd.Recv == nil && fx.fileOf(fd) == file {
			return name
		}
		return ""
	}

	tmpl, createRowKey := c.method("CreateRow", "template.go")
	expo, exportKey := c.method("Export", "exporter.go")
	impo, getRowKey := c.method("GetRow", "importer.go")
	strm, streamKey := c.method("Stream", "streamer.go")
	mk := func(recv, name string) string {
		if recv == "" || fx.x.funcs[recv+"."+name] == nil {
			return ""
		}
		return recv + "." + name
	}

	newTemplate := fact("NewTemplate", fn("NewTemplate", "template.go"),
		alt{pc(c.pkg+".NewRow", nil, "a", pret("&"+tmpl+"{empty=res#$a}")), konst(".freshRow")})

	var bkeys []string
	for k, fd := range fx.x.funcs {
		if fd.Recv != nil && tmpl != "" && strings.HasPrefix(k, tmpl+".With") {
			bkeys = append(bkeys, k)
		}
	}
	sort.Strings(bkeys)
	var builders []string
	for _, k := range bkeys {
		b := c.builder(k)
		builders = append(builders, "    ("+lstr(strings.SplitN(k, ".", 2)[1])+", "+strings.TrimSuffix(strings.TrimPrefix(b, "("), ")")+")")
	}

	createRowEmpty := fact("CreateRowEmpty", mk(tmpl, "CreateRowEmpty"),
		alt{pc(c.pkg+".CloneRow", []string{"R.empty"}, "a", pret("res#$a")), konst(".cloneOfProto")},
		alt{pret("R.empty"), konst(".proto")})
	createRow := ""
	if createRowKey != "" {
		createRow = c.createRow(createRowKey)
	} else {
		createRow = "{ cases := [], dflt := " + c.unknownText("CreateRow", "no such function") + " }"
	}
	handover := func(name, ctor string) string {
		return fact(name, mk(tmpl, name),
			alt{pc(c.pkg+"."+ctor, []string{"P0"}, "a", pc(".WithTemplate", []string{"res#$a", "R"}, "b", pret("res#$b"))), konst(".self")})
	}
	getExporter, getImporter := handover("GetExporter", "NewExporter"), handover("GetImporter", "NewImporter")

	newExporter := fact("NewExporter", fn("NewExporter", "exporter.go"),
		alt{pc(c.pkg+".NewTemplate", nil, "a", pret("&"+expo+"{t=res#$a,w=P0}")), konst(".writerAndNewTemplate")})
	setter := func(name, recv string) string {
		return fact(name, mk(recv, "WithTemplate"), alt{pretf(map[string]string{"t": "P0"}, "R"), konst(".storesArg")})
	}
	exporterWith := setter("exporter.WithTemplate", expo)
	export := fact("Export", exportKey, alt{
		pc(".CreateRow", []string{"R.t", "P0"}, "a", pif("isnil(err#$a)",
			pc(".MarshalJSON", []string{"res#$a"}, "b", pif("isnil(err#$b)",
				pc(".Write", []string{"R.w", "append(res#$b,lit:$sep)"}, "w", pif("isnil(err#$w)", pret("nil"), pret("$e3"))),
				pret("$e2"))),
			pret("$e1"))),
		func(b fbind) (string, bool) {
			sep, ok := c.natLit(b["sep"])
			e1, ok1 := c.errRet(b["e1"], "err#"+b["a"])
			e2, ok2 := c.errRet(b["e2"], "err#"+b["b"])
			e3, ok3 := c.errRet(b["e3"], "err#"+b["w"])
			if !ok || !ok1 || !ok2 || !ok3 || e1 != e2 || e2 != e3 {
				return "", false
			}
			return "(.oneWrite " + sep + " " + e1 + ")", true
		}})

	newImporter := fact("NewImporter", fn("NewImporter", "importer.go"), alt{
		pc("bufio.NewScanner", []string{"P0"}, "s", pc(".Buffer", []string{"res#$s", "make([]byte,lit:$len,lit:$cap)", "lit:$max"}, "",
			pc(c.pkg+".NewTemplate", nil, "t", pret("&"+impo+"{r=P0,s=res#$s,t=res#$t}")))),
		func(b fbind) (string, bool) {
			l, ok1 := c.natLit(b["len"])
			k, ok2 := c.natLit(b["cap"])
			m, ok3 := c.natLit(b["max"])
			return "(.scanner " + l + " " + k + " " + m + ")", ok1 && ok2 && ok3
		}})
	importerWith := setter("importer.WithTemplate", impo)
	importCall := fact("Import", mk(impo, "Import"), alt{pc(".Scan", []string{"R.s"}, "a", pret("res#$a")), konst(".scan")})
	errCall := fact("Err", mk(impo, "Err"), alt{pc(".Err", []string{"R.s"}, "a", pret("res#$a")), konst(".scannerErr")})
	getRow := fact("GetRow", getRowKey, alt{c.getRowPat(), c.getRowOf})
	readOne := fact("ReadOne", mk(impo, "ReadOne"), alt{
		pc(".Scan", []string{"R.s"}, "s", pif("true(res#$s)", c.getRowPat(), pret("nil", "nil"))),
		func(b fbind) (string, bool) {
			s, ok := c.getRowOf(b)
			return ".importThenGetRow", ok && s == getRow && importCall == ".scan"
		}})

	processor := func(name string) string {
		return fact(name, fn(name, "streamer.go"), alt{pret("P1"), konst(".returnsErr")}, alt{pret("nil"), konst(".returnsNil")})
	}
	defaultProcessor, noFailureProcessor := processor("DefaultProcessor"), processor("NoFailureProcessor")
	newStreamer := fact("NewStreamer", fn("NewStreamer", "streamer.go"), alt{
		pret("&" + strm + "{exporter=P1,importer=P0,processor=func:$p}"),
		func(b fbind) (string, bool) { return "(.storesBoth " + lstr(b["p"]) + ")", true }})
	withProcessor := fact("WithProcessor", mk(strm, "WithProcessor"), alt{
		pif("isnil(P0)", pretf(map[string]string{"processor": "func:$p"}, "R"), pretf(map[string]string{"processor": "P0"}, "R")),
		func(b fbind) (string, bool) { return "(.argOrDefault " + lstr(b["p"]) + ")", true }})
	stream := ""
	if streamKey != "" {
		stream = c.stream(streamKey)
	} else {
		stream = c.unknownText("Stream", "no such function")
	}

	var b strings.Builder
	b.WriteString("-- GENERATED by extract/ from /repo/pkg/jsonline (template.go, exporter.go, importer.go, streamer.go) on every run. Do not edit.\n")
	b.WriteString("import Model.FlowSyntax\n\nnamespace Jl.Gen\nopen Jl Jl.Flow\n\n")
	b.WriteString("/-- What the functions of template.go, exporter.go, importer.go and streamer.go do. -/\n")
	b.WriteString("def flowTable : FlowTable :=\n")
	b.WriteString("  { newTemplate := " + newTemplate + ",\n")
	b.WriteString("    builders := [\n  " + strings.Join(builders, ",\n  ") + "],\n")
	b.WriteString("    createRowEmpty := " + createRowEmpty + ",\n")
	b.WriteString("    createRow :=\n    " + createRow + ",\n")
	b.WriteString("    getExporter := " + getExporter + ",\n")
	b.WriteString("    getImporter := " + getImporter + ",\n")
	b.WriteString("    newExporter := " + newExporter + ",\n")
	b.WriteString("    exporterWithTemplate := " + exporterWith + ",\n")
	b.WriteString("    exporterExport := " + export + ",\n")
	b.WriteString("    newImporter := " + newImporter + ",\n")
	b.WriteString("    importerWithTemplate := " + importerWith + ",\n")
	b.WriteString("    importerImport := " + importCall + ",\n")
	b.WriteString("    importerErr := " + errCall + ",\n")
	b.WriteString("    getRow := " + getRow + ",\n")
	b.WriteString("    readOne := " + readOne + ",\n")
	b.WriteString("    defaultProcessor := " + defaultProcessor + ",\n")
	b.WriteString("    noFailureProcessor := " + noFailureProcessor + ",\n")
	b.WriteString("    newStreamer := " + newStreamer + ",\n")
	b.WriteString("    withProcessor := " + withProcessor + ",\n")
	b.WriteString("    stream := " + stream + " }\n\n")
	b.WriteString("end Jl.Gen\n")
	text := b.String()
	return flowTable{text: text, nU: strings.Count(text, ".unknown") + strings.Count(text, "(.other "), nB: len(builders), where: c.where}
}

// flowDump lists the tree of every function of the four files (debugging aid: FLOWDEBUG=1).
func flowDump(p *pkgInfo) string {
	fx := newFlowX(p)
	var keys []string
	for k, fd := range fx.x.funcs {
		if flowFiles[fx.fileOf(fd)] {
			keys = append(keys, k)
		}
	}
	sort.Strings(keys)
	var b strings.Builder
	for _, k := range keys {
		b.WriteString(k + ":\n    " + flowText(fx.run(k)) + "\n")
	}
	return b.String()
}
