package main

// extract — regenerates lean/Gen/*.lean from /repo's working tree on every run.
//
// It prints what the AST says and nothing else: every case clause of every caster of
// pkg/cast as a term of Model.CastSyntax (guards with the constants go/types recorded, i.e.
// already converted to the other operand's type), the functions of binary_ops.go, the
// dispatch of cast.To, the error sentinels, and the dispatch tables / constants of
// pkg/jsonline and cmd/jl. What it does not recognise is emitted as `unknown`, never guessed.

import (
	"bytes"
	"flag"
	"fmt"
	"go/ast"
	"go/constant"
	"go/importer"
	"go/parser"
	"go/printer"
	"go/token"
	"go/types"
	"os"
	"path/filepath"
	"regexp"
	"sort"
	"strconv"
	"strings"
)

type pkgInfo struct {
	fset  *token.FileSet
	files []*ast.File
	info  *types.Info
	pkg   *types.Package
}

func loadPkg(dir, path string) (*pkgInfo, error) {
	fset := token.NewFileSet()
	pkgs, err := parser.ParseDir(fset, dir, func(fi os.FileInfo) bool { return !strings.HasSuffix(fi.Name(), "_test.go") }, parser.ParseComments)
	if err != nil {
		return nil, err
	}
	var files []*ast.File
	for _, p := range pkgs {
		names := make([]string, 0, len(p.Files))
		for n := range p.Files {
			names = append(names, n)
		}
		sort.Strings(names)
		for _, n := range names {
			files = append(files, p.Files[n])
		}
	}
	info := &types.Info{Types: map[ast.Expr]types.TypeAndValue{}, Uses: map[*ast.Ident]types.Object{}, Defs: map[*ast.Ident]types.Object{}}
	conf := types.Config{Importer: importer.ForCompiler(fset, "source", nil), Error: func(error) {}}
	pkg, _ := conf.Check(path, fset, files, info)
	return &pkgInfo{fset, files, info, pkg}, nil
}

func (p *pkgInfo) text(n ast.Node) string {
	var b bytes.Buffer
	printer.Fprint(&b, p.fset, n)
	return strings.Join(strings.Fields(b.String()), " ")
}

var failRe = regexp.MustCompile(`fmt\.Errorf\("%w[^"]*", (\w+)(, [^()]*)?\)`)

// stmtsText is the normalised text of a statement list; error constructions are reduced to
// FAIL(<sentinel>) so that a change of message text is not a change of behaviour.
func (p *pkgInfo) stmtsText(ss []ast.Stmt) string {
	var parts []string
	for _, s := range ss {
		parts = append(parts, p.text(s))
	}
	return failRe.ReplaceAllString(strings.Join(parts, " ; "), "FAIL($1)")
}

// canonText is stmtsText after renaming the local variables declared inside the statements to $1, $2 …
// (in order of declaration) and replacing identifiers of string constants by their value, so that a
// special body is recognised whatever its locals are called and whether a layout is a literal or a
// named constant.
func (p *pkgInfo) canonText(ss []ast.Stmt) string {
	if len(ss) == 0 {
		return ""
	}
	lo, hi := ss[0].Pos(), ss[len(ss)-1].End()
	names := map[types.Object]string{}
	var touched []*ast.Ident
	var saved []string
	rename := func(id *ast.Ident, to string) {
		touched = append(touched, id)
		saved = append(saved, id.Name)
		id.Name = to
	}
	for _, s := range ss {
		ast.Inspect(s, func(n ast.Node) bool {
			id, ok := n.(*ast.Ident)
			if !ok || id.Name == "_" {
				return true
			}
			if obj := p.info.Defs[id]; obj != nil {
				if _, isVar := obj.(*types.Var); isVar && obj.Pos() >= lo && obj.Pos() < hi {
					if _, seen := names[obj]; !seen {
						names[obj] = fmt.Sprintf("$%d", len(names)+1)
					}
					rename(id, names[obj])
				}
				return true
			}
			if obj := p.info.Uses[id]; obj != nil {
				if nm, ok := names[obj]; ok {
					rename(id, nm)
				} else if c, ok := obj.(*types.Const); ok && c.Val().Kind() == constant.String && obj.Pkg() == p.pkg {
					rename(id, strconv.Quote(constant.StringVal(c.Val())))
				}
			}
			return true
		})
	}
	txt := p.stmtsText(ss)
	for i, id := range touched {
		id.Name = saved[i]
	}
	return txt
}

func lstr(s string) string {
	var b strings.Builder
	b.WriteByte('"')
	for _, r := range s {
		switch {
		case r == '"':
			b.WriteString("\\\"")
		case r == '\\':
			b.WriteString("\\\\")
		case r == '\n':
			b.WriteString("\\n")
		case r == '\t':
			b.WriteString("\\t")
		case r < 0x20:
			fmt.Fprintf(&b, "\\x%02x", r)
		default:
			b.WriteRune(r)
		}
	}
	b.WriteByte('"')
	return b.String()
}

// lbytes renders a Go string as a Lean byte list.
func lbytes(s string) string {
	parts := make([]string, len(s))
	for i := 0; i < len(s); i++ {
		parts[i] = fmt.Sprintf("0x%02X", s[i])
	}
	return "[" + strings.Join(parts, ", ") + "]"
}

func lint(s string) string {
	if strings.HasPrefix(s, "-") {
		return "(" + s + ")"
	}
	return s
}

var intTyNames = map[string]string{"int": ".int", "int64": ".i64", "int32": ".i32", "int16": ".i16", "int8": ".i8",
	"uint": ".uint", "uint64": ".u64", "uint32": ".u32", "uint16": ".u16", "uint8": ".u8", "byte": ".u8", "rune": ".i32"}

// tyOf renders a Go type as a Model.Basic `Ty`.
func tyOf(t types.Type) string {
	if t == nil {
		return ".other"
	}
	switch t.String() {
	case "untyped nil":
		return ".none"
	case "float64":
		return ".f64"
	case "float32":
		return ".f32"
	case "bool":
		return ".bool"
	case "string":
		return ".str"
	case "[]byte", "[]uint8":
		return ".bytes"
	case "time.Time":
		return ".time"
	case "encoding/json.Number":
		return ".num"
	}
	if n, ok := intTyNames[t.String()]; ok {
		return "(.int " + n + ")"
	}
	return ".other"
}

type castX struct {
	p        *pkgInfo
	specials map[string]string // normalised body text -> special id
	binds    map[string]string // identifiers bound by an if-statement's init (`year := val.Year()`) -> their translation
	cbinds   map[string]string // parameters of an inlined helper bound to integer constants
	funcs    map[string]*ast.FuncDecl
	depth    int
}

// helper returns the package-level function `name` when it is a one-statement helper `return <expr>`.
func (x *castX) helper(fun ast.Expr) (*ast.FuncDecl, ast.Expr) {
	id, ok := fun.(*ast.Ident)
	if !ok {
		return nil, nil
	}
	if x.funcs == nil {
		x.funcs = map[string]*ast.FuncDecl{}
		for _, f := range x.p.files {
			for _, d := range f.Decls {
				if fd, ok := d.(*ast.FuncDecl); ok && fd.Recv == nil && fd.Body != nil {
					x.funcs[fd.Name.Name] = fd
				}
			}
		}
	}
	fd := x.funcs[id.Name]
	if fd == nil || len(fd.Body.List) == 0 {
		return nil, nil
	}
	// `name := expr` statements may precede the single return: they are bound like parameters (helperDefs)
	for _, st := range fd.Body.List[:len(fd.Body.List)-1] {
		as, ok := st.(*ast.AssignStmt)
		if !ok || as.Tok != token.DEFINE || len(as.Lhs) != 1 || len(as.Rhs) != 1 {
			return nil, nil
		}
		if _, ok := as.Lhs[0].(*ast.Ident); !ok {
			return nil, nil
		}
	}
	r, ok := fd.Body.List[len(fd.Body.List)-1].(*ast.ReturnStmt)
	if !ok || len(r.Results) != 1 {
		return nil, nil
	}
	return fd, r.Results[0]
}

// helperDefs lists the `name := expr` statements that precede the return of a helper accepted by helper().
func helperDefs(fd *ast.FuncDecl) (names []string, exprs []ast.Expr) {
	for _, st := range fd.Body.List[:len(fd.Body.List)-1] {
		as := st.(*ast.AssignStmt)
		names = append(names, as.Lhs[0].(*ast.Ident).Name)
		exprs = append(exprs, as.Rhs[0])
	}
	return
}

func paramNames(fd *ast.FuncDecl) []string {
	var ps []string
	for _, f := range fd.Type.Params.List {
		for _, n := range f.Names {
			ps = append(ps, n.Name)
		}
	}
	return ps
}

// inline evaluates `f` on the body of a one-expression helper with its parameters bound to the
// translations (or constant values) of the arguments of `call`.
func (x *castX) inline(call *ast.CallExpr, f func(body ast.Expr) (string, bool)) (string, bool) {
	fd, body := x.helper(call.Fun)
	if fd == nil || x.depth >= 3 {
		return "", false
	}
	ps := paramNames(fd)
	if len(ps) != len(call.Args) {
		return "", false
	}
	nb, ncb := map[string]string{}, map[string]string{}
	for i, a := range call.Args {
		if c, ok := x.constInt(a); ok {
			ncb[ps[i]] = c
			continue
		}
		if e, ok := x.expr(a); ok {
			nb[ps[i]] = e
			continue
		}
		return "", false
	}
	ob, ocb := x.binds, x.cbinds
	x.binds, x.cbinds = nb, ncb
	x.depth++
	defer func() {
		x.depth--
		x.binds, x.cbinds = ob, ocb
	}()
	// the helper's own `name := expr` statements, each bound to its translation in turn
	dn, de := helperDefs(fd)
	for i, n := range dn {
		if c, ok := x.constInt(de[i]); ok {
			ncb[n] = c
			continue
		}
		if e, ok := x.expr(de[i]); ok {
			nb[n] = e
			continue
		}
		return "", false
	}
	return f(body)
}

func (x *castX) constInt(e ast.Expr) (string, bool) {
	if id, ok := ast.Unparen(e).(*ast.Ident); ok {
		if c, ok := x.cbinds[id.Name]; ok {
			return c, true
		}
	}
	tv, ok := x.p.info.Types[e]
	if !ok || tv.Value == nil {
		return "", false
	}
	v := tv.Value
	if v.Kind() == constant.Float || v.Kind() == constant.Int {
		iv := constant.ToInt(v)
		if iv.Kind() == constant.Int {
			return iv.ExactString(), true
		}
	}
	return "", false
}

func (x *castX) expr(e ast.Expr) (string, bool) {
	e = ast.Unparen(e)
	switch n := e.(type) {
	case *ast.Ident:
		if b, ok := x.binds[n.Name]; ok {
			return b, true
		}
		if x.depth > 0 {
			return "", false // inside an inlined helper only its parameters are in scope
		}
		switch n.Name {
		case "val":
			return ".val", true
		case "v":
			return ".parsed", true
		}
		return "", false
	case *ast.BinaryExpr:
		if n.Op == token.NEQ {
			if c, ok := x.constInt(n.Y); ok && c == "0" {
				if l, ok := x.expr(n.X); ok {
					return "(.ne0 " + l + ")", true
				}
			}
		}
		return "", false
	case *ast.CallExpr:
		// conversion?
		if tv, ok := x.p.info.Types[n.Fun]; ok && tv.IsType() && len(n.Args) == 1 {
			tname := tv.Type.String()
			arg := n.Args[0]
			if atv, ok := x.p.info.Types[arg]; ok && atv.Value != nil {
				// literal
				if it, ok := intTyNames[tname]; ok {
					if c, ok := x.constInt(arg); ok {
						return fmt.Sprintf("(.intLit %s %s)", it, lint(c)), true
					}
				}
				if c, ok := x.constInt(arg); ok && tname == "float64" {
					return "(.f64Lit " + lint(c) + ")", true
				}
				if c, ok := x.constInt(arg); ok && tname == "float32" {
					return "(.f32Lit " + lint(c) + ")", true
				}
				if tname == "encoding/json.Number" && atv.Value.Kind() == constant.String {
					return "(.numLit " + lbytes(constant.StringVal(atv.Value)) + ")", true
				}
				return "", false
			}
			inner, ok := x.expr(arg)
			if !ok {
				return "", false
			}
			if it, ok := intTyNames[tname]; ok {
				return fmt.Sprintf("(.toInt %s %s)", it, inner), true
			}
			switch tname {
			case "float64":
				if atv, ok := x.p.info.Types[arg]; ok && atv.Type != nil && atv.Type.String() == "float32" {
					return "(.widen " + inner + ")", true // exact; written back as .toF64 outside comparisons
				}
				return "(.toF64 " + inner + ")", true
			case "float32":
				return "(.toF32 " + inner + ")", true
			case "string":
				return "(.toStr " + inner + ")", true
			case "[]byte", "[]uint8":
				return "(.toBytes " + inner + ")", true
			case "encoding/json.Number":
				return "(.toNum " + inner + ")", true
			}
			return "", false
		}
		fn := x.p.text(n.Fun)
		args := n.Args
		switch {
		case fn == "strconv.FormatInt" && len(args) == 2:
			if a, ok := x.expr(args[0]); ok {
				if b, ok := x.constInt(args[1]); ok {
					return fmt.Sprintf("(.fmtInt %s %s)", a, b), true
				}
			}
		case fn == "strconv.FormatUint" && len(args) == 2:
			if a, ok := x.expr(args[0]); ok {
				if b, ok := x.constInt(args[1]); ok {
					return fmt.Sprintf("(.fmtUint %s %s)", a, b), true
				}
			}
		case fn == "strconv.Itoa" && len(args) == 1:
			if a, ok := x.expr(args[0]); ok {
				return "(.itoa " + a + ")", true
			}
		case fn == "strconv.FormatBool" && len(args) == 1:
			if a, ok := x.expr(args[0]); ok {
				return "(.fmtBool " + a + ")", true
			}
		case fn == "strconv.FormatFloat" && len(args) == 4:
			a, ok1 := x.expr(args[0])
			verb, ok2 := x.constInt(args[1])
			prec, ok3 := x.constInt(args[2])
			bits, ok4 := x.constInt(args[3])
			if ok1 && ok2 && ok3 && ok4 {
				return fmt.Sprintf("(.fmtFloat %s %s %s %s)", a, verb, lint(prec), bits), true
			}
		case fn == "time.Unix" && len(args) == 2:
			if a, ok := x.expr(args[0]); ok {
				if z, ok := x.constInt(args[1]); ok && z == "0" {
					return "(.timeUnix " + a + ")", true
				}
			}
		}
		if sel, ok := n.Fun.(*ast.SelectorExpr); ok {
			switch {
			case sel.Sel.Name == "Unix" && len(args) == 0:
				if a, ok := x.expr(sel.X); ok {
					return "(.unix " + a + ")", true
				}
			case sel.Sel.Name == "Year" && len(args) == 0:
				if a, ok := x.expr(sel.X); ok {
					return "(.year " + a + ")", true
				}
			case sel.Sel.Name == "Format" && len(args) == 1:
				if a, ok := x.expr(sel.X); ok {
					if id, ok := args[0].(*ast.Ident); ok && id.Name == "TimeStringFormat" {
						return "(.timeFormat " + a + " .timeStringFormat)", true
					}
					if tv, ok := x.p.info.Types[args[0]]; ok && tv.Value != nil && tv.Value.Kind() == constant.String {
						return "(.timeFormat " + a + " (.lit " + lstr(constant.StringVal(tv.Value)) + "))", true
					}
				}
			}
			return "", false
		}
		if id, ok := n.Fun.(*ast.Ident); ok && len(args) == 1 && strings.HasSuffix(id.Name, "ToBytes") {
			if a, ok := x.expr(args[0]); ok {
				return "(.call " + lstr(id.Name) + " " + a + ")", true
			}
		}
	}
	return "", false
}

var cmpOps = map[token.Token]string{token.LSS: ".lt", token.LEQ: ".le", token.GTR: ".gt", token.GEQ: ".ge", token.EQL: ".eq", token.NEQ: ".ne"}

func (x *castX) guard(e ast.Expr) (string, bool) {
	e = ast.Unparen(e)
	switch n := e.(type) {
	case *ast.CallExpr:
		// a boolean one-expression helper of the package, e.g. inRange(val, lo, hi)
		return x.inline(n, x.guard)
	case *ast.UnaryExpr:
		if n.Op == token.NOT {
			if a, ok := x.guardNeg(n.X); ok {
				return a, true
			}
			if a, ok := x.guard(n.X); ok {
				return "(.not " + a + ")", true
			}
		}
	case *ast.BinaryExpr:
		switch n.Op {
		case token.LOR, token.LAND:
			a, ok1 := x.guard(n.X)
			b, ok2 := x.guard(n.Y)
			if ok1 && ok2 {
				op := ".or"
				if n.Op == token.LAND {
					op = ".and"
				}
				return fmt.Sprintf("(%s %s %s)", op, a, b), true
			}
		default:
			if op, ok := cmpOps[n.Op]; ok {
				if c, ok := x.constInt(n.Y); ok {
					if l, ok := x.expr(n.X); ok {
						// comparing a float32 widened to float64 with a constant is the exact comparison the
						// model makes anyway (values are decoded exactly): the widening is dropped
						if strings.HasPrefix(l, "(.widen ") && strings.HasSuffix(l, ")") {
							l = l[len("(.widen ") : len(l)-1]
						}
						return fmt.Sprintf("(.cmp %s %s %s)", op, l, lint(c)), true
					}
				}
				// constant on the left: c op e  ==  e op' c
				if c, ok := x.constInt(n.X); ok {
					if l, ok := x.expr(n.Y); ok {
						flip := map[string]string{".lt": ".gt", ".le": ".ge", ".gt": ".lt", ".ge": ".le", ".eq": ".eq", ".ne": ".ne"}
						return fmt.Sprintf("(.cmp %s %s %s)", flip[op], l, lint(c)), true
					}
				}
			}
		}
	}
	return "", false
}

// guardNeg translates the negation of a guard with the negation pushed inward (De Morgan, comparison
// operators negated), so that `!(lo <= v && v <= hi)` and `v < lo || v > hi` give the same text.
func (x *castX) guardNeg(e ast.Expr) (string, bool) {
	e = ast.Unparen(e)
	switch n := e.(type) {
	case *ast.CallExpr:
		return x.inline(n, x.guardNeg)
	case *ast.UnaryExpr:
		if n.Op == token.NOT {
			return x.guard(n.X)
		}
	case *ast.BinaryExpr:
		switch n.Op {
		case token.LOR, token.LAND:
			a, ok1 := x.guardNeg(n.X)
			b, ok2 := x.guardNeg(n.Y)
			if ok1 && ok2 {
				op := ".and"
				if n.Op == token.LAND {
					op = ".or"
				}
				return fmt.Sprintf("(%s %s %s)", op, a, b), true
			}
		default:
			neg := map[token.Token]token.Token{token.LSS: token.GEQ, token.LEQ: token.GTR, token.GTR: token.LEQ, token.GEQ: token.LSS, token.EQL: token.NEQ, token.NEQ: token.EQL}
			// only between integers: on floats `!(v >= lo)` and `v < lo` differ for NaN
			isInt := func(e ast.Expr) bool {
				tv, ok := x.p.info.Types[e]
				if !ok || tv.Type == nil {
					return false
				}
				b, ok := tv.Type.Underlying().(*types.Basic)
				return ok && b.Info()&types.IsInteger != 0
			}
			if nop, ok := neg[n.Op]; ok && isInt(n.X) && isInt(n.Y) {
				return x.guard(&ast.BinaryExpr{X: n.X, Op: nop, Y: n.Y, OpPos: n.OpPos})
			}
		}
	}
	return "", false
}

// failStmt recognises `return nil, fmt.Errorf("%w…", Sentinel, …)`.
func (x *castX) failStmt(s ast.Stmt) (string, bool) {
	r, ok := s.(*ast.ReturnStmt)
	if !ok || len(r.Results) != 2 {
		return "", false
	}
	if id, ok := r.Results[0].(*ast.Ident); !ok || id.Name != "nil" {
		return "", false
	}
	call, ok := r.Results[1].(*ast.CallExpr)
	if !ok {
		return "", false
	}
	if fd, body := x.helper(call.Fun); fd != nil {
		// an error constructor of the package: func(sentinel error, …) error { return fmt.Errorf("%w…", sentinel, …) }
		inner, ok := body.(*ast.CallExpr)
		if !ok || x.p.text(inner.Fun) != "fmt.Errorf" || len(inner.Args) < 2 {
			return "", false
		}
		tv, ok := x.p.info.Types[inner.Args[0]]
		if !ok || tv.Value == nil || !strings.HasPrefix(constant.StringVal(tv.Value), "%w") {
			return "", false
		}
		pid, ok := inner.Args[1].(*ast.Ident)
		if !ok {
			return "", false
		}
		for i, pn := range paramNames(fd) {
			if pn == pid.Name && i < len(call.Args) {
				if id, ok := call.Args[i].(*ast.Ident); ok && strings.HasPrefix(id.Name, "Err") {
					return id.Name, true
				}
			}
		}
		return "", false
	}
	if x.p.text(call.Fun) != "fmt.Errorf" || len(call.Args) < 2 {
		return "", false
	}
	tv, ok := x.p.info.Types[call.Args[0]]
	if !ok || tv.Value == nil || !strings.HasPrefix(constant.StringVal(tv.Value), "%w") {
		return "", false
	}
	id, ok := call.Args[1].(*ast.Ident)
	if !ok {
		return "", false
	}
	return id.Name, true
}

// okStmt recognises `return e, nil`.
func (x *castX) okStmt(s ast.Stmt) (string, bool) {
	r, ok := s.(*ast.ReturnStmt)
	if !ok || len(r.Results) != 2 {
		return "", false
	}
	if id, ok := r.Results[1].(*ast.Ident); !ok || id.Name != "nil" {
		return "", false
	}
	if id, ok := r.Results[0].(*ast.Ident); ok && id.Name == "nil" {
		return "NIL", true
	}
	return x.expr(r.Results[0])
}

// guardedShape recognises the control-flow shapes that all mean "fail with the sentinel when the guard
// holds, else return e":
//
//	if G { fail } ; return e, nil              if G { fail } else { return e, nil }
//	if G' { return e, nil } ; fail             if G' { return e, nil } else { fail }        (G = !G')
//	if G1 { fail } ; if G2 { fail } ; … ; return e, nil                                     (G = G1 || G2 || …)
//	switch { case G1: fail ; case G2: fail ; default: return e, nil }                       (G = G1 || G2 || …)
//
// (shapes with an init statement in the `if` are left to the older code below).
func (x *castX) guardedShape(body []ast.Stmt) (g, sent, e string, ok bool) {
	plainIf := func(s ast.Stmt) *ast.IfStmt {
		ifs, ok := s.(*ast.IfStmt)
		if !ok || ifs.Init != nil || len(ifs.Body.List) != 1 {
			return nil
		}
		return ifs
	}
	elseStmt := func(ifs *ast.IfStmt) ast.Stmt {
		if b, ok := ifs.Else.(*ast.BlockStmt); ok && len(b.List) == 1 {
			return b.List[0]
		}
		return nil
	}
	okE := func(s ast.Stmt) (string, bool) {
		if s == nil {
			return "", false
		}
		e, ok := x.okStmt(s)
		return e, ok && e != "NIL"
	}
	failS := func(s ast.Stmt) (string, bool) {
		if s == nil {
			return "", false
		}
		return x.failStmt(s)
	}
	// tagless switch
	if len(body) == 1 {
		if sw, isSw := body[0].(*ast.SwitchStmt); isSw && sw.Init == nil && sw.Tag == nil {
			var gs []string
			for _, c := range sw.Body.List {
				cc := c.(*ast.CaseClause)
				if len(cc.Body) != 1 {
					return
				}
				if cc.List == nil {
					if e, ok = okE(cc.Body[0]); !ok {
						return
					}
					continue
				}
				s1, okf := failS(cc.Body[0])
				if !okf || (sent != "" && sent != s1) {
					ok = false
					return
				}
				sent = s1
				for _, cond := range cc.List {
					gi, okg := x.guard(cond)
					if !okg {
						ok = false
						return
					}
					gs = append(gs, gi)
				}
			}
			if e == "" || len(gs) == 0 {
				ok = false
				return
			}
			g = gs[0]
			for _, gi := range gs[1:] {
				g = fmt.Sprintf("(.or %s %s)", g, gi)
			}
			return g, sent, e, true
		}
		// single if / else
		if ifs := plainIf(body[0]); ifs != nil && ifs.Else != nil {
			gi, okg := x.guard(ifs.Cond)
			if !okg {
				return
			}
			if s1, okf := failS(ifs.Body.List[0]); okf {
				if e1, oke := okE(elseStmt(ifs)); oke {
					return gi, s1, e1, true
				}
			}
			if e1, oke := okE(ifs.Body.List[0]); oke {
				if s1, okf := failS(elseStmt(ifs)); okf {
					return "(.not " + gi + ")", s1, e1, true
				}
			}
		}
		return
	}
	if len(body) < 2 {
		return
	}
	last := body[len(body)-1]
	// if G' { return e, nil } ; fail
	if len(body) == 2 {
		if ifs := plainIf(body[0]); ifs != nil && ifs.Else == nil {
			if e1, oke := okE(ifs.Body.List[0]); oke {
				if s1, okf := failS(last); okf {
					if gi, okg := x.guard(ifs.Cond); okg {
						return "(.not " + gi + ")", s1, e1, true
					}
				}
			}
		}
	}
	// if G1 { fail } ; … ; return e, nil   (the one-guard form stays with the older code, which also knows ifBool)
	if len(body) >= 3 {
		e1, oke := okE(last)
		if !oke {
			return
		}
		var gs []string
		for _, st := range body[:len(body)-1] {
			ifs := plainIf(st)
			if ifs == nil || ifs.Else != nil {
				return
			}
			s1, okf := failS(ifs.Body.List[0])
			gi, okg := x.guard(ifs.Cond)
			if !okf || !okg || (sent != "" && sent != s1) {
				return "", "", "", false
			}
			sent = s1
			gs = append(gs, gi)
		}
		g = gs[0]
		for _, gi := range gs[1:] {
			g = fmt.Sprintf("(.or %s %s)", g, gi)
		}
		return g, sent, e1, true
	}
	return
}

func (x *castX) branch(body []ast.Stmt) string {
	unknown := func() string {
		txt := x.p.stmtsText(body)
		if id, ok := x.specials[x.p.canonText(body)]; ok {
			return "(.special " + lstr(id) + ")"
		}
		if os.Getenv("EXTRACT_DUMP_CANON") != "" {
			fmt.Fprintln(os.Stderr, "CANON:", x.p.canonText(body))
		}
		return "(.unknown " + lstr(txt) + ")"
	}
	if g, sent, e, ok := x.guardedShape(body); ok {
		return fmt.Sprintf("(.guarded %s %s %s)", g, lstr(sent), e)
	}
	switch len(body) {
	case 1:
		if s, ok := x.failStmt(body[0]); ok {
			return "(.fail " + lstr(s) + ")"
		}
		if e, ok := x.okStmt(body[0]); ok {
			if e == "NIL" {
				return ".retNil"
			}
			return "(.ret " + e + ")"
		}
		// tail call: return f(e)
		if r, ok := body[0].(*ast.ReturnStmt); ok && len(r.Results) == 1 {
			if call, ok := r.Results[0].(*ast.CallExpr); ok && len(call.Args) == 1 {
				if id, ok := call.Fun.(*ast.Ident); ok {
					if a, ok := x.expr(call.Args[0]); ok {
						return fmt.Sprintf("(.tail %s %s)", lstr(id.Name), a)
					}
				}
			}
		}
	case 2:
		// `if id := e; cond(id) { fail }` : the binding is substituted into the guard
		if ifs, ok := body[0].(*ast.IfStmt); ok && ifs.Init != nil && ifs.Else == nil && len(ifs.Body.List) == 1 {
			if as, ok := ifs.Init.(*ast.AssignStmt); ok && as.Tok == token.DEFINE && len(as.Lhs) == 1 && len(as.Rhs) == 1 {
				if id, ok := as.Lhs[0].(*ast.Ident); ok {
					if bound, ok := x.expr(as.Rhs[0]); ok {
						if s, ok := x.failStmt(ifs.Body.List[0]); ok {
							x.binds = map[string]string{id.Name: bound}
							g, okg := x.guard(ifs.Cond)
							x.binds = nil
							if okg {
								if e, ok := x.okStmt(body[1]); ok && e != "NIL" {
									return fmt.Sprintf("(.guarded %s %s %s)", g, lstr(s), e)
								}
							}
						}
					}
				}
			}
		}
		if ifs, ok := body[0].(*ast.IfStmt); ok && ifs.Init == nil && ifs.Else == nil && len(ifs.Body.List) == 1 {
			// guarded
			if s, ok := x.failStmt(ifs.Body.List[0]); ok {
				if g, ok := x.guard(ifs.Cond); ok {
					if e, ok := x.okStmt(body[1]); ok && e != "NIL" {
						return fmt.Sprintf("(.guarded %s %s %s)", g, lstr(s), e)
					}
				}
			}
			// ifBool
			if id, ok := ifs.Cond.(*ast.Ident); ok && id.Name == "val" {
				t, ok1 := x.okStmt(ifs.Body.List[0])
				f, ok2 := x.okStmt(body[1])
				if ok1 && ok2 && t != "NIL" && f != "NIL" {
					return fmt.Sprintf("(.ifBool %s %s)", t, f)
				}
			}
		}
	}
	// parse-then-convert, in its equivalent spellings (the two locals may have any name):
	//   v, err := P(val, …) ; if err == nil { return e(v), nil } ; fail
	//   v, err := P(val, …) ; if err != nil { fail } ; return e(v), nil
	//   if v, err := P(val, …); err == nil { return e(v), nil } ; fail
	// where P is strconv.ParseInt / ParseUint / ParseFloat or a one-expression helper wrapping one of them
	{
		var as *ast.AssignStmt
		var ifs *ast.IfStmt
		var rest []ast.Stmt
		switch {
		case len(body) == 3:
			as, _ = body[0].(*ast.AssignStmt)
			ifs, _ = body[1].(*ast.IfStmt)
			rest = body[2:]
			if ifs != nil && ifs.Init != nil {
				ifs = nil
			}
		case len(body) == 2:
			if i0, ok := body[0].(*ast.IfStmt); ok && i0.Init != nil {
				as, _ = i0.Init.(*ast.AssignStmt)
				ifs = i0
				rest = body[1:]
			}
		}
		if as != nil && ifs != nil && as.Tok == token.DEFINE && len(as.Lhs) == 2 && len(as.Rhs) == 1 && ifs.Else == nil && len(ifs.Body.List) == 1 {
			vname, ename := x.p.text(as.Lhs[0]), x.p.text(as.Lhs[1])
			if call, ok := as.Rhs[0].(*ast.CallExpr); ok {
				if pf, ok := x.parseCall(call); ok {
					cond := x.p.text(ifs.Cond)
					old := x.binds
					x.binds = map[string]string{vname: ".parsed"}
					var e, sent string
					okE, okS := false, false
					switch cond {
					case ename + " == nil":
						e, okE = x.okStmt(ifs.Body.List[0])
						sent, okS = x.failStmt(rest[0])
					case ename + " != nil":
						sent, okS = x.failStmt(ifs.Body.List[0])
						e, okE = x.okStmt(rest[0])
					}
					x.binds = old
					if okE && okS && e != "NIL" {
						return fmt.Sprintf("(.parse %s %s %s)", pf, e, lstr(sent))
					}
				}
			}
		}
	}
	return unknown()
}

// parseCall recognises strconv.ParseInt/ParseUint(val, base, bits) and strconv.ParseFloat(val, bits), directly
// or through a one-expression helper of the package that only forwards its parameters.
func (x *castX) parseCall(call *ast.CallExpr) (string, bool) {
	fn := x.p.text(call.Fun)
	args := call.Args
	if fd, body := x.helper(call.Fun); fd != nil {
		inner, ok := body.(*ast.CallExpr)
		if !ok {
			return "", false
		}
		ps := paramNames(fd)
		if len(ps) != len(call.Args) {
			return "", false
		}
		var mapped []ast.Expr
		for _, a := range inner.Args {
			id, ok := ast.Unparen(a).(*ast.Ident)
			if !ok {
				mapped = append(mapped, a) // a constant of the helper itself
				continue
			}
			found := false
			for i, pn := range ps {
				if pn == id.Name {
					mapped = append(mapped, call.Args[i])
					found = true
				}
			}
			if !found {
				return "", false
			}
		}
		fn, args = x.p.text(inner.Fun), mapped
	}
	if len(args) < 2 || x.p.text(args[0]) != "val" {
		return "", false
	}
	switch {
	case (fn == "strconv.ParseInt" || fn == "strconv.ParseUint") && len(args) == 3:
		b, okb := x.constInt(args[1])
		bits, okbits := x.constInt(args[2])
		if okb && okbits {
			k := ".parseInt"
			if fn == "strconv.ParseUint" {
				k = ".parseUint"
			}
			return fmt.Sprintf("(%s %s %s)", k, b, bits), true
		}
	case fn == "strconv.ParseFloat" && len(args) == 2:
		if bits, ok := x.constInt(args[1]); ok {
			return fmt.Sprintf("(.parseFloat %s)", bits), true
		}
	}
	return "", false
}

func (x *castX) casters() []string {
	var out []string
	var names []string
	decls := map[string]*ast.FuncDecl{}
	for _, f := range x.p.files {
		for _, d := range f.Decls {
			if fd, ok := d.(*ast.FuncDecl); ok && fd.Recv == nil && strings.HasPrefix(fd.Name.Name, "To") && fd.Name.Name != "To" {
				decls[fd.Name.Name] = fd
				names = append(names, fd.Name.Name)
			}
		}
	}
	sort.Strings(names)
	for _, name := range names {
		fd := decls[name]
		var ts *ast.TypeSwitchStmt
		if len(fd.Body.List) == 1 {
			ts, _ = fd.Body.List[0].(*ast.TypeSwitchStmt)
		}
		if ts == nil {
			out = append(out, fmt.Sprintf("  { name := %s, clauses := [], dflt := (.unknown %s) }", lstr(name), lstr(x.p.stmtsText(fd.Body.List))))
			continue
		}
		var clauses []string
		dflt := "(.unknown \"no default clause\")"
		for _, c := range ts.Body.List {
			cc := c.(*ast.CaseClause)
			br := x.branch(cc.Body)
			if cc.List == nil {
				dflt = br
				continue
			}
			var tys []string
			for _, t := range cc.List {
				tys = append(tys, tyOf(x.p.info.Types[t].Type))
			}
			clauses = append(clauses, fmt.Sprintf("      { types := [%s], body := %s }", strings.Join(tys, ", "), br))
		}
		out = append(out, fmt.Sprintf("  { name := %s,\n    clauses := [\n%s],\n    dflt := %s }", lstr(name), strings.Join(clauses, ",\n"), dflt))
	}
	return out
}

// dispatchTo renders cast.To: sample type -> caster.
func (x *castX) dispatchTo() ([]string, string) {
	var rows []string
	dflt := "(.unknown \"no default\")"
	for _, f := range x.p.files {
		for _, d := range f.Decls {
			fd, ok := d.(*ast.FuncDecl)
			if !ok || fd.Name.Name != "To" || fd.Recv != nil {
				continue
			}
			var ts *ast.TypeSwitchStmt
			if len(fd.Body.List) == 1 {
				ts, _ = fd.Body.List[0].(*ast.TypeSwitchStmt)
			}
			if ts == nil {
				// anything but a single type switch is not a dispatch table: never guessed
				dflt = "(.unknown " + lstr(x.p.stmtsText(fd.Body.List)) + ")"
				continue
			}
			for _, c := range ts.Body.List {
				cc := c.(*ast.CaseClause)
				if cc.List == nil {
					if s, ok := x.failStmt(cc.Body[0]); ok && len(cc.Body) == 1 {
						dflt = "(.fail " + lstr(s) + ")"
					} else {
						dflt = "(.unknown " + lstr(x.p.stmtsText(cc.Body)) + ")"
					}
					continue
				}
				br := x.branch(cc.Body)
				for _, t := range cc.List {
					rows = append(rows, fmt.Sprintf("  (%s, %s)", tyOf(x.p.info.Types[t].Type), br))
				}
			}
		}
	}
	return rows, dflt
}

func (x *castX) sentinels() []string {
	var rows []string
	for _, f := range x.p.files {
		for _, d := range f.Decls {
			gd, ok := d.(*ast.GenDecl)
			if !ok || gd.Tok != token.VAR {
				continue
			}
			for _, sp := range gd.Specs {
				vs := sp.(*ast.ValueSpec)
				for i, n := range vs.Names {
					if !strings.HasPrefix(n.Name, "Err") || i >= len(vs.Values) {
						continue
					}
					call, ok := vs.Values[i].(*ast.CallExpr)
					if !ok {
						continue
					}
					fn := x.p.text(call.Fun)
					switch {
					case fn == "errors.New":
						rows = append(rows, fmt.Sprintf("  (%s, none)", lstr(n.Name)))
					case fn == "fmt.Errorf" && len(call.Args) == 2:
						tv := x.p.info.Types[call.Args[0]]
						parent := "none"
						if tv.Value != nil && strings.Contains(constant.StringVal(tv.Value), "%w") {
							parent = "(some " + lstr(x.p.text(call.Args[1])) + ")"
						}
						rows = append(rows, fmt.Sprintf("  (%s, %s)", lstr(n.Name), parent))
					}
				}
			}
		}
	}
	return rows
}

func (x *castX) constVal(name string) string {
	obj := x.p.pkg.Scope().Lookup(name)
	if c, ok := obj.(*types.Const); ok {
		return c.Val().ExactString()
	}
	return ""
}

// binFns renders binary_ops.go.
func (x *castX) binFns() []string {
	var rows []string
	for _, f := range x.p.files {
		if !strings.HasSuffix(x.p.fset.File(f.Pos()).Name(), "binary_ops.go") {
			continue
		}
		for _, d := range f.Decls {
			fd, ok := d.(*ast.FuncDecl)
			if !ok {
				continue
			}
			if !strings.HasSuffix(fd.Name.Name, "ToBytes") && !strings.HasSuffix(fd.Name.Name, "FromBytes") {
				continue // helpers (error constructors …) are inlined where they are used
			}
			rows = append(rows, fmt.Sprintf("  (%s, %s)", lstr(fd.Name.Name), x.binFn(fd)))
		}
	}
	return rows
}

// simplify drops `if constCond {A} else {B}` in favour of the branch the constant selects.
func (x *castX) simplify(ss []ast.Stmt) []ast.Stmt {
	var out []ast.Stmt
	for _, s := range ss {
		if ifs, ok := s.(*ast.IfStmt); ok && ifs.Init == nil {
			if tv, ok := x.p.info.Types[ifs.Cond]; ok && tv.Value != nil && tv.Value.Kind() == constant.Bool {
				if constant.BoolVal(tv.Value) {
					in := x.simplify(ifs.Body.List)
					out = append(out, in...)
					if len(in) > 0 {
						if _, isRet := in[len(in)-1].(*ast.ReturnStmt); isRet {
							return out // what follows is unreachable
						}
					}
				} else if blk, ok := ifs.Else.(*ast.BlockStmt); ok {
					out = append(out, x.simplify(blk.List)...)
				}
				continue
			}
		}
		out = append(out, s)
	}
	return out
}

func (x *castX) binFn(fd *ast.FuncDecl) string {
	body := x.simplify(fd.Body.List)
	// drop `var val T`
	var b2 []ast.Stmt
	for _, s := range body {
		if ds, ok := s.(*ast.DeclStmt); ok {
			if gd, ok := ds.Decl.(*ast.GenDecl); ok && gd.Tok == token.VAR {
				continue
			}
		}
		b2 = append(b2, s)
	}
	body = b2
	txt := x.p.stmtsText(body)
	unknown := "(.unknown " + lstr(txt) + ")"
	name := fd.Name.Name
	if strings.HasSuffix(name, "ToBytes") && len(body) >= 2 {
		// bytes := make([]byte, size)
		as, ok := body[0].(*ast.AssignStmt)
		if !ok || len(as.Rhs) != 1 {
			return unknown
		}
		mk, ok := as.Rhs[0].(*ast.CallExpr)
		if !ok || x.p.text(mk.Fun) != "make" || len(mk.Args) != 2 {
			return unknown
		}
		size, ok := x.constInt(mk.Args[1])
		if !ok {
			return unknown
		}
		last, ok := body[len(body)-1].(*ast.ReturnStmt)
		if !ok || len(last.Results) != 1 || x.p.text(last.Results[0]) != "bytes" {
			return unknown
		}
		mid := body[1 : len(body)-1]
		if len(mid) == 1 {
			if es, ok := mid[0].(*ast.ExprStmt); ok {
				if call, ok := es.X.(*ast.CallExpr); ok && len(call.Args) == 2 && x.p.text(call.Args[0]) == "bytes" {
					if sel, ok := call.Fun.(*ast.SelectorExpr); ok && strings.HasPrefix(sel.Sel.Name, "PutUint") {
						order := strings.TrimPrefix(x.p.text(sel.X), "binary.")
						width := strings.TrimPrefix(sel.Sel.Name, "PutUint")
						// argument must be val, uintW(val) or math.FloatWbits(val)
						arg := x.p.text(call.Args[1])
						okArg := arg == "val" || arg == "uint"+width+"(val)" || arg == "math.Float"+width+"bits(val)"
						if okArg {
							return fmt.Sprintf("(.put %s %s %s)", size, lstr(order), width)
						}
					}
				}
			}
			if x.p.text(mid[0]) == "bytes[0] = byte(val)" || x.p.text(mid[0]) == "bytes[0] = val" {
				return fmt.Sprintf("(.put1 %s)", size)
			}
			if x.p.text(mid[0]) == "if val { bytes[0] = 1 }" {
				return fmt.Sprintf("(.putBool %s)", size)
			}
		}
		return unknown
	}
	if strings.HasSuffix(name, "FromBytes") && len(body) == 2 {
		ifs, ok := body[0].(*ast.IfStmt)
		if !ok || ifs.Init != nil || ifs.Else != nil || len(ifs.Body.List) != 1 {
			return unknown
		}
		sent, ok := x.failStmt(ifs.Body.List[0])
		if !ok {
			return unknown
		}
		cond := x.p.text(ifs.Cond)
		nilCheck := false
		lenCond := cond
		if strings.HasPrefix(cond, "bytes == nil || ") {
			nilCheck = true
			lenCond = strings.TrimPrefix(cond, "bytes == nil || ")
		}
		if !strings.HasPrefix(lenCond, "len(bytes) != ") {
			return unknown
		}
		// size constant: evaluate the right operand
		var sizeExpr ast.Expr
		ast.Inspect(ifs.Cond, func(n ast.Node) bool {
			if be, ok := n.(*ast.BinaryExpr); ok && be.Op == token.NEQ && x.p.text(be.X) == "len(bytes)" {
				sizeExpr = be.Y
			}
			return true
		})
		size, ok := x.constInt(sizeExpr)
		if !ok {
			return unknown
		}
		// second statement: `return e, nil` or `val = e` + return (after simplify: val = …; return val, nil → 3 stmts)
		ret, ok := body[1].(*ast.ReturnStmt)
		if !ok || len(ret.Results) != 2 || x.p.text(ret.Results[1]) != "nil" {
			return unknown
		}
		return x.getExpr(ret.Results[0], size, nilCheck, sent, unknown)
	}
	if strings.HasSuffix(name, "FromBytes") && len(body) == 3 {
		// if …; val = T(order.UintW(bytes)); return val, nil
		ifs, ok := body[0].(*ast.IfStmt)
		as, ok2 := body[1].(*ast.AssignStmt)
		ret, ok3 := body[2].(*ast.ReturnStmt)
		if ok && ok2 && ok3 && len(as.Lhs) == 1 && x.p.text(as.Lhs[0]) == "val" && len(ret.Results) == 2 && x.p.text(ret.Results[0]) == "val" {
			sent, oks := x.failStmt(ifs.Body.List[0])
			cond := x.p.text(ifs.Cond)
			if oks && strings.HasPrefix(cond, "bytes == nil || len(bytes) != ") {
				var sizeExpr ast.Expr
				ast.Inspect(ifs.Cond, func(n ast.Node) bool {
					if be, ok := n.(*ast.BinaryExpr); ok && be.Op == token.NEQ && x.p.text(be.X) == "len(bytes)" {
						sizeExpr = be.Y
					}
					return true
				})
				if size, ok := x.constInt(sizeExpr); ok {
					return x.getExpr(as.Rhs[0], size, true, sent, unknown)
				}
			}
		}
	}
	return unknown
}

func (x *castX) getExpr(e ast.Expr, size string, nilCheck bool, sent, unknown string) string {
	txt := x.p.text(e)
	resTy := tyOf(x.p.info.Types[e].Type)
	nc := "false"
	if nilCheck {
		nc = "true"
	}
	if txt == "bytes[0] != 0" {
		return fmt.Sprintf("(.getBool %s %s)", size, lstr(sent))
	}
	if txt == "bytes[0]" || (strings.HasSuffix(txt, "(bytes[0])") && !strings.Contains(txt, ".")) {
		return fmt.Sprintf("(.get1 %s %s %s)", size, resTy, lstr(sent))
	}
	// [T(] [math.FloatWfrombits(] binary.Order.UintW(bytes) [)] [)]
	inner := txt
	for _, pre := range []string{"int(", "uint(", "int64(", "int32(", "int16(", "math.Float64frombits(", "math.Float32frombits("} {
		if strings.HasPrefix(inner, pre) && strings.HasSuffix(inner, ")") {
			inner = inner[len(pre) : len(inner)-1]
			break
		}
	}
	if strings.HasPrefix(inner, "binary.") && strings.HasSuffix(inner, "(bytes)") {
		parts := strings.Split(strings.TrimSuffix(strings.TrimPrefix(inner, "binary."), "(bytes)"), ".")
		if len(parts) == 2 && strings.HasPrefix(parts[1], "Uint") {
			return fmt.Sprintf("(.get %s %s %s %s %s %s)", size, lstr(parts[0]), strings.TrimPrefix(parts[1], "Uint"), resTy, nc, lstr(sent))
		}
	}
	return unknown
}

func writeIfChanged(path, content string) {
	old, err := os.ReadFile(path)
	if err == nil && string(old) == content {
		return
	}
	if err := os.WriteFile(path, []byte(content), 0o644); err != nil {
		panic(err)
	}
}

func main() {
	repo := flag.String("repo", "/repo", "repository root")
	out := flag.String("out", "lean/Gen", "output directory")
	flag.Parse()
	os.MkdirAll(*out, 0o755)

	cp, err := loadPkg(filepath.Join(*repo, "pkg/cast"), "github.com/cgi-fr/jsonline/pkg/cast")
	if err != nil {
		fmt.Println("cannot load pkg/cast:", err)
		os.Exit(1)
	}
	x := &castX{p: cp, specials: castSpecials}
	var b strings.Builder
	b.WriteString("-- GENERATED by extract/ from /repo/pkg/cast on every run. Do not edit.\nimport Model.CastSyntax\n\nnamespace Jl.Gen\nopen Jl\n\n")
	b.WriteString("def casters : List Caster := [\n" + strings.Join(x.casters(), ",\n") + "\n]\n\n")
	rows, dflt := x.dispatchTo()
	b.WriteString("/-- `cast.To`: dynamic type of the target sample → body. -/\ndef dispatchTo : List (Ty × Branch) := [\n" + strings.Join(rows, ",\n") + "\n]\n\n")
	b.WriteString("def dispatchToDefault : Branch := " + dflt + "\n\n")
	b.WriteString("/-- Error sentinels and the sentinel each wraps with `%w`. -/\ndef sentinels : List (String × Option String) := [\n" + strings.Join(x.sentinels(), ",\n") + "\n]\n\n")
	b.WriteString("/-- binary_ops.go -/\ndef binFns : List (String × BinFn) := [\n" + strings.Join(x.binFns(), ",\n") + "\n]\n\n")
	tsf := ""
	if obj := cp.pkg.Scope().Lookup("TimeStringFormat"); obj != nil {
		for _, f := range cp.files {
			for _, d := range f.Decls {
				if gd, ok := d.(*ast.GenDecl); ok && gd.Tok == token.VAR {
					for _, sp := range gd.Specs {
						vs := sp.(*ast.ValueSpec)
						for i, n := range vs.Names {
							if n.Name == "TimeStringFormat" && i < len(vs.Values) {
								if tv, ok := cp.info.Types[vs.Values[i]]; ok && tv.Value != nil {
									tsf = constant.StringVal(tv.Value)
								}
							}
						}
					}
				}
			}
		}
	}
	b.WriteString("/-- initial value of cast.TimeStringFormat -/\ndef timeStringFormat : String := " + lstr(tsf) + "\n\n")
	b.WriteString("end Jl.Gen\n")
	castTable := strings.ReplaceAll(b.String(), "(.widen ", "(.toF64 ")
	writeIfChanged(filepath.Join(*out, "CastTable.lean"), castTable)
	nunk := strings.Count(castTable, ".unknown")
	var where []string
	for _, blk := range strings.Split(castTable, "{ name := ")[1:] {
		if strings.Contains(blk, ".unknown") {
			where = append(where, strings.Trim(strings.SplitN(blk, ",", 2)[0], "\" "))
		}
	}
	for _, row := range x.binFns() {
		if strings.Contains(row, ".unknown") {
			where = append(where, "binary_ops")
			break
		}
	}
	if r, d := x.dispatchTo(); strings.Contains(strings.Join(r, ""), ".unknown") || strings.Contains(d, ".unknown") {
		where = append(where, "To")
	}
	fmt.Printf("Gen/CastTable.lean: %d casters, %d unknown in [%s]\n", len(x.casters()), nunk, strings.Join(where, " "))

	jp, err := loadPkg(filepath.Join(*repo, "pkg/jsonline"), "github.com/cgi-fr/jsonline/pkg/jsonline")
	if err != nil {
		fmt.Println("cannot load pkg/jsonline:", err)
		os.Exit(1)
	}
	var sb strings.Builder
	sb.WriteString("-- GENERATED by extract/ from /repo/pkg/jsonline and /repo/pkg/cast on every run. Do not edit.\n\nnamespace Jl.Gen\n\n")
	sb.WriteString("/-- Panic-capable sites of pkg/jsonline: (function, kind, count). -/\ndef sites : List (String × String × Nat) := " + renderSites(panicSites(jp)) + "\n\n")
	sb.WriteString("/-- Panic-capable sites of pkg/cast. -/\ndef castSites : List (String × String × Nat) := " + renderSites(panicSites(cp)) + "\n\n")
	jw, jg := sharedWrites(jp)
	cwr, cg := sharedWrites(cp)
	sb.WriteString("/-- Assignments through a receiver, a parameter or a package-level variable in pkg/jsonline. -/\ndef jsonlineWrites : List (String × String) := " + lstrList(jw) + "\n\n")
	sb.WriteString("def jsonlineGlobals : List String := " + lstrList(jg) + "\n\n")
	var st []string
	for n := range sharedTypes(jp) {
		st = append(st, n)
	}
	sort.Strings(st)
	sb.WriteString("/-- Struct types of pkg/jsonline whose objects can be shared through the API (writes to other struct types are not listed above). -/\ndef jsonlineSharedTypes : List String := " + lstrList(st) + "\n\n")
	sb.WriteString("def castWrites : List (String × String) := " + lstrList(cwr) + "\n\n")
	sb.WriteString("def castGlobals : List String := " + lstrList(cg) + "\n\n")
	sb.WriteString("/-- Package-level variables of pkg/jsonline and pkg/cast whose type is a slice, map, pointer, channel, array or struct. -/\ndef refGlobals : List String := " + lstrList(append(refGlobals(jp), refGlobals(cp)...)) + "\n\n")
	sb.WriteString("/-- Every call that receives the template's prototype row `t.empty`, per template method. -/\ndef protoUses : List (String × String) := " + lstrList(rootedCalls(jp, "template.*", "t.empty")) + "\n\n")
	sb.WriteString("/-- What CloneRow / CloneValue do with their argument. -/\ndef cloneUses : List (String × String) := " + lstrList(append(append(rootedCalls(jp, "CloneRow", "r"), rootedCalls(jp, "CloneValue", "v")...), rootedCalls(jp, "row.IterValues", "r.l")...)) + "\n\n")
	// constants of importer.go / exporter.go
	for _, c := range []string{"initialBufferSize", "maximumBufferSize", "lineSeparator"} {
		if obj, ok := jp.pkg.Scope().Lookup(c).(*types.Const); ok {
			sb.WriteString(fmt.Sprintf("def %s : Nat := %s\n", c, obj.Val().ExactString()))
		}
	}
	sb.WriteString("\nend Jl.Gen\n")
	writeIfChanged(filepath.Join(*out, "Sites.lean"), sb.String())

	// BEGIN value table
	vt := valueTableOf(jp)
	writeIfChanged(filepath.Join(*out, "ValueTable.lean"), vt.text)
	fmt.Printf("Gen/ValueTable.lean: %d import rows, %d export rows, %d unknown in [%s]\n", vt.nImport, vt.nExport, vt.nU, strings.Join(vt.where, " "))
	// END value table

	// BEGIN flow table
	ft := flowTableOf(jp)
	writeIfChanged(filepath.Join(*out, "FlowTable.lean"), ft.text)
	fmt.Printf("Gen/FlowTable.lean: %d builders, %d unknown in [%s]\n", ft.nB, ft.nU, strings.Join(ft.where, " "))
	if os.Getenv("FLOWDEBUG") != "" {
		fmt.Print(flowDump(jp))
	}
	// END flow table
	// BEGIN row facts
	rf := rowFactsOf(jp)
	writeIfChanged(filepath.Join(*out, "RowFacts.lean"), rf.text)
	fmt.Printf("Gen/RowFacts.lean: %d functions of row.go, %d unknown in [%s]\n", rf.nFuncs, rf.nU, strings.Join(rf.where, " "))
	// END row facts
	// BEGIN jl facts
	if jlp, err := loadPkg(filepath.Join(*repo, "cmd/jl"), "github.com/cgi-fr/jsonline/cmd/jl"); err == nil {
		jf := jlFactsOf(jlp)
		writeIfChanged(filepath.Join(*out, "JlFacts.lean"), jf.text)
		fmt.Printf("Gen/JlFacts.lean: %d functions of cmd/jl, %d unknown in [%s]\n", jf.nF, jf.nU, strings.Join(jf.where, " "))
		if os.Getenv("JLDEBUG") != "" {
			fmt.Print(jlDump(jlp))
		}
	}
	// END jl facts

	if mp, err := loadPkg(filepath.Join(*repo, "cmd/jl"), "github.com/cgi-fr/jsonline/cmd/jl"); err == nil {
		fr, tr := registries(mp)
		var rb strings.Builder
		rb.WriteString("-- GENERATED by extract/ from /repo/cmd/jl on every run. Do not edit.\nimport Model.Basic\n\nnamespace Jl.Gen\nopen Jl\n\n")
		rb.WriteString("/-- cmd/jl formatRegistry -/\ndef formatRegistry : List (Bytes × Format) := [\n" + strings.Join(fr, ",\n") + "\n]\n\n")
		rb.WriteString("/-- cmd/jl typeRegistry: name → dynamic type of the sample -/\ndef typeRegistry : List (Bytes × Ty) := [\n" + strings.Join(tr, ",\n") + "\n]\n\n")
		rb.WriteString("end Jl.Gen\n")
		writeIfChanged(filepath.Join(*out, "Registry.lean"), rb.String())
		fmt.Printf("Gen/Registry.lean: %d formats, %d types\n", len(fr), len(tr))
	}
	fmt.Printf("Gen/Sites.lean: %d jsonline sites, %d writes\n", len(panicSites(jp)), len(jw))
}
