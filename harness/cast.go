package main

// Cast cases (C09, C10, C11, C12 share the line format):
//
//	cast \t <prop> \t <callee> \t <src Dyn> \t <ext> \t <impl result>
//
// callee: a caster name ("ToInt32") or "To:<ty>" for cast.To with a sample of that type.
// result: "ok <Dyn>" | "err <class>" | "panic <text>".
// ext:    stdlib answers the model may need (float text, zone offsets), space separated.

import (
	"bytes"
	"database/sql"
	"encoding/base64"
	"encoding/json"
	"errors"
	"fmt"
	"math"
	"math/big"
	"net"
	"net/url"
	"os"
	"reflect"
	"runtime"
	"strconv"
	"strings"
	"sync"
	"sync/atomic"
	"time"

	"github.com/cgi-fr/jsonline/pkg/cast"
	"github.com/cgi-fr/jsonline/pkg/jsonline"
)

var casterFns = map[string]func(interface{}) (interface{}, error){
	"ToInt": cast.ToInt, "ToInt64": cast.ToInt64, "ToInt32": cast.ToInt32, "ToInt16": cast.ToInt16, "ToInt8": cast.ToInt8,
	"ToUint": cast.ToUint, "ToUint64": cast.ToUint64, "ToUint32": cast.ToUint32, "ToUint16": cast.ToUint16, "ToUint8": cast.ToUint8,
	"ToFloat64": cast.ToFloat64, "ToFloat32": cast.ToFloat32, "ToBool": cast.ToBool, "ToString": cast.ToString,
	"ToNumber": cast.ToNumber, "ToBinary": cast.ToBinary, "ToTime": cast.ToTime, "ToDate": cast.ToDate, "ToTimestamp": cast.ToTimestamp,
}

var intCasters = []string{"ToInt", "ToInt64", "ToInt32", "ToInt16", "ToInt8", "ToUint", "ToUint64", "ToUint32", "ToUint16", "ToUint8"}

// the dispatcher cast.To(sample of the integer type, v) must behave as the caster it selects
var intCallees = append(append([]string{}, intCasters...), "To:int", "To:i64", "To:i32", "To:i16", "To:i8", "To:uint", "To:u64", "To:u32", "To:u16", "To:u8")
var intTyOfCaster = map[string]string{"ToInt": "int", "ToInt64": "i64", "ToInt32": "i32", "ToInt16": "i16", "ToInt8": "i8",
	"ToUint": "uint", "ToUint64": "u64", "ToUint32": "u32", "ToUint16": "u16", "ToUint8": "u8"}
var allCasters = []string{"ToInt", "ToInt64", "ToInt32", "ToInt16", "ToInt8", "ToUint", "ToUint64", "ToUint32", "ToUint16", "ToUint8",
	"ToFloat64", "ToFloat32", "ToBool", "ToString", "ToNumber", "ToBinary", "ToTime", "ToDate", "ToTimestamp"}

type (
	celsius  float64
	myFlt32  float32
	myInt8   int8
	myUint16 uint16
)

var otherTurn int
var otherTargets = []interface{}{struct{ X int }{}, celsius(0), myInt(0), myString(""), myBool(false), myBytes(nil), myInt8(0), myUint16(0), myFlt32(0), myFloat(0), myByte(0), new(int), []int{}, map[string]int{}, time.Duration(0), time.Month(1)}

func callCast(callee string, src interface{}) (res interface{}, err error, pan string) {
	pan = guard(func() {
		if callee == "To:other" {
			// a target outside the nineteen supported ones: in turn a struct, NAMED types over every basic kind (which a
			// dispatch on reflect.Kind would take for their underlying types), a pointer, a slice, a map, a func
			otherTurn++
			res, err = cast.To(otherTargets[otherTurn%len(otherTargets)], src)
		} else if strings.HasPrefix(callee, "To:") {
			res, err = cast.To(tySample[strings.TrimPrefix(callee, "To:")], src)
		} else {
			res, err = casterFns[callee](src)
		}
	})
	return
}

func resultStr(res interface{}, err error, pan string) string {
	switch {
	case pan != "":
		return "panic " + strings.ReplaceAll(strings.ReplaceAll(pan, "\t", " "), "\n", " ")
	case err != nil:
		return "err " + classify(err)
	}
	return "ok " + dynStr(res)
}

// extFor collects the stdlib answers the model may need for a source value.
func extFor(src interface{}, into map[string]string) {
	zo := func(v int64) {
		_, off := time.Unix(v, 0).Zone()
		into[fmt.Sprintf("zo:%d", v)] = strconv.Itoa(off)
	}
	ff := func(x float64, bits int) {
		into[fmt.Sprintf("ff:%016x:%d", math.Float64bits(x), bits)] = hx([]byte(strconv.FormatFloat(x, 'f', -1, bits)))
	}
	pf := func(s string) {
		for _, bits := range []int{64, 32} {
			v, err := strconv.ParseFloat(s, bits)
			k := fmt.Sprintf("pf:%s:%d", hx([]byte(s)), bits)
			if err != nil {
				into[k] = "E"
			} else {
				into[k] = fmt.Sprintf("%016x", math.Float64bits(v))
			}
		}
		if v, err := strconv.ParseInt(s, 0, 64); err == nil {
			zo(v)
		}
	}
	switch v := src.(type) {
	case float64:
		ff(v, 64)
		if v == math.Trunc(v) && math.Abs(v) < 9.2e18 {
			zo(int64(v))
		}
		pf(strconv.FormatFloat(v, 'f', -1, 64))
	case float32:
		ff(float64(v), 32)
		if float64(v) == math.Trunc(float64(v)) && math.Abs(float64(v)) < 9.2e18 {
			zo(int64(v))
		}
		pf(strconv.FormatFloat(float64(v), 'f', -1, 32))
	case string:
		pf(v)
	case json.Number:
		pf(string(v))
	case []byte:
		pf(string(v))
		if len(v) == 8 {
			var u uint64
			for i := 7; i >= 0; i-- {
				u = u<<8 | uint64(v[i])
			}
			zo(int64(u))
		}
	case int:
		zo(int64(v))
	case int64:
		zo(v)
	case int32:
		zo(int64(v))
	case int16:
		zo(int64(v))
	case int8:
		zo(int64(v))
	case uint:
		if v <= math.MaxInt64 {
			zo(int64(v))
		}
	case uint64:
		if v <= math.MaxInt64 {
			zo(int64(v))
		}
	case uint32:
		zo(int64(v))
	case uint16:
		zo(int64(v))
	case uint8:
		zo(int64(v))
	case bool:
		zo(0)
		zo(1)
	case time.Time:
		zo(v.Unix())
	}
}

func extStr(m map[string]string) string {
	if len(m) == 0 {
		return "-"
	}
	keys := make([]string, 0, len(m))
	for k := range m {
		keys = append(keys, k)
	}
	sortStrings(keys)
	parts := make([]string, len(keys))
	for i, k := range keys {
		parts[i] = k + "=" + m[k]
	}
	return strings.Join(parts, " ")
}

func emitCast(cw *caseWriter, prop, callee string, src interface{}, nontrivial bool) (interface{}, error, string) {
	res, err, pan := callCast(callee, src)
	ext := map[string]string{}
	extFor(src, ext)
	if err == nil && pan == "" {
		extFor(res, ext)
	}
	if cv, ok := carriedInt(src); ok {
		// a number in a carrier outside the supported set: its exact value (truncated toward zero), so that the
		// oracle can tell a rejected carrier (fine) from one that is accepted with another value (C09)
		ext["cv"] = cv
	}
	s := dynStr(src)
	cw.count("callee:" + callee)
	cw.count("src:" + tyName(src))
	switch {
	case pan != "":
		cw.count("res:panic")
	case err != nil:
		cw.count("res:err")
	default:
		cw.count("res:ok")
	}
	cw.emit(prop+" "+callee+" "+s, nontrivial, "cast", prop, callee, s, extStr(ext), resultStr(res, err, pan))
	return res, err, pan
}

// ---- value generators ------------------------------------------------------------------

// intsOfType returns v converted to every integer Go type that holds it exactly.
func carriersOf(v int64, neg bool, u uint64) []interface{} {
	var out []interface{}
	if !neg {
		// value is u (non-negative)
		if u <= math.MaxInt64 {
			out = append(out, int(u), int64(u))
		}
		if u <= math.MaxInt32 {
			out = append(out, int32(u))
		}
		if u <= math.MaxInt16 {
			out = append(out, int16(u))
		}
		if u <= math.MaxInt8 {
			out = append(out, int8(u))
		}
		out = append(out, uint(u), uint64(u))
		if u <= math.MaxUint32 {
			out = append(out, uint32(u))
		}
		if u <= math.MaxUint16 {
			out = append(out, uint16(u))
		}
		if u <= math.MaxUint8 {
			out = append(out, uint8(u))
		}
		return out
	}
	out = append(out, int(v), int64(v))
	if v >= math.MinInt32 {
		out = append(out, int32(v))
	}
	if v >= math.MinInt16 {
		out = append(out, int16(v))
	}
	if v >= math.MinInt8 {
		out = append(out, int8(v))
	}
	return out
}

// boundaryInts: every value within ±2 of every power of two and type bound, as (neg, magnitude).
func boundaryInts() [][2]uint64 {
	seen := map[[2]uint64]bool{}
	var out [][2]uint64
	add := func(neg bool, m uint64) {
		k := [2]uint64{0, m}
		if neg && m != 0 {
			k[0] = 1
		}
		if !seen[k] {
			seen[k] = true
			out = append(out, k)
		}
	}
	for p := 0; p <= 64; p++ {
		var base uint64
		if p == 64 {
			base = math.MaxUint64
			for d := uint64(0); d <= 2; d++ {
				add(false, base-d)
			}
			continue
		}
		base = uint64(1) << uint(p)
		for d := uint64(0); d <= 2; d++ {
			add(false, base+d)
			if base >= d {
				add(false, base-d)
			}
			if p <= 63 {
				if base+d <= uint64(1)<<63 {
					add(true, base+d)
				}
				if base >= d {
					add(true, base-d)
				}
			}
		}
	}
	add(false, 0)
	return out
}

func nextFloat64(x float64, n int) float64 {
	for ; n > 0; n-- {
		x = math.Nextafter(x, math.Inf(1))
	}
	for ; n < 0; n++ {
		x = math.Nextafter(x, math.Inf(-1))
	}
	return x
}

func nextFloat32(x float32, n int) float32 {
	for ; n > 0; n-- {
		x = math.Nextafter32(x, float32(math.Inf(1)))
	}
	for ; n < 0; n++ {
		x = math.Nextafter32(x, float32(math.Inf(-1)))
	}
	return x
}

func boundaryFloats64() []float64 {
	var out []float64
	for p := 0; p <= 65; p++ {
		b := math.Ldexp(1, p)
		for _, s := range []float64{1, -1} {
			for d := -2; d <= 2; d++ {
				out = append(out, nextFloat64(s*b, d))
			}
			out = append(out, s*(b-0.5), s*(b+0.5), s*(b-1), s*(b+1))
		}
	}
	out = append(out, 0, math.Copysign(0, -1), 0.5, -0.5, 0.999999, -0.999999, 1.5, -1.5, 255.5, 127.5, -128.5, 65535.5, 2147483647.5, -2147483648.5,
		math.NaN(), math.Float64frombits(0x7ff8000000000001), math.Float64frombits(0xfff0000000000001), math.Inf(1), math.Inf(-1),
		math.SmallestNonzeroFloat64, -math.SmallestNonzeroFloat64, math.MaxFloat64, -math.MaxFloat64, 1e21, 1e300, 4.9e-324, 2.2250738585072014e-308)
	return out
}

func boundaryFloats32() []float32 {
	var out []float32
	for p := 0; p <= 65; p++ {
		b := float32(math.Ldexp(1, p))
		for _, s := range []float32{1, -1} {
			for d := -2; d <= 2; d++ {
				out = append(out, nextFloat32(s*b, d))
			}
			out = append(out, s*(b-0.5), s*(b+0.5))
		}
	}
	out = append(out, 0, float32(math.Copysign(0, -1)), 0.5, -0.5, 1.5, 255.5, 127.5, -128.5, 65535.5,
		float32(math.NaN()), math.Float32frombits(0x7fc00001), math.Float32frombits(0xff800001), float32(math.Inf(1)), float32(math.Inf(-1)),
		math.SmallestNonzeroFloat32, math.MaxFloat32, -math.MaxFloat32, 16777217, 1e-45)
	return out
}

// ---- C09 ---------------------------------------------------------------------------------

func genC09(cw *caseWriter, seed uint64, tier string) {
	r := newRng(seed)
	c09Lines(cw)
	// 8-bit sources exhaustively; 16-bit sources exhaustively in the thorough tier, and within
	// ±260 of every power of two / bound plus a random sample in the quick tier
	want16 := func(v int) bool {
		if tier == "thorough" {
			return true
		}
		a := v
		if a < 0 {
			a = -a
		}
		for p := 0; p <= 16; p++ {
			d := a - (1 << uint(p))
			if d < 0 {
				d = -d
			}
			if d <= 260 {
				return true
			}
		}
		return r.intn(40) == 0
	}
	for v := math.MinInt16; v <= math.MaxInt16; v++ {
		var srcs []interface{}
		if want16(v) {
			srcs = append(srcs, int16(v))
		}
		if v >= math.MinInt8 && v <= math.MaxInt8 {
			srcs = append(srcs, int8(v))
		}
		for _, s := range srcs {
			for _, c := range intCasters {
				emitCast(cw, "C09", c, s, true)
			}
		}
	}
	for v := 0; v <= math.MaxUint16; v++ {
		var srcs []interface{}
		if want16(v) {
			srcs = append(srcs, uint16(v))
		}
		if v <= math.MaxUint8 {
			srcs = append(srcs, uint8(v))
		}
		for _, s := range srcs {
			for _, c := range intCasters {
				emitCast(cw, "C09", c, s, true)
			}
		}
	}
	cw.extra["exhaustive_8_bit_sources"] = true
	cw.extra["exhaustive_16_bit_sources"] = tier == "thorough"
	// boundaries for wider integers, every carrier incl. decimal text and json.Number
	for _, b := range boundaryInts() {
		neg, m := b[0] == 1, b[1]
		var srcs []interface{}
		var dec string
		if neg {
			srcs = carriersOf(-int64(m-1)-1, true, 0)
			dec = "-" + strconv.FormatUint(m, 10)
		} else {
			srcs = carriersOf(0, false, m)
			dec = strconv.FormatUint(m, 10)
		}
		srcs = append(srcs, dec, json.Number(dec))
		if !neg {
			srcs = append(srcs, "+"+dec)
		}
		for _, s := range srcs {
			for _, c := range intCallees {
				emitCast(cw, "C09", c, s, true)
			}
		}
	}
	// text one past the 64-bit bounds and far beyond
	for _, s := range []string{"18446744073709551616", "-9223372036854775809", "99999999999999999999999999", "-99999999999999999999999999",
		"", "-", "+", "abc", "1.0", "1e3", " 1", "1 ", "0x10", "010", "1_000", "0b11", "0o17", "08", "_1", "1__0", "-0", "+0", "00", "0x", "١٢"} {
		for _, c := range intCallees {
			emitCast(cw, "C09", c, s, true)
			emitCast(cw, "C09", c, json.Number(s), true)
		}
	}
	for _, f := range boundaryFloats64() {
		for _, c := range intCallees {
			emitCast(cw, "C09", c, f, true)
		}
	}
	for _, f := range boundaryFloats32() {
		for _, c := range intCallees {
			emitCast(cw, "C09", c, f, true)
		}
	}
	for _, b := range []bool{true, false} {
		for _, c := range intCallees {
			emitCast(cw, "C09", c, b, true)
		}
	}
	// carriers of a number that are not in the supported set (refused today): if one of them ever becomes a
	// source, its value has to be range-checked like the others
	for _, s := range exoticNumbers() {
		for _, c := range intCallees {
			emitCast(cw, "C09", c, s, true)
		}
	}
	// with the documented package variable cast.TimeStringFormat assigned other layouts by the program (digits only,
	// date only): integer casts do not read dates, whatever the layout says
	for _, layout := range []string{"20060102", "2006-01-02", "150405", "2006", "1", time.RFC1123} {
		saved := cast.TimeStringFormat
		cast.TimeStringFormat = layout
		for _, txt := range []string{"20210101", "19700101", "235959", "2021", "1", "12", "0", "-20210101", "20211301", "99999999", "2021-01-01"} {
			for _, c := range intCallees {
				emitCast(cw, "C09", c, txt, true)
				emitCast(cw, "C09", c, json.Number(txt), true)
				emitCast(cw, "C09", c, []byte(txt), true)
			}
		}
		cast.TimeStringFormat = saved
	}
	// column level: every format that reads text x every integer raw type, fed with decimal texts as JSON strings
	// and as JSON numbers (single digits, signs, the bounds of every width and one past them)
	colTexts := []string{"0", "1", "7", "9", "-1", "-7", "10", "12", "48", "55", "57", "127", "128", "-128", "-129", "255", "256", "32767", "32768", "-32768", "65535", "65536", "2147483647", "2147483648", "-2147483648",
		"4294967295", "4294967296", "9223372036854775807", "9223372036854775808", "-9223372036854775808", "18446744073709551615", "18446744073709551616", "007", "+7", " 7", "7 ", "7.0", "7e0", "", "x"}
	for _, f := range []string{"string", "numeric", "auto", "timestamp", "boolean"} {
		for _, ty := range []string{"int", "i64", "i32", "i16", "i8", "uint", "u64", "u32", "u16", "u8"} {
			for _, txt := range colTexts {
				emitImpFor(cw, "C09", f, ty, txt)
				emitImpFor(cw, "C09", f, ty, json.Number(txt))
			}
		}
	}
	// … the same column after it took over another declaration: a column of a WIDE integer type imports a
	// jsonline.Value declared with a NARROW one (and the other way round), then the texts — the bounds that count are
	// those of the declaration the cell holds now
	intTys := []string{"int", "i64", "i32", "i16", "i8", "uint", "u64", "u32", "u16", "u8"}
	for i, ty := range intTys {
		for j, ty2 := range intTys {
			if ty == ty2 || (i+j)%3 != 0 {
				continue
			}
			f, f2 := pick(r, []string{"numeric", "string", "auto"}), pick(r, []string{"numeric", "string", "auto", "timestamp"})
			for _, txt := range []string{"7", "127", "128", "-129", "255", "256", "300", "32768", "65536", "2147483648", "-1", "4294967296", "9223372036854775808", "18446744073709551616"} {
				emitImpAfterValue(cw, "C09", f, ty, f2, ty2, nil, json.Number(txt))
				emitImpAfterValue(cw, "C09", f, ty, f2, ty2, 1, txt)
			}
		}
	}
	// column level, numbers carried by Go floats (handed through the API: Value.Import, ImportAtKey): around 2^24 and
	// 2^53 (where the float types stop holding every integer), at the bounds of every width, non-integral, non-finite
	var fl []interface{}
	for _, e := range []int{7, 8, 15, 16, 24, 31, 32, 53, 63, 64} {
		p := math.Ldexp(1, e)
		fl = append(fl, float32(p), float32(-p), float64(p), float64(-p), float64(p-1), float64(p+2), float32(p+2), math.Nextafter32(float32(p), 0), math.Nextafter(p, 0), math.Nextafter(p, math.Inf(1)))
	}
	fl = append(fl, float32(123456792), float32(16777218), float32(1.5), float64(-0.5), float32(3.4e38), math.NaN(), float32(math.NaN()), math.Inf(1), float32(math.Inf(-1)), float64(0), float32(0))
	for _, f := range []string{"numeric", "string", "auto", "timestamp", "boolean", "binary"} {
		for _, ty := range intTys {
			for k, v := range fl {
				if (k+len(f)+len(ty))%2 == 0 || tier == "thorough" {
					emitImpFor(cw, "C09", f, ty, v)
				}
			}
		}
	}
	// values STORED with Row.Set / SetAtIndex into a column declared with an integer raw type: inside the range the
	// column holds the integer, outside it holds null — never the unconverted source, never another integer
	setVals := []interface{}{7, 127, 128, -128, -129, 255, 256, 300, 32768, 65535, 65536, int64(1) << 31, int64(1) << 32, int64(math.MaxInt64), uint64(math.MaxUint64), uint64(1) << 63, -1,
		"300", "9223372036854775808", json.Number("128"), json.Number("1e2"), 1.5, float64(1 << 40), float32(1 << 31), math.NaN(), true, nil, []byte{1, 2}}
	for _, f := range []string{"numeric", "string", "auto", "timestamp"} {
		for _, ty := range intTys {
			for k, v := range setVals {
				emitSetCol(cw, "C09", f, ty, v, k%2 == 0)
			}
		}
	}
	// the typed integer GETTERS over columns holding integers around every width's bounds, whatever carries them:
	// the value when it fits the getter's type, the zero value otherwise — never a wrapped one
	getInts := map[string]func(jsonline.Row, string) interface{}{
		"GetInt": func(r jsonline.Row, k string) interface{} { return r.GetInt(k) }, "GetInt64": func(r jsonline.Row, k string) interface{} { return r.GetInt64(k) },
		"GetInt32": func(r jsonline.Row, k string) interface{} { return r.GetInt32(k) }, "GetInt16": func(r jsonline.Row, k string) interface{} { return r.GetInt16(k) },
		"GetInt8": func(r jsonline.Row, k string) interface{} { return r.GetInt8(k) }, "GetUint": func(r jsonline.Row, k string) interface{} { return r.GetUint(k) },
		"GetUint64": func(r jsonline.Row, k string) interface{} { return r.GetUint64(k) }, "GetUint32": func(r jsonline.Row, k string) interface{} { return r.GetUint32(k) },
		"GetUint16": func(r jsonline.Row, k string) interface{} { return r.GetUint16(k) }, "GetUint8": func(r jsonline.Row, k string) interface{} { return r.GetUint8(k) }}
	for _, g := range []string{"GetInt", "GetInt64", "GetInt32", "GetInt16", "GetInt8", "GetUint", "GetUint64", "GetUint32", "GetUint16", "GetUint8"} {
		for _, v := range []interface{}{127, 128, -128, -129, 255, 256, 300, 32767, 32768, 65535, 65536, 70000, int64(1) << 31, int64(1)<<32 + 5, int64(math.MinInt64), uint64(math.MaxUint64), -1,
			"70000", "128", "-1", json.Number("300"), json.Number("4294967301"), float64(1 << 33), 3e9, float32(300), 1.5} {
			row := jsonline.NewRow()
			row.Set("v", v)
			gg := getInts[g]
			emitGetterFor(cw, "C09", row, g, "v", func(rr jsonline.Row) interface{} { return gg(rr, "v") })
		}
	}
	// uniformly random
	n := 3000
	if tier == "thorough" {
		n = 200000
	}
	for i := 0; i < n; i++ {
		c := pick(r, intCasters)
		var src interface{}
		switch r.intn(8) {
		case 0:
			src = int64(r.u64())
		case 1:
			src = r.u64()
		case 2:
			src = int32(r.u64())
		case 3:
			src = uint32(r.u64())
		case 4:
			src = math.Float64frombits(r.u64())
		case 5:
			src = math.Float32frombits(uint32(r.u64()))
		case 6:
			src = strconv.FormatInt(int64(r.u64())>>uint(r.intn(64)), 10)
		default:
			// floats near the integer range
			src = math.Ldexp(float64(int64(r.u64()))/float64(1<<62), r.intn(70))
		}
		emitCast(cw, "C09", c, src, true)
	}
}

// ---- C10 ---------------------------------------------------------------------------------

type myInt int
type myString string
type myByte byte
type myFloat float64
type myBool bool
type myStruct struct{ A int }
type myBytes []byte
type myHash [4]byte

func c10Sources() []interface{} {
	x := 5
	s := "s"
	t0 := time.Date(2021, 9, 24, 21, 21, 0, 0, time.UTC)
	srcs := []interface{}{(*time.Time)(nil), (*url.URL)(nil), (*big.Int)(nil), (*net.IP)(nil), new(big.Int), &url.URL{Host: "h"}, time.Duration(5),
		nil,
		int(0), int(-3), int(1 << 40), int64(0), int64(math.MinInt64), int64(1632518460), int32(7), int32(math.MaxInt32), int16(-2), int8(-128), int8(100),
		uint(0), uint(math.MaxUint64), uint64(1 << 63), uint64(9), uint32(math.MaxUint32), uint32(3), uint16(65535), uint8(255), uint8(0),
		float64(0), float64(1.5), float64(-2), float64(1e300), math.NaN(), math.Inf(1), float32(0.1), float32(-7), float32(3.4e38),
		true, false,
		"", "abc", "12", "-1", "1.5", "true", "2021-09-24", "2021-09-24T21:21:00Z", "2021-09-24T21:21:00+02:00", "1632518460", "AQ==", "NaN", "1e2", "0x10",
		[]byte{}, []byte{1}, []byte{1, 0}, []byte{1, 0, 0, 0}, []byte{1, 0, 0, 0, 0, 0, 0, 0}, []byte("12"), []byte("true"), []byte("2021-09-24"), []byte("2021-09-24T21:21:00Z"), []byte{0xff, 0xfe, 0xfd},
		json.Number(""), json.Number("0"), json.Number("12"), json.Number("-1.5"), json.Number("1e2"), json.Number("abc"), json.Number("9223372036854775808"),
		t0, time.Unix(0, 0), time.Unix(-1, 5).In(time.FixedZone("", 19800)), time.Date(10000, 1, 1, 0, 0, 0, 0, time.UTC), time.Date(-5, 1, 1, 0, 0, 0, 0, time.UTC), time.Time{},
		// outside the supported set
		myInt(3), myString("x"), myByte(1), myFloat(1.5), myBool(true), myStruct{1}, &myStruct{1}, &x, &s, (*int)(nil), (*myStruct)(nil),
		myBytes{1, 2}, myHash{1, 2, 3, 4},
		[]int{1}, []string{"a"}, []interface{}{1, "a"}, []interface{}(nil), map[string]interface{}{"a": 1}, map[string]interface{}(nil), map[int]int{1: 2},
		struct{}{}, func() {}, make(chan int), complex(1, 2), fmt.Errorf("e"), uintptr(1), [3]int{1, 2, 3}, [2]string{"a", "b"}, [2]myByte{1, 2}, [0]myByte{},
	}
	srcs = append(srcs, exoticNumbers()...)
	tp := time.Date(2021, 9, 24, 21, 21, 0, 0, time.FixedZone("", 7200))
	srcs = append(srcs, &tp, json.RawMessage(`{"a":1}`), json.RawMessage(`null`), json.RawMessage(nil), json.RawMessage(`"2021-09-24"`), json.RawMessage("true"),
		net.IP{1, 2, 3, 4}, net.HardwareAddr{1, 2}, bytes.NewBufferString("12"), strings.NewReader("12"), &strings.Builder{}, []rune("12"), []uint16{1}, [2]bool{true, false},
		time.UTC, time.Saturday, sql.NullBool{Bool: true, Valid: true}, sql.NullTime{Time: tp, Valid: true}, sql.RawBytes("12"), errors.New("12"), os.ErrNotExist)
	// byte slices past the lengths an error message might treat differently (32, 64, 256, 4096)
	for _, n := range []int{17, 31, 32, 33, 63, 64, 65, 255, 256, 257, 4096, 4097, 70000} {
		srcs = append(srcs, bytes.Repeat([]byte{7}, n), strings.Repeat("7", n))
	}
	// byte arrays of every length 0-16
	srcs = append(srcs, [0]byte{}, [1]byte{1}, [2]byte{1, 2}, [3]byte{1, 2, 3}, [4]byte{1, 2, 3, 4}, [5]byte{5}, [6]byte{6}, [7]byte{7}, [8]byte{1, 2, 3, 4, 5, 6, 7, 8},
		[9]byte{9}, [10]byte{10}, [11]byte{11}, [12]byte{12}, [13]byte{13}, [14]byte{14}, [15]byte{15}, [16]byte{16})
	return srcs
}

// exoticNumbers: numbers in carriers outside the supported source types (big numbers, raw JSON, durations,
// named and pointer types, Stringers), with values in and out of every integer range.
func exoticNumbers() []interface{} {
	bigOf := func(s string) *big.Int { b, _ := new(big.Int).SetString(s, 10); return b }
	i300, i5, s300 := 300, 5, "300"
	n300 := json.Number("300")
	u64max := uint64(math.MaxUint64)
	return []interface{}{
		bigOf("5"), bigOf("300"), bigOf("-129"), bigOf("9223372036854775808"), bigOf("-9223372036854775809"), bigOf("18446744073709551616"),
		bigOf("18446744073709551621"), bigOf("36893488147419103359"), bigOf("340282366920938463463374607431768211461"), *bigOf("300"),
		big.NewFloat(300), big.NewFloat(1e30), big.NewRat(300, 1), big.NewRat(1, 3),
		json.RawMessage("300"), json.RawMessage("5"), json.RawMessage(`"300"`), json.RawMessage("1e30"), json.RawMessage("-1"),
		time.Duration(300), time.Duration(math.MaxInt64), time.Month(13), time.Second,
		myInt(300), myInt(5), myInt(-1), myFloat(300.9), myFloat(1e30), myString("300"), myByte(200),
		&i300, &i5, &s300, &n300, &u64max, [1]int{300}, []int{300}, []interface{}{300}, map[string]interface{}{"v": 300},
		stringerNum(300), textNum("300"), complex(300, 0), complex64(5), uintptr(300), uintptr(math.MaxUint64),
		sql.NullInt64{Int64: 300, Valid: true}, sql.NullString{String: "300", Valid: true}, reflect.ValueOf(300), atomicOf(300),
	}
}

// carriedInt: the integer value (truncated toward zero) of a number held by a carrier outside the supported set.
func carriedInt(src interface{}) (string, bool) {
	ofFloat := func(f float64) (string, bool) {
		if math.IsNaN(f) || math.IsInf(f, 0) {
			return "", false
		}
		bi, _ := new(big.Float).SetFloat64(math.Trunc(f)).Int(nil)
		return bi.String(), true
	}
	ofText := func(t string) (string, bool) {
		if bi, ok := new(big.Int).SetString(t, 10); ok {
			return bi.String(), true
		}
		return "", false
	}
	switch v := src.(type) {
	case *big.Int:
		if v == nil {
			return "", false
		}
		return v.String(), true
	case big.Int:
		return v.String(), true
	case *big.Float:
		bi, _ := v.Int(nil)
		return bi.String(), true
	case *big.Rat:
		return new(big.Int).Quo(v.Num(), v.Denom()).String(), true
	case json.RawMessage:
		return ofText(strings.Trim(string(v), `"`))
	case time.Duration:
		return strconv.FormatInt(int64(v), 10), true
	case time.Month:
		return strconv.Itoa(int(v)), true
	case myInt:
		return strconv.Itoa(int(v)), true
	case myByte:
		return strconv.Itoa(int(v)), true
	case myFloat:
		return ofFloat(float64(v))
	case myString:
		return ofText(string(v))
	case stringerNum:
		return strconv.Itoa(int(v)), true
	case textNum:
		return ofText(string(v))
	case uintptr:
		return strconv.FormatUint(uint64(v), 10), true
	case *int:
		if v != nil {
			return strconv.Itoa(*v), true
		}
	case *uint64:
		if v != nil {
			return strconv.FormatUint(*v, 10), true
		}
	case *string:
		if v != nil {
			return ofText(*v)
		}
	case *json.Number:
		if v != nil {
			return ofText(string(*v))
		}
	case sql.NullInt64:
		return strconv.FormatInt(v.Int64, 10), true
	case sql.NullString:
		return ofText(v.String)
	case *atomic.Int64:
		return strconv.FormatInt(v.Load(), 10), true
	case complex128:
		if imag(v) == 0 {
			return ofFloat(real(v))
		}
	case complex64:
		if imag(v) == 0 {
			return ofFloat(float64(real(v)))
		}
	}
	return "", false
}

type stringerNum int

func (s stringerNum) String() string { return strconv.Itoa(int(s)) }

type textNum string

func (t textNum) MarshalText() ([]byte, error) { return []byte(t), nil }
func (t textNum) Int64() (int64, error)        { return strconv.ParseInt(string(t), 10, 64) }

func atomicOf(v int64) *atomic.Int64 { a := new(atomic.Int64); a.Store(v); return a }

// c09Lines: integer literals at and past the float64-exact range and the 64-bit bounds, as JSON numbers and strings,
// through an importer and an exporter declaring the same typed integer column (how a reader hands a token to a column
// is part of "the exact value or an error")
func c09Lines(cw *caseWriter) {
	for _, f := range []string{"numeric", "string", "timestamp", "auto"} {
		for _, ty := range []string{"i64", "u64", "int", "i32", "u8"} {
			cols := []colDesc{{name: "c", format: f, ty: ty}, {name: "d", format: "auto", ty: "none"}}
			for _, txt := range []string{"9007199254740993", "9007199254740992", "9223372036854775807", "-9223372036854775808", "18446744073709551615", "18446744073709551616", "255", "256", "4294967296", "0", `"00"`, `"-00"`, `"9007199254740993"`} {
				emitLine(cw, "C09", cols, cols, []byte(`{"c":`+txt+`,"d":`+txt+`}`), true)
			}
		}
	}
}

func genC10(cw *caseWriter, seed uint64, tier string) {
	// a slice of the template / row histories (refused imports included) under this property's name: declared columns keep
	// their declarations (harness/alias.go)
	genAliasHistories(cw, "C10", newRng(seed+1819), 60)
	callees := append([]string{}, allCasters...)
	for _, t := range tyNames {
		callees = append(callees, "To:"+t)
	}
	callees = append(callees, "To:other")
	for _, src := range c10Sources() {
		for _, c := range callees {
			emitCast(cw, "C10", c, src, true)
		}
	}
	// row level: 9 formats x (18 raw types + none) x the values a column may be asked to import
	for _, f := range []string{"string", "numeric", "boolean", "binary", "date", "datetime", "timestamp", "auto", "hidden"} {
		for _, ty := range append([]string{"none"}, tyNames...) {
			for i, v := range impValues() {
				emitImp(cw, f, ty, v)
				if i%5 == 0 {
					// … into a cell that has just refused something, next to a sibling row whose column took Values of
					// other declarations
					emitImpAfter(cw, "C10", f, ty, []interface{}{struct{}{}, "not base64 !!", []interface{}{1}}, v)
				}
				if i%4 == 1 {
					// … into a cell that already holds what the SAME value gave (imported by key, through the cell, from text)
					emitImpAfter(cw, "C10", f, ty, []interface{}{v, v, v}, v)
				}
			}
		}
	}
	// ready-made Values of every declaration (a raw type or none, every format) holding things the receiving column's
	// raw type would refuse or convert, imported by key, through a map and through the cell: the cell takes the Value's
	// declaration AND content — never the column's declaration around the Value's uncast content
	k := 0
	for _, f := range []string{"string", "numeric", "binary", "auto", "timestamp"} {
		for _, ty := range []string{"none", "i64", "u8", "f64", "str", "bytes", "time"} {
			for _, f2 := range []string{"auto", "string", "binary", "numeric"} {
				for _, ty2 := range []string{"none", "i16", "bytes"} {
					for _, held := range []interface{}{"abc", 300, []byte{1, 2, 3}, 1.5, nil} {
						k++
						emitImpValue(cw, "C10", f, ty, f2, ty2, held, k)
					}
				}
			}
		}
	}
	// … and through the jl command: a column declared with every NAME the descriptor language has for a raw type
	// (byte, rune, time.Time, json.Number, []byte … spelled as the registry spells them), fed with a value that the
	// raw type refuses or converts: the column is built with the raw type the name stands for
	if jlBin() != "" && localIsUTC() {
		nameTy := map[string]string{"int": "int", "int64": "i64", "int32": "i32", "int16": "i16", "int8": "i8", "uint": "uint", "uint64": "u64", "uint32": "u32", "uint16": "u16", "uint8": "u8",
			"float64": "f64", "float32": "f32", "bool": "bool", "byte": "u8", "rune": "i32", "string": "str", "[]byte": "bytes", "time.Time": "time", "json.Number": "num"}
		for _, name := range jlTypeNames {
			ty := nameTy[name]
			for _, f := range []string{"numeric", "string", "timestamp", "auto", "binary"} {
				for _, v := range []string{`300`, `-1`, `"2021-09-24T21:21:00+05:30"`, `"abc"`, `"AQ=="`, `1.5`, `true`, `4294967296`} {
					eff := []colDesc{{name: "c", format: f, ty: ty}}
					line := []byte(`{"c":` + v + `}`)
					ext := map[string]string{}
					extForJSON(line, ext)
					desc := f + "(" + name + ")"
					args := []string{"-t", inlineOf([]jlCol{{name: "c", in: desc, out: desc}})}
					out := runJlOnce(args, line)
					cw.count("line-jl:" + strings.SplitN(out, " ", 2)[0])
					cw.emit("C10 via jl "+strings.Join(args, " ")+" | "+string(line), true, "line", "C10", descStr(eff), descStr(eff), hxs(string(line)), extStr(ext), out)
				}
			}
		}
	}
	cw.extra["exhaustive"] = false
}

// ---- C11 ---------------------------------------------------------------------------------

func fixedWidthValues(r *rng, tier string) []interface{} {
	var out []interface{}
	for v := math.MinInt8; v <= math.MaxInt8; v++ {
		out = append(out, int8(v))
	}
	for v := 0; v <= math.MaxUint8; v++ {
		out = append(out, uint8(v))
	}
	step := 257
	if tier == "thorough" {
		step = 1
	}
	for v := math.MinInt16; v <= math.MaxInt16; v += step {
		out = append(out, int16(v))
	}
	for v := 0; v <= math.MaxUint16; v += step {
		out = append(out, uint16(v))
	}
	out = append(out, int16(math.MaxInt16), uint16(math.MaxUint16), int16(-1), int16(256), uint16(256), uint16(255))
	for _, b := range boundaryInts() {
		neg, m := b[0] == 1, b[1]
		if neg {
			out = append(out, carriersOf(-int64(m-1)-1, true, 0)...)
		} else {
			out = append(out, carriersOf(0, false, m)...)
		}
	}
	for _, f := range boundaryFloats64() {
		out = append(out, f)
	}
	for _, f := range boundaryFloats32() {
		out = append(out, f)
	}
	// NaN payload classes
	for _, bits := range []uint64{0x7ff0000000000001, 0x7ff7ffffffffffff, 0x7ff8000000000000, 0x7fffffffffffffff, 0xfff0000000000001, 0xfff8000000000000, 0xffffffffffffffff} {
		out = append(out, math.Float64frombits(bits))
	}
	for _, bits := range []uint32{0x7f800001, 0x7fbfffff, 0x7fc00000, 0x7fffffff, 0xff800001, 0xffc00000, 0xffffffff} {
		out = append(out, math.Float32frombits(bits))
	}
	n := 2000
	if tier == "thorough" {
		n = 300000
	}
	for i := 0; i < n; i++ {
		switch r.intn(8) {
		case 0:
			out = append(out, int64(r.u64()))
		case 1:
			out = append(out, r.u64())
		case 2:
			out = append(out, int32(r.u64()))
		case 3:
			out = append(out, uint32(r.u64()))
		case 4:
			out = append(out, int(r.u64()))
		case 5:
			out = append(out, uint(r.u64()))
		case 6:
			out = append(out, math.Float64frombits(r.u64()))
		default:
			out = append(out, math.Float32frombits(uint32(r.u64())))
		}
	}
	out = append(out, true, false)
	return out
}

var fixedWidthTys = []string{"int", "i64", "i32", "i16", "i8", "uint", "u64", "u32", "u16", "u8", "f64", "f32", "bool"}

func genC11(cw *caseWriter, seed uint64, tier string) {
	// a slice of the template / row histories (refused imports included) under this property's name: declared columns keep
	// their declarations (harness/alias.go)
	genAliasHistories(cw, "C11", newRng(seed+1696), 60)
	r := newRng(seed)
	for _, v := range fixedWidthValues(r, tier) {
		res, err, pan := emitCast(cw, "C11", "ToBinary", v, true)
		if err == nil && pan == "" {
			if b, ok := res.([]byte); ok {
				// decode what was encoded, through cast.To with a sample of the source type
				emitCast(cw, "C11", "To:"+tyName(v), b, true)
			}
		}
	}
	// column level, values STORED with Row.Set / SetAtIndex into a binary column of a fixed-width raw type: byte
	// slices of every length 0-17, integers inside and outside the type's range, floats, booleans, texts
	for _, ty := range fixedWidthTys {
		k := 0
		for n := 0; n <= 17; n++ {
			b := make([]byte, n)
			for j := range b {
				b[j] = byte(1 + 7*j + n)
			}
			k++
			emitSetCol(cw, "C11", "binary", ty, b, k%2 == 0)
		}
		for _, v := range []interface{}{int64(1) << 40, uint64(math.MaxUint64), int8(-1), 300, -129, 65536, 1.5, float32(2), true, "AQIDBA==", "12", json.Number("70000"), nil} {
			k++
			emitSetCol(cw, "C11", "binary", ty, v, k%2 == 0)
		}
	}
	// every byte-slice length 0-17 for every fixed-width target; exhaustive contents for length <= 1,
	// all 65536 two-byte contents in the thorough tier
	for _, ty := range fixedWidthTys {
		for n := 0; n <= 17; n++ {
			reps := 6
			for k := 0; k < reps; k++ {
				b := make([]byte, n)
				for j := range b {
					switch k {
					case 0:
						b[j] = 0
					case 1:
						b[j] = 0xff
					default:
						b[j] = byte(r.u64())
					}
				}
				emitCast(cw, "C11", "To:"+ty, b, true)
			}
		}
		for v := 0; v < 256; v++ {
			emitCast(cw, "C11", "To:"+ty, []byte{byte(v)}, true)
		}
		step := 251
		if tier == "thorough" {
			step = 1
		}
		for v := 0; v < 65536; v += step {
			emitCast(cw, "C11", "To:"+ty, []byte{byte(v), byte(v >> 8)}, true)
		}
	}
	// column level: a binary column mapped to a fixed-width type (or bool) accepts only well-sized payloads
	// and re-emits exactly the bytes it accepted: base64 payloads of every length 0-17
	for _, ty := range append(append([]string{}, fixedWidthTys...), "bool") {
		for n := 0; n <= 17; n++ {
			for k := 0; k < 3; k++ {
				b := make([]byte, n)
				for j := range b {
					switch k {
					case 0:
						b[j] = 0
					case 1:
						b[j] = 0xff
					default:
						b[j] = byte(r.u64())
					}
				}
				emitImpFor(cw, "C11", "binary", ty, base64.StdEncoding.EncodeToString(b))
				if k == 2 {
					// the same payload with a line break inside the text (the decoder skips CR and LF: the payload's size
					// is that of the bytes decoded, not of the text)
					if e := base64.StdEncoding.EncodeToString(b); len(e) >= 4 {
						emitImpFor(cw, "C11", "binary", ty, e[:2]+"\n"+e[2:])
						emitImpFor(cw, "C11", "binary", ty, e[:len(e)-1]+"\r\n"+e[len(e)-1:])
					}
					// … into a cell that has just rejected an ill-sized payload and a text that is not base64
					emitImpAfter(cw, "C11", "binary", ty, []interface{}{"AAAAAAAAAAAAAAAAAAAAAAAAAA==", "!!", "AAAAAAAAAAAAAAAAAAAAAAAAAA=="}, base64.StdEncoding.EncodeToString(b))
				}
			}
		}
	}
	// ready-made Values holding byte slices of every length imported into binary(T) columns (the Value's declaration —
	// none — replaces the column's: the cell then declares what it holds), and base64 payloads handed to the CELL's own
	// json.Unmarshaler: ill-sized payloads are refused there as everywhere
	kk := 0
	for _, ty := range fixedWidthTys {
		for n := 0; n <= 9; n++ {
			b := make([]byte, n)
			for j := range b {
				b[j] = byte(3 + j)
			}
			for _, f2 := range []string{"binary", "auto"} {
				kk++
				emitImpValue(cw, "C11", "binary", ty, f2, "none", b, kk)
			}
			emitImpVia(cw, "C11", "binary", ty, base64.StdEncoding.EncodeToString(b))
		}
	}
	// the same through whole lines — the library route and the jl binary with the column declared in the
	// descriptor language, under every name it has for the raw type (byte = uint8, rune = int32)
	for _, ty := range append(append([]string{}, fixedWidthTys...), "bool") {
		for _, n := range []int{0, 1, 2, 3, 4, 5, 8, 9, 16} {
			b := make([]byte, n)
			for j := range b {
				b[j] = byte(r.u64())
			}
			cols := []colDesc{{name: "c", format: "binary", ty: ty}}
			line := []byte(`{"c":"` + base64.StdEncoding.EncodeToString(b) + `"}`)
			emitLine(cw, "C11", cols, cols, line, true)
			if jlBin() != "" {
				jlRouteCount = jlRouteCount/jlEvery*jlEvery + jlEvery // next alias
				emitLineJl(cw, "C11", cols, cols, line)
				jlRouteCount += jlEvery
				emitLineJl(cw, "C11", cols, cols, line)
			}
		}
	}
}

// ---- C12 ---------------------------------------------------------------------------------

// emitRT: render src with `via` (ToString / ToNumber), then cast the rendering back to the
// source type.
//
//	rt \t C12 \t <via> \t <src> \t <ext> \t <impl text result> \t <impl back result>
func emitRT(cw *caseWriter, via string, src interface{}) {
	res, err, pan := callCast(via, src)
	ext := map[string]string{}
	extFor(src, ext)
	back := "-"
	if err == nil && pan == "" {
		extFor(res, ext)
		r2, e2, p2 := callCast("To:"+tyName(src), res)
		back = resultStr(r2, e2, p2)
	}
	cw.count("via:" + via)
	cw.count("src:" + tyName(src))
	s := dynStr(src)
	cw.emit("rt "+via+" "+s, true, "rt", "C12", via, s, extStr(ext), resultStr(res, err, pan), back)
}

// emitRTRow: an `rt` case whose rendering comes from a column of the matching format without raw type — marshalled
// (how%4 == 0), exported from a fresh cell (1), or exported after the key was Set twice, the first time with a
// value of another Go type (2, 3) — instead of from the caster called directly.
func emitRTRow(cw *caseWriter, via string, src interface{}, how int) {
	f := jsonline.Numeric
	if via == "ToString" {
		f = jsonline.String
	}
	var res interface{}
	var err error
	// a NaN or an infinity has no JSON rendering: MarshalJSON of the cell refuses it (rightly), so for those values
	// the rendering is taken from Export instead (what ToNumber / ToString made of the value)
	switch f := src.(type) {
	case float64:
		if (math.IsNaN(f) || math.IsInf(f, 0)) && how%4 == 0 {
			how++
		}
	case float32:
		if (f != f || math.IsInf(float64(f), 0)) && how%4 == 0 {
			how++
		}
	}
	mkValue := func(x interface{}) jsonline.Value {
		// the constructor named after the format, or the general one, in turn
		if (how/4)%2 == 0 {
			return jsonline.NewValue(x, f, nil)
		}
		if f == jsonline.Numeric {
			return jsonline.NewValueNumeric(x)
		}
		return jsonline.NewValueString(x)
	}
	pan := guard(func() {
		switch how % 4 {
		case 0:
			var b []byte
			b, err = mkValue(src).MarshalJSON()
			if err != nil {
				return
			}
			if f == jsonline.Numeric {
				if string(b) == "null" {
					res = nil
				} else {
					res = json.Number(string(b))
				}
			} else {
				var sv interface{}
				if err = json.Unmarshal(b, &sv); err == nil {
					res = sv
				}
			}
		case 1:
			res, err = mkValue(src).Export()
		default:
			row := jsonline.NewRow()
			row.SetValue("c", mkValue(nil))
			row.Set("c", []interface{}{float32(1.5), int64(7), "x", uint8(3), 2.5, true}[(how/4)%6])
			row.Set("c", src)
			cell, _ := row.GetValue("c")
			res, err = cell.Export()
		}
	})
	ext := map[string]string{}
	extFor(src, ext)
	back := "-"
	if err == nil && pan == "" {
		extFor(res, ext)
		r2, e2, p2 := callCast("To:"+tyName(src), res)
		back = resultStr(r2, e2, p2)
	}
	cw.count("via-row:" + via)
	s := dynStr(src)
	resS := resultStr(res, err, pan)
	if err != nil && pan == "" {
		resS = "err cast" // a column reports a refused rendering with its own error class; the class is not what is judged here
	}
	cw.emit(fmt.Sprintf("rt from a column (%d) %s %s", how%4, via, s), true, "rt", "C12", via, s, extStr(ext), resS, back)
}

// emitRTRowText: a numeric TEXT held by an untyped Numeric column (NewValueNumeric of a string, WithNumeric + Set of
// a string): what the cell exports and marshals is that very literal — a valid JSON number is written as it is.
//
//	numtext \t C12 \t <hex text> \t <exported Dyn | err> \t <hex marshalled | err>
func emitRTRowText(cw *caseWriter, text string) {
	exp, mar := "err", "err"
	guard(func() {
		for k, mk := range []func() jsonline.Value{
			func() jsonline.Value { return jsonline.NewValueNumeric(text) },
			func() jsonline.Value { return jsonline.NewValue(text, jsonline.Numeric, nil) },
			func() jsonline.Value {
				row := jsonline.NewTemplate().WithNumeric("v").CreateRowEmpty()
				row.Set("v", text)
				c, _ := row.GetValue("v")
				return c
			},
		} {
			e2, m2 := "err", "err"
			if x, err := mk().Export(); err == nil {
				e2 = dynStr(x)
			}
			if b, err := mk().MarshalJSON(); err == nil {
				m2 = hxs(string(b))
			}
			if k == 0 {
				exp, mar = e2, m2
			} else if e2 != exp || m2 != mar {
				exp, mar = exp+"|"+e2, mar+"|"+m2 // the three spellings of the same cell disagree
			}
		}
	})
	cw.count("numtext")
	cw.emit("numtext "+text, true, "numtext", "C12", hxs(text), exp, mar)
}

func genC12(cw *caseWriter, seed uint64, tier string) {
	r := newRng(seed)
	var vals []interface{}
	for v := math.MinInt8; v <= math.MaxInt8; v++ {
		vals = append(vals, int8(v))
	}
	for v := 0; v <= math.MaxUint8; v++ {
		vals = append(vals, uint8(v))
	}
	step := 257
	if tier == "thorough" {
		step = 1
	}
	for v := math.MinInt16; v <= math.MaxInt16; v += step {
		vals = append(vals, int16(v))
	}
	for v := 0; v <= math.MaxUint16; v += step {
		vals = append(vals, uint16(v))
	}
	for _, b := range boundaryInts() {
		neg, m := b[0] == 1, b[1]
		if neg {
			vals = append(vals, carriersOf(-int64(m-1)-1, true, 0)...)
		} else {
			vals = append(vals, carriersOf(0, false, m)...)
		}
	}
	// floats: every binade boundary, subnormals, extremes, shortest-repr corner cases
	for e := -1074; e <= 1023; e++ {
		x := math.Ldexp(1, e)
		vals = append(vals, x, -x, nextFloat64(x, -1), nextFloat64(x, 1))
	}
	for e := -149; e <= 127; e++ {
		x := float32(math.Ldexp(1, e))
		vals = append(vals, x, -x, nextFloat32(x, -1), nextFloat32(x, 1))
	}
	vals = append(vals, 0.0, math.Copysign(0, -1), float32(0), float32(math.Copysign(0, -1)), 0.1, float32(0.1), 0.3, 1e21, 1e22, 1e23, 5e-324, 1.7976931348623157e308,
		9007199254740993.0, 9007199254740992.0, float32(16777216), float32(16777217), float32(3.4028235e38), float32(1e-45), 2.2250738585072014e-308, 2.225073858507201e-308,
		123456789012345678.0, 0.000001, 0.0000001, 1e-7, 123456.789e3, float32(1e21), float32(8.5e-6),
		math.NaN(), math.Inf(1), math.Inf(-1), float32(math.NaN()), float32(math.Inf(1)), float32(math.Inf(-1)))
	n := 3000
	if tier == "thorough" {
		n = 300000
	}
	for i := 0; i < n; i++ {
		switch r.intn(6) {
		case 0:
			vals = append(vals, int64(r.u64())>>uint(r.intn(64)))
		case 1:
			vals = append(vals, r.u64()>>uint(r.intn(64)))
		case 2:
			vals = append(vals, int32(r.u64()))
		case 3:
			vals = append(vals, math.Float64frombits(r.u64()))
		case 4:
			vals = append(vals, math.Float32frombits(uint32(r.u64())))
		default:
			vals = append(vals, float64(int64(r.u64()>>uint(r.intn(40))))/math.Pow(10, float64(r.intn(8))))
		}
	}
	vals = append(vals, true, false)
	// numbers in several typed columns of one line, one of which refuses its value, through the STREAMER under a
	// processor that carries on: the refused line has no output — numbers present in it are not written as null
	for _, ty := range []string{"i8", "u64", "f32"} {
		cols := []colDesc{{name: "a", format: "numeric", ty: ty}, {name: "x", format: "numeric", ty: "f64"}, {name: "u", format: "numeric", ty: "u64"}}
		data := []byte("{\"a\":1,\"x\":0.5,\"u\":18446744073709551615}\n{\"a\":300.5,\"x\":0.5,\"u\":18446744073709551615}\n{\"a\":\"n/a\",\"x\":1,\"u\":7}\n{\"a\":2,\"x\":1,\"u\":7}\n")
		emitStream(cw, "C12", cols, cols, "tolerant", chunk(data, []int{1 << 20}), nil, data, true)
	}
	// non-finite floats in the columns of a ROW that is written: as Go values the API stores (a map of them handed to
	// Export under numeric / string / auto columns, with and without a raw type) and as the texts ParseFloat reads as
	// non-finite, through importer and exporter: a valid line or nothing — never `NaN` or `+Inf` as a number
	for _, f := range []string{"numeric", "string", "auto"} {
		for _, ty := range []string{"none", "f64", "f32", "num", "str"} {
			to := []colDesc{{name: "a", format: "numeric", ty: "i64"}, {name: "x", format: f, ty: ty}}
			for _, v := range []interface{}{math.NaN(), math.Inf(1), math.Inf(-1), float32(math.NaN()), float32(math.Inf(1)), float32(math.Inf(-1)), 1.5, float32(2.5)} {
				v := v
				emitEmit(cw, "C12", to, func() interface{} { return map[string]interface{}{"a": 1, "x": v} }, true)
				emitEmit(cw, "C12", to, func() interface{} { return rowOf("a", 1, "x", v) }, true)
			}
			for _, txt := range []string{`"NaN"`, `"nan"`, `"Inf"`, `"+Inf"`, `"-Inf"`, `"Infinity"`, `"-infinity"`, `"1e999"`, `1e999`, `"0x1p-2"`, `"1.5"`, `2.5`} {
				emitLine(cw, "C12", to, to, []byte(`{"a":1,"x":`+txt+`}`), true)
			}
		}
	}
	// the text a row hands out for a float it holds in an Auto / Hidden / Numeric / String column (GetString): a plain
	// decimal literal, whatever the magnitude
	for _, f := range []jsonline.Format{jsonline.Auto, jsonline.Hidden, jsonline.Numeric, jsonline.String} {
		for _, v := range []interface{}{1e21, 1.5e300, 1e-7, 5e-324, float32(1e21), float32(3.4028235e38), float32(1e-45), 123456789.25, uint64(18446744073709551615), int64(-9007199254740993), 0.1} {
			row := jsonline.NewRow()
			row.SetValue("v", jsonline.NewValue(v, f, nil))
			emitGetterFor(cw, "C12", row, "GetString", "v", func(r jsonline.Row) interface{} { return r.GetString("v") })
			row2 := jsonline.NewRow()
			row2.Set("v", v)
			emitGetterFor(cw, "C12", row2, "GetString", "v", func(r jsonline.Row) interface{} { return r.GetString("v") })
		}
	}
	// integers no float64 holds, through the command with a typed input descriptor and an output descriptor that names
	// no raw type (and the reverse): the literal comes out digit for digit
	if jlBin() != "" {
		for _, d := range [][2]colDesc{{{name: "u", format: "numeric", ty: "u64"}, {name: "u", format: "numeric", ty: "none"}}, {{name: "u", format: "numeric", ty: "i64"}, {name: "u", format: "numeric", ty: "none"}},
			{{name: "u", format: "numeric", ty: "none"}, {name: "u", format: "numeric", ty: "u64"}}, {{name: "u", format: "numeric", ty: "u64"}, {name: "u", format: "string", ty: "none"}}, {{name: "u", format: "auto", ty: "none"}, {name: "u", format: "numeric", ty: "none"}}} {
			for _, txt := range []string{"18446744073709551615", "9007199254740993", "-9007199254740993", "9223372036854775807"} {
				line := []byte(`{"u":` + txt + `}`)
				emitLine(cw, "C12", []colDesc{d[0]}, []colDesc{d[1]}, line, true)
				jlRouteCount = jlRouteCount/jlEvery*jlEvery + jlEvery
				emitLineJl(cw, "C12", []colDesc{d[0]}, []colDesc{d[1]}, line)
				jlRouteCount += jlEvery
			}
		}
	}
	// integer magnitudes carried by TEXT (what an untyped Numeric column holds when it was given a string): at and
	// past the int64 bounds, the uint64 maximum, signed zero, 30 digits
	for _, t := range []string{"18446744073709551615", "9223372036854775808", "-9223372036854775809", "9223372036854775807", "-0", "0", "123456789012345678901234567890", "1e2", "0.10", "1E+2"} {
		emitRTRowText(cw, t)
	}
	// the float32 values whose shortest text is not read back exactly when it is first rounded to float64
	// (double rounding): the only two finite ones (an exhaustive scan finds them)
	vals = append(vals, math.Float32frombits(0x15ae43fd), math.Float32frombits(0x95ae43fd))
	for i, v := range vals {
		emitRT(cw, "ToString", v)
		emitRT(cw, "ToNumber", v)
		if i%3 == 0 {
			// the same renderings taken from a column: what a numeric / string cell marshals and exports for the
			// value, on a fresh cell and on a cell that held something else before (Set twice on the same key)
			emitRTRow(cw, "ToNumber", v, i/3)
			emitRTRow(cw, "ToString", v, i/3)
		}
	}
	if tier != "thorough" {
		return
	}
	// thorough: EVERY float32 bit pattern, rendered and read back by the implementation on all cores; only
	// the patterns whose read-back differs (none, on a correct tree) become cases for the driver to judge
	workers := runtime.NumCPU()
	bad := make([][]uint32, workers)
	var wg sync.WaitGroup
	for w := 0; w < workers; w++ {
		wg.Add(1)
		go func(w int) {
			defer wg.Done()
			for b := uint64(w); b < 1<<32; b += uint64(workers) {
				f := math.Float32frombits(uint32(b))
				if f != f || math.IsInf(float64(f), 0) {
					continue
				}
				for _, via := range []string{"ToString", "ToNumber"} {
					res, err, pan := callCast(via, f)
					if err != nil || pan != "" {
						bad[w] = append(bad[w], uint32(b))
						break
					}
					back, err2, pan2 := callCast("To:f32", res)
					g, ok := back.(float32)
					if err2 != nil || pan2 != "" || !ok || math.Float32bits(g) != uint32(b) {
						bad[w] = append(bad[w], uint32(b))
						break
					}
				}
			}
		}(w)
	}
	wg.Wait()
	nbad := 0
	for _, l := range bad {
		for _, b := range l {
			if nbad < 1000 {
				emitRT(cw, "ToString", math.Float32frombits(b))
				emitRT(cw, "ToNumber", math.Float32frombits(b))
			}
			nbad++
		}
	}
	cw.extra["exhaustive_float32_patterns"] = true
	cw.extra["float32_patterns_not_read_back"] = nbad
}
