package main

// Cast cases (C09, C10, C11, C12 share the line format):
//
//	cast \t <prop> \t <callee> \t <src Dyn> \t <ext> \t <impl result>
//
// callee: a caster name ("ToInt32") or "To:<ty>" for cast.To with a sample of that type.
// result: "ok <Dyn>" | "err <class>" | "panic <text>".
// ext:    stdlib answers the model may need (float text, zone offsets), space separated.

import (
	"encoding/json"
	"fmt"
	"math"
	"strconv"
	"strings"
	"time"

	"github.com/cgi-fr/jsonline/pkg/cast"
)

var casterFns = map[string]func(interface{}) (interface{}, error){
	"ToInt": cast.ToInt, "ToInt64": cast.ToInt64, "ToInt32": cast.ToInt32, "ToInt16": cast.ToInt16, "ToInt8": cast.ToInt8,
	"ToUint": cast.ToUint, "ToUint64": cast.ToUint64, "ToUint32": cast.ToUint32, "ToUint16": cast.ToUint16, "ToUint8": cast.ToUint8,
	"ToFloat64": cast.ToFloat64, "ToFloat32": cast.ToFloat32, "ToBool": cast.ToBool, "ToString": cast.ToString,
	"ToNumber": cast.ToNumber, "ToBinary": cast.ToBinary, "ToTime": cast.ToTime, "ToDate": cast.ToDate, "ToTimestamp": cast.ToTimestamp,
}

var intCasters = []string{"ToInt", "ToInt64", "ToInt32", "ToInt16", "ToInt8", "ToUint", "ToUint64", "ToUint32", "ToUint16", "ToUint8"}
var intTyOfCaster = map[string]string{"ToInt": "int", "ToInt64": "i64", "ToInt32": "i32", "ToInt16": "i16", "ToInt8": "i8",
	"ToUint": "uint", "ToUint64": "u64", "ToUint32": "u32", "ToUint16": "u16", "ToUint8": "u8"}
var allCasters = []string{"ToInt", "ToInt64", "ToInt32", "ToInt16", "ToInt8", "ToUint", "ToUint64", "ToUint32", "ToUint16", "ToUint8",
	"ToFloat64", "ToFloat32", "ToBool", "ToString", "ToNumber", "ToBinary", "ToTime", "ToDate", "ToTimestamp"}

func callCast(callee string, src interface{}) (res interface{}, err error, pan string) {
	pan = guard(func() {
		if strings.HasPrefix(callee, "To:") {
			res, err = cast.To(tySample[strings.TrimPrefix(callee, "To:")], src)
		} else {
			res, err = casterFns[callee](src)
		}
	})
	return
}

func resultStr(res interface{}, err error, pan string) string {
	switch {
	case pan != "":
		return "panic " + strings.ReplaceAll(strings.ReplaceAll(pan, "\t", " "), "\n", " ")
	case err != nil:
		return "err " + classify(err)
	}
	return "ok " + dynStr(res)
}

// extFor collects the stdlib answers the model may need for a source value.
func extFor(src interface{}, into map[string]string) {
	zo := func(v int64) {
		_, off := time.Unix(v, 0).Zone()
		into[fmt.Sprintf("zo:%d", v)] = strconv.Itoa(off)
	}
	ff := func(x float64, bits int) {
		into[fmt.Sprintf("ff:%016x:%d", math.Float64bits(x), bits)] = hx([]byte(strconv.FormatFloat(x, 'f', -1, bits)))
	}
	pf := func(s string) {
		for _, bits := range []int{64, 32} {
			v, err := strconv.ParseFloat(s, bits)
			k := fmt.Sprintf("pf:%s:%d", hx([]byte(s)), bits)
			if err != nil {
				into[k] = "E"
			} else {
				into[k] = fmt.Sprintf("%016x", math.Float64bits(v))
			}
		}
		if v, err := strconv.ParseInt(s, 0, 64); err == nil {
			zo(v)
		}
	}
	switch v := src.(type) {
	case float64:
		ff(v, 64)
		if v == math.Trunc(v) && math.Abs(v) < 9.2e18 {
			zo(int64(v))
		}
		pf(strconv.FormatFloat(v, 'f', -1, 64))
	case float32:
		ff(float64(v), 32)
		if float64(v) == math.Trunc(float64(v)) && math.Abs(float64(v)) < 9.2e18 {
			zo(int64(v))
		}
		pf(strconv.FormatFloat(float64(v), 'f', -1, 32))
	case string:
		pf(v)
	case json.Number:
		pf(string(v))
	case []byte:
		pf(string(v))
		if len(v) == 8 {
			var u uint64
			for i := 7; i >= 0; i-- {
				u = u<<8 | uint64(v[i])
			}
			zo(int64(u))
		}
	case int:
		zo(int64(v))
	case int64:
		zo(v)
	case int32:
		zo(int64(v))
	case int16:
		zo(int64(v))
	case int8:
		zo(int64(v))
	case uint:
		if v <= math.MaxInt64 {
			zo(int64(v))
		}
	case uint64:
		if v <= math.MaxInt64 {
			zo(int64(v))
		}
	case uint32:
		zo(int64(v))
	case uint16:
		zo(int64(v))
	case uint8:
		zo(int64(v))
	case bool:
		zo(0)
		zo(1)
	case time.Time:
		zo(v.Unix())
	}
}

func extStr(m map[string]string) string {
	if len(m) == 0 {
		return "-"
	}
	keys := make([]string, 0, len(m))
	for k := range m {
		keys = append(keys, k)
	}
	sortStrings(keys)
	parts := make([]string, len(keys))
	for i, k := range keys {
		parts[i] = k + "=" + m[k]
	}
	return strings.Join(parts, " ")
}

func emitCast(cw *caseWriter, prop, callee string, src interface{}, nontrivial bool) (interface{}, error, string) {
	res, err, pan := callCast(callee, src)
	ext := map[string]string{}
	extFor(src, ext)
	if err == nil && pan == "" {
		extFor(res, ext)
	}
	s := dynStr(src)
	cw.count("callee:" + callee)
	cw.count("src:" + tyName(src))
	switch {
	case pan != "":
		cw.count("res:panic")
	case err != nil:
		cw.count("res:err")
	default:
		cw.count("res:ok")
	}
	cw.emit(prop+" "+callee+" "+s, nontrivial, "cast", prop, callee, s, extStr(ext), resultStr(res, err, pan))
	return res, err, pan
}

// ---- value generators ------------------------------------------------------------------

// intsOfType returns v converted to every integer Go type that holds it exactly.
func carriersOf(v int64, neg bool, u uint64) []interface{} {
	var out []interface{}
	if !neg {
		// value is u (non-negative)
		if u <= math.MaxInt64 {
			out = append(out, int(u), int64(u))
		}
		if u <= math.MaxInt32 {
			out = append(out, int32(u))
		}
		if u <= math.MaxInt16 {
			out = append(out, int16(u))
		}
		if u <= math.MaxInt8 {
			out = append(out, int8(u))
		}
		out = append(out, uint(u), uint64(u))
		if u <= math.MaxUint32 {
			out = append(out, uint32(u))
		}
		if u <= math.MaxUint16 {
			out = append(out, uint16(u))
		}
		if u <= math.MaxUint8 {
			out = append(out, uint8(u))
		}
		return out
	}
	out = append(out, int(v), int64(v))
	if v >= math.MinInt32 {
		out = append(out, int32(v))
	}
	if v >= math.MinInt16 {
		out = append(out, int16(v))
	}
	if v >= math.MinInt8 {
		out = append(out, int8(v))
	}
	return out
}

// boundaryInts: every value within ±2 of every power of two and type bound, as (neg, magnitude).
func boundaryInts() [][2]uint64 {
	seen := map[[2]uint64]bool{}
	var out [][2]uint64
	add := func(neg bool, m uint64) {
		k := [2]uint64{0, m}
		if neg && m != 0 {
			k[0] = 1
		}
		if !seen[k] {
			seen[k] = true
			out = append(out, k)
		}
	}
	for p := 0; p <= 64; p++ {
		var base uint64
		if p == 64 {
			base = math.MaxUint64
			for d := uint64(0); d <= 2; d++ {
				add(false, base-d)
			}
			continue
		}
		base = uint64(1) << uint(p)
		for d := uint64(0); d <= 2; d++ {
			add(false, base+d)
			if base >= d {
				add(false, base-d)
			}
			if p <= 63 {
				if base+d <= uint64(1)<<63 {
					add(true, base+d)
				}
				if base >= d {
					add(true, base-d)
				}
			}
		}
	}
	add(false, 0)
	return out
}

func nextFloat64(x float64, n int) float64 {
	for ; n > 0; n-- {
		x = math.Nextafter(x, math.Inf(1))
	}
	for ; n < 0; n++ {
		x = math.Nextafter(x, math.Inf(-1))
	}
	return x
}

func nextFloat32(x float32, n int) float32 {
	for ; n > 0; n-- {
		x = math.Nextafter32(x, float32(math.Inf(1)))
	}
	for ; n < 0; n++ {
		x = math.Nextafter32(x, float32(math.Inf(-1)))
	}
	return x
}

func boundaryFloats64() []float64 {
	var out []float64
	for p := 0; p <= 65; p++ {
		b := math.Ldexp(1, p)
		for _, s := range []float64{1, -1} {
			for d := -2; d <= 2; d++ {
				out = append(out, nextFloat64(s*b, d))
			}
			out = append(out, s*(b-0.5), s*(b+0.5), s*(b-1), s*(b+1))
		}
	}
	out = append(out, 0, math.Copysign(0, -1), 0.5, -0.5, 0.999999, -0.999999, 1.5, -1.5, 255.5, 127.5, -128.5, 65535.5, 2147483647.5, -2147483648.5,
		math.NaN(), math.Float64frombits(0x7ff8000000000001), math.Float64frombits(0xfff0000000000001), math.Inf(1), math.Inf(-1),
		math.SmallestNonzeroFloat64, -math.SmallestNonzeroFloat64, math.MaxFloat64, -math.MaxFloat64, 1e21, 1e300, 4.9e-324, 2.2250738585072014e-308)
	return out
}

func boundaryFloats32() []float32 {
	var out []float32
	for p := 0; p <= 65; p++ {
		b := float32(math.Ldexp(1, p))
		for _, s := range []float32{1, -1} {
			for d := -2; d <= 2; d++ {
				out = append(out, nextFloat32(s*b, d))
			}
			out = append(out, s*(b-0.5), s*(b+0.5))
		}
	}
	out = append(out, 0, float32(math.Copysign(0, -1)), 0.5, -0.5, 1.5, 255.5, 127.5, -128.5, 65535.5,
		float32(math.NaN()), math.Float32frombits(0x7fc00001), math.Float32frombits(0xff800001), float32(math.Inf(1)), float32(math.Inf(-1)),
		math.SmallestNonzeroFloat32, math.MaxFloat32, -math.MaxFloat32, 16777217, 1e-45)
	return out
}

// ---- C09 ---------------------------------------------------------------------------------

func genC09(cw *caseWriter, seed uint64, tier string) {
	r := newRng(seed)
	// 8-bit sources exhaustively; 16-bit sources exhaustively in the thorough tier, and within
	// ±260 of every power of two / bound plus a random sample in the quick tier
	want16 := func(v int) bool {
		if tier == "thorough" {
			return true
		}
		a := v
		if a < 0 {
			a = -a
		}
		for p := 0; p <= 16; p++ {
			d := a - (1 << uint(p))
			if d < 0 {
				d = -d
			}
			if d <= 260 {
				return true
			}
		}
		return r.intn(40) == 0
	}
	for v := math.MinInt16; v <= math.MaxInt16; v++ {
		var srcs []interface{}
		if want16(v) {
			srcs = append(srcs, int16(v))
		}
		if v >= math.MinInt8 && v <= math.MaxInt8 {
			srcs = append(srcs, int8(v))
		}
		for _, s := range srcs {
			for _, c := range intCasters {
				emitCast(cw, "C09", c, s, true)
			}
		}
	}
	for v := 0; v <= math.MaxUint16; v++ {
		var srcs []interface{}
		if want16(v) {
			srcs = append(srcs, uint16(v))
		}
		if v <= math.MaxUint8 {
			srcs = append(srcs, uint8(v))
		}
		for _, s := range srcs {
			for _, c := range intCasters {
				emitCast(cw, "C09", c, s, true)
			}
		}
	}
	cw.extra["exhaustive_8_bit_sources"] = true
	cw.extra["exhaustive_16_bit_sources"] = tier == "thorough"
	// boundaries for wider integers, every carrier incl. decimal text and json.Number
	for _, b := range boundaryInts() {
		neg, m := b[0] == 1, b[1]
		var srcs []interface{}
		var dec string
		if neg {
			srcs = carriersOf(-int64(m-1)-1, true, 0)
			dec = "-" + strconv.FormatUint(m, 10)
		} else {
			srcs = carriersOf(0, false, m)
			dec = strconv.FormatUint(m, 10)
		}
		srcs = append(srcs, dec, json.Number(dec))
		if !neg {
			srcs = append(srcs, "+"+dec)
		}
		for _, s := range srcs {
			for _, c := range intCasters {
				emitCast(cw, "C09", c, s, true)
			}
		}
	}
	// text one past the 64-bit bounds and far beyond
	for _, s := range []string{"18446744073709551616", "-9223372036854775809", "99999999999999999999999999", "-99999999999999999999999999",
		"", "-", "+", "abc", "1.0", "1e3", " 1", "1 ", "0x10", "010", "1_000", "0b11", "0o17", "08", "_1", "1__0", "-0", "+0", "00", "0x", "١٢"} {
		for _, c := range intCasters {
			emitCast(cw, "C09", c, s, true)
			emitCast(cw, "C09", c, json.Number(s), true)
		}
	}
	for _, f := range boundaryFloats64() {
		for _, c := range intCasters {
			emitCast(cw, "C09", c, f, true)
		}
	}
	for _, f := range boundaryFloats32() {
		for _, c := range intCasters {
			emitCast(cw, "C09", c, f, true)
		}
	}
	for _, b := range []bool{true, false} {
		for _, c := range intCasters {
			emitCast(cw, "C09", c, b, true)
		}
	}
	// uniformly random
	n := 3000
	if tier == "thorough" {
		n = 200000
	}
	for i := 0; i < n; i++ {
		c := pick(r, intCasters)
		var src interface{}
		switch r.intn(8) {
		case 0:
			src = int64(r.u64())
		case 1:
			src = r.u64()
		case 2:
			src = int32(r.u64())
		case 3:
			src = uint32(r.u64())
		case 4:
			src = math.Float64frombits(r.u64())
		case 5:
			src = math.Float32frombits(uint32(r.u64()))
		case 6:
			src = strconv.FormatInt(int64(r.u64())>>uint(r.intn(64)), 10)
		default:
			// floats near the integer range
			src = math.Ldexp(float64(int64(r.u64()))/float64(1<<62), r.intn(70))
		}
		emitCast(cw, "C09", c, src, true)
	}
}
