package main

// Alias histories (C15): interleavings of operations on a template, the rows it creates and
// clones; after every step the product of the template (a fresh CreateRowEmpty) and every live
// row are snapshotted.
//
//	alias \t C15 \t <template> \t <op> ; <op> ; … \t <ext> \t <obs> ## <obs> ## …
//
// ops: ce | cm <Dyn map> | cs <Dyn arr> | cj <hex> | cr <i> | um <i> <hex> | set <i> K:<hex> <Dyn>
//      | iak <i> K:<hex> <Dyn> | iap <i> K:<hex path> <Dyn> | ex <i> | cl <i> | st <hex> | imp <hex> (next line of one long-lived importer)
// obs: e=<class|-> | proto=<Val> | <Val> ;; <Val> ;; …

import (
	"bytes"
	"encoding/json"
	"fmt"
	"strings"

	"github.com/cgi-fr/jsonline/pkg/jsonline"
)

func aliasCols(r *rng) []colDesc {
	cols := []colDesc{{name: "a", format: "numeric", ty: "int"}, {name: "b", format: "binary", ty: "bytes"}, {name: "s", format: "string", ty: "none"}}
	if r.chance(1, 2) {
		cols = append(cols, colDesc{name: "p", isSub: true, sub: []colDesc{{name: "zz", format: "auto", ty: "none"}, {name: "aa", format: "auto", ty: "none"}}})
	}
	if r.chance(1, 3) {
		// a sub-row inside a sub-row: what is two levels down is reached through two containers
		cols = append(cols, colDesc{name: "h", isSub: true, sub: []colDesc{{name: "o", isSub: true, sub: []colDesc{{name: "n", format: "auto", ty: "none"}, {name: "m", format: "string", ty: "none"}}}, {name: "x", format: "auto", ty: "none"}}})
	}
	for _, f := range fmtNames {
		if r.chance(1, 3) {
			cols = append(cols, colDesc{name: "c_" + f, format: f, ty: pick(r, []string{"none", "none", "int", "str", "f64", "bytes", "i8", "other"})})
		}
	}
	return cols
}

// genTemplateFamilies: several templates alive together, some attached to others as sub-rows (WithRow) — before or
// after either side got its columns — and builder calls on any of them afterwards. After every call the product of
// EVERY template (a fresh CreateRowEmpty) is snapshotted: a builder call changes the product of the template it is
// called on and of no other — a template does not change because one that was attached to it, or that it was
// attached to, is extended later.
//
//	tfamily \t C15 \t <op> ; <op> ; … \t <products after op 1> ## <products after op 2> ## …     (products: <Val> ;; <Val> ;; …)
//	ops: new | with <i> K:<hex> <format> | withrow <i> K:<hex> <j> | create <i> (a row made and imported into: nothing changes)
func genTemplateFamilies(cw *caseWriter, r *rng, n int) {
	names := []string{"a", "b", "p", "q", "late", "zz"}
	for it := 0; it < n; it++ {
		var ts []jsonline.Template
		var ops, obs []string
		reach := map[int]map[int]bool{} // reach[i][j]: template j was attached somewhere below template i
		snapshot := func() string {
			parts := make([]string, len(ts))
			for i, t := range ts {
				var v string
				if p := guard(func() { v = valStr(t.CreateRowEmpty()) }); p != "" {
					v = "PANIC"
				}
				parts[i] = v
			}
			return strings.Join(parts, " ;; ")
		}
		steps := 3 + r.intn(10)
		for s := 0; s < steps; s++ {
			k := r.intn(8)
			if len(ts) == 0 || (len(ts) < 3 && k == 0) {
				ts = append(ts, jsonline.NewTemplate())
				ops = append(ops, "new")
				obs = append(obs, snapshot())
				continue
			}
			i := r.intn(len(ts))
			name := pick(r, names)
			switch {
			case k <= 3:
				f := pick(r, fmtNames)
				guard(func() { ts[i].With(name, formatByName[f], nil) })
				ops = append(ops, fmt.Sprintf("with %d K:%s %s", i, hx([]byte(name)), f))
			case k <= 5 && len(ts) >= 2:
				j := r.intn(len(ts))
				if j == i {
					j = (i + 1) % len(ts)
				}
				// never a template below itself (were templates linked instead of copied, that would be a loop)
				if reach[j] == nil {
					reach[j] = map[int]bool{}
				}
				if reach[i] == nil {
					reach[i] = map[int]bool{}
				}
				if reach[j][i] {
					i, j = j, i
				}
				if reach[j][i] || i == j {
					ops = append(ops, fmt.Sprintf("create %d", i))
					obs = append(obs, snapshot())
					continue
				}
				reach[i][j] = true
				for k2 := range reach[j] {
					reach[i][k2] = true
				}
				for _, m := range reach {
					if m[i] {
						m[j] = true
						for k2 := range reach[j] {
							m[k2] = true
						}
					}
				}
				guard(func() { ts[i].WithRow(name, ts[j]) })
				ops = append(ops, fmt.Sprintf("withrow %d K:%s %d", i, hx([]byte(name)), j))
			default:
				guard(func() {
					row := ts[i].CreateRowEmpty()
					_ = row.ImportAtKey(name, 5)
					_ = row.ImportAtPath(name+".late", "x")
					row.Set("late", 1)
				})
				ops = append(ops, fmt.Sprintf("create %d", i))
			}
			obs = append(obs, snapshot())
		}
		key := strings.Join(ops, " ; ")
		cw.count("tfamily")
		cw.emit("tfamily "+key, true, "tfamily", "C15", key, strings.Join(obs, " ## "))
	}
}

// useReturned: a row handed back TOGETHER with an error is the caller's to use like any other row (and belongs to
// nobody else): it is written into.
func useReturned(nr jsonline.Row) {
	if nr == nil {
		return
	}
	guard(func() {
		nr.Set("a", 4242)
		_ = nr.ImportAtKey("s", "written into a row that came back with an error")
		nr.Set("zz_left_behind", true)
		_ = nr.UnmarshalJSON([]byte(`{"b":"AQID","c_string":"left behind"}`))
	})
}

func genC15(cw *caseWriter, seed uint64, tier string) {
	r := newRng(seed)
	genTemplateFamilies(cw, newRng(seed+77), 150)
	n := 600
	if tier == "thorough" {
		n = 20000
	}
	genAliasHistories(cw, "C15", r, n)
}

// genAliasHistories: histories of a template and the rows it makes — creations from every kind of input, unmarshals,
// stores, imports by key and by path, refused ones among them, clones, exports — with the template's product and every
// live row snapshotted after EVERY step. Besides C15 (nothing but the operated root changes) the snapshots are judged
// for what every property about declared columns relies on: a column keeps its declared format and raw type whatever
// was stored, imported or REFUSED since (C03, C04, C10, C11, C14, C18 run a slice of these histories under their own
// name).
func genAliasHistories(cw *caseWriter, prop string, r *rng, n int) {
	jsons := []string{`{"a":1}`, `{"a":"x"}`, `{"b":"AQI=","s":5,"new":{"q":1}}`, `{"s":"t","a":2,"p":{"zz":1,"aa":[1]}}`, `{`, `{"a":7,"a":8}`, `{"c_string":1,"c_numeric":"2","c_boolean":1}`, `{}`,
		// another object for a key that may already hold one (in this row, or in the row it was cloned from)
		`{"new":{"q":2,"z":[1]},"p":{"zz":5,"k":{"d":1}}}`, `{"new":{"other":true}}`,
		// rejected after members were stored: a later column fails to convert, truncated, trailing content
		`{"h":{"o":{"n":1,"m":"t"},"x":2},"a":4}`, `{"h":{"o":{"m":5}}}`,
		`{"s":"kept?","new":[1],"a":"x"}`, `{"b":"AQI=","extra":1`, `{"a":3,"s":"u"} trailing`, `{"s":"w","b":"!notbase64"}`}
	keys := []string{"a", "b", "s", "p", "new", "c_string", "c_numeric", ""}
	vals := []func() interface{}{func() interface{} { return 5 }, func() interface{} { return "v" }, func() interface{} { return nil }, func() interface{} { return []byte{9} },
		func() interface{} { return json.Number("1.5") }, func() interface{} { return "notanumber" }, func() interface{} { return []interface{}{1, "z"} }}
	for it := 0; it < n; it++ {
		cols := aliasCols(r)
		t := buildTemplate(cols)
		var rows []jsonline.Row
		shared := map[int]bool{} // rows that were the source or the result of CreateRow(Row) / CloneRow
		var ops, obs []string
		ext := map[string]string{}
		steps := 2 + r.intn(39)
		// one long-lived importer of the template over lines fixed in advance; rows it hands out stay live
		var queue []string
		var feed bytes.Buffer
		for j := 0; j < steps; j++ {
			q := pick(r, jsons)
			queue = append(queue, q)
			feed.WriteString(q + "\n")
		}
		longImp := t.GetImporter(&feed)
		for s := 0; s < steps; s++ {
			var op string
			errc := "-"
			fresh := ""
			pickRow := func() int {
				if len(rows) == 0 {
					return -1
				}
				return r.intn(len(rows))
			}
			k := r.intn(16)
			if len(rows) == 0 && k > 4 && k < 11 || len(rows) == 0 && k > 12 {
				k = 0
			}
			panOp := guard(func() {
				switch k {
				case 13, 14:
					// a nested mutation in place, through a dotted path into a declared sub-row or a parsed object
					// only on rows that share nothing below the top level with another row: a nested row reached
					// through two parents after CreateRow(Row) / CloneRow is shared by design (outside the statement)
					var cand []int
					for j := range rows {
						if !shared[j] {
							cand = append(cand, j)
						}
					}
					if len(cand) == 0 {
						rows = append(rows, t.CreateRowEmpty())
						op = "ce"
						break
					}
					i := pick(r, cand)
					path := pick(r, []string{"p.zz", "p.aa", "new.q", "p", "a", "p.zz.x", "s", "h.o.n", "h.o.m", "h.x", "h.o", "h.o.new", "new.zz", "p.new"})
					v := pick(r, vals)()
					extForValue(v, ext)
					op = fmt.Sprintf("iap %d K:%s %s", i, hx([]byte(path)), dynStr(v))
					if err := rows[i].ImportAtPath(path, v); err != nil {
						errc = errClass(err)
					}
				case 15:
					if r.chance(1, 2) {
						// a slice or a map handed to Row.Import of a live row: values land in the columns in order (resp. by
						// name); one that is refused ends the import there — the values before it stay, nothing lands in
						// another column than its own
						i := pickRow()
						var x interface{}
						if r.chance(1, 2) {
							sl := []interface{}{}
							for j := 1 + r.intn(5); j > 0; j-- {
								v := pick(r, vals)()
								extForValue(v, ext)
								sl = append(sl, v)
							}
							x = sl
						} else {
							key := pick(r, keys)
							v := pick(r, vals)()
							extForValue(v, ext)
							x = map[string]interface{}{key: v}
						}
						op = fmt.Sprintf("imp2 %d %s", i, dynStr(x))
						if err := rows[i].Import(x); err != nil {
							errc = errClass(err)
						}
						break
					}
					// one row handed to another row's Import (refused today; were it accepted, the two rows must not
					// end up holding the same cells)
					i, j := pickRow(), pickRow()
					op = fmt.Sprintf("irow %d %d", i, j)
					if err := rows[i].Import(rows[j]); err != nil {
						errc = errClass(err)
					}
				case 11, 12:
					js := queue[0]
					queue = queue[1:]
					extForJSON([]byte(js), ext)
					op = "imp " + hxs(js)
					if !longImp.Import() {
						errc = "io"
						break
					}
					nr, err := longImp.GetRow()
					if err != nil {
						errc = classifyLine(err)
					} else {
						rows = append(rows, nr)
					}
					// what the same text gives on its own
					if fr, ferr := t.CreateRow(js); ferr == nil {
						extForValue(fr, ext)
						fresh = valStr(fr)
					} else {
						fresh = "ERR"
					}
				case 0:
					rows = append(rows, t.CreateRowEmpty())
					op = "ce"
				case 1:
					m := map[string]interface{}{}
					key := pick(r, keys)
					v := pick(r, vals)()
					m[key] = v
					extForValue(v, ext)
					op = "cm " + dynStr(m)
					nr, err := t.CreateRow(m)
					if err != nil {
						errc = errClass(err)
						useReturned(nr)
					} else {
						rows = append(rows, nr)
					}
				case 2:
					sl := []interface{}{}
					for j := r.intn(4); j > 0; j-- {
						v := pick(r, vals)()
						extForValue(v, ext)
						sl = append(sl, v)
					}
					op = "cs " + dynStr(sl)
					var input interface{} = sl
					if r.chance(1, 4) {
						// an input of a kind CreateRow does not take (a struct, a number, a typed map): refused, no row
						input = pick(r, []interface{}{struct{ X int }{1}, 42, map[string]int{"a": 1}, 1.5})
						op = "cs " + dynStr(input)
					}
					nr, err := t.CreateRow(input)
					if err != nil {
						errc = errClass(err)
						useReturned(nr)
					} else {
						rows = append(rows, nr)
					}
				case 3:
					js := pick(r, jsons)
					extForJSON([]byte(js), ext)
					op = "cj " + hxs(js)
					nr, err := t.CreateRow(js)
					if err != nil {
						useReturned(nr)
						errc = classifyLine(err)
					} else {
						rows = append(rows, nr)
					}
				case 4:
					i := pickRow()
					if i < 0 {
						rows = append(rows, t.CreateRowEmpty())
						op = "ce"
						break
					}
					op = fmt.Sprintf("cr %d", i)
					nr, err := t.CreateRow(rows[i])
					if err != nil {
						errc = errClass(err)
					} else {
						shared[i], shared[len(rows)] = true, true
						rows = append(rows, nr)
					}
				case 5:
					i := pickRow()
					js := pick(r, jsons)
					extForJSON([]byte(js), ext)
					op = fmt.Sprintf("um %d %s", i, hxs(js))
					if err := rows[i].UnmarshalJSON([]byte(js)); err != nil {
						errc = classifyLine(err)
					}
				case 6:
					i := pickRow()
					key := pick(r, keys)
					v := pick(r, vals)()
					extForValue(v, ext)
					op = fmt.Sprintf("set %d K:%s %s", i, hx([]byte(key)), dynStr(v))
					rows[i].Set(key, v)
				case 7:
					i := pickRow()
					key := pick(r, keys)
					v := pick(r, vals)()
					extForValue(v, ext)
					op = fmt.Sprintf("iak %d K:%s %s", i, hx([]byte(key)), dynStr(v))
					if err := rows[i].ImportAtKey(key, v); err != nil {
						errc = errClass(err)
					}
				case 8:
					i := pickRow()
					op = fmt.Sprintf("ex %d", i)
					var out bytes.Buffer
					if err := t.GetExporter(&out).Export(rows[i]); err != nil {
						errc = classifyLine(err)
					}
				case 9:
					i := pickRow()
					op = fmt.Sprintf("cl %d", i)
					shared[i], shared[len(rows)] = true, true
					rows = append(rows, jsonline.CloneRow(rows[i]))
				default:
					js := pick(r, jsons)
					extForJSON([]byte(js), ext)
					op = "st " + hxs(js)
					if i := pickRow(); i >= 0 && r.chance(1, 2) {
						// a THROWAWAY copy of a row (CloneRow, or CreateRow(row)) whose cells are then given other contents
						// through every door a cell has of its own — Import of a scalar, an array, a map; json.Unmarshal
						// into the cell — and dropped: for the model nothing happened; the source row, the template and
						// every other row must show nothing of it
						var c jsonline.Row
						if r.chance(1, 2) {
							c = jsonline.CloneRow(rows[i])
						} else {
							c, _ = t.CreateRow(rows[i])
						}
						if c != nil {
							it := c.IterValues()
							for _, cell, ok := it(); ok; _, cell, ok = it() {
								switch r.intn(5) {
								case 0:
									_ = json.Unmarshal([]byte(`{"zq":1,"b":[2,{"y":3}]}`), cell)
								case 1:
									_ = json.Unmarshal([]byte(`[{"zq":1}]`), cell)
								case 2:
									_ = cell.Import(map[string]interface{}{"zq": 1})
								case 3:
									_ = cell.Import("thrown away")
								default:
									_ = json.Unmarshal([]byte(`"x"`), cell)
								}
							}
						}
						break
					}
					var out bytes.Buffer
					imp := t.GetImporter(strings.NewReader(js + "\n"))
					_ = jsonline.NewStreamer(imp, t.GetExporter(&out)).WithProcessor(jsonline.NoFailureProcessor).Stream()
				}
			})
			if panOp != "" {
				errc = "PANIC in the operation: " + strings.ReplaceAll(strings.ReplaceAll(panOp, "\t", " "), "\n", " ")
				if op == "" {
					op = "ce"
				}
			}
			guard(func() {
				for _, rr := range rows {
					extForValue(rr, ext)
				}
			})
			ops = append(ops, op)
			var sb strings.Builder
			if pmsg := guard(func() {
				sb.WriteString("e=" + errc + " | proto=" + valStr(t.CreateRowEmpty()) + " | ")
				for i, rr := range rows {
					if i > 0 {
						sb.WriteString(" ;; ")
					}
					sb.WriteString(valStr(rr))
				}
			}); pmsg != "" {
				// reading the rows back crashed: reported as such (the driver turns it into an oracle failure)
				sb.Reset()
				sb.WriteString("e=" + errc + " | PANIC while reading the rows: " + strings.ReplaceAll(strings.ReplaceAll(pmsg, "\t", " "), "\n", " ") + " | none")
			}
			if len(rows) == 0 {
				sb.WriteString("none")
			}
			if fresh != "" {
				sb.WriteString(" | fresh=" + fresh)
			}
			obs = append(obs, sb.String())
			cw.count("alias:" + strings.SplitN(op, " ", 2)[0])
		}
		key := descStr(cols) + " " + strings.Join(ops, " ; ")
		cw.emit(key, len(ops) >= 3, "alias", prop, descStr(cols), strings.Join(ops, " ; "), extStr(ext), strings.Join(obs, " ## "))
	}
}

func classifyLine(err error) string {
	c := classify(err)
	if c == "other" {
		return "syntax"
	}
	return c
}
