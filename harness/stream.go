package main

// Stream cases (C07, C08) and validation of the scanner port.
//
//	stream \t <prop> \t <ti> \t <to> \t <proc> \t <reader script> \t <writer script> \t <ext> \t <impl obs>
//	scan   \t <init> <max> \t <reader script> \t <impl: tokens and final error>
//
// reader script: d:<hex> (data) | de:<hex> (data returned together with an error) | e (0, error) | z (0, nil); then io.EOF
// writer script: ok | fail | short:<n> | full; then ok for ever
// proc: default | tolerant | failat:<n>
// obs:  ret=<class|-> calls=<1|0>:<class|->,… writes=<hex>;<hex>;…

import (
	"bufio"
	"bytes"
	"errors"
	"fmt"
	"io"
	"os"
	"strings"

	"github.com/cgi-fr/jsonline/pkg/jsonline"
)

type readEv struct {
	kind string // d de e z
	data []byte
}

type scriptReader struct {
	evs []readEv
	pos int
	off int
	flt error
}

// fault: the error this reader fails with (one kind per reader, see nextFault).
func (r *scriptReader) fault() error {
	if r.flt == nil {
		r.flt = nextFault()
	}
	return r.flt
}

func (r *scriptReader) Read(p []byte) (int, error) {
	if r.pos >= len(r.evs) {
		return 0, io.EOF
	}
	ev := r.evs[r.pos]
	switch ev.kind {
	case "d", "de":
		rem := ev.data[r.off:]
		if len(rem) <= len(p) {
			n := copy(p, rem)
			r.pos++
			r.off = 0
			if ev.kind == "de" {
				return n, r.fault()
			}
			return n, nil
		}
		n := copy(p, rem[:len(p)])
		r.off += n
		return n, nil
	case "e":
		r.pos++
		return 0, r.fault()
	default:
		r.pos++
		return 0, nil
	}
}

func readerStr(evs []readEv) string {
	if len(evs) == 0 {
		return "-"
	}
	parts := make([]string, len(evs))
	for i, e := range evs {
		switch e.kind {
		case "d", "de":
			parts[i] = e.kind + ":" + hxs(string(e.data))
		default:
			parts[i] = e.kind
		}
	}
	return strings.Join(parts, " ")
}

type scriptWriter struct {
	evs    []string
	pos    int
	writes [][]byte
	flt    error
}

func (w *scriptWriter) fault() error {
	if w.flt == nil {
		w.flt = nextFault()
	}
	return w.flt
}

func (w *scriptWriter) Write(p []byte) (int, error) {
	ev := "ok"
	if w.pos < len(w.evs) {
		ev = w.evs[w.pos]
	}
	w.pos++
	switch {
	case ev == "fail":
		w.writes = append(w.writes, []byte{})
		return 0, w.fault()
	case ev == "full":
		// everything is written and an error is returned all the same (a writer that syncs after writing)
		w.writes = append(w.writes, append([]byte{}, p...))
		return len(p), w.fault()
	case strings.HasPrefix(ev, "short:"):
		var n int
		fmt.Sscanf(ev, "short:%d", &n)
		if n > len(p) {
			n = len(p)
		}
		w.writes = append(w.writes, append([]byte{}, p[:n]...))
		return n, io.ErrShortWrite
	}
	w.writes = append(w.writes, append([]byte{}, p...))
	return len(p), nil
}

func classifyStream(err error) string {
	if err == nil {
		return "-"
	}
	c := classify(err)
	if c == "other" {
		if err == io.ErrShortWrite || strings.Contains(err.Error(), "short write") || errors.Is(err, io.ErrNoProgress) {
			return "io"
		}
		if strings.Contains(err.Error(), "processor") {
			return "other"
		}
		return "syntax"
	}
	return c
}

var errProcessor = fmt.Errorf("processor says no")

func runStream(ti, to jsonline.Template, proc string, revs []readEv, wevs []string) string {
	return runStreamFrom(ti, to, proc, &scriptReader{evs: revs}, wevs)
}

// stdReader: the bytes behind one of the readers a program would really hand over — each with the optional methods
// it happens to have (Len, Size, WriteTo, ReadByte, Stat …), which a library may look at.
func stdReader(kind string, data []byte) (io.Reader, func()) {
	switch kind {
	case "strings":
		return strings.NewReader(string(data)), func() {}
	case "bytes":
		return bytes.NewReader(data), func() {}
	case "buffer":
		return bytes.NewBuffer(append([]byte{}, data...)), func() {}
	case "bufio":
		return bufio.NewReaderSize(bytes.NewReader(data), 4096), func() {}
	case "file":
		f, err := os.CreateTemp(workDir(), "stream-*.jsonl")
		if err != nil {
			return bytes.NewReader(data), func() {}
		}
		_, _ = f.Write(data)
		_, _ = f.Seek(0, io.SeekStart)
		return f, func() { f.Close(); os.Remove(f.Name()) }
	default: // "pipe"
		pr, pw := io.Pipe()
		go func() { _, _ = pw.Write(data); pw.Close() }()
		return pr, func() { pr.Close() }
	}
}

func workDir() string {
	if base := os.Getenv("VERIF_WORK"); base != "" {
		return base
	}
	return "."
}

var stdReaderKinds = []string{"strings", "bytes", "buffer", "bufio", "file", "pipe"}

// emitStreamStd: the stream of `data` read from a standard reader of the given kind; the model is handed the plain
// stream (whole-buffer chunks): what the reader IS must not matter.
func emitStreamStd(cw *caseWriter, prop string, ti, to []colDesc, proc, kind string, data []byte) {
	r, done := stdReader(kind, data)
	obs := runStreamFrom(buildTemplate(ti), buildTemplate(to), proc, r, nil)
	done()
	ext := map[string]string{}
	if len(data) < 1<<20 {
		for _, l := range bytes.Split(data, []byte("\n")) {
			extForJSON(l, ext)
		}
	}
	revs := chunk(data, []int{1 << 20})
	cw.count("stdreader:" + kind)
	cw.emit(prop+" "+kind+" reader "+descStr(ti)+descStr(to)+proc+fmt.Sprint(len(data)), true, "stream", prop, descStr(ti), descStr(to), proc, readerStr(revs), "-", extStr(ext), obs)
}

var streamRuns int

func runStreamFrom(ti, to jsonline.Template, proc string, r io.Reader, wevs []string) string {
	w := &scriptWriter{evs: wevs}
	var calls []string
	n := 0
	var p jsonline.Processor
	record := func(row jsonline.Row, err error) {
		b := "0"
		if row != nil {
			b = "1"
		}
		calls = append(calls, b+":"+classifyStream(err))
	}
	// every second run hands the decision to the library's own processors (recorded on the way): DefaultProcessor is
	// "return what you are given", NoFailureProcessor "carry on"
	streamRuns++
	useLib := streamRuns%2 == 0
	switch {
	case proc == "default":
		p = func(row jsonline.Row, err error) error {
			record(row, err)
			n++
			if useLib {
				return jsonline.DefaultProcessor(row, err)
			}
			return err
		}
	case proc == "tolerant":
		p = func(row jsonline.Row, err error) error {
			record(row, err)
			n++
			if useLib {
				return jsonline.NoFailureProcessor(row, err)
			}
			return nil
		}
	default:
		var at int
		fmt.Sscanf(proc, "failat:%d", &at)
		p = func(row jsonline.Row, err error) error {
			record(row, err)
			n++
			if n-1 == at {
				return errProcessor
			}
			return nil
		}
	}
	var ret error
	pan := guard(func() {
		ret = jsonline.NewStreamer(ti.GetImporter(r), to.GetExporter(w)).WithProcessor(p).Stream()
	})
	if pan != "" {
		return "panic " + strings.ReplaceAll(pan, "\t", " ")
	}
	rc := classifyStream(ret)
	if ret == errProcessor {
		rc = "other"
	}
	ws := make([]string, len(w.writes))
	for i, b := range w.writes {
		ws[i] = hxs(string(b))
	}
	cs := strings.Join(calls, ",")
	if cs == "" {
		cs = "-"
	}
	wss := strings.Join(ws, ";")
	if wss == "" {
		wss = "none"
	}
	return fmt.Sprintf("ret=%s calls=%s writes=%s", rc, cs, wss)
}

func chunk(data []byte, sizes []int) []readEv {
	var evs []readEv
	i := 0
	for k := 0; i < len(data); k++ {
		n := sizes[k%len(sizes)]
		if n <= 0 {
			evs = append(evs, readEv{kind: "z"})
			continue
		}
		if i+n > len(data) {
			n = len(data) - i
		}
		evs = append(evs, readEv{kind: "d", data: data[i : i+n]})
		i += n
	}
	return evs
}

func emitStream(cw *caseWriter, prop string, ti, to []colDesc, proc string, revs []readEv, wevs []string, data []byte, nontrivial bool) {
	obs := runStream(buildTemplate(ti), buildTemplate(to), proc, revs, wevs)
	ext := map[string]string{}
	for _, l := range bytes.Split(data, []byte("\n")) {
		extForJSON(l, ext)
	}
	ws := strings.Join(wevs, " ")
	if ws == "" {
		ws = "-"
	}
	cw.count("proc:" + strings.SplitN(proc, ":", 2)[0])
	cw.count("ret:" + strings.SplitN(strings.TrimPrefix(obs, "ret="), " ", 2)[0])
	cw.emit(prop+" "+descStr(ti)+descStr(to)+proc+readerStr(revs)+ws, nontrivial, "stream", prop, descStr(ti), descStr(to), proc, readerStr(revs), ws, extStr(ext), obs)
}

// emitStreamAfterHeader: `{"header":1}` + LF + data on one untemplated importer; ReadOne() takes the header,
// WithTemplate(ti) is applied, and the importer it returns is streamed under the tolerant processor. The case
// handed to the model is the plain stream of `data`.
func emitStreamAfterHeader(cw *caseWriter, prop string, ti, to []colDesc, data []byte) {
	full := append([]byte("{\"header\":1}\n"), data...)
	r := &scriptReader{evs: chunk(full, []int{1 << 20})}
	w := &scriptWriter{}
	var calls []string
	var ret error
	pan := guard(func() {
		imp := jsonline.NewImporter(r)
		_, _ = imp.ReadOne()
		imp2 := imp.WithTemplate(buildTemplate(ti))
		ret = jsonline.NewStreamer(imp2, buildTemplate(to).GetExporter(w)).WithProcessor(func(row jsonline.Row, err error) error {
			b := "0"
			if row != nil {
				b = "1"
			}
			calls = append(calls, b+":"+classifyStream(err))
			return nil
		}).Stream()
	})
	obs := "panic " + strings.ReplaceAll(pan, "\t", " ")
	if pan == "" {
		ws := make([]string, len(w.writes))
		for i, b := range w.writes {
			ws[i] = hxs(string(b))
		}
		cs, wss := strings.Join(calls, ","), strings.Join(ws, ";")
		if cs == "" {
			cs = "-"
		}
		if wss == "" {
			wss = "none"
		}
		obs = fmt.Sprintf("ret=%s calls=%s writes=%s", classifyStream(ret), cs, wss)
	}
	ext := map[string]string{}
	for _, l := range bytes.Split(data, []byte("\n")) {
		extForJSON(l, ext)
	}
	cw.count("stream-after-header")
	cw.emit(prop+" after header "+descStr(ti)+descStr(to)+string(data), true, "stream", prop, descStr(ti), descStr(to), "tolerant", readerStr(chunk(data, []int{1 << 20})), "-", extStr(ext), obs)
}

var streamLines = []string{`{"a":""}`, `{"a":"","b":""}`, `{"a":"x","b":"2021-09-24"}`, `{"a":1}`, `{"b":"x","a":null}`, ``, `{`, `[1]`, `{"a":"notanumber"}`, `{"a":2,"z":[1,{"q":1}]}`, `   `, `{"a":1} trailing`, `{}`, `null`, `{"a":3}`,
	// an escaped line feed (and other control characters) in a member name and in a value: still one line out
	`{"k\nk":1,"a":2,"v":"x\ny\r\n"}`, `{"\u000a":"\u000a","\t\u0000":[{"\n":1}]}`,
	// the shortest texts a recogniser of numbers meets (a lone sign, point or exponent mark), and an array that does
	// not hold one kind of thing
	`{"tags":[1],"t\u0061gs":[2],"a":1}`, `{"a":[1],"a":[2]}`, `{"o":{"x":1},"\u006f":{"x":2},"a":2}`, `{"a":{"b":1},"a.b":2}`,
	`{"a":"-"}`, `{"a":"+"}`, `{"a":"."}`, `{"a":"e"}`, `{"a":""}`, `{"a":"-."}`, `{"a":"-0"}`, `{"a":".5"}`, `{"a":"5."}`, `{"a":4,"l":[{"q":1},2,null]}`}

// oddLines: the lines of other framings of the same data (a pretty-printed object or array spread over several
// lines, so lines that START with a closing or separating character or stop with a bracket still open),
// concatenated objects, a byte-order mark, control bytes, a number no float64 holds.
var oddLines = []string{`}`, `]`, `:`, `,`, `},`, `],`, `[`, `{"a":2,"tags":["x",`, `{"a":{`, `"a":1`, `  "a": 1,`, `{"a":1},`, "\xef\xbb\xbf{\"a\":1}", "\x00", `{"a":1}{"a":2}`,
	`{"a":1e999}`, `{"a":1}` + "\r" + `{"a":2}`, `"`, `{"a":"`, `\`, `{"a":1,}`, `{"A":5}`, "{\"a\":1}\t", "\t{\"a\":1}"}

func randStreamBytes(r *rng, maxLines int) []byte {
	var sb bytes.Buffer
	n := r.intn(maxLines + 1)
	for i := 0; i < n; i++ {
		if r.chance(1, 4) {
			sb.WriteString(pick(r, oddLines))
		} else {
			sb.WriteString(pick(r, streamLines))
		}
		if i < n-1 || r.chance(2, 3) {
			if r.chance(1, 4) {
				sb.WriteString("\r\n")
			} else {
				sb.WriteString("\n")
			}
		}
	}
	return sb.Bytes()
}

func genC07(cw *caseWriter, seed uint64, tier string) {
	r := newRng(seed)
	ti := []colDesc{{name: "a", format: "numeric", ty: "int"}}
	to := []colDesc{{name: "a", format: "string", ty: "none"}}
	n := 1500
	if tier == "thorough" {
		n = 30000
	}
	sizesets := [][]int{{1 << 20}, {1}, {3}, {7}, {2, 0, 5}, {64}, {1000}}
	// template pairs: import-side rejection only; export-side rejection (a line read without error whose
	// rendering fails, followed by other lines); undeclared keys on both sides
	pairs := [][2][]colDesc{
		{ti, to},
		{nil, {{name: "a", format: "numeric", ty: "none"}}},
		{{{name: "a", format: "auto", ty: "none"}, {name: "h", format: "hidden", ty: "none"}}, {{name: "a", format: "numeric", ty: "none"}, {name: "b", format: "string", ty: "none"}}},
		// text kept as text on the way in and written as binary / date on the way out (empty texts included)
		{{{name: "a", format: "string", ty: "none"}, {name: "b", format: "string", ty: "none"}}, {{name: "a", format: "binary", ty: "none"}, {name: "b", format: "date", ty: "none"}}},
	}
	for i := 0; i < n; i++ {
		data := randStreamBytes(r, 7)
		pr := pairs[0]
		if r.chance(1, 2) {
			pr = pick(r, pairs)
		}
		for _, proc := range []string{"tolerant", "default"} {
			sz := pick(r, sizesets)
			emitStream(cw, "C07", pr[0], pr[1], proc, chunk(data, sz), nil, data, true)
		}
		if i%5 == 0 {
			// a header line read with ReadOne() first, a template applied to the importer afterwards, the rest streamed
			// with the importer WithTemplate returns: the rest is processed as if it were the whole input
			emitStreamAfterHeader(cw, "C07", pr[0], pr[1], data)
		}
		if i%4 == 0 && len(data) > 0 {
			// a read that hands over data TOGETHER with an error (of every kind in turn, the "temporary" ones included):
			// the lines delivered so far keep their outcomes, in order, and nothing is made of what was not delivered
			evs := chunk(data, pick(r, [][]int{{3}, {7}, {64}, {5, 1}}))
			k := r.intn(len(evs))
			if evs[k].kind == "d" {
				evs = append(append([]readEv{}, evs[:k]...), readEv{kind: "de", data: evs[k].data})
				for _, proc := range []string{"tolerant", "default"} {
					emitStream(cw, "C07", pr[0], pr[1], proc, evs, nil, data, true)
				}
			}
		}
		if i%12 == 0 && !bytes.Contains(data, []byte{0}) {
			// the same stream through the jl binary (its own processor logs and carries on)
			emitStreamJl(cw, "C07", pr[0], pr[1], data, false)
		}
	}
	// long streams: what shows only on the 65th, 257th or 1025th line, or after many rejected lines
	for _, nl := range []int{70, 300, 1100} {
		data := longStream(r, nl)
		for _, pr := range pairs {
			emitStream(cw, "C07", pr[0], pr[1], "tolerant", chunk(data, []int{4096, 1, 100}), nil, data, true)
		}
		emitStream(cw, "C07", pairs[0][0], pairs[0][1], "default", chunk(data, []int{1 << 20}), nil, data, true)
	}
	// line lengths around the 64 KiB initial buffer and 1 MiB (10 MiB: thorough)
	lens := []int{65534, 65535, 65536, 65537, 131072, 1 << 20}
	if tier == "thorough" {
		lens = append(lens, 10485758-11, 10485759-11, 10485760-11)
	}
	for _, l := range lens {
		pad := strings.Repeat("x", l-10)
		line := `{"k":"` + pad + `"}`
		data := []byte(`{"a":1}` + "\n" + line + "\n" + `{"a":2}` + "\n")
		emitStream(cw, "C07", nil, nil, "tolerant", chunk(data, []int{1 << 16}), nil, data[:20], true)
	}
	// a LAST line without final newline whose length is exactly (and one around) a multiple of the 64 KiB buffer — a
	// reader by pieces learns of the end of the input only on the call after the last full piece —, whole and in pieces
	for _, l := range []int{4095, 4096, 4097, 65535, 65536, 65537, 131072, 196608} {
		line := `{"k":"` + strings.Repeat("y", l-8) + `"}`
		data := []byte(`{"a":1}` + "\n" + line)
		for _, sz := range [][]int{{1 << 20}, {65536}, {4096}} {
			emitStream(cw, "C07", nil, nil, "tolerant", chunk(data, sz), nil, data[:20], true)
		}
		emitStream(cw, "C07", nil, nil, "default", chunk([]byte(line), []int{1 << 20}), nil, data[:20], true)
	}
	// the streams from the readers programs really hand over (each with its own optional methods)
	for i := 0; i < 12; i++ {
		data := randStreamBytes(r, 7)
		for _, kind := range stdReaderKinds {
			emitStreamStd(cw, "C07", pairs[0][0], pairs[0][1], pick(r, []string{"tolerant", "default"}), kind, data)
		}
	}
}

// emitStreamTwice: Stream() is called, ends on a fatal write failure (default processor), and is called AGAIN on
// the same streamer with a writer that works: the second call goes on with the line after the one that failed.
// The case handed to the model is the plain stream of the lines the first call had not reached.
func emitStreamTwice(cw *caseWriter, ti, to []colDesc, data []byte, failAt int) {
	wevs := make([]string, failAt+1)
	for i := range wevs {
		wevs[i] = "ok"
	}
	wevs[failAt] = "fail"
	r := &scriptReader{evs: chunk(data, []int{1 << 20})}
	w := &scriptWriter{evs: wevs}
	var calls []string
	var ret2 error
	consumed := 0
	pan := guard(func() {
		st := jsonline.NewStreamer(buildTemplate(ti).GetImporter(r), buildTemplate(to).GetExporter(w)).WithProcessor(func(row jsonline.Row, err error) error {
			b := "0"
			if row != nil {
				b = "1"
			}
			calls = append(calls, b+":"+classifyStream(err))
			return err
		})
		ret1 := st.Stream()
		if ret1 == nil {
			consumed = -1 // the first call was not stopped: nothing to resume
			return
		}
		consumed = failAt + 1 // every line of these streams is accepted: the failing write is the (failAt+1)-th line's
		calls, w.writes = nil, nil
		ret2 = st.Stream()
	})
	if consumed < 0 {
		return
	}
	lines := bytes.SplitAfter(data, []byte("\n"))
	if consumed > len(lines) {
		consumed = len(lines)
	}
	rest := bytes.Join(lines[consumed:], nil)
	obs := "panic " + strings.ReplaceAll(pan, "\t", " ")
	if pan == "" {
		ws := make([]string, len(w.writes))
		for i, b := range w.writes {
			ws[i] = hxs(string(b))
		}
		cs, wss := strings.Join(calls, ","), strings.Join(ws, ";")
		if cs == "" {
			cs = "-"
		}
		if wss == "" {
			wss = "none"
		}
		obs = fmt.Sprintf("ret=%s calls=%s writes=%s", classifyStream(ret2), cs, wss)
	}
	ext := map[string]string{}
	for _, l := range bytes.Split(data, []byte("\n")) {
		extForJSON(l, ext)
	}
	cw.count("stream-twice")
	cw.emit(fmt.Sprintf("C08 second Stream() after a fatal write failure at %d | %s", failAt, string(data)), true, "stream", "C08", descStr(ti), descStr(to), "default", readerStr(chunk(rest, []int{1 << 20})), "-", extStr(ext), obs)
}

// longStream: n lines drawn from the line alphabet (one in eight malformed), for what shows only on a later line.
func longStream(r *rng, n int) []byte {
	var sb bytes.Buffer
	for i := 0; i < n; i++ {
		switch {
		case r.chance(1, 8):
			sb.WriteString(pick(r, oddLines))
		case r.chance(1, 3):
			sb.WriteString(pick(r, streamLines))
		default:
			fmt.Fprintf(&sb, `{"a":%d,"n":%d}`, i%7, i)
		}
		if r.chance(1, 9) {
			sb.WriteString("\r")
		}
		sb.WriteString("\n")
	}
	return sb.Bytes()
}

func genC08(cw *caseWriter, seed uint64, tier string) {
	r := newRng(seed)
	ti := []colDesc{{name: "a", format: "numeric", ty: "int"}}
	to := []colDesc{{name: "a", format: "string", ty: "none"}}
	streams := [][]byte{
		[]byte("{\"a\":1}\n{\"a\":2}\n{\"a\":3}\n"),
		[]byte("{\"a\":1}\n{\"a\":2}\n{\"a\":3}"),
		[]byte("{\"a\":1}\r\n\n{\"a\":\"x\"}\n{\"a\":3}\n"),
		[]byte(""),
		[]byte("{\"a\":1}"),
		// other framings of the same rows (a JSON array over several lines, one array on one line, objects
		// separated by CR only, a pretty-printed object): every line of them is judged on its own
		[]byte("[\n{\"a\":1},\n{\"a\":2}\n]\n"),
		[]byte("[{\"a\":1},{\"a\":2}]\n{\"a\":3}\n"),
		[]byte("{\"a\":1}\r{\"a\":2}\n{\n\"a\":3\n}\n{\"a\":4}\n"),
	}
	procs := []string{"default", "tolerant", "failat:1"}
	if tier == "thorough" {
		// 40 more streams drawn from the line alphabet of C07 (malformed lines, trailing content, blank lines,
		// CRLF, missing final newline), each with the fault at EVERY offset and write index
		for k := 0; k < 40; k++ {
			streams = append(streams, randStreamBytes(r, 5))
		}
	}
	for _, data := range streams {
		// reader failing at every byte offset k, as (0, err) after k bytes and as (n>0, err) with the last chunk
		for k := 0; k <= len(data); k++ {
			for _, proc := range procs {
				revs := []readEv{}
				if k > 0 {
					revs = append(revs, readEv{kind: "d", data: data[:k]})
				}
				revs = append(revs, readEv{kind: "e"})
				emitStream(cw, "C08", ti, to, proc, revs, nil, data, true)
				if k > 0 {
					emitStream(cw, "C08", ti, to, proc, []readEv{{kind: "de", data: data[:k]}}, nil, data, true)
					// the same offset with one-byte reads before the failure
					rv := chunk(data[:k], []int{1})
					rv = append(rv, readEv{kind: "e"})
					emitStream(cw, "C08", ti, to, proc, rv, nil, data, true)
				}
			}
		}
		// writer failing at every write index j (plain failure and short write)
		for j := 0; j < 4; j++ {
			for _, proc := range procs {
				w := make([]string, j+1)
				for i := range w {
					w[i] = "ok"
				}
				w[j] = "fail"
				emitStream(cw, "C08", ti, to, proc, chunk(data, []int{5}), w, data, true)
				w2 := append([]string{}, w...)
				w2[j] = fmt.Sprintf("short:%d", 1+r.intn(5))
				emitStream(cw, "C08", ti, to, proc, chunk(data, []int{1 << 20}), w2, data, true)
				w3 := append([]string{}, w...)
				w3[j] = "full"
				emitStream(cw, "C08", ti, to, proc, chunk(data, []int{7}), w3, data, true)
			}
		}
	}
	// faults late in a long stream: the 100th write fails (plain, short, after writing everything); the reader
	// fails after 150 lines, on a line boundary and inside a line
	{
		var sb bytes.Buffer
		for i := 0; i < 200; i++ {
			fmt.Fprintf(&sb, "{\"a\":%d}\n", i)
		}
		data := sb.Bytes()
		for _, proc := range procs {
			for _, ev := range []string{"fail", "short:3", "full"} {
				w := make([]string, 100)
				for i := range w {
					w[i] = "ok"
				}
				w[99] = ev
				emitStream(cw, "C08", ti, to, proc, chunk(data, []int{4096}), w, data, true)
			}
			cut := bytes.Index(data, []byte("{\"a\":150}"))
			for _, k := range []int{cut, cut + 3} {
				emitStream(cw, "C08", ti, to, proc, []readEv{{kind: "d", data: data[:k]}, {kind: "e"}}, nil, data, true)
				emitStream(cw, "C08", ti, to, proc, append(chunk(data[:k], []int{512}), readEv{kind: "e"}), nil, data, true)
			}
		}
	}
	// Stream() called again after it was stopped by a fatal write failure
	for _, data := range [][]byte{[]byte("{\"a\":1}\n{\"a\":2}\n{\"a\":3}\n{\"a\":4}\n"), []byte("{\"a\":1}\n{\"a\":2}\n{\"a\":3}\n{\"a\":4}"), []byte("{\"a\":1}\r\n{\"a\":2}\r\n{\"a\":3}\r\n{\"a\":4}\r\n{\"a\":5}\r\n")} {
		for j := 0; j < 3; j++ {
			emitStreamTwice(cw, ti, to, data, j)
			emitStreamTwice(cw, nil, nil, data, j)
		}
	}
	// the command: an unreadable standard input, the base streams, the line that cannot be delivered
	emitStreamJl(cw, "C08", ti, to, nil, true)
	emitStreamJl(cw, "C08", nil, nil, nil, true)
	for _, data := range streams {
		emitStreamJl(cw, "C08", ti, to, data, false)
	}
	cw.extra["exhaustive_fault_offsets"] = true
	// 100 empty reads then data: no-progress
	emitStream(cw, "C08", nil, nil, "default", append(chunk(make([]byte, 0), []int{1}), func() []readEv {
		var e []readEv
		for i := 0; i < 101; i++ {
			e = append(e, readEv{kind: "z"})
		}
		return append(e, readEv{kind: "d", data: []byte("{}\n")})
	}()...), nil, nil, true)
	// over-long line: last without a final newline under the tolerant processor (thorough: first / middle /
	// last under every processor)
	big := `{"k":"` + strings.Repeat("x", 10485760-8) + `"}` // exactly 10485760 bytes: the shortest line that cannot be delivered
	if tier == "thorough" {
		bigger := `{"k":"` + strings.Repeat("x", 10485760) + `"}`
		for _, data := range []string{big + "\n{\"a\":1}\n", "{\"a\":1}\n" + big + "\n{\"a\":2}\n", "{\"a\":1}\n" + big, "{\"a\":1}\n" + bigger, bigger + "\n", big + big, "{\"a\":1}\n" + big[:len(big)-1]} {
			for _, proc := range procs {
				emitStream(cw, "C08", nil, nil, proc, chunk([]byte(data), []int{1 << 20}), nil, nil, true)
			}
		}
	} else {
		emitStream(cw, "C08", nil, nil, "tolerant", chunk([]byte("{\"a\":1}\n"+big), []int{1 << 20}), nil, nil, true)
	}
	// the same from readers that know their size (a library may size its buffer from Len() / Stat()), quick: two kinds
	kinds := []string{"strings", "file"}
	if tier == "thorough" {
		kinds = stdReaderKinds
	}
	for _, kind := range kinds {
		emitStreamStd(cw, "C08", nil, nil, "tolerant", kind, []byte("{\"a\":1}\n"+big+"\n{\"a\":2}\n"))
	}
	for _, kind := range stdReaderKinds {
		for _, data := range streams {
			emitStreamStd(cw, "C08", ti, to, "default", kind, data)
		}
	}
	emitStreamJl(cw, "C08", nil, nil, []byte("{\"a\":1}\n"+big+"\n{\"a\":2}\n"), false)
	emitStreamJl(cw, "C08", nil, nil, []byte("{\"a\":1}\n"+big[:len(big)-1]+"\n{\"a\":2}\n"), false)
	// the same undeliverable line, and an unreadable input, AFTER many refused lines (150: more than any round number a
	// log limiter might use): the failure that ends the input is reported all the same
	many := strings.Repeat("not json\n{\"a\":\n", 75)
	emitStreamJl(cw, "C08", nil, nil, []byte(many+big+"\n{\"a\":2}\n"), false)
}

// scanner port validation at small buffer sizes
func emitScan(cw *caseWriter, init, max int, revs []readEv) {
	r := &scriptReader{evs: revs}
	s := bufio.NewScanner(r)
	s.Buffer(make([]byte, 0, init), max)
	var toks []string
	for i := 0; i < 1000 && s.Scan(); i++ {
		e := "0"
		if s.Err() != nil {
			e = "1"
		}
		toks = append(toks, hxs(string(s.Bytes()))+"/"+e)
	}
	fin := "-"
	switch s.Err() {
	case nil:
	case bufio.ErrTooLong:
		fin = "too-long"
	case io.ErrNoProgress:
		fin = "no-progress"
	default:
		fin = "io"
	}
	ts := strings.Join(toks, ",")
	if ts == "" {
		ts = "none"
	}
	cw.count("scan:" + fin)
	cw.emit(fmt.Sprintf("scan %d %d %s", init, max, readerStr(revs)), true, "scan", fmt.Sprintf("%d %d", init, max), readerStr(revs), "toks="+ts+" err="+fin)
}

func genScan(cw *caseWriter, seed uint64, tier string) {
	r := newRng(seed)
	n := 6000
	if tier == "thorough" {
		n = 150000
	}
	alpha := []byte("ab\n\r\n\n")
	for i := 0; i < n; i++ {
		init := 1 + r.intn(8)
		max := init + r.intn(12)
		var evs []readEv
		for k := r.intn(6); k > 0; k-- {
			switch r.intn(10) {
			case 0:
				evs = append(evs, readEv{kind: "z"})
			case 1:
				if r.chance(1, 3) {
					evs = append(evs, readEv{kind: "e"})
				}
			case 2:
				b := make([]byte, 1+r.intn(6))
				for j := range b {
					b[j] = alpha[r.intn(len(alpha))]
				}
				if r.chance(1, 3) {
					evs = append(evs, readEv{kind: "de", data: b})
				} else {
					evs = append(evs, readEv{kind: "d", data: b})
				}
			default:
				b := make([]byte, 1+r.intn(9))
				for j := range b {
					b[j] = alpha[r.intn(len(alpha))]
				}
				evs = append(evs, readEv{kind: "d", data: b})
			}
		}
		emitScan(cw, init, max, evs)
	}
}
