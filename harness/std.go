package main

// Validation of the standard-library ports of the Lean model against the standard library
// itself (never through jsonline): a mismatch here is a defect of the model, not of jsonline.
//
//	std \t <fn> \t <args (space separated)> \t <result>

import (
	"encoding/base64"
	"encoding/json"
	"fmt"
	"math"
	"math/big"
	"strconv"
	"strings"
	"time"
)

func emitStd(cw *caseWriter, fn, args, result string) {
	cw.count("std:" + fn)
	cw.emit(fn+" "+args, true, "std", fn, args, result)
}

func stdParseInt(cw *caseWriter, s string) {
	for _, bits := range []int{0, 8, 16, 32, 64} {
		v, err := strconv.ParseInt(s, 0, bits)
		r := "err"
		if err == nil {
			r = fmt.Sprintf("ok %d", v)
		}
		emitStd(cw, "parseint", fmt.Sprintf("%s %d", hxs(s), bits), r)
		u, err := strconv.ParseUint(s, 0, bits)
		r = "err"
		if err == nil {
			r = fmt.Sprintf("ok %d", u)
		}
		emitStd(cw, "parseuint", fmt.Sprintf("%s %d", hxs(s), bits), r)
	}
	b, err := strconv.ParseBool(s)
	r := "err"
	if err == nil {
		r = fmt.Sprintf("ok %v", b)
	}
	emitStd(cw, "parsebool", hxs(s), r)
}

// hxs renders a byte string as one token (empty string as "-").
func hxs(s string) string {
	if s == "" {
		return "-"
	}
	return hx([]byte(s))
}

func stdTimeParse(cw *caseWriter, s string) {
	t, err := time.Parse(time.RFC3339, s)
	r := "err"
	if err == nil {
		_, off := t.Zone()
		r = fmt.Sprintf("ok %d %d %d", t.Unix(), t.Nanosecond(), off)
	}
	emitStd(cw, "timeparse", hxs(s), r)
	_, err = time.Parse("2006-01-02", s)
	r = "err"
	if err == nil {
		r = "ok"
	}
	emitStd(cw, "dateparse", hxs(s), r)
}

func stdTimeFormat(cw *caseWriter, sec int64, off int) {
	t := time.Unix(sec, 0).In(time.FixedZone("", off))
	emitStd(cw, "timefmt", fmt.Sprintf("%d %d", sec, off), hx([]byte(t.Format(time.RFC3339)))+" "+hx([]byte(t.Format("2006-01-02")))+" "+strconv.Itoa(t.Year()))
}

func stdFloat(cw *caseWriter, x float64) {
	b := math.Float64bits(x)
	emitStd(cw, "f64to32", fmt.Sprintf("%016x", b), fmt.Sprintf("%08x", math.Float32bits(float32(x))))
	emitStd(cw, "fval64", fmt.Sprintf("%016x", b), fvalStr(x))
}

func fvalStr(x float64) string {
	switch {
	case math.IsNaN(x):
		return "nan"
	case math.IsInf(x, 1):
		return "inf+"
	case math.IsInf(x, -1):
		return "inf-"
	}
	bf := new(big.Float).SetFloat64(x)
	t, _ := bf.Int(nil) // truncation toward zero
	frac := new(big.Float).SetInt(t).Cmp(bf) != 0
	return fmt.Sprintf("fin %s %v %v", t.String(), frac, math.Signbit(x))
}

func stdFloat32(cw *caseWriter, x float32) {
	b := math.Float32bits(x)
	emitStd(cw, "f32to64", fmt.Sprintf("%08x", b), fmt.Sprintf("%016x", math.Float64bits(float64(x))))
	emitStd(cw, "fval32", fmt.Sprintf("%08x", b), fvalStr(float64(x)))
}

func stdInt(cw *caseWriter, v int64, u uint64, signed bool) {
	if signed {
		emitStd(cw, "fmtint", strconv.FormatInt(v, 10), hx([]byte(strconv.FormatInt(v, 10))))
		emitStd(cw, "i2f64", strconv.FormatInt(v, 10), fmt.Sprintf("%016x", math.Float64bits(float64(v))))
		emitStd(cw, "i2f32", strconv.FormatInt(v, 10), fmt.Sprintf("%08x", math.Float32bits(float32(v))))
	} else {
		emitStd(cw, "fmtint", strconv.FormatUint(u, 10), hx([]byte(strconv.FormatUint(u, 10))))
		emitStd(cw, "i2f64", strconv.FormatUint(u, 10), fmt.Sprintf("%016x", math.Float64bits(float64(u))))
		emitStd(cw, "i2f32", strconv.FormatUint(u, 10), fmt.Sprintf("%08x", math.Float32bits(float32(u))))
	}
}

func stdBase64(cw *caseWriter, b []byte) {
	enc := base64.StdEncoding.EncodeToString(b)
	emitStd(cw, "b64enc", hxs(string(b)), hxs(enc))
	stdBase64Dec(cw, enc)
}

func stdBase64Dec(cw *caseWriter, s string) {
	d, err := base64.StdEncoding.DecodeString(s)
	r := "err"
	if err == nil {
		r = "ok " + hxs(string(d))
	}
	emitStd(cw, "b64dec", hxs(s), r)
}

func stdQuote(cw *caseWriter, s string) {
	b, err := json.Marshal(s)
	if err != nil {
		panic(err)
	}
	emitStd(cw, "quote", hxs(s), hx(b))
}

var timeTexts = []string{
	"2006-01-02T15:04:05Z", "2006-01-02T15:04:05+07:00", "2006-01-02T15:04:05-07:00", "2006-01-02T15:04:05.999999999Z",
	"2006-01-02T15:04:05,5Z", "2006-01-02T15:04:05.1234567891234Z", "2006-01-02T5:04:05Z", "2006-01-02T15:4:05Z", "2006-01-02T15:04:5Z",
	"2006-01-02t15:04:05Z", "2006-01-02T15:04:05z", "2006-01-02 15:04:05Z", "2006-01-02T15:04:05", "2006-01-02T15:04:05+0700",
	"2006-01-02T15:04:05+24:00", "2006-01-02T15:04:05+24:60", "2006-01-02T15:04:05+25:00", "2006-01-02T15:04:05+23:61", "2006-01-02T15:04:05+00:00",
	"2006-01-02T15:04:05-00:00", "2006-01-02T24:00:00Z", "2006-01-02T23:60:00Z", "2006-01-02T23:59:60Z", "2006-02-29T00:00:00Z", "2008-02-29T00:00:00Z",
	"1900-02-29T00:00:00Z", "2000-02-29T00:00:00Z", "2006-13-01T00:00:00Z", "2006-00-01T00:00:00Z", "2006-01-00T00:00:00Z", "2006-01-32T00:00:00Z",
	"2006-04-31T00:00:00Z", "0000-01-01T00:00:00Z", "9999-12-31T23:59:59Z", "10000-01-01T00:00:00Z", "-001-01-01T00:00:00Z", "206-01-02T15:04:05Z",
	"2006-1-02T15:04:05Z", "2006-01-2T15:04:05Z", "2006-01-02T15:04:05Z ", " 2006-01-02T15:04:05Z", "2006-01-02T15:04:05.Z", "2006-01-02T15:04:05.5",
	"2006-01-02", "2006-01-02T", "0001-01-01", "9999-12-31", "2006-02-30", "2006-1-2", "20060102", "", "abc", "2006-01-02T15:04:05+7:00",
	"2006-01-02T15:04:05+07:0", "2006-01-02T15:04:05+07-00", "2006-01-02T15:04:05*07:00", "2006-01-02T15:04:05.5+05:30", "1969-12-31T23:59:59-00:01",
	"2006-01-02T15:04:05.000000000000000000001Z", "2006-01-02T15:04:05,Z", "+006-01-02T15:04:05Z", "2006-01-02T-5:04:05Z", "2006-01-02T15:04:05Zx",
}

var intTexts = []string{"", "0", "-0", "+0", "1", "-1", "+1", "00", "01", "08", "010", "0x10", "0X1f", "0b11", "0B2", "0o17", "0O8", "0x", "0b", "0o",
	"1_000", "_1", "1_", "1__0", "0_1", "0x_1F", "0_x1", "-0x10", "+0x10", "--1", "+-1", "1e3", "1.0", " 1", "1 ", "abc", "0xg", "127", "128", "-128", "-129",
	"255", "256", "32767", "32768", "-32768", "-32769", "65535", "65536", "2147483647", "2147483648", "-2147483648", "-2147483649", "4294967295", "4294967296",
	"9223372036854775807", "9223372036854775808", "-9223372036854775808", "-9223372036854775809", "18446744073709551615", "18446744073709551616",
	"99999999999999999999999", "0x7fffffffffffffff", "0x8000000000000000", "-0x8000000000000000", "0xffffffffffffffff", "0x10000000000000000",
	"0777", "-0777", "0b_1", "0o_7", "1_2_3", "true", "TRUE", "True", "t", "T", "false", "FALSE", "False", "f", "F", "tRUE", "yes", "١"}

func genStd(cw *caseWriter, seed uint64, tier string) {
	r := newRng(seed)
	for _, s := range intTexts {
		stdParseInt(cw, s)
	}
	for _, s := range timeTexts {
		stdTimeParse(cw, s)
	}
	n := 2000
	if tier == "thorough" {
		n = 100000
	}
	// integers: boundaries and random
	for _, b := range boundaryInts() {
		if b[0] == 1 {
			stdInt(cw, -int64(b[1]-1)-1, 0, true)
			stdParseInt(cw, "-"+strconv.FormatUint(b[1], 10))
		} else {
			stdInt(cw, 0, b[1], false)
			stdParseInt(cw, strconv.FormatUint(b[1], 10))
		}
	}
	for i := 0; i < n; i++ {
		stdInt(cw, int64(r.u64())>>uint(r.intn(64)), 0, true)
		stdInt(cw, 0, r.u64()>>uint(r.intn(64)), false)
	}
	// random digit/underscore/prefix soup for the integer parser
	alpha := []string{"0", "1", "7", "8", "9", "a", "f", "x", "X", "b", "o", "_", "-", "+", "g", "F"}
	for i := 0; i < n; i++ {
		var sb strings.Builder
		for k := 1 + r.intn(6); k > 0; k-- {
			sb.WriteString(pick(r, alpha))
		}
		stdParseInt(cw, sb.String())
	}
	// floats
	for _, f := range boundaryFloats64() {
		stdFloat(cw, f)
	}
	for _, f := range boundaryFloats32() {
		stdFloat32(cw, f)
	}
	for i := 0; i < n; i++ {
		stdFloat(cw, math.Float64frombits(r.u64()))
		stdFloat32(cw, math.Float32frombits(uint32(r.u64())))
		// values that round interestingly to float32
		stdFloat(cw, float64(math.Float32frombits(uint32(r.u64())))*(1+float64(r.intn(3)-1)*math.Ldexp(1, -24-r.intn(3))))
	}
	// base64
	stdBase64(cw, nil)
	for i := 0; i < n/4; i++ {
		b := make([]byte, r.intn(12))
		for j := range b {
			b[j] = byte(r.u64())
		}
		stdBase64(cw, b)
	}
	for _, s := range []string{"aGVsbG8=", "aGVsbG9=", "aGVsbG8", "aGVsbG8==", "aGVs\nbG8=", "aGVs\r\nbG8=", "aGVs bG8=", "YQ==", "YR==", "YQ=", "YQ", "Y", "=", "====", "YQ==YQ==",
		"YWI=", "YWJ=", "YWJj", "YWJ-", "YWJ_", "!!!!", "\n", "YQ==\n", "YQ=\n=", "Y\nQ==", "AAAA", "////", "++++"} {
		stdBase64Dec(cw, s)
	}
	ab := []byte("AQaz09+/=\n -_")
	for i := 0; i < n/2; i++ {
		b := make([]byte, r.intn(10))
		for j := range b {
			b[j] = ab[r.intn(len(ab))]
		}
		stdBase64Dec(cw, string(b))
	}
	// time: every boundary around eras, leap days, year ends; random instants and offsets
	secs := []int64{0, -1, 1, 86399, 86400, -86400, 951782400, 951868800, 68169600, 1709164800, 253402300799, 253402300800, -62167219200, -62167219201, -62135596800, 4102444800, 4107542400, 1e10, -1e10}
	offs := []int{0, 3600, -3600, 19800, -10800, 86340, -86340, 60, -60, 34200, 45900}
	for _, s := range secs {
		for _, o := range offs {
			stdTimeFormat(cw, s, o)
		}
	}
	for i := 0; i < n; i++ {
		s := int64(r.u64()%uint64(253402300800+62167219200)) - 62167219200
		o := (r.intn(2879) - 1439) * 60
		stdTimeFormat(cw, s, o)
		// and parse what was rendered (plus a mutation)
		t := time.Unix(s, 0).In(time.FixedZone("", o))
		txt := t.Format(time.RFC3339)
		stdTimeParse(cw, txt)
		if r.chance(1, 2) {
			bs := []byte(txt)
			bs[r.intn(len(bs))] = "0123456789-:TZ+., "[r.intn(18)]
			stdTimeParse(cw, string(bs))
		}
	}
	// every first/last day of month of a sample of years (thorough: every day of years 0..9999 is in C14)
	for y := 0; y <= 9999; y += 1 + r.intn(40) {
		for m := 1; m <= 12; m++ {
			t := time.Date(y, time.Month(m), 1, 0, 0, 0, 0, time.UTC)
			stdTimeFormat(cw, t.Unix(), 0)
			stdTimeFormat(cw, t.Unix()-1, 0)
		}
	}
	// JSON string quoting
	for _, s := range quoteStrings(r, n) {
		stdQuote(cw, s)
	}
}

// quoteStrings returns byte strings of every class the writer treats differently.
func quoteStrings(r *rng, n int) []string {
	out := []string{"", "a", "\"", "\\", "/", "<>&", "\u2028", "\u2029", "\u2027", "\u202a", "\x7f", "\u0080", "\u00ad", "\ufeff", "\ufffd", "\ufffe", "\uffff",
		"\U0001F600", "\U000E0001", "\U0010FFFF", "\xff", "\xc0\x80", "\xe0\x80\x80", "\xed\xa0\x80", "\xf4\x90\x80\x80", "\xc2", "\xe2\x82", "\xf0\x9f\x98", "a\x80b",
		"\u00e9", "\u65e5\u672c\u8a9e", "\xef\xbf\xbd"}
	for c := 0; c < 0x20; c++ {
		out = append(out, string([]byte{byte(c)}))
	}
	classes := []string{"a", "\"", "\\", "<", "\n", "\x01", "\x7f", "\u00e9", "\u2028", "\U0001F600", "\xff", "\xe2\x82", "\xed\xa0\x80", "\ufffd", "/", "\u2029"}
	for i := 0; i < n/2; i++ {
		var sb strings.Builder
		for k := r.intn(6); k > 0; k-- {
			sb.WriteString(pick(r, classes))
		}
		out = append(out, sb.String())
	}
	for i := 0; i < n/2; i++ {
		b := make([]byte, r.intn(8))
		for j := range b {
			b[j] = byte(r.u64())
		}
		out = append(out, string(b))
	}
	return out
}
