package main

// Line cases: one input through importer (template ti) and exporter (template to), as jl does.
//
//	line \t <prop> \t <ti> \t <to> \t <hex input line> \t <ext> \t <impl>
//	emit \t <prop> \t <to> \t <Dyn value> \t <ext> \t <impl>          (value handed to Export through the Go API)
//
// template: T<n> then per column  K:<hex> F:<format>:<ty>  or  K:<hex> T<m> …  (declared sub-row)
// impl:     ok <hex of the bytes written> w=<number of Write calls>
//           err <class> w=<n> <hex of anything written>

import (
	"bytes"
	"encoding/base64"
	"encoding/json"
	"fmt"
	"io"
	"math"
	"math/big"
	"net"
	"strconv"
	"strings"
	"time"

	"github.com/cgi-fr/jsonline/pkg/jsonline"
)

type colDesc struct {
	name   string
	format string
	ty     string
	sub    []colDesc
	isSub  bool
}

func buildTemplate(cols []colDesc) jsonline.Template {
	return declareCols(jsonline.NewTemplate(), cols)
}

// declareCols declares the columns on a template that exists already (possibly one an importer or an exporter
// was obtained from before: the builder methods extend the template in place).
func declareCols(t jsonline.Template, cols []colDesc) jsonline.Template {
	buildTemplateCount++
	for i, c := range cols {
		if c.isSub {
			t = t.WithRow(c.name, buildTemplate(c.sub))
			continue
		}
		// every second column (in turn) is declared through the builder method named after its format instead of With
		if (buildTemplateCount+i)%2 == 0 {
			if nt := declareByName(t, c); nt != nil {
				t = nt
				continue
			}
		}
		t = t.With(c.name, formatByName[c.format], sampleOf(c.ty, buildTemplateCount+i))
	}
	return t
}

// sampleOf: the raw-type sample a column is declared with. Only its TYPE counts: a []byte column is declared in turn
// with a slice that has room behind it and with a nil slice; an unsupported raw type ("other") in turn with a struct,
// and with pointers whose types implement encoding.TextUnmarshaler / fmt.Stringer (a library may look for those).
var sampleTurn int

// nextSample: sampleOf with a turn of its own.
func nextSample(ty string) interface{} { sampleTurn++; return sampleOf(ty, sampleTurn) }

func sampleOf(ty string, turn int) interface{} {
	switch ty {
	case "bytes":
		if turn%3 == 0 {
			return []byte(nil)
		}
	case "other":
		switch turn % 3 {
		case 0:
			return new(big.Int)
		case 1:
			return &net.IP{}
		}
	}
	return tySample[ty]
}

var buildTemplateCount int

// declareByName declares a column with WithString / WithMappedString … (nil when the format has no such method
// for this raw type: hidden with a raw type).
func declareByName(t jsonline.Template, c colDesc) jsonline.Template {
	if c.ty == "none" {
		switch c.format {
		case "string":
			return t.WithString(c.name)
		case "numeric":
			return t.WithNumeric(c.name)
		case "boolean":
			return t.WithBoolean(c.name)
		case "binary":
			return t.WithBinary(c.name)
		case "date":
			return t.WithDate(c.name)
		case "datetime":
			return t.WithDateTime(c.name)
		case "timestamp":
			return t.WithTimestamp(c.name)
		case "auto":
			return t.WithAuto(c.name)
		case "hidden":
			return t.WithHidden(c.name)
		}
		return nil
	}
	ty := tySample[c.ty]
	switch c.format {
	case "string":
		return t.WithMappedString(c.name, ty)
	case "numeric":
		return t.WithMappedNumeric(c.name, ty)
	case "boolean":
		return t.WithMappedBoolean(c.name, ty)
	case "binary":
		return t.WithMappedBinary(c.name, ty)
	case "date":
		return t.WithMappedDate(c.name, ty)
	case "datetime":
		return t.WithMappedDateTime(c.name, ty)
	case "timestamp":
		return t.WithMappedTimestamp(c.name, ty)
	case "auto":
		return t.WithMappedAuto(c.name, ty)
	}
	return nil
}

func descStr(cols []colDesc) string {
	var sb strings.Builder
	fmt.Fprintf(&sb, "T%d", len(cols))
	for _, c := range cols {
		sb.WriteString(" K:" + hx([]byte(c.name)) + " ")
		if c.isSub {
			sb.WriteString(descStr(c.sub))
		} else {
			sb.WriteString("F:" + c.format + ":" + c.ty)
		}
	}
	return sb.String()
}

type recWriter struct {
	writes [][]byte
	failAt int // index of the write that fails (-1: never)
}

func (w *recWriter) Write(p []byte) (int, error) {
	if w.failAt >= 0 && len(w.writes) == w.failAt {
		w.writes = append(w.writes, nil)
		return 0, errInjected
	}
	w.writes = append(w.writes, append([]byte{}, p...))
	return len(p), nil
}

// richWriter: the same recorder behind a writer that also HAS the optional methods a library may look for
// (io.ByteWriter, io.StringWriter, io.ReaderFrom): each call of any of them is one more write reaching the writer.
type richWriter struct{ *recWriter }

func (w richWriter) WriteByte(c byte) error            { _, err := w.recWriter.Write([]byte{c}); return err }
func (w richWriter) WriteString(s string) (int, error) { return w.recWriter.Write([]byte(s)) }
func (w richWriter) ReadFrom(r io.Reader) (int64, error) {
	b, err := io.ReadAll(r)
	if err != nil {
		return 0, err
	}
	n, err := w.recWriter.Write(b)
	return int64(n), err
}

func (w *recWriter) all() []byte {
	var b []byte
	for _, x := range w.writes {
		b = append(b, x...)
	}
	return b
}

func lineOutcome(w *recWriter, err error, pan string) string {
	switch {
	case pan != "":
		return "panic " + strings.ReplaceAll(strings.ReplaceAll(pan, "\t", " "), "\n", " ")
	case err != nil:
		c := classify(err)
		if c == "other" {
			c = "syntax"
		}
		return fmt.Sprintf("err %s w=%d %s", c, len(w.writes), hxs(string(w.all())))
	}
	return fmt.Sprintf("ok %s w=%d", hxs(string(w.all())), len(w.writes))
}

// runLineD does what jl does for one line under the templates described; one call in five obtains the importer
// and the exporter from the templates BEFORE the columns are declared (the builder methods extend a template in
// place, so the handles obtained earlier work with the columns declared later).
func runLineD(tiD, toD []colDesc, line []byte) (*recWriter, error, string) {
	runLineDCount++
	if runLineDCount%5 != 4 {
		return runLine(buildTemplate(tiD), buildTemplate(toD), line)
	}
	return runLineWith(jsonline.NewTemplate(), jsonline.NewTemplate(), line, func(ti, to jsonline.Template) {
		declareCols(ti, tiD)
		declareCols(to, toD)
	})
}

var runLineDCount int

// runLine does what jl does for one line.
func runLine(ti, to jsonline.Template, line []byte) (*recWriter, error, string) {
	return runLineWith(ti, to, line, nil)
}

func runLineWith(ti, to jsonline.Template, line []byte, late func(ti, to jsonline.Template)) (*recWriter, error, string) {
	w := &recWriter{failAt: -1}
	var err error
	runLineCount++
	variant := runLineCount % 4
	pan := guard(func() {
		// the same pipeline through the equivalent spellings of the API, in turn: importer and exporter obtained
		// from the template or built on their own and given the template; the row fetched with Import + GetRow or
		// with ReadOne
		rd := bytes.NewReader(append(append([]byte{}, line...), '\n'))
		var imp jsonline.Importer
		var exp jsonline.Exporter
		var sink io.Writer = w
		if (runLineCount/4)%2 == 1 {
			sink = richWriter{w}
		}
		if variant&1 == 0 {
			imp, exp = ti.GetImporter(rd), to.GetExporter(sink)
		} else {
			imp, exp = jsonline.NewImporter(rd).WithTemplate(ti), jsonline.NewExporter(sink).WithTemplate(to)
			// a template that declares nothing is what an importer / exporter has when WithTemplate is never called
			if late == nil && ti.CreateRowEmpty().Len() == 0 {
				imp = jsonline.NewImporter(rd)
			}
			if late == nil && to.CreateRowEmpty().Len() == 0 {
				exp = jsonline.NewExporter(sink)
			}
		}
		if late != nil {
			late(ti, to)
		}
		var row jsonline.Row
		if variant&2 == 0 {
			if !imp.Import() {
				err = fmt.Errorf("no line scanned")
				return
			}
			row, err = imp.GetRow()
		} else {
			row, err = imp.ReadOne()
			if err == nil && row == nil {
				err = fmt.Errorf("no line scanned")
			}
		}
		if err != nil {
			return
		}
		err = exp.Export(row)
	})
	return w, err, pan
}

var runLineCount int

// runLineAfter does what jl does for `line` when `before` went through the same importer and exporter
// first (and, typically, failed): only what the second line caused is returned.
func runLineAfter(ti, to jsonline.Template, before, line []byte) (*recWriter, error, string) {
	w := &recWriter{failAt: -1}
	var err error
	pan := guard(func() {
		var in bytes.Buffer
		in.Write(before)
		in.WriteByte('\n')
		in.Write(line)
		in.WriteByte('\n')
		imp := ti.GetImporter(&in)
		exp := to.GetExporter(w)
		if imp.Import() {
			if row, e := imp.GetRow(); e == nil {
				_ = exp.Export(row)
			}
		}
		w.writes = nil
		if !imp.Import() {
			err = fmt.Errorf("no line scanned")
			return
		}
		var row jsonline.Row
		row, err = imp.GetRow()
		if err != nil {
			return
		}
		err = exp.Export(row)
	})
	return w, err, pan
}

// emitLineBatch: `line` cases whose implementation side is ONE importer and ONE exporter fed with all the lines
// in turn (what jl does for a stream); the model and the oracle judge every line on its own, so anything a
// line inherits from the lines before it — after an error, on the Nth use, after a particular value — shows as
// a difference. Lines that are blank or hold a line feed are left out (they are not one scanned line).
var lineBatchCount int

func emitLineBatch(cw *caseWriter, prop string, ti, to []colDesc, lines [][]byte) {
	var keep [][]byte
	for _, l := range lines {
		if len(bytes.TrimSpace(l)) == 0 || bytes.ContainsAny(l, "\n") || bytes.HasSuffix(l, []byte("\r")) {
			continue
		}
		keep = append(keep, l)
	}
	if len(keep) < 2 {
		return
	}
	var in bytes.Buffer
	for _, l := range keep {
		in.Write(l)
		in.WriteByte('\n')
	}
	w := &recWriter{failAt: -1}
	var imp jsonline.Importer
	var exp jsonline.Exporter
	if p := guard(func() { imp = buildTemplate(ti).GetImporter(&in); exp = buildTemplate(to).GetExporter(w) }); p != "" {
		return
	}
	// every other batch reads ALL the rows first and keeps them, then exports them in turn (rows of one template
	// alive together must not disturb one another)
	lineBatchCount++
	var held []jsonline.Row
	var heldErr []error
	if lineBatchCount%2 == 0 {
		if p := guard(func() {
			for range keep {
				if !imp.Import() {
					held, heldErr = append(held, nil), append(heldErr, fmt.Errorf("no line scanned"))
					continue
				}
				row, e := imp.GetRow()
				held, heldErr = append(held, row), append(heldErr, e)
			}
		}); p != "" {
			held = nil
		}
	}
	for i, l := range keep {
		w.writes = nil
		var err error
		pan := guard(func() {
			if held != nil {
				if heldErr[i] != nil {
					err = heldErr[i]
					return
				}
				err = exp.Export(held[i])
				return
			}
			if !imp.Import() {
				err = fmt.Errorf("no line scanned")
				return
			}
			var row jsonline.Row
			row, err = imp.GetRow()
			if err != nil {
				return
			}
			err = exp.Export(row)
		})
		ext := map[string]string{}
		extForJSON(l, ext)
		out := lineOutcome(w, err, pan)
		cw.count("line-batch:" + strings.SplitN(out, " ", 3)[0])
		cw.emit(fmt.Sprintf("%s batch#%d of %d | %s | %s | %s", prop, i, len(keep), descStr(ti), descStr(to), string(l)), true, "line", prop, descStr(ti), descStr(to), hxs(string(l)), extStr(ext), out)
		if pan != "" {
			return
		}
	}
}

// emitLineAfter: a `line` case whose implementation side ran after another line on the same importer and
// exporter; the model and the oracle judge the line on its own.
func emitLineAfter(cw *caseWriter, prop string, ti, to []colDesc, before, line []byte) string {
	w, err, pan := runLineAfter(buildTemplate(ti), buildTemplate(to), before, line)
	ext := map[string]string{}
	extForJSON(line, ext)
	out := lineOutcome(w, err, pan)
	cw.count("line-after:" + strings.SplitN(out, " ", 3)[0])
	cw.emit(prop+" after "+string(before)+" | "+descStr(ti)+" | "+descStr(to)+" | "+string(line), true, "line", prop, descStr(ti), descStr(to), hxs(string(line)), extStr(ext), out)
	return out
}

// extForText adds every stdlib answer the model may want for a scalar spelled `s`.
func extForText(s string, into map[string]string) {
	extFor(s, into)
	if v, err := strconv.ParseFloat(s, 64); err == nil {
		extForFloat(v, into)
	}
	if v, err := strconv.ParseFloat(s, 32); err == nil {
		extForFloat(float64(float32(v)), into)
		extFor(float32(v), into)
		jf32(float32(v), into)
	}
	if t, err := time.Parse(time.RFC3339, s); err == nil {
		extFor(t.Unix(), into)
	}
	if b, err := base64.StdEncoding.DecodeString(s); err == nil {
		extFor(b, into)
		extFor(string(b), into)
		if len(b) == 8 {
			var u uint64
			for i := 7; i >= 0; i-- {
				u = u<<8 | uint64(b[i])
			}
			extForFloat(math.Float64frombits(u), into)
		}
		if len(b) == 4 {
			var u uint32
			for i := 3; i >= 0; i-- {
				u = u<<8 | uint32(b[i])
			}
			extFor(math.Float32frombits(u), into)
			jf32(math.Float32frombits(u), into)
		}
	}
}

func jf32(v float32, into map[string]string) {
	k := fmt.Sprintf("jf:%08x:32", math.Float32bits(v))
	if b, err := json.Marshal(v); err == nil {
		into[k] = hx(b)
	} else {
		into[k] = "E"
	}
}

func extForFloat(v float64, into map[string]string) {
	extFor(v, into)
	k := fmt.Sprintf("jf:%016x:64", math.Float64bits(v))
	if b, err := json.Marshal(v); err == nil {
		into[k] = hx(b)
	} else {
		into[k] = "E"
	}
	if v == math.Trunc(v) && math.Abs(v) < 9e18 {
		extFor(int64(v), into)
		if v >= 0 {
			extFor(uint64(v), into)
		}
	}
}

// extForJSON walks a JSON text and collects ext entries for every scalar in it.
func extForJSON(line []byte, into map[string]string) {
	dec := json.NewDecoder(bytes.NewReader(line))
	dec.UseNumber()
	for {
		t, err := dec.Token()
		if err != nil {
			return
		}
		switch v := t.(type) {
		case string:
			extForText(v, into)
		case json.Number:
			extForText(string(v), into)
		case bool:
			extFor(v, into)
		}
	}
}

func extForValue(x interface{}, into map[string]string) {
	switch v := x.(type) {
	case []interface{}:
		for _, e := range v {
			extForValue(e, into)
		}
	case map[string]interface{}:
		for _, e := range v {
			extForValue(e, into)
		}
	case jsonline.Row:
		it := v.IterValues()
		for _, c, ok := it(); ok; _, c, ok = it() {
			extForValue(c, into)
		}
	case jsonline.Value:
		extForValue(v.Raw(), into)
	case float64:
		extForFloat(v, into)
	case float32:
		extFor(v, into)
		jf32(v, into)
		extForFloat(float64(v), into)
	case string:
		extForText(v, into)
	case json.Number:
		extForText(string(v), into)
	case []byte:
		extFor(v, into)
		extForText(string(v), into)
	case time.Time:
		extFor(v, into)
		extFor(v.Unix(), into)
	default:
		extFor(x, into)
		// integers may be rendered as floats / times by the output template
		switch n := x.(type) {
		case int:
			extForFloat(float64(n), into)
		case int64:
			extForFloat(float64(n), into)
		case int32:
			extForFloat(float64(n), into)
		case uint64:
			extForFloat(float64(n), into)
		}
	}
}

func emitLine(cw *caseWriter, prop string, ti, to []colDesc, line []byte, nontrivial bool) string {
	w, err, pan := runLineD(ti, to, line)
	ext := map[string]string{}
	extForJSON(line, ext)
	out := lineOutcome(w, err, pan)
	cw.count("line:" + strings.SplitN(out, " ", 3)[0] + ":" + strings.SplitN(out+" ", " ", 3)[1][:min(12, len(strings.SplitN(out+" ", " ", 3)[1]))])
	cw.emit(prop+" "+descStr(ti)+" | "+descStr(to)+" | "+string(line), nontrivial, "line", prop, descStr(ti), descStr(to), hxs(string(line)), extStr(ext), out)
	if jlRouteWanted(line) {
		emitLineJl(cw, prop, ti, to, line)
	}
	return out
}

func emitEmit(cw *caseWriter, prop string, to []colDesc, mk func() interface{}, nontrivial bool) string {
	w := &recWriter{failAt: -1}
	var err error
	v := mk()
	s := dynStr(v)
	ext := map[string]string{}
	extForValue(v, ext)
	pan := guard(func() { err = buildTemplate(to).GetExporter(w).Export(mk()) })
	out := lineOutcome(w, err, pan)
	cw.count("emit:" + strings.SplitN(out, " ", 2)[0])
	cw.emit(prop+" emit "+descStr(to)+" | "+s, nontrivial, "emit", prop, descStr(to), s, extStr(ext), out)
	return out
}

// shortWriter takes at most `limit` bytes of what it is offered, and says so in one of the ways a writer may: a short
// count with io.ErrShortWrite, a short count with another error, or — against the contract of io.Writer, as some
// writers do — a short count and no error. It records every slice it was OFFERED.
type shortWriter struct {
	limit   int
	how     int
	offered [][]byte
}

func (w *shortWriter) Write(p []byte) (int, error) {
	w.offered = append(w.offered, append([]byte{}, p...))
	if len(p) <= w.limit {
		return len(p), nil
	}
	switch w.how % 3 {
	case 0:
		return w.limit, io.ErrShortWrite
	case 1:
		return w.limit, nextFault()
	default:
		return w.limit, nil
	}
}

// emitShortWrite: a row exported to a writer that takes only part of the line. The line reaches the writer as ONE
// complete write whatever the writer does with it; a writer that took less is a failed export (reported), never a
// reason to offer the rest in pieces.
//
//	shortw \t C01 \t <to> \t <Dyn value> \t <ext> \t calls=<n> ret=<ok|err> first=<hex of the first slice offered>
func emitShortWrite(cw *caseWriter, to []colDesc, mk func() interface{}, limit, how int) {
	w := &shortWriter{limit: limit, how: how}
	var err error
	v := mk()
	s := dynStr(v)
	ext := map[string]string{}
	extForValue(v, ext)
	pan := guard(func() { err = buildTemplate(to).GetExporter(w).Export(mk()) })
	ret := "ok"
	if err != nil {
		ret = "err"
	}
	first := "-"
	if len(w.offered) > 0 {
		first = hxs(string(w.offered[0]))
	}
	impl := fmt.Sprintf("calls=%d ret=%s short=%v first=%s", len(w.offered), ret, len(w.offered) > 0 && len(w.offered[0]) > limit, first)
	if pan != "" {
		impl = "panic " + strings.ReplaceAll(strings.ReplaceAll(pan, "\t", " "), "\n", " ")
	}
	cw.count("shortw")
	cw.emit(fmt.Sprintf("shortw %d %d %s %s", limit, how, descStr(to), s), true, "shortw", "C01", descStr(to), s, extStr(ext), impl)
}

// emitEmitSame: a row made by the rendering template ITSELF, changed afterwards (mk gets the template), and
// exported by an exporter of that same template object.
func emitEmitSame(cw *caseWriter, prop string, to []colDesc, mk func(t jsonline.Template) interface{}) string {
	w := &recWriter{failAt: -1}
	var err error
	var s string
	ext := map[string]string{}
	pan := guard(func() {
		t := buildTemplate(to)
		v := mk(t)
		s = dynStr(v)
		extForValue(v, ext)
		err = t.GetExporter(w).Export(v)
	})
	if s == "" {
		return ""
	}
	out := lineOutcome(w, err, pan)
	cw.count("emit-same:" + strings.SplitN(out, " ", 2)[0])
	cw.emit(prop+" emit (row of the same template) "+descStr(to)+" | "+s, true, "emit", prop, descStr(to), s, extStr(ext), out)
	return out
}

// emitText: the JSON text handed straight to Exporter.Export (string or []byte input): the row is
// re-created from the text under the rendering template itself.
func emitText(cw *caseWriter, prop string, to []colDesc, line []byte, asBytes bool) string {
	w := &recWriter{failAt: -1}
	var err error
	var v interface{} = string(line)
	if asBytes {
		v = append([]byte{}, line...)
	}
	ext := map[string]string{}
	extForJSON(line, ext)
	pan := guard(func() { err = buildTemplate(to).GetExporter(w).Export(v) })
	out := lineOutcome(w, err, pan)
	cw.count("emit-text:" + strings.SplitN(out, " ", 2)[0])
	cw.emit(prop+" emit-text "+descStr(to)+" | "+string(line), true, "emit", prop, descStr(to), dynStr(v), extStr(ext), out)
	return out
}

// ---- generators ---------------------------------------------------------------------------

var weirdKeys = []string{"a", "b", "zz", "aa", "", " ", "a b", "a.b", "\"", "\\", "/", "<k>", "&", "\x00", "\x01", "\x07", "\x0b", "\x1f", "\n", "\t", "\r", "\x7f",
	"\u0080", "\u009f", "\u00ad", "\u00e9", "\u2028", "\u2029", "\ufeff", "\ufffd", "\ufffe", "\U0001F600", "\U000E0001", "\U0010FFFF", "\U000F0000",
	"\xff", "\xc0\x80", "\xed\xa0\x80", "\xe2\x82", "k\xffk", "\u65e5\u672c", "\u043a\u043b\u044e\u0447", "'", "`",
	// a literal backslash in front of text that looks like an escape (a Windows path, doubly encoded JSON): whatever
	// post-processes the encoder's output must not take the encoded backslash for the start of an escape
	`\u0026`, `\u003c`, `\u003e`, `C:\users\u0026co\new`, `\n`, `\"`, `\\`, `\u00e9`, `x\`, `\/`, `<\u003c>`, `&amp;\u0026`}

var plainKeys = []string{"a", "b", "c", "d", "zz", "aa", "q", "m"}

func randKey(r *rng, weird bool) string {
	if weird && r.chance(1, 2) {
		if r.chance(1, 6) {
			// any single code point U+0000..U+FFFF or two random bytes
			if r.chance(1, 2) {
				return string(rune(r.intn(0x10000)))
			}
			return string([]byte{byte(r.u64()), byte(r.u64())})
		}
		return pick(r, weirdKeys)
	}
	return pick(r, plainKeys)
}

func randCols(r *rng, depth int, weird bool, types bool) []colDesc {
	n := r.intn(6)
	if depth > 0 {
		n = 1 + r.intn(3)
	}
	var cols []colDesc
	seen := map[string]bool{}
	for i := 0; i < n; i++ {
		k := randKey(r, weird)
		if seen[k] {
			continue
		}
		seen[k] = true
		if depth < 3 && r.chance(1, 8) {
			cols = append(cols, colDesc{name: k, isSub: true, sub: randCols(r, depth+1, weird, types)})
			continue
		}
		c := colDesc{name: k, format: pick(r, fmtNames), ty: "none"}
		if types && r.chance(1, 2) {
			c.ty = pick(r, tyNames)
		}
		cols = append(cols, c)
	}
	return cols
}

var scalarTexts = []string{`null`, `true`, `false`, `0`, `"00"`, `"-00"`, `"+00"`, `"0001-01-01T00:00:00Z"`, `-0`, `-0.0`, `"-0.0"`, `-0e0`, `"-1e-400"`, `1`, `-1`, `12`, `1.5`, `-2.25`, `1e2`, `1E+2`, `0.10`, `1e400`, `1e-400`, `123456789012345678901234567890`,
	`255`, `256`, `-129`, `65536`, `2147483648`, `9223372036854775807`, `9223372036854775808`, `18446744073709551616`, `1632518460`, `253402300799`, `253402300800`, `-62167219201`, `-62135596800`, `0.5`,
	`""`, `"a"`, `"12"`, `"-1"`, `"1.5"`, `"true"`, `"false"`, `"TRUE"`, `"t"`, `"1e2"`, `"0x10"`, `"010"`, `"NaN"`, `"Inf"`, `" 1"`, `"2021-09-24"`, `"2021-02-30"`, `"2021-9-24"`, `"2021-09-24T21:21:00Z"`,
	`"2021-09-24T21:21:00+02:00"`, `"2021-09-24T21:21:00.5-03:30"`, `"2021-01-02T3:04:05Z"`, `"2021-01-02T03:04:05,5Z"`, `"2021-01-02T03:04:05.123456789123Z"`, `"2021-01-02T03:04:05.5+00:00"`, `"2021-09-24T21:21:00"`, `"2021-09-24T21:21:00+24:60"`, `"0000-01-01T00:00:00Z"`, `"9999-12-31T23:59:59Z"`, `"1632518460"`,
	`"AQ=="`, `"AQAAAA=="`, `"AQAAAAAAAAA="`, `"aGVsbG8="`, `"aGVsbG9="`, `"aGVsbG8"`, `"!!"`, `"AAAAAAAA8D8="`, `"MTI="`, `"dHJ1ZQ=="`, `"é"`, `"😀"`, `"\n\t\"\\\/"`, `"<&>"`, `" "`, `"\u0000"`, `"\ud800"`,
	`[]`, `[1,"a",null]`, `[{"q":1,"b":2}]`, `{}`, `{"q":1,"b":2}`, `{"zz":{"y":1,"x":[1,{"k":2,"a":3}]},"aa":2}`, `[[],[[]]]`,
	// the shortest texts a hand-written recogniser of numbers, booleans or dates meets: a lone sign, point or
	// exponent mark, a sign and nothing to sign, a digit short of a form
	`"-"`, `"+"`, `"."`, `"e"`, `"E"`, `"-."`, `"-e"`, `".5"`, `"5."`, `"-0"`, `"+1"`, `"--1"`, `"1-"`, `"0x"`, `"_"`, `"1_0"`, `"T"`, `"Z"`, `":"`, `"-:"`, `"="`, `"===="`, `"A"`,
	// arrays that do not hold one kind of thing: an object first and something else later
	`[{"a":1},2]`, `[{"a":1},null,[{"b":2},"x"]]`}

func randValueText(r *rng) string {
	return pick(r, scalarTexts)
}

// randObject renders an object over the template's keys (any order, some missing) and extras.
func randObject(r *rng, cols []colDesc, weird bool) string {
	type kv struct{ k, v string }
	var ms []kv
	for _, c := range cols {
		if r.chance(1, 5) {
			continue
		}
		if c.isSub && r.chance(3, 4) {
			ms = append(ms, kv{c.name, randObject(r, c.sub, weird)})
		} else {
			ms = append(ms, kv{c.name, randValueText(r)})
		}
	}
	for i := r.intn(3); i > 0; i-- {
		ms = append(ms, kv{randKey(r, weird), randValueText(r)})
	}
	// shuffle
	for i := len(ms) - 1; i > 0; i-- {
		j := r.intn(i + 1)
		ms[i], ms[j] = ms[j], ms[i]
	}
	seen := map[string]bool{}
	var parts []string
	for _, m := range ms {
		if seen[m.k] {
			continue
		}
		seen[m.k] = true
		kb, _ := json.Marshal(m.k)
		if strings.ContainsRune(m.k, '\ufffd') || !validUTF8(m.k) {
			// json.Marshal replaces invalid bytes; spell such keys with what the reader will see
			kb, _ = json.Marshal(strings.ToValidUTF8(m.k, "\ufffd"))
		}
		parts = append(parts, string(kb)+":"+m.v)
	}
	ws := []string{"", "", " ", "\t"}
	return "{" + pick(r, ws) + strings.Join(parts, ","+pick(r, ws)) + pick(r, ws) + "}"
}

func validUTF8(s string) bool { return strings.ToValidUTF8(s, "") == s }

// apiValues: values handed to Export through the Go API (C01: "or through the Go API").
func apiValue(r *rng, cols []colDesc, weird bool) func() interface{} {
	goVals := []func() interface{}{
		func() interface{} { return nil }, func() interface{} { return 1 }, func() interface{} { return int8(-3) }, func() interface{} { return uint64(math.MaxUint64) },
		func() interface{} { return 1.5 }, func() interface{} { return float32(0.1) }, func() interface{} { return math.NaN() }, func() interface{} { return math.Inf(1) }, func() interface{} { return 1e21 }, func() interface{} { return 1e-7 },
		func() interface{} { return "s" }, func() interface{} { return "\xff\x01<\u2028" }, func() interface{} { return []byte{1, 2, 3} }, func() interface{} { return []byte{} },
		func() interface{} { return json.Number("1.50") }, func() interface{} { return json.Number("") }, func() interface{} { return json.Number("abc") }, func() interface{} { return json.Number("1e") },
		func() interface{} { return true }, func() interface{} { return time.Unix(1632518460, 5).UTC() }, func() interface{} { return time.Date(10000, 1, 1, 0, 0, 0, 0, time.UTC) },
		func() interface{} { return time.Unix(0, 0).In(time.FixedZone("", 19800)) },
		func() interface{} { return []interface{}{1, "a", nil, []interface{}{}} }, func() interface{} { return map[string]interface{}{"z": 1, "a": "x"} },
		func() interface{} { return [2]byte{1, 2} }, func() interface{} { return "2021-09-24T21:21:00+02:00" }, func() interface{} { return "12" }, func() interface{} { return 1632518460 },
		func() interface{} { return jsonline.NewValueAuto("inner") }, func() interface{} { return jsonline.NewValueHidden(1) },
		func() interface{} { rr := jsonline.NewRow(); rr.Set("q", 1); rr.Set("b", "\n"); return rr },
	}
	keys := []string{}
	for _, c := range cols {
		keys = append(keys, c.name)
	}
	nk := 1 + r.intn(4)
	type ent struct {
		k string
		v func() interface{}
	}
	var ents []ent
	seen := map[string]bool{}
	newKeys := 0
	for i := 0; i < nk; i++ {
		var k string
		if len(keys) > 0 && r.chance(2, 3) {
			k = pick(r, keys)
		} else {
			k = randKey(r, weird)
		}
		if seen[k] {
			continue
		}
		isNew := !contains(keys, k)
		if isNew && newKeys >= 1 {
			continue // Go map iteration order: at most one undeclared key keeps the case deterministic
		}
		if isNew {
			newKeys++
		}
		seen[k] = true
		ents = append(ents, ent{k, pick(r, goVals)})
	}
	switch r.intn(3) {
	case 0:
		return func() interface{} {
			m := map[string]interface{}{}
			for _, e := range ents {
				m[e.k] = e.v()
			}
			return m
		}
	case 1:
		return func() interface{} {
			s := []interface{}{}
			for _, e := range ents {
				s = append(s, e.v())
			}
			return s
		}
	default:
		return func() interface{} {
			rr := jsonline.NewRow()
			for _, e := range ents {
				rr.Set(e.k, e.v())
			}
			return rr
		}
	}
}

func genC01(cw *caseWriter, seed uint64, tier string) {
	r := newRng(seed)
	n := 4000
	if tier == "thorough" {
		n = 120000
	}
	nontriv := func(out string) bool { return strings.HasPrefix(out, "ok") }
	// every weird key as an undeclared key, a declared key, a nested key, and a string value
	for _, k := range weirdKeys {
		kb, _ := json.Marshal(strings.ToValidUTF8(k, "\ufffd"))
		line := []byte(`{` + string(kb) + `:1,"n":{` + string(kb) + `:` + string(kb) + `},"arr":[` + string(kb) + `]}`)
		emitLine(cw, "C01", nil, nil, line, true)
		emitLine(cw, "C01", nil, []colDesc{{name: k, format: "string", ty: "none"}}, line, true)
		kk := k
		emitEmit(cw, "C01", nil, func() interface{} { return map[string]interface{}{kk: kk} }, true)
		emitEmit(cw, "C01", []colDesc{{name: kk, format: "auto", ty: "none"}}, func() interface{} { rr := jsonline.NewRow(); rr.Set(kk, []byte(kk)); return rr }, true)
	}
	if tier == "thorough" {
		// every single code point U+0000-U+FFFF and a sample of byte pairs as a key
		for c := 0; c < 0x10000; c++ {
			k := string(rune(c))
			emitEmit(cw, "C01", nil, func() interface{} { return map[string]interface{}{k: 1} }, true)
		}
		for c := 0; c < 0x10000; c += 7 {
			k := string([]byte{byte(c >> 8), byte(c)})
			emitEmit(cw, "C01", nil, func() interface{} { return map[string]interface{}{k: 1} }, true)
		}
		cw.extra["exhaustive_bmp_keys"] = true
	}
	emitLine(cw, "C01", nil, nil, []byte(`{}`), true)
	emitLine(cw, "C01", []colDesc{{name: "h", format: "hidden", ty: "none"}}, []colDesc{{name: "h", format: "hidden", ty: "none"}}, []byte(`{"h":1}`), true)
	emitLine(cw, "C01", nil, []colDesc{{name: "h", format: "hidden", ty: "none"}, {name: "a", format: "auto", ty: "none"}}, []byte(`{"a":1,"h":2}`), true)
	for i := 0; i < n; i++ {
		ti := randCols(r, 0, true, true)
		to := ti
		if r.chance(1, 2) {
			to = randCols(r, 0, true, true)
		}
		if r.chance(1, 3) {
			ti = nil
		}
		line := []byte(randObject(r, to, true))
		out := emitLine(cw, "C01", ti, to, line, false)
		_ = nontriv(out)
		if r.chance(1, 6) {
			batch := [][]byte{line}
			for k := 2 + r.intn(6); k > 0; k-- {
				batch = append(batch, []byte(randObject(r, to, true)))
			}
			emitLineBatch(cw, "C01", ti, to, batch)
		}
	}
	for i := 0; i < n/2; i++ {
		to := randCols(r, 0, true, true)
		emitEmit(cw, "C01", to, apiValue(r, to, true), true)
	}
	// nested rows and cells handed through the API under a column of EVERY format — rows that render, and rows that
	// cannot be rendered (a NaN inside, a numeric cell holding "12,5", a boolean cell holding "perhaps", an invalid
	// json.Number two levels down): a row that cannot be rendered yields an error and no bytes, whatever the column
	nested := []func() interface{}{
		func() interface{} { rr := jsonline.NewRow(); rr.Set("q", 1); rr.Set("b", "z"); return rr },
		func() interface{} { rr := jsonline.NewRow(); rr.Set("ratio", math.NaN()); return rr },
		func() interface{} {
			rr := jsonline.NewRow()
			rr.SetValue("n", jsonline.NewValueNumeric("12,5"))
			return rr
		},
		func() interface{} {
			rr := jsonline.NewRow()
			rr.SetValue("ok", jsonline.NewValueBoolean("perhaps"))
			rr.Set("x", 1)
			return rr
		},
		func() interface{} {
			in := jsonline.NewRow()
			in.Set("deep", json.Number("1e"))
			rr := jsonline.NewRow()
			rr.Set("a", 1)
			rr.Set("in", in)
			return rr
		},
		func() interface{} { return jsonline.NewValueNumeric("12,5") },
		func() interface{} { return jsonline.NewValueBoolean("perhaps") },
		func() interface{} { return jsonline.NewValue(math.Inf(-1), jsonline.Numeric, nil) },
		func() interface{} { return jsonline.NewRow() },
	}
	for _, f := range fmtNames {
		for _, mk := range nested {
			mk := mk
			to := []colDesc{{name: "id", format: "numeric", ty: "none"}, {name: "payload", format: f, ty: "none"}}
			emitEmit(cw, "C01", to, func() interface{} { return map[string]interface{}{"id": 1, "payload": mk()} }, true)
			emitEmit(cw, "C01", to, func() interface{} {
				rr := jsonline.NewRow()
				rr.Set("id", 1)
				rr.Set("payload", mk())
				return rr
			}, true)
		}
	}
	// writers that take only part of a line (a frame limit of 1, 24, 100 bytes …)
	for k, limit := range []int{0, 1, 7, 24, 100, 4096} {
		for how := 0; how < 2; how++ { // (a short count WITHOUT an error breaks the contract of io.Writer: the writer's fault, left out)
			long := strings.Repeat("y", 50+k*997)
			all := []colDesc{{name: "id", format: "auto", ty: "none"}, {name: "text", format: "auto", ty: "none"}, {name: "pad", format: "string", ty: "none"}}
			emitShortWrite(cw, all, func() interface{} {
				return map[string]interface{}{"id": 1, "text": "a line that does not fit in one frame", "pad": long}
			}, limit, how)
			emitShortWrite(cw, nil, func() interface{} { return map[string]interface{}{"only": long} }, limit, how)
			emitShortWrite(cw, []colDesc{{name: "id", format: "numeric", ty: "int"}, {name: "text", format: "string", ty: "none"}}, func() interface{} { return map[string]interface{}{"id": 7, "text": long} }, limit, how)
		}
	}
	// long lines around the buffer sizes a writer or reader might use (4 KiB bufio default, 64 KiB scanner
	// buffer; thorough: 1 MiB): still exactly one write; a row rejected on a late column still writes nothing
	sizes := []int{4000, 4090, 4095, 4096, 4097, 5000, 8192, 65535, 65536, 70000}
	if tier == "thorough" {
		sizes = append(sizes, 1<<20)
	}
	for _, sz := range sizes {
		long := strings.Repeat("x", sz)
		late := []colDesc{{name: "a", format: "string", ty: "none"}, {name: "z", format: "numeric", ty: "none"}}
		emitLine(cw, "C01", nil, nil, []byte(`{"k":"`+long+`"}`), true)
		emitLine(cw, "C01", nil, late, []byte(`{"a":"`+long+`","z":1}`), true)
		emitLine(cw, "C01", nil, late, []byte(`{"a":"`+long+`","z":"abc"}`), true)
		emitEmit(cw, "C01", nil, func() interface{} { return map[string]interface{}{"k": long} }, true)
		if sz > 8192 && tier != "thorough" || sz > 70000 {
			continue // thousands of keys: the model's ordered-map operations are quadratic in the number of keys
		}
		var many []string
		for i := 0; len(many)*12 < sz; i++ {
			many = append(many, fmt.Sprintf(`"k%06d":%d`, i, i%10))
		}
		emitLine(cw, "C01", nil, nil, []byte("{"+strings.Join(many, ",")+"}"), true)
	}
	// JSON text handed straight to Export (string and []byte), under the empty template and under one with a
	// column: objects, non-object values, malformed text, objects holding ill-formed UTF-8
	for _, t := range []string{`{"a":1}`, ` {"a" : [1, 2] } `, `[1,2,3]`, `42`, `null`, `"x"`, `true`, ``, ` `, `{`, `{"a":1}}`, `{"a":1} {"b":2}`, "{\"a\":\"\xff\"}", "{\"\xc3\":1}", "{\"a\":\"\xed\xa0\x80\"}",
		`{"a":"\ud800"}`, "{\"a\":1}\n", "{\"a\":\n1}", `{"s":"<>&"}`, `{"n":1e400,"m":-0}`} {
		for _, cols := range [][]colDesc{nil, {{name: "a", format: "auto", ty: "none"}}, {{name: "zz", format: "string", ty: "none"}}} {
			emitText(cw, "C01", cols, []byte(t), false)
			emitText(cw, "C01", cols, []byte(t), true)
		}
	}
	// deep nesting
	for _, d := range []int{1, 10, 64} {
		emitLine(cw, "C01", nil, nil, []byte(strings.Repeat(`{"a":[`, d)+`1`+strings.Repeat(`]}`, d)), true)
	}
}

// ---- C03 / C04 ------------------------------------------------------------------------------

// sameNames derives an output template with the same column names and structure as ti (as jl
// builds its template pair) but its own formats / raw types / hidden flags.
func sameNames(r *rng, ti []colDesc, types bool) []colDesc {
	to := make([]colDesc, len(ti))
	for i, c := range ti {
		to[i] = c
		if c.isSub {
			to[i].sub = sameNames(r, c.sub, types)
			continue
		}
		if r.chance(1, 2) {
			to[i].format = pick(r, fmtNames)
			to[i].ty = "none"
			if types && r.chance(1, 3) {
				to[i].ty = pick(r, tyNames)
			}
		}
	}
	return to
}

// orderCols: templates for C03 — plain names deliberately not in alphabetical order, Auto-ish
// formats so that most lines are accepted, hidden anywhere, sub-rows to depth 3.
func orderCols(r *rng, depth int) []colDesc {
	names := []string{"zz", "m", "aa", "q", "b", "a", "k", "é", "", "a.b"}
	if r.chance(1, 4) {
		// names a writer must escape the JSON way, not another way: DEL, a non-printable astral code point, a
		// character HTML-escaping touches (all three may stand raw in the JSON text of the input)
		names[r.intn(len(names))] = "k\x7f"
		names[r.intn(len(names))] = "\U000e0001z"
		names[r.intn(len(names))] = "<&>"
	}
	for i := len(names) - 1; i > 0; i-- {
		j := r.intn(i + 1)
		names[i], names[j] = names[j], names[i]
	}
	n := r.intn(7)
	if depth > 0 {
		n = 1 + r.intn(4)
	}
	var cols []colDesc
	for i := 0; i < n; i++ {
		if depth < 3 && r.chance(1, 6) {
			cols = append(cols, colDesc{name: names[i], isSub: true, sub: orderCols(r, depth+1)})
			continue
		}
		f := "auto"
		switch r.intn(8) {
		case 0:
			f = "hidden"
		case 1:
			f = "string"
		case 2:
			f = "numeric"
		}
		ty := "none"
		if r.chance(1, 4) {
			// a declared raw type: the column still comes out at its place, null when the input lacks it
			ty = pick(r, tyNames)
		}
		cols = append(cols, colDesc{name: names[i], format: f, ty: ty})
	}
	return cols
}

var orderValues = []string{`1`, `"s"`, `null`, `true`, `1.50`, `{"q":1,"b":2}`, `{"zz":{"y":1,"x":[1,{"k":2,"a":3}]},"aa":2}`, `[{"q":1,"b":2},{"b":1,"a":{"z":1,"y":2}}]`, `[]`, `{}`, `"12"`, `12`}

func orderObject(r *rng, cols []colDesc, permute bool) string {
	type kv struct{ k, v string }
	var ms []kv
	for _, c := range cols {
		if r.chance(1, 6) {
			continue
		}
		if c.isSub {
			if r.chance(5, 6) {
				ms = append(ms, kv{c.name, orderObject(r, c.sub, true)})
			} else {
				ms = append(ms, kv{c.name, pick(r, orderValues)})
			}
			continue
		}
		v := pick(r, orderValues)
		if c.format == "numeric" {
			v = pick(r, []string{`1`, `"2"`, `1.5`, `null`, `true`})
		}
		ms = append(ms, kv{c.name, v})
	}
	extras := []string{"x1", "zzz", "0", "B", "é2", "n"}
	for i := r.intn(4); i > 0; i-- {
		ms = append(ms, kv{pick(r, extras), pick(r, orderValues)})
	}
	if permute {
		for i := len(ms) - 1; i > 0; i-- {
			j := r.intn(i + 1)
			ms[i], ms[j] = ms[j], ms[i]
		}
	}
	seen := map[string]bool{}
	var parts []string
	for _, m := range ms {
		if seen[m.k] && !(orderDups && r.chance(1, 2)) {
			continue
		}
		seen[m.k] = true
		kb, _ := json.Marshal(m.k)
		parts = append(parts, string(kb)+":"+m.v)
	}
	if orderDups && len(ms) > 0 && r.chance(1, 4) {
		// a name that comes back later in the same object, with other members in between ("first appearance")
		m := ms[r.intn(len(ms))]
		kb, _ := json.Marshal(m.k)
		parts = append(parts, string(kb)+":"+pick(r, orderValues))
	}
	return "{" + strings.Join(parts, ",") + "}"
}

// orderDups lets orderObject repeat member names (C03: undeclared keys are listed in order of FIRST appearance).
var orderDups bool

func permutations(n int) [][]int {
	if n == 0 {
		return [][]int{{}}
	}
	var out [][]int
	for _, p := range permutations(n - 1) {
		for i := 0; i <= len(p); i++ {
			q := append(append(append([]int{}, p[:i]...), n-1), p[i:]...)
			out = append(out, q)
		}
	}
	return out
}

func genC03(cw *caseWriter, seed uint64, tier string) {
	// a slice of the template / row histories (refused imports included) under this property's name: declared columns keep
	// their declarations (harness/alias.go)
	genAliasHistories(cw, "C03", newRng(seed+1842), 60)
	r := newRng(seed)
	// every permutation of the declared keys (<= 4 keys; thorough: 5) for fixed templates
	maxk := 4
	if tier == "thorough" {
		maxk = 5
	}
	keys := []string{"zz", "aa", "m", "b", "q"}
	vals := []string{`1`, `{"q":1,"b":2}`, `"s"`, `[{"z":1,"a":2}]`, `null`}
	for k := 0; k <= maxk; k++ {
		var cols []colDesc
		for i := 0; i < k; i++ {
			f := "auto"
			if i == 1 {
				f = "hidden"
			}
			cols = append(cols, colDesc{name: keys[i], format: f, ty: "none"})
		}
		for _, p := range permutations(k) {
			var parts []string
			for _, i := range p {
				parts = append(parts, `"`+keys[i]+`":`+vals[i])
			}
			// exactly the declared key set, read without a template or with the columns declared in reverse
			// order (library use: the importer's row does not follow the rendering template's order)
			exact := []byte("{" + strings.Join(parts, ",") + "}")
			var rev []colDesc
			for i := len(cols) - 1; i >= 0; i-- {
				rev = append(rev, cols[i])
			}
			emitLine(cw, "C03", nil, cols, exact, true)
			emitLine(cw, "C03", rev, cols, exact, true)
			parts = append(parts, `"x":{"y":1,"a":2}`)
			emitLine(cw, "C03", cols, cols, []byte("{"+strings.Join(parts, ",")+"}"), true)
			emitLine(cw, "C03", nil, cols, []byte("{"+strings.Join(parts, ",")+"}"), true)
			if r.chance(1, 4) {
				emitText(cw, "C03", cols, []byte("{"+strings.Join(parts, ",")+"}"), r.chance(1, 2))
			}
		}
	}
	cw.extra["exhaustive_permutations_up_to"] = maxk
	// names that come back later in the same object, at top level, in nested objects and in objects of arrays,
	// declared and undeclared, with other new names in between
	dupCols := []colDesc{{name: "aa", format: "auto", ty: "none"}, {name: "n", format: "numeric", ty: "none"}, {name: "h", format: "hidden", ty: "none"}}
	for _, l := range []string{`{"x":1,"y":2,"x":3}`, `{"x":1,"y":2,"x":3,"z":4,"y":5}`, `{"o":{"q":1,"p":2,"q":3}}`, `{"arr":[{"q":1,"p":2,"q":3}]}`, `{"x":1,"aa":1,"y":2,"x":3,"aa":2}`,
		`{"aa":{"q":1,"p":2,"q":3},"x":1}`, `{"x":{"k":1},"y":2,"x":{"j":3}}`, `{"x":1,"x":2}`, `{"n":"bad","w":1,"n":7,"v":2,"w":3}`, `{"n":7,"w":1,"n":"bad"}`, `{"h":1,"x":2,"h":3,"y":4,"x":5}`, `{"y":1,"x":2,"y":null,"x":null}`} {
		emitLine(cw, "C03", nil, nil, []byte(l), true)
		emitLine(cw, "C03", dupCols, dupCols, []byte(l), true)
		emitLine(cw, "C03", nil, dupCols, []byte(l), true)
		emitText(cw, "C03", dupCols, []byte(l), true)
	}
	// wide templates and wide inputs: column and key counts past the sizes where a container might change its
	// representation (8, 16, 32, 64, 128)
	for _, nc := range []int{8, 9, 16, 17, 32, 33, 64, 65, 128, 130} {
		var wide []colDesc
		for i := 0; i < nc; i++ {
			f := "auto"
			switch i % 7 {
			case 3:
				f = "hidden"
			case 5:
				f = "string"
			}
			wide = append(wide, colDesc{name: fmt.Sprintf("c%03d", (i*37)%nc), format: f, ty: "none"})
		}
		var parts []string
		for _, k := range r.perm(nc + 20) {
			if k%11 == 10 {
				continue // a missing key now and then
			}
			name := fmt.Sprintf("c%03d", k)
			if k >= nc {
				name = fmt.Sprintf("x%02d", k-nc)
			}
			parts = append(parts, `"`+name+`":`+pick(r, orderValues))
		}
		l := []byte("{" + strings.Join(parts, ",") + "}")
		emitLine(cw, "C03", wide, wide, l, true)
		emitLine(cw, "C03", nil, wide, l, true)
		emitLine(cw, "C03", nil, nil, l, true)
	}
	orderDups = true
	defer func() { orderDups = false }()
	n := 4000
	if tier == "thorough" {
		n = 100000
	}
	for i := 0; i < n; i++ {
		ti := orderCols(r, 0)
		to := ti
		if r.chance(1, 3) {
			to = sameNames(r, ti, false)
		}
		line := []byte(orderObject(r, ti, true))
		switch r.intn(6) {
		case 0: // no input template
			emitLine(cw, "C03", nil, to, line, true)
		case 1: // the same columns declared in reverse order on the input side
			var rev []colDesc
			for i := len(ti) - 1; i >= 0; i-- {
				rev = append(rev, ti[i])
			}
			emitLine(cw, "C03", rev, to, line, true)
		}
		emitLine(cw, "C03", ti, to, line, true)
		if r.chance(1, 5) && !hasSub(ti) {
			// an exporter that declares nothing behind an importer that declares (and hides) columns: every member of
			// the row is written, in the row's order — twice, so that both spellings of "no template" are used
			emitLine(cw, "C03", ti, nil, line, true)
			emitLine(cw, "C03", ti, nil, line, true)
		}
		if r.chance(1, 6) {
			batch := [][]byte{line}
			for k := 2 + r.intn(6); k > 0; k-- {
				batch = append(batch, []byte(orderObject(r, ti, true)))
			}
			emitLineBatch(cw, "C03", ti, to, batch)
		}
		if r.chance(1, 3) {
			emitText(cw, "C03", to, line, r.chance(1, 2))
		}
		if r.chance(1, 4) {
			// the same line after one that was rejected on the same importer / exporter: at import (invalid
			// JSON after some members), or at export (a value the output format cannot render), each carrying
			// undeclared keys of its own
			before := pick(r, []string{`{"u1":1,"u2":{"k":2},"zz":"left over"`, `{"u1":1,"zz":[1],"u2":2} trailing`, `{"u0":"x","u1":[{"q":1}]}`})
			emitLineAfter(cw, "C03", ti, to, []byte(before), line)
			failing := []colDesc{{name: "u9", format: "numeric", ty: "none"}}
			to9 := append(append([]colDesc{}, to...), failing...)
			emitLineAfter(cw, "C03", nil, to9, []byte(`{"u8":1,"u9":"not a number","u7":2}`), line)
			// … and with the next line giving the offending column a good value
			trimmed := bytes.TrimRight(line, " \t\r")
			if n := len(trimmed); n >= 2 && trimmed[n-1] == '}' && json.Valid(trimmed) {
				sep := ","
				if len(bytes.TrimSpace(trimmed[1:n-1])) == 0 {
					sep = ""
				}
				line9 := append(append(append([]byte{}, trimmed[:n-1]...), []byte(sep+`"u9":5}`)...))
				emitLineAfter(cw, "C03", nil, to9, []byte(`{"u8":1,"u9":"not a number","u7":2}`), line9)
			}
		}
	}
}

func hasSub(cols []colDesc) bool {
	for _, c := range cols {
		if c.isSub {
			return true
		}
	}
	return false
}

func genC04(cw *caseWriter, seed uint64, tier string) {
	// a slice of the template / row histories (refused imports included) under this property's name: declared columns keep
	// their declarations (harness/alias.go)
	genAliasHistories(cw, "C04", newRng(seed+1103), 60)
	r := newRng(seed)
	// 9 formats x (18 raw types + none) as input and as output descriptor x every scalar text
	reps := 1
	if tier == "thorough" {
		reps = 6
	}
	for rep := 0; rep < reps; rep++ {
		for _, fo := range fmtNames {
			for _, to := range tyNames {
				if r.chance(1, 3) {
					// the same column pair fed with every scalar text in turn through ONE importer and ONE exporter
					fi, tyi := pick(r, fmtNames), pick(r, tyNames)
					if r.chance(1, 2) {
						fi, tyi = "auto", "none"
					}
					var batch [][]byte
					for _, k := range r.perm(len(scalarTexts)) {
						batch = append(batch, []byte(`{"c":`+scalarTexts[k]+`}`))
					}
					emitLineBatch(cw, "C04", []colDesc{{name: "c", format: fi, ty: tyi}}, []colDesc{{name: "c", format: fo, ty: to}}, batch)
				}
				for _, txt := range scalarTexts {
					fi, tyi := "auto", "none"
					if rep > 0 || r.chance(1, 2) {
						fi, tyi = pick(r, fmtNames), pick(r, tyNames)
					}
					if rep == 0 && to != "none" && r.chance(2, 3) {
						continue
					}
					ti := []colDesc{{name: "c", format: fi, ty: tyi}, {name: "p", isSub: true, sub: []colDesc{{name: "zz", format: fi, ty: tyi}, {name: "aa", format: "auto", ty: "none"}}}}
					tt := []colDesc{{name: "c", format: fo, ty: to}, {name: "p", isSub: true, sub: []colDesc{{name: "zz", format: fo, ty: to}, {name: "aa", format: "auto", ty: "none"}}}}
					line := `{"c":` + txt + `}`
					if r.chance(1, 4) {
						line = `{"c":` + txt + `,"p":{"zz":` + txt + `,"aa":1}}`
					}
					emitLine(cw, "C04", ti, tt, []byte(line), true)
					if r.chance(1, 4) {
						emitText(cw, "C04", tt, []byte(line), r.chance(1, 2))
					}
				}
			}
		}
	}
	// a row made by the output template itself whose cell was replaced afterwards by a Value of ANOTHER format
	// (SetValue, ImportAtKey of a Value), exported through that same template: the declared format still rules
	for _, fo := range []string{"numeric", "boolean", "binary", "date", "datetime", "timestamp", "string"} {
		for _, ff := range []string{"string", "auto", "numeric", "hidden"} {
			for _, x := range []interface{}{"masked", 1.5, true, "2021-09-24", []interface{}{1}, "AQ=="} {
				fo, ff, x := fo, ff, x
				for _, how := range []int{0, 1, 2} {
					how := how
					emitEmitSame(cw, "C04", []colDesc{{name: "s", format: "string", ty: "none"}, {name: "c", format: fo, ty: "none"}}, func(t jsonline.Template) interface{} {
						row := t.CreateRowEmpty()
						row.Set("s", "b")
						switch how {
						case 0:
							row.SetValue("c", jsonline.NewValue(x, formatByName[ff], nil))
						case 1:
							_ = row.ImportAtKey("c2", jsonline.NewValue(x, formatByName[ff], nil))
							row.SetValueAtIndex(1, jsonline.NewValue(x, formatByName[ff], nil))
						default:
							row.Set("c", x)
						}
						return row
					})
				}
			}
		}
	}
	// date / datetime / string rendering of instants next to the year 0000 and 9999 boundaries, under process
	// zones on both sides of Greenwich (the rendered year is the year in the rendering zone)
	saved := time.Local
	defer func() { time.Local = saved }()
	for _, z := range zones() {
		time.Local = z.loc
		for _, fo := range []string{"date", "datetime", "string", "auto", "timestamp"} {
			for _, to := range []string{"none", "time", "i64", "str"} {
				for _, base := range []int64{253402300800, -62167219200} {
					for _, d := range []int64{-86400, -43200, -19800, -18000, -10800, -7200, -3600, -1, 0, 1, 3599, 3600, 7200, 10800, 18000, 19800, 43200, 86400} {
						ti := []colDesc{{name: "c", format: pick(r, []string{"auto", "timestamp", "numeric", "datetime"}), ty: pick(r, []string{"none", "i64", "time"})}}
						tt := []colDesc{{name: "c", format: fo, ty: to}}
						emitLine(cw, "C04", ti, tt, []byte(fmt.Sprintf(`{"c":%d}`, base+d)), true)
					}
				}
			}
		}
	}
}

// ---- C02 / C16 -------------------------------------------------------------------------------

// emitRoundTrip: untemplated read-then-write, then the output fed back once more.
//
//	rtrip \t C02 \t <hex input> \t <in-domain 0|1> \t <ext> \t <impl first> \t <impl second|->
func emitRoundTrip(cw *caseWriter, line []byte, inDomain bool) {
	w, err, pan := runLine(jsonline.NewTemplate(), jsonline.NewTemplate(), line)
	first := lineOutcome(w, err, pan)
	second := "-"
	if err == nil && pan == "" {
		out := w.all()
		if len(out) > 0 && out[len(out)-1] == '\n' {
			w2, err2, pan2 := runLine(jsonline.NewTemplate(), jsonline.NewTemplate(), out[:len(out)-1])
			second = lineOutcome(w2, err2, pan2)
		}
	}
	ext := map[string]string{}
	dom := "0"
	if inDomain {
		dom = "1"
	}
	cw.count("rtrip:" + strings.SplitN(first, " ", 2)[0] + ":dom" + dom)
	cw.emit("rtrip "+string(line), inDomain, "rtrip", "C02", hxs(string(line)), dom, extStr(ext), first, second)
	if jlRouteWanted(line) {
		emitRoundTripJl(cw, line, inDomain)
	}
}

// emitRoundTripBatch: several lines through ONE untemplated importer/exporter pair (what jl does with a
// file); each line's outcome is reported as an `rtrip` case of its own, so a line must come out as it does
// alone whatever preceded it.
func emitRoundTripBatch(cw *caseWriter, lines [][]byte) { emitRoundTripBatchWith(cw, lines, nil) }

// emitRoundTripBatchWith: the same with a line that is rejected (breaker) fed after the first line of each pass:
// it costs one reported error and nothing else.
func emitRoundTripBatchWith(cw *caseWriter, lines [][]byte, breaker []byte) {
	wantErr := 0
	if breaker != nil {
		wantErr = 1
	}
	stream := func(ls [][]byte) (*recWriter, int, string) {
		var in bytes.Buffer
		for i, l := range ls {
			in.Write(l)
			in.WriteByte('\n')
			if i == 0 && breaker != nil {
				in.Write(breaker)
				in.WriteByte('\n')
			}
		}
		w := &recWriter{failAt: -1}
		nerr := 0
		pan := guard(func() {
			_ = jsonline.NewStreamer(jsonline.NewImporter(&in), jsonline.NewExporter(w)).WithProcessor(func(_ jsonline.Row, err error) error {
				if err != nil {
					nerr++
				}
				return nil
			}).Stream()
		})
		return w, nerr, pan
	}
	w, nerr, pan := stream(lines)
	if pan != "" || nerr != wantErr || len(w.writes) != len(lines) {
		cw.count("rtrip:batch-broken")
		cw.emit("rtrip batch "+string(lines[0]), true, "rtrip", "C02", hxs(string(lines[0])), "1", "-",
			fmt.Sprintf("err syntax w=%d %s", len(w.writes), hxs(string(w.all()))), "-")
		return
	}
	outs := make([][]byte, len(lines))
	for i, x := range w.writes {
		outs[i] = bytes.TrimSuffix(x, []byte("\n"))
	}
	w2, nerr2, pan2 := stream(outs)
	for i, l := range lines {
		second := "-"
		if pan2 == "" && nerr2 == wantErr && len(w2.writes) == len(lines) {
			second = fmt.Sprintf("ok %s w=1", hxs(string(w2.writes[i])))
		} else {
			second = fmt.Sprintf("err syntax w=%d -", len(w2.writes))
		}
		cw.count("rtrip:batched")
		cw.emit(fmt.Sprintf("rtrip batch[%d] %s", i, l), true, "rtrip", "C02", hxs(string(l)), "1", "-",
			fmt.Sprintf("ok %s w=1", hxs(string(w.writes[i]))), second)
	}
}

type jgen struct {
	r     *rng
	depth int
}

var numberSpellings = []string{"0", "-0", "1", "-1", "12", "1.5", "-2.25", "1E+2", "1e2", "1e-2", "0.10", "0.0", "1.0e0", "123456789012345678901234567890", "1e-400", "1e400", "-0.0e-0", "9223372036854775808", "0.1E1", "5e-324"}

func (g *jgen) str() string {
	classes := []string{"\\\\u003c", "\\\\u0026x", "\\\\u003e", "\\\\n", "\\\\\\\"", "a", "b c", "é", "日本", "\U0001F600", "\\u00e9", "\\ud83d\\ude00", "\\n", "\\t", "\\\"", "\\\\", "\\/", "\\b\\f\\r", "\\u0000", "\\u001f", "<>&", "\\u2028", "\u2028", "\\u007f", "\x7f", "'", "`", " ", "",
		// characters that mean something to a formatter, a template engine, a shell, a regexp or a path — not to JSON
		"%", "%d", "%!s(MISSING)", "100%", "%%", "{{.}}", "${x}", "$1", "\\\\n", "*", "[0]", "a.b", "#", "\u00a0", "\ufeff"}
	var sb strings.Builder
	for k := g.r.intn(4); k > 0; k-- {
		sb.WriteString(pick(g.r, classes))
	}
	return `"` + sb.String() + `"`
}

func (g *jgen) ws() string {
	return pick(g.r, []string{"", "", "", " ", "\t", "  ", "\r"})
}

func (g *jgen) value(d int) string {
	n := 8
	if d >= g.depth {
		n = 5
	}
	switch g.r.intn(n) {
	case 0:
		return "null"
	case 1:
		return pick(g.r, []string{"true", "false"})
	case 2, 3:
		return pick(g.r, numberSpellings)
	case 4:
		return g.str()
	case 5:
		k := g.r.intn(4)
		var parts []string
		for i := 0; i < k; i++ {
			parts = append(parts, g.ws()+g.value(d+1)+g.ws())
		}
		if k == 0 {
			return "[" + g.ws() + "]"
		}
		return "[" + strings.Join(parts, ",") + "]"
	default:
		return g.object(d + 1)
	}
}

func (g *jgen) object(d int) string {
	k := g.r.intn(5)
	if k == 0 {
		return "{" + g.ws() + "}"
	}
	// incl. names that are equal under case folding (id/ID/Id, k/K/Kelvin sign) and a name holding a literal
	// backslash in front of text that looks like an escape
	keys := []string{"zz", "aa", "m", "", "é", "a.b", "k\\n", "\\u0041", "x y", "0", "\U0001F600", "id", "ID", "Id", "k", "K", "\u212a", "É", "\\\\u003c"}
	for i := len(keys) - 1; i > 0; i-- {
		j := g.r.intn(i + 1)
		keys[i], keys[j] = keys[j], keys[i]
	}
	var parts []string
	for i := 0; i < k; i++ {
		parts = append(parts, g.ws()+`"`+keys[i]+`"`+g.ws()+":"+g.ws()+g.value(d)+g.ws())
	}
	return "{" + strings.Join(parts, ",") + "}"
}

func genC02(cw *caseWriter, seed uint64, tier string) {
	r := newRng(seed)
	g := &jgen{r: r, depth: 4}
	fixed := []string{`{}`, ` { } `, `{"a":1}`, `{"b":{"q":1,"a":[{"z":1,"y":{"x":[]}}]},"a":null}`, `{"n":[-0,1E+2,0.10,123456789012345678901234567890,1e-400]}`,
		`{"s":"\u00e9\ud83d\ude00\n\t\"\\\/\b\f\r"}`, `{"":{"":{"":{}}}}`, `{"a":[[],[[]],{}]}`, `{"k":"<>&\u2028"}`,
		// member names that are RELATED to one another: a dotted name whose segments spell a path into an earlier member,
		// names equal after case folding (ASCII, accented, the Kelvin sign), a name that is the text of the JSON escaping
		// of another name, names that differ by a trailing space or a NUL — all distinct names, each member kept
		`{"a":{"b":1},"a.b":2}`, `{"a.b":2,"a":{"b":1}}`, `{"x":[{"a":{"b":{"c":1}}}],"a":{"b":{"c":2}},"a.b.c":3,"a.b":4}`, `{"Ref":7,"ref":8,"REF":9}`,
		`{"\u00e9":1,"\u00c9":2,"k":3,"\u212a":4}`, `{"ab":1,"a\\u0062":2}`, `{"C:\\temp":1,"C:\temp":2}`, `{"a":1,"a ":2,"a\u0000":3}`,
		`{"o":{"id":1,"ID":2,"Id":{"id":3,"iD":4}}}`}
	fixed = append(fixed, `{"a":-0,"b":{"c":-0,"d":[-0]},"e":0,"f":-0.0,"g":1E2,"h":1e2}`, `{"n":null,"e":{},"l":[],"s":"","z":0,"f":false}`,
		`{"pad":"`+strings.Repeat("p", 70000)+`","after":1}`)
	for _, f := range fixed {
		emitRoundTrip(cw, []byte(f), true)
	}
	// out of domain: duplicate names, lone surrogates, invalid UTF-8
	for _, f := range []string{`{"a":1,"a":2}`, `{"a":{"x":1,"x":{"y":2}}}`, `{"s":"\ud800"}`, "{\"s\":\"\xff\"}", `{"s":"\udc00\ud800"}`} {
		emitRoundTrip(cw, []byte(f), false)
	}
	// nesting depth 64
	emitRoundTrip(cw, []byte(strings.Repeat(`{"a":[`, 64)+`1`+strings.Repeat(`]}`, 64)), true)
	n := 5000
	if tier == "thorough" {
		n = 150000
	}
	for i := 0; i < n; i++ {
		emitRoundTrip(cw, []byte(g.ws()+g.object(0)+g.ws()), true)
	}
	// the same kind of lines in batches of 2-6 through one importer/exporter pair
	for i := 0; i < n/10; i++ {
		var batch [][]byte
		for k := 2 + r.intn(5); k > 0; k-- {
			batch = append(batch, []byte(g.ws()+g.object(0)+g.ws()))
		}
		if r.chance(1, 3) { // a line sharing keys with its predecessor in another order
			batch = append(batch, []byte(`{"b":2,"a":{"y":[],"x":{}}}`), []byte(`{"a":1,"c":[{}],"b":[]}`))
		}
		if r.chance(1, 2) {
			emitRoundTripBatchWith(cw, batch, []byte(pick(r, []string{`{"a":`, `[1]`, `{"a":1} x`, `}`, `{"a":1,}`, `nul`, `{"k":"unterminated}`})))
		} else {
			emitRoundTripBatch(cw, batch)
		}
	}
}

// emitAccept: accept/reject of one line (C16).
//
//	accept \t C16 \t <ti> \t <hex line> \t <ext> \t <impl: ok | err class> rownil=<0|1> agree=<0|1> \t govalid=<0|1>
func emitAccept(cw *caseWriter, ti []colDesc, line []byte, nontrivial bool) {
	tmpl := buildTemplate(ti)
	var row jsonline.Row
	var err error
	// the line is followed by `{}` on the same importer: whatever happened to the line, the row of the
	// next one is what `{}` gives alone (a rejected line leaves no partially filled row behind)
	next := 1
	pan := guard(func() {
		imp := tmpl.GetImporter(bytes.NewReader(append(append([]byte{}, line...), []byte("\n{}\n")...)))
		if imp.Import() {
			row, err = imp.GetRow()
		} else {
			// an empty line is not delivered as a token only if the input is empty; ScanLines delivers "" for "\n"
			err = fmt.Errorf("no line scanned")
		}
		if bytes.IndexByte(line, '\n') >= 0 {
			return // the text is not one line: the follow-up check does not apply
		}
		if imp.Import() {
			r2, e2 := imp.GetRow()
			if e2 != nil || r2 == nil || r2.DebugString() != tmpl.CreateRowEmpty().DebugString() {
				next = 0
			}
		} else {
			next = 0
		}
	})
	// the two other entry points must agree on accept/reject
	var e2, e3 error
	guard(func() { _, e2 = tmpl.CreateRow(string(line)) })
	guard(func() { e3 = tmpl.CreateRowEmpty().UnmarshalJSON(line) })
	agree := (err == nil) == (e2 == nil) && (err == nil) == (e3 == nil)
	impl := "ok"
	if pan != "" {
		impl = "panic"
	} else if err != nil {
		c := classify(err)
		if c == "other" {
			c = "syntax"
		}
		impl = "err " + c
	}
	rownil := 0
	if row == nil {
		rownil = 1
	}
	ag := 0
	if agree {
		ag = 1
	}
	gv := 0
	trimmed := bytes.TrimLeft(line, " \t\r\n")
	if json.Valid(line) && len(trimmed) > 0 && trimmed[0] == '{' {
		gv = 1
	}
	ext := map[string]string{}
	extForJSON(line, ext)
	cw.count("accept:" + strings.SplitN(impl, " ", 2)[0] + fmt.Sprintf(":valid%d", gv))
	cw.emit("accept "+descStr(ti)+" "+string(line), nontrivial, "accept", "C16", descStr(ti), hxs(string(line)), extStr(ext),
		fmt.Sprintf("%s rownil=%d agree=%d next=%d", impl, rownil, ag, next), fmt.Sprintf("govalid=%d", gv))
}

// emitFaultAccept: the reader delivers only `line[:cut]` and then fails. Whatever the fragment looks like —
// even a complete object — it is not a line of the input: nothing may be accepted from it.
//
//	faultaccept \t C16 \t <hex line> \t <cut> \t <how: sep | with> \t <impl: ok | err <class> | none>
func emitFaultAccept(cw *caseWriter, line []byte, cut int, with bool) {
	ev := []readEv{{kind: "d", data: line[:cut]}, {kind: "e"}}
	how := "sep"
	if with {
		ev = []readEv{{kind: "de", data: line[:cut]}}
		how = "with"
	}
	impl := "none"
	pan := guard(func() {
		imp := jsonline.NewImporter(&scriptReader{evs: ev})
		for imp.Import() {
			row, err := imp.GetRow()
			if err == nil && row != nil {
				impl = "ok"
				return
			}
			impl = "err " + classify(err)
		}
	})
	if pan != "" {
		impl = "panic " + strings.ReplaceAll(strings.ReplaceAll(pan, "\t", " "), "\n", " ")
	}
	cw.count("faultaccept:" + strings.SplitN(impl, " ", 2)[0])
	cw.emit(fmt.Sprintf("faultaccept %s %d %s", line, cut, how), true, "faultaccept", "C16", hxs(string(line)), fmt.Sprintf("%d", cut), how, impl)
}

// emitOverlongAccept: a line of `size` bytes (at and over the 10 MiB limit of what an importer delivers) whose LAST
// bytes are the complete object `tail`, followed by further lines; the importer is asked again and again after the
// failure. The bytes of a line that could not be delivered are not lines of the input: nothing of them may be
// accepted, however the importer is used afterwards.
//
//	overlong \t C16 \t <size> \t <hex tail> \t <impl: outcomes of the calls, in order>
func emitOverlongAccept(cw *caseWriter, size int, tail string, chunked bool) {
	data := append(bytes.Repeat([]byte("x"), size-len(tail)), []byte(tail)...)
	data = append(data, []byte("\n{\"next\":1}\n{\"after\":2}\n")...)
	var outcomes []string
	pan := guard(func() {
		var rd io.Reader = bytes.NewReader(data)
		if chunked {
			rd = &scriptReader{evs: chunk(data, []int{1 << 16, 4096, 1 << 20})}
		}
		imp := jsonline.NewImporter(rd)
		for i := 0; i < 6; i++ {
			more := imp.Import()
			row, err := imp.GetRow()
			switch {
			case err == nil && row != nil:
				js, _ := row.MarshalJSON()
				outcomes = append(outcomes, fmt.Sprintf("%v:ok:%s", more, hxs(string(js))))
			case err != nil:
				outcomes = append(outcomes, fmt.Sprintf("%v:err:%s", more, classify(err)))
			default:
				outcomes = append(outcomes, fmt.Sprintf("%v:none", more))
			}
			if row2, err2 := imp.ReadOne(); err2 == nil && row2 != nil {
				js, _ := row2.MarshalJSON()
				outcomes = append(outcomes, "readone:ok:"+hxs(string(js)))
			}
		}
	})
	impl := strings.Join(outcomes, ",")
	if pan != "" {
		impl = "panic " + strings.ReplaceAll(strings.ReplaceAll(pan, "\t", " "), "\n", " ")
	}
	cw.count(fmt.Sprintf("overlong:%d", size))
	cw.emit(fmt.Sprintf("overlong %d %s chunked=%v", size, tail, chunked), true, "overlong", "C16", fmt.Sprint(size), hxs(tail), impl)
}

func genC16(cw *caseWriter, seed uint64, tier string) {
	// lines at and over the limit of what an importer delivers, ending in a complete object
	for i, size := range []int{10485760, 10485760 + 17, 10485761, 10485759 + 4096, 2 * 10485760} {
		emitOverlongAccept(cw, size, `{"injected":true}`, i%2 == 1)
	}
	// a read failure in the middle of a line: every cut of lines that start with a complete object
	for _, l := range []string{`{"id":2}{"id":3}`, `{"a":1} x`, `{"a":1}}`, `{}{}`, `{"a":{"b":1}}]`, `{"a":1}`, `{"a":1,"b":2}`, ` {"a":1} `, `{"a":"x"}1`} {
		for cut := 1; cut <= len(l); cut++ {
			emitFaultAccept(cw, []byte(l), cut, false)
			emitFaultAccept(cw, []byte(l), cut, true)
		}
	}
	// a line rejected on a LATE column — by the importer's template or by the exporter's — after columns whose
	// rendering is longer than the buffers a writer might use (4 KiB, 8 KiB, 64 KiB): no output at all
	for _, sz := range []int{100, 4000, 4095, 4096, 4097, 5000, 8192, 8200, 65536, 70000} {
		long := strings.Repeat("x", sz)
		late := []colDesc{{name: "pad", format: "string", ty: "none"}, {name: "n", format: "auto", ty: "none"}, {name: "d", format: "numeric", ty: "none"}}
		lateIn := []colDesc{{name: "pad", format: "string", ty: "none"}, {name: "n", format: "auto", ty: "none"}, {name: "d", format: "numeric", ty: "int"}}
		for _, d := range []string{`"not a number"`, `7`, `[1]`, `{"q":1}`, `"-"`} {
			line := []byte(`{"pad":"` + long + `","n":[1,2,3],"d":` + d + `}`)
			emitLine(cw, "C16", nil, late, line, true)
			emitLine(cw, "C16", lateIn, late, line, true)
			emitLine(cw, "C16", late, []colDesc{{name: "pad", format: "string", ty: "none"}, {name: "n", format: "auto", ty: "none"}, {name: "d", format: "datetime", ty: "none"}}, line, true)
		}
	}
	r := newRng(seed)
	g := &jgen{r: r, depth: 3}
	hand := []string{``, ` `, `{}`, ` {} `, `{} x`, `{}{}`, `{}[]`, `{},`, `[{}]`, `[1]`, `1`, `"x"`, `null`, `true`, `{`, `}`, `{"a"`, `{"a":`, `{"a":1`, `{"a":1,`, `{"a":1,}`, `{,}`, `{"a" 1}`, `{"a":1 "b":2}`,
		`{'a':1}`, `{a:1}`, `{"a":01}`, `{"a":1.}`, `{"a":.5}`, `{"a":+1}`, `{"a":-}`, `{"a":1e}`, `{"a":1e+}`, `{"a":tru}`, `{"a":nul}`, `{"a":truex}`, `{"a":[1,]}`, `{"a":[1 2]}`, `{"a":[}`, `{"a":]}`,
		`{"a":{}}}`, `{"a":"\x"}`, `{"a":"\u12"}`, `{"a":"\u12G4"}`, "{\"a\":\"\x01\"}", "{\"a\":\"\n\"}", "\xef\xbb\xbf{}", "{}\x00", "{\"a\":1}\x00", "\x00{}", `{"a":"unterminated}`, `{"a":1}}`, `{{}}`, `{"a":{"b":1}`,
		`{"a":1}//c`, `{"a":1}/**/`, `{"a":NaN}`, `{"a":Infinity}`, `{"a":0x10}`, `{"a":1_000}`, `{"a":"\ud800"}`, "{\"a\":\"\xff\"}", `{"a":"\/"}`, `{"a":"\'"}`, `{"\u0061":1}`, "{\t\"a\"\t:\t1\t}", "{\r\"a\":1}", "{\"a\":1}\r", "\r{\"a\":1}", "{\"a\":1}\r\r", "{\"a\":1} \r ", "\t\r {\"a\":1}\r\t\r", "\r\r{}\r\r", "{\"a\":1}\"", "{\"a\":1}t", "{\"a\":1} fals", "{\"a\":1}-", "{\"a\":1}1e", "{\"a\":1}0.", "{\"a\":1}\"abc",
		"{\"a\"\x0b:1}", "{\"a\":1}\x0c", "{\xa0}", `{"a":1,"a":2}`,
		// a repeated name whose occurrences are of different kinds, at top level and below
		`{"a":{"x":1},"a":2}`, `{"a":2,"a":{"x":1}}`, `{"a":[1],"a":{"x":1}}`, `{"a":{"x":1},"a":[1]}`, `{"a":{"x":1},"a":null}`, `{"a":{"x":1},"a":"s"}`, `{"a":{"x":1},"a":{"y":2}}`, `{"o":{"a":{"x":1},"a":"s"}}`, `{"l":[{"a":{"x":1},"a":true}]}`, `{"a":null,"a":{"x":1},"a":3}`, `{"":1}`, `{"a":[[[[[[[[[[1]]]]]]]]]]}`, `{"a":-0}`, `{"a":-01}`, `{"a":1E400}`, `{"a":"` + strings.Repeat("x", 70000) + `"}`}
	for _, h := range hand {
		emitAccept(cw, nil, []byte(h), true)
	}
	// volume: valid objects with very many sibling containers / elements at small depth (a limit that counts
	// what it should measure, e.g. a depth counter that is not decremented, shows only on such lines)
	for _, cnt := range []int{12000, 70000} {
		for _, item := range []string{`[]`, `{}`, `[[1,2]]`, `{"b":[]}`, `1`, `"s"`, `null`} {
			if cnt > 12000 && len(item) > 2 {
				continue
			}
			vol := `{"a":[` + strings.Repeat(item+",", cnt-1) + item + `]}`
			emitAccept(cw, nil, []byte(vol), true)
			emitAccept(cw, nil, []byte(vol[:len(vol)-1]), true)
			emitAccept(cw, nil, []byte(vol+"]"), true)
		}
	}
	{
		var kb strings.Builder
		kb.WriteString(`{`)
		for i := 0; i < 3000; i++ {
			if i > 0 {
				kb.WriteString(",")
			}
			fmt.Fprintf(&kb, `"k%d":[%d]`, i, i)
		}
		kb.WriteString(`}`)
		emitAccept(cw, nil, []byte(kb.String()), true)
	}
	// declared columns that convert / do not convert
	typed := []colDesc{{name: "a", format: "numeric", ty: "int"}, {name: "d", format: "date", ty: "none"}}
	for _, h := range []string{`{"a":1}`, `{"a":"x"}`, `{"a":1.5}`, `{"a":null}`, `{"d":"2021-09-24"}`, `{"d":"nope"}`,
		// days the calendar does not have (century years that are not leap years, day 30 of February, day 31 of a
		// 30-day month, month 0 and 13, day 0) next to days it has
		`{"d":"1900-02-29"}`, `{"d":"2100-02-29"}`, `{"d":"2000-02-29"}`, `{"d":"2021-02-29"}`, `{"d":"2020-02-29"}`, `{"d":"0000-02-29"}`, `{"d":"0100-02-29"}`, `{"d":"2000-02-30"}`, `{"d":"2021-04-31"}`, `{"d":"2021-06-31"}`,
		`{"d":"2021-00-10"}`, `{"d":"2021-13-01"}`, `{"d":"2021-01-00"}`, `{"d":"2021-12-32"}`, `{"d":"2021-12-31"}`, `{"d":"9999-12-31"}`, `{"d":"2021-1-01"}`, `{"d":"2021-01-01 "}`, `{"d":"+2021-01-01"}`,
		`{"a":{"x":1},"a":2}`, `{"z":{"x":1},"z":2,"a":1}`, `{"a":1,"d":"2021-09-24","z":[]}`, `{"a":"x"} trailing`, `{"a":1} trailing`, `{"z":1,"a":"x"}`} {
		emitAccept(cw, typed, []byte(h), true)
	}
	// every format x raw type as the ONE declared column, fed with every scalar text and the edges of the raw types'
	// ranges (float32 against float64 magnitudes, integer bounds, base64 that is none under a binary column whose raw
	// type is already a string): the line is accepted exactly when the column converts
	edge := []string{`3.5e38`, `"3.5e38"`, `-1e39`, `3.4028235e38`, `3.4028236e38`, `3.4028235677973366e38`, `1e39`, `"1e-46"`, `1e-46`, `16777217`, `"%%% not base64 %%%"`, `"QUJD="`, `"a"`, `"QUJD"`, `{}`, `{"b":1}`, `"0001-01-01T00:00:00Z"`, `"0001-01-01T01:00:00+01:00"`, `-62135596800`, `"00"`, `"-00"`, `"+00"`, `"000"`, `""`,
		`127`, `128`, `-128`, `-129`, `32768`, `4294967295`, `4294967296`, `18446744073709551615`, `-9223372036854775809`}
	for _, f := range fmtNames {
		for _, ty := range append([]string{"none"}, tyNames...) {
			one := []colDesc{{name: "c", format: f, ty: ty}}
			for _, txt := range edge {
				emitAccept(cw, one, []byte(`{"c":`+txt+`}`), true)
			}
			if tier == "thorough" || r.chance(1, 6) {
				for _, txt := range scalarTexts {
					emitAccept(cw, one, []byte(`{"c":`+txt+`}`), true)
				}
			}
		}
	}
	n := 4000
	if tier == "thorough" {
		n = 150000
	}
	alpha := []byte("{}[],:\"\\01-.eEtfn u\t\x00\x01\x7f\xff\xc3\xa9/+aunl")
	for i := 0; i < n; i++ {
		base := []byte(g.object(0))
		emitAccept(cw, nil, base, false)
		// truncations at a random offset, 1-3 byte mutations
		if len(base) > 0 {
			emitAccept(cw, nil, base[:r.intn(len(base))], true)
		}
		m := append([]byte{}, base...)
		for k := 1 + r.intn(3); k > 0 && len(m) > 0; k-- {
			pos := r.intn(len(m))
			switch r.intn(3) {
			case 0:
				m[pos] = alpha[r.intn(len(alpha))]
			case 1:
				m = append(m[:pos], m[pos+1:]...)
			default:
				m = append(m[:pos], append([]byte{alpha[r.intn(len(alpha))]}, m[pos:]...)...)
			}
		}
		m = bytes.ReplaceAll(m, []byte("\n"), []byte(" "))
		emitAccept(cw, nil, m, true)
		if r.chance(1, 10) {
			emitAccept(cw, nil, append(append([]byte{}, base...), []byte(pick(r, []string{" x", "{}", ",", "]", "}", " 1", "\t\t", " null"}))...), true)
		}
	}
	// objects whose closing brace falls on and around the sizes a decoder or reader buffers by (512, 1024,
	// 4096 …), alone, followed by trailing content, and followed by white space then trailing content
	for _, size := range []int{500, 511, 512, 513, 1023, 1024, 1025, 1536, 1541, 2048, 3589, 4095, 4096, 4097, 8192, 65536} {
		for d := -2; d <= 2; d++ {
			n := size + d
			obj := `{"k":"` + strings.Repeat("x", n-8) + `"}` // exactly n bytes
			emitAccept(cw, nil, []byte(obj), true)
			for _, tail := range []string{"x", "{}", " 1", "}", ",", `"`} {
				emitAccept(cw, nil, []byte(obj+tail), true)
			}
			pad := `{"a":1}` + strings.Repeat(" ", n-7)
			emitAccept(cw, nil, []byte(pad), true)
			emitAccept(cw, nil, []byte(pad+"x"), true)
			emitAccept(cw, typed, []byte(pad+`{"a":2}`), true)
		}
	}
	if tier != "thorough" {
		return
	}
	// all strings of length <= 5 over the structural alphabet (thorough)
	sa := []byte("{}[],:\"\\01-.et ")
	var rec func(prefix []byte, left int)
	rec = func(prefix []byte, left int) {
		emitAccept(cw, nil, prefix, true)
		if left == 0 {
			return
		}
		for _, c := range sa {
			rec(append(append([]byte{}, prefix...), c), left-1)
		}
	}
	rec(nil, 5)
	cw.extra["exhaustive_structural_strings_up_to_length"] = 5
}
