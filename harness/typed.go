package main

// Typed round trips (C13) and idempotence (C05).
//
//	typed \t C13 \t <format> \t <ty> \t <src Dyn> \t <ext> \t <written: ok <hex json> | err …> \t <read back via rows: ok <Dyn> | err …> \t <read back via exporter/importer: ok <Dyn> | err … | ->
//	twice \t C05 \t <zone> \t <ti> \t <to> \t <hex line> \t <ext> \t <first> \t <second | ->

import (
	"bytes"
	"encoding/base64"
	"encoding/json"
	"fmt"
	"math"
	"strings"
	"time"

	"github.com/cgi-fr/jsonline/pkg/cast"
	"github.com/cgi-fr/jsonline/pkg/jsonline"
)

func valuesOfTy(r *rng, ty string, n int) []interface{} {
	var out []interface{}
	ints := func(min, max int64, umax uint64, mk func(int64, uint64) interface{}) {
		for _, v := range []int64{0, 1, -1, min, max, min + 1, max - 1, 7, -128, 127, 255, 256, 32767, -32768, 65535, 2147483647, -2147483648} {
			if v >= min && (umax == 0 && v <= max || umax > 0 && v >= 0 && uint64(v) <= umax) {
				out = append(out, mk(v, uint64(v)))
			}
		}
		if umax > 0 {
			out = append(out, mk(0, umax), mk(0, umax-1), mk(0, umax/2), mk(0, umax/2+1))
		}
		for i := 0; i < n; i++ {
			if umax > 0 {
				out = append(out, mk(0, r.u64()%umax))
			} else {
				span := uint64(max-min) + 1
				if span == 0 {
					out = append(out, mk(int64(r.u64()), 0))
				} else {
					out = append(out, mk(min+int64(r.u64()%span), 0))
				}
			}
		}
	}
	switch ty {
	case "int":
		ints(math.MinInt64, math.MaxInt64, 0, func(v int64, _ uint64) interface{} { return int(v) })
	case "i64":
		ints(math.MinInt64, math.MaxInt64, 0, func(v int64, _ uint64) interface{} { return v })
	case "i32":
		ints(math.MinInt32, math.MaxInt32, 0, func(v int64, _ uint64) interface{} { return int32(v) })
	case "i16":
		ints(math.MinInt16, math.MaxInt16, 0, func(v int64, _ uint64) interface{} { return int16(v) })
	case "i8":
		ints(math.MinInt8, math.MaxInt8, 0, func(v int64, _ uint64) interface{} { return int8(v) })
	case "uint":
		ints(0, 0, math.MaxUint64, func(_ int64, u uint64) interface{} { return uint(u) })
	case "u64":
		ints(0, 0, math.MaxUint64, func(_ int64, u uint64) interface{} { return u })
	case "u32":
		ints(0, 0, math.MaxUint32, func(_ int64, u uint64) interface{} { return uint32(u) })
	case "u16":
		ints(0, 0, math.MaxUint16, func(_ int64, u uint64) interface{} { return uint16(u) })
	case "u8":
		ints(0, 0, math.MaxUint8, func(_ int64, u uint64) interface{} { return uint8(u) })
	case "f64":
		out = append(out, 0.0, math.Copysign(0, -1), 1.5, -2.25, 0.1, 1e21, 1e-7, 5e-324, math.MaxFloat64, -math.MaxFloat64, 9007199254740993.0, 123456789.125, math.NaN(), math.Inf(1))
		for i := 0; i < n; i++ {
			out = append(out, math.Float64frombits(r.u64()))
		}
	case "f32":
		out = append(out, math.Float32frombits(0x15ae43fd), math.Float32frombits(0x95ae43fd))
		out = append(out, float32(0), float32(math.Copysign(0, -1)), float32(1.5), float32(0.1), float32(16777217), float32(3.4028235e38), float32(1e-45), float32(math.NaN()))
		for i := 0; i < n; i++ {
			out = append(out, math.Float32frombits(uint32(r.u64())))
		}
	case "bool":
		out = append(out, true, false)
	case "str":
		out = append(out, "", "a", "12", "true", "2021-09-24", "é😀\n\t\"\\", "<>& ", " x ", "AQ==", "\xff\xfe", "NaN", "1e2",
			// every character class the JSON writer treats differently: C0 controls, DEL, C1, U+2028/2029, BOM, non-characters, astral
			strings.Repeat("long ", 14000), // a line beyond 64 KiB
			"\x00", "\x01\x07\x0b\x1b\x1f", "\x7f", "\u0080\u009f", "\u2028\u2029", "\ufeff", "\ufffd", "\ufffe", "\U000E0001", "\U0010FFFF", "\b\f\r", "a\x00b")
		for i := 0; i < n/2; i++ {
			b := make([]byte, r.intn(6))
			for j := range b {
				b[j] = byte(r.intn(0x80)) // any ASCII byte incl. controls
			}
			out = append(out, string(b))
		}
	case "bytes":
		out = append(out, bytes.Repeat([]byte{0xab, 0x00, 0xff}, 17000), []byte{}, []byte{0}, []byte{1, 2, 3}, []byte("12"), []byte{0xff, 0xfe}, []byte("true"), []byte{1, 0, 0, 0, 0, 0, 0, 0})
		for i := 0; i < n/2; i++ {
			b := make([]byte, r.intn(10))
			for j := range b {
				b[j] = byte(r.u64())
			}
			out = append(out, b)
		}
	case "time":
		out = append(out, time.Unix(0, 0).UTC(), time.Unix(1632518460, 0).UTC(), time.Unix(1632518460, 999999999).In(time.FixedZone("", 19800)), time.Date(1, 1, 1, 0, 0, 0, 0, time.UTC),
			time.Date(9999, 12, 31, 23, 59, 59, 0, time.UTC), time.Date(2000, 2, 29, 12, 0, 0, 0, time.FixedZone("", -12600)), time.Unix(-1, 0).UTC(), time.Date(0, 1, 1, 0, 0, 0, 0, time.UTC),
			time.Date(10000, 1, 1, 0, 0, 0, 0, time.UTC))
		for i := 0; i < n; i++ {
			sec := int64(r.u64()%uint64(253402300800+62135596800)) - 62135596800
			out = append(out, time.Unix(sec, int64(r.intn(2))*int64(r.intn(1000000000))).In(time.FixedZone("", (r.intn(2879)-1439)*60)))
		}
	case "num":
		for _, s := range []string{"0", "-0", "1", "1.50", "1E+2", "123456789012345678901234567890", "1e-400", "", "abc", "1e", " 1"} {
			out = append(out, json.Number(s))
		}
	}
	return out
}

func emitTyped(cw *caseWriter, f, ty string, v interface{}) { emitTypedWith(cw, f, ty, v, "") }

// emitTypedWith: batchBack, when not empty, replaces the Exporter -> Importer result by the one obtained
// when all the values of the pairing went through ONE exporter and ONE importer, every row being held
// until the last line was read.
type keptExporter struct {
	w   *recWriter
	exp jsonline.Exporter
}

var keptExporters = map[string]*keptExporter{}
var emitTypedCount int

func emitTypedWith(cw *caseWriter, f, ty string, v interface{}, batchBack string) {
	t := jsonline.NewTemplate().With("c", formatByName[f], nextSample(ty))
	ext := map[string]string{}
	extForValue(v, ext)
	written, back1, back2 := "-", "-", "-"
	pan := guard(func() {
		row, err := t.CreateRow(map[string]interface{}{"c": v})
		if err != nil {
			written = "err " + classifyLine(err)
			return
		}
		b, err := row.MarshalJSON()
		if err != nil {
			written = "err " + classifyLine(err)
			return
		}
		written = "ok " + hx(b)
		extForJSON(b, ext)
		row2 := t.CreateRowEmpty()
		if err := row2.UnmarshalJSON(b); err != nil {
			back1 = "err " + classifyLine(err)
		} else {
			got, _ := row2.Get("c")
			extForValue(got, ext)
			back1 = "ok " + dynStr(got)
		}
		// via exporter -> importer; every other value travels next to an UNDECLARED member whose name differs from
		// the column's by case only: another name, another member
		var buf bytes.Buffer
		emitTypedCount++
		in := map[string]interface{}{"c": v}
		if emitTypedCount%2 == 0 {
			in["C"] = 7
		}
		if err := t.GetExporter(&buf).Export(in); err != nil {
			back2 = "err " + classifyLine(err)
			return
		}
		row3, err := t.GetImporter(&buf).ReadOne()
		if err != nil || row3 == nil {
			back2 = "err " + classifyLine(err)
			return
		}
		got, _ := row3.Get("c")
		back2 = "ok " + dynStr(got)
	})
	if pan != "" {
		written = "panic " + strings.ReplaceAll(pan, "\t", " ")
	}
	orig2 := back2 // what the value gives on its own through a fresh exporter and importer
	if batchBack != "" && strings.HasPrefix(back2, "ok") {
		back2 = batchBack
	}
	// … and via ONE exporter per pairing, kept for every value of the run (values it legitimately refuses included):
	// what it does for this value must be what a fresh exporter does
	{
		back3 := "-"
		if p := guard(func() {
			key := f + "(" + ty + ")"
			se := keptExporters[key]
			if se == nil {
				se = &keptExporter{w: &recWriter{failAt: -1}}
				se.exp = t.GetExporter(se.w)
				keptExporters[key] = se
			}
			se.w.writes = nil
			if err := se.exp.Export(map[string]interface{}{"c": v}); err != nil {
				back3 = "err " + classifyLine(err)
				return
			}
			row4, err := t.GetImporter(bytes.NewReader(se.w.all())).ReadOne()
			if err != nil || row4 == nil {
				back3 = "err " + classifyLine(err)
				return
			}
			got, _ := row4.Get("c")
			back3 = "ok " + dynStr(got)
		}); p != "" {
			back3 = "panic " + strings.ReplaceAll(p, "\t", " ")
		}
		// reported instead of the value's own result only when it differs from it (and the batch route does not already)
		if strings.HasPrefix(orig2, "ok") && back2 == orig2 && back3 != orig2 {
			back2 = back3
		}
	}
	cw.count("pair:" + f + "(" + ty + ")")
	s := dynStr(v)
	kind := "typed"
	if cast.TimeStringFormat != time.RFC3339 {
		kind = "typedl" // another layout set by the program: judged by the lossless oracle alone
	}
	cw.emit(kind+" "+f+" "+ty+" "+s+" "+cast.TimeStringFormat, true, kind, "C13", f, ty, s, extStr(ext), written, back1, back2)
}

// emitImp: row-level import (C10, last sentence): ImportAtKey of v into the column c declared (f, ty) of a
// freshly created row; after a successful import the raw value is nil or of exactly the declared raw type.
//
//	imp \t C10 \t <format> \t <ty> \t <Dyn v> \t <ext> \t <ok <Dyn raw> | err <class> | panic …>
func emitImp(cw *caseWriter, f, ty string, v interface{}) { emitImpFor(cw, "C10", f, ty, v) }

func emitImpFor(cw *caseWriter, prop, f, ty string, v interface{}) {
	emitImpAfter(cw, prop, f, ty, nil, v)
}

// emitSetCol: row-level STORE into a declared column: a row the template created, then Row.Set (or SetAtIndex) of v
// under the column's name: the cell keeps its declaration and holds v converted to the raw type — or null when the
// raw type refuses v. What the cell then holds and what it exports are observed.
//
//	setcol \t <prop> \t <format> \t <ty> \t <Dyn v> \t <ext> \t <ok <Dyn raw> => <Dyn exported | ERR> | panic …>
func emitSetCol(cw *caseWriter, prop, f, ty string, v interface{}, byIndex bool) {
	t := jsonline.NewTemplate().With("c", formatByName[f], nextSample(ty))
	ext := map[string]string{}
	extForValue(v, ext)
	if sv, ok := v.(string); ok {
		extForText(sv, ext)
	}
	impl := "-"
	pan := guard(func() {
		row := t.CreateRowEmpty()
		if byIndex {
			row.SetAtIndex(0, v)
		} else {
			row.Set("c", v)
		}
		got, _ := row.Get("c")
		extForValue(got, ext)
		impl = "ok " + dynStr(got)
		cv, _ := row.GetValue("c")
		if ex, eerr := cv.Export(); eerr == nil {
			extForValue(ex, ext)
			impl += " => " + dynStr(ex)
		} else {
			impl += " => ERR"
		}
	})
	if pan != "" {
		impl = "panic " + strings.ReplaceAll(strings.ReplaceAll(pan, "\t", " "), "\n", " ")
	}
	cw.count("setcol:" + f + ":" + strings.SplitN(impl, " ", 2)[0])
	s := dynStr(v)
	cw.emit("setcol "+prop+" "+f+" "+ty+" "+s, true, "setcol", prop, f, ty, s, extStr(ext), impl)
}

// emitImpAfterValue: a column declared (f, ty) first imports a jsonline.Value of ANOTHER declaration (f2, ty2) —
// which, by the API, hands its format, raw value and raw type over to the cell — and then v: the cell behaves as
// a column declared (f2, ty2) from then on, range checks included. The case is judged as an import of v into a
// column (f2, ty2).
func emitImpAfterValue(cw *caseWriter, prop, f, ty, f2, ty2 string, held, v interface{}) {
	t := jsonline.NewTemplate().With("c", formatByName[f], nextSample(ty))
	ext := map[string]string{}
	extForValue(v, ext)
	if sv, ok := v.(string); ok {
		extForText(sv, ext)
	}
	if nv, ok := v.(json.Number); ok {
		extForText(string(nv), ext)
	}
	impl := "-"
	pan := guard(func() {
		row := t.CreateRowEmpty()
		if err := row.ImportAtKey("c", jsonline.NewValue(held, formatByName[f2], tySample[ty2])); err != nil {
			impl = "err " + classify(err)
			return
		}
		if err := row.ImportAtKey("c", v); err != nil {
			impl = "err " + classify(err)
			return
		}
		got, _ := row.Get("c")
		extForValue(got, ext)
		impl = "ok " + dynStr(got)
	})
	if pan != "" {
		impl = "panic " + strings.ReplaceAll(strings.ReplaceAll(pan, "\t", " "), "\n", " ")
	}
	cw.count("imp-after-value:" + f2 + ":" + strings.SplitN(impl, " ", 2)[0])
	s := dynStr(v)
	cw.emit("imp "+prop+" "+f+" "+ty+" after Value "+f2+" "+ty2+" "+s, true, "imp", prop, f2, ty2, s, extStr(ext), impl)
}

// emitImpValue: a ready-made jsonline.Value (declared f2 / ty2, holding `held`) imported into a column declared
// (f, ty) — by key, through Row.Import of a map, or through the cell — : by the API's contract the Value hands its
// format, raw value and raw type over to the cell. What the CELL then declares and holds is observed (`decl=`).
func emitImpValue(cw *caseWriter, prop, f, ty, f2, ty2 string, held interface{}, how int) {
	t := jsonline.NewTemplate().With("c", formatByName[f], nextSample(ty))
	ext := map[string]string{}
	var val jsonline.Value
	impl := "-"
	pan := guard(func() {
		val = jsonline.NewValue(held, formatByName[f2], tySample[ty2])
		extForValue(val.Raw(), ext)
		row := t.CreateRowEmpty()
		var err error
		switch how % 3 {
		case 0:
			err = row.ImportAtKey("c", val)
		case 1:
			err = row.Import(map[string]interface{}{"c": val})
		default:
			cell, _ := row.GetValue("c")
			err = cell.Import(val)
		}
		if err != nil {
			impl = "err " + classify(err)
			return
		}
		cell, _ := row.GetValue("c")
		extForValue(cell.Raw(), ext)
		impl = "ok " + dynStr(cell.Raw()) + " decl=" + formatName(cell.GetFormat()) + ":" + tyName(cell.GetRawType())
	})
	if pan != "" {
		impl = "panic " + strings.ReplaceAll(strings.ReplaceAll(pan, "\t", " "), "\n", " ")
	}
	if val == nil {
		return
	}
	cw.count("imp-value:" + f2 + ":" + strings.SplitN(impl, " ", 2)[0])
	s := dynStr(val)
	cw.emit("imp "+prop+" "+f+" "+ty+" <- Value "+s, true, "imp", prop, f, ty, s, extStr(ext), impl)
}

// emitImpVia: a JSON string handed to the CELL's own json.Unmarshaler (json.Unmarshal(data, cell)) — for a string this
// is Import(the string), so the case is judged as an `imp` case.
func emitImpVia(cw *caseWriter, prop, f, ty string, v string) {
	t := jsonline.NewTemplate().With("c", formatByName[f], nextSample(ty))
	ext := map[string]string{}
	extForText(v, ext)
	impl := "-"
	pan := guard(func() {
		row := t.CreateRowEmpty()
		cell, _ := row.GetValue("c")
		data, _ := json.Marshal(v)
		if err := json.Unmarshal(data, cell); err != nil {
			impl = "err " + classify(err)
			return
		}
		got, _ := row.Get("c")
		extForValue(got, ext)
		impl = "ok " + dynStr(got)
		if prop == "C11" {
			cv, _ := row.GetValue("c")
			if ex, eerr := cv.Export(); eerr == nil {
				impl += " => " + dynStr(ex)
			} else {
				impl += " => ERR"
			}
		}
	})
	if pan != "" {
		impl = "panic " + strings.ReplaceAll(strings.ReplaceAll(pan, "\t", " "), "\n", " ")
	}
	cw.count("imp-via-cell:" + strings.SplitN(impl, " ", 2)[0])
	s := dynStr(v)
	cw.emit("imp "+prop+" "+f+" "+ty+" via the cell's UnmarshalJSON "+s, true, "imp", prop, f, ty, s, extStr(ext), impl)
}

// emitImpAfter: the same import into a cell (and row) that has just REJECTED something else (before, when not
// nil): a refused value leaves the cell as it was — declared format and raw type included.
func emitImpAfter(cw *caseWriter, prop, f, ty string, before []interface{}, v interface{}) {
	t := jsonline.NewTemplate().With("c", formatByName[f], nextSample(ty))
	ext := map[string]string{}
	extForValue(v, ext)
	if sv, ok := v.(string); ok {
		extForText(sv, ext)
	}
	if nv, ok := v.(json.Number); ok {
		extForText(string(nv), ext)
	}
	impl := "-"
	pan := guard(func() {
		if len(before) > 0 {
			// a sibling row of the same template gets Values of OTHER declarations imported into the column first
			guard(func() {
				sib := t.CreateRowEmpty()
				_ = sib.ImportAtKey("c", jsonline.NewValue("masked", jsonline.String, nil))
				_ = sib.ImportAtKey("c", jsonline.NewValue(1.5, jsonline.Auto, float32(0)))
				cl := jsonline.CloneRow(sib)
				_ = cl.ImportAtKey("c", jsonline.NewValue(true, jsonline.Boolean, nil))
				if cell, ok := sib.GetValue("c"); ok {
					_ = cell.Import(jsonline.NewValue("x", jsonline.Hidden, ""))
				}
			})
		}
		row := t.CreateRowEmpty()
		for i, b := range before {
			switch i % 3 {
			case 0:
				_ = row.ImportAtKey("c", b)
			case 1:
				if cell, ok := row.GetValue("c"); ok {
					_ = cell.Import(b)
				}
			default:
				if js, err := json.Marshal(map[string]interface{}{"c": b}); err == nil {
					_ = row.UnmarshalJSON(js)
				}
			}
		}
		if err := row.ImportAtKey("c", v); err != nil {
			impl = "err " + classify(err)
			// what the cell holds after the refusal (null), and what the row prints for it
			if left, ok := row.Get("c"); ok && left != nil {
				impl += " left=" + hxs(dynStr(left))
			}
			return
		}
		got, _ := row.Get("c")
		extForValue(got, ext)
		impl = "ok " + dynStr(got)
		if prop == "C11" {
			// what the column re-emits
			cv, _ := row.GetValue("c")
			if ex, eerr := cv.Export(); eerr == nil {
				impl += " => " + dynStr(ex)
			} else {
				impl += " => ERR"
			}
		}
	})
	if pan != "" {
		impl = "panic " + strings.ReplaceAll(strings.ReplaceAll(pan, "\t", " "), "\n", " ")
	}
	cw.count("imp:" + f + ":" + strings.SplitN(impl, " ", 2)[0])
	s := dynStr(v)
	cw.emit("imp "+prop+" "+f+" "+ty+" "+s, true, "imp", prop, f, ty, s, extStr(ext), impl)
}

// impValues: what a column may be asked to import — every JSON scalar as the reader delivers it, arrays,
// and Go values handed through the API.
func impValues() []interface{} {
	return []interface{}{nil, true, false, json.Number("0"), json.Number("1"), json.Number("-1"), json.Number("300"), json.Number("1.5"), json.Number("1e40"),
		json.Number("9223372036854775808"), json.Number("1632518460"), "", "00", "-00", "+00", "000", json.Number("9007199254740993"), "abc", "12", "-7", "1.5", "true", "AQ==", "AAAAAAAAAAA=", "AQIDBA==", "2021-09-24",
		"2021-09-24T21:21:00Z", "2021-09-24T21:21:00+05:30", []interface{}{json.Number("1")}, []interface{}{}, map[string]interface{}{"a": json.Number("1")},
		int(7), int8(-3), uint16(65535), int64(math.MinInt64), uint64(math.MaxUint64), float64(1.5), float32(2), float64(1e300), math.NaN(), []byte{1}, []byte{1, 2, 3, 4, 5, 6, 7, 8},
		[]byte("12"), time.Unix(1632518460, 0).UTC(), struct{ A int }{1}, (*int)(nil),
		// a nested object as the reader of a row delivers it (a Row): a column declared with a raw type holds a value
		// of that type or null afterwards, as with any other input
		jsonline.NewRow(), rowOf("a", json.Number("1"), "b", "x")}
}

func rowOf(kv ...interface{}) jsonline.Row {
	r := jsonline.NewRow()
	for i := 0; i+1 < len(kv); i += 2 {
		r.Set(kv[i].(string), kv[i+1])
	}
	return r
}

func defaultTyOf(f string) string {
	switch f {
	case "string":
		return "str"
	case "numeric":
		return "num"
	case "boolean":
		return "bool"
	case "binary":
		return "bytes"
	case "datetime":
		return "time"
	case "timestamp":
		return "i64"
	}
	return "str"
}

func genC13(cw *caseWriter, seed uint64, tier string) {
	r := newRng(seed)
	n := 6
	if tier == "thorough" {
		n = 300
	}
	// the documented package variable cast.TimeStringFormat set by the program to other layouts that lose nothing at
	// one second (date, time of day and numeric offset all there): the time columns of the lossless table still give
	// back what they were given — whatever is written with the layout is read with the layout
	for _, layout := range []string{"2006-01-02 15:04:05Z07:00", time.RFC1123Z, "02/01/2006 15:04:05 -0700", "20060102T150405Z0700"} {
		saved := cast.TimeStringFormat
		cast.TimeStringFormat = layout
		// (auto x time.Time is left out: an Auto column hands the time.Time to encoding/json, which always writes
		// RFC 3339, while reading it back goes through the layout — with another layout set, that pairing is lossless
		// on the unchanged tree only under the pinned layout; DESIGN §10)
		for _, pr := range [][2]string{{"datetime", "time"}, {"datetime", "none"}, {"string", "time"}} {
			for _, v := range valuesOfTy(r, "time", n) {
				emitTyped(cw, pr[0], pr[1], v)
			}
		}
		cast.TimeStringFormat = saved
	}
	keptExporters = map[string]*keptExporter{}
	// several typed columns in one line, one of which refuses its value, through the STREAMER under a processor that
	// carries on (what jl does): the refused line has no output — the other typed columns of that line are not
	// written as null, the lines around it are written as they are
	for _, ty := range []string{"i64", "i8", "f64", "time", "bool"} {
		cols := []colDesc{{name: "a", format: "numeric", ty: ty}, {name: "b", format: "numeric", ty: "i64"}, {name: "c", format: "string", ty: "i16"}}
		data := []byte("{\"a\":1,\"b\":2,\"c\":\"3\"}\n{\"a\":\"x\",\"b\":2,\"c\":\"3\"}\n{\"a\":1,\"b\":\"y\",\"c\":\"3\"}\n{\"a\":1,\"b\":2,\"c\":\"70000\"}\n{\"b\":9223372036854775807}\n")
		emitStream(cw, "C13", cols, cols, "tolerant", chunk(data, []int{1 << 20}), nil, data, true)
		emitStream(cw, "C13", cols, cols, "default", chunk(data, []int{7}), nil, data, true)
	}
	for _, f := range fmtNames {
		for _, ty := range tyNames {
			if f == "hidden" {
				continue
			}
			vt := ty
			if ty == "none" {
				vt = defaultTyOf(f)
				if f == "auto" {
					for _, v := range []interface{}{nil, true, json.Number("1.50"), "s", "é"} {
						emitTyped(cw, f, ty, v)
					}
					continue
				}
			}
			vals := valuesOfTy(r, vt, n)
			for _, v := range vals {
				emitTyped(cw, f, ty, v)
			}
			// the same values through one exporter and one importer, the rows held until the end
			t := jsonline.NewTemplate().With("c", formatByName[f], nextSample(ty))
			var buf bytes.Buffer
			exp := t.GetExporter(&buf)
			// a null first: a cell that is still nil when later lines are read must stay nil
			vals = append([]interface{}{nil}, vals...)
			var written []int
			for i, v := range vals {
				before := buf.Len()
				if err := exp.Export(map[string]interface{}{"c": v}); err == nil && buf.Len() > before {
					written = append(written, i)
				} else {
					buf.Truncate(before)
				}
			}
			imp := t.GetImporter(&buf)
			var held []jsonline.Row
			var herr []error
			for range written {
				row, err := imp.ReadOne()
				held = append(held, row)
				herr = append(herr, err)
			}
			for k, i := range written {
				bb := "err " + classifyLine(herr[k])
				if herr[k] == nil && held[k] != nil {
					got, _ := held[k].Get("c")
					bb = "ok " + dynStr(got)
				}
				emitTypedWith(cw, f, ty, vals[i], bb)
			}
		}
	}
}

// ---- C05 -------------------------------------------------------------------------------------

var selfReadable = map[string][]string{
	"string":    {"none", "int", "i64", "i32", "i16", "i8", "uint", "u64", "u32", "u16", "u8", "f64", "f32", "bool", "str", "time", "num"},
	"numeric":   {"none", "int", "i64", "i32", "i16", "i8", "uint", "u64", "u32", "u16", "u8", "f64", "f32", "bool", "time", "num", "str", "bytes"},
	"boolean":   {"none", "int", "i64", "i32", "i16", "i8", "uint", "u64", "u32", "u16", "u8", "f64", "f32", "bool", "str", "bytes", "time", "num"},
	"binary":    {"none", "int", "i64", "i32", "i16", "i8", "uint", "u64", "u32", "u16", "u8", "f64", "f32", "bool", "str", "bytes", "time", "num"},
	"date":      {"none", "str", "bytes", "num"},
	"datetime":  {"none", "time", "str", "bytes"},
	"timestamp": {"none", "int", "i64", "i32", "i16", "i8", "uint", "u64", "u32", "u16", "u8", "bool", "time", "f64", "f32", "num"},
	"auto":      {"none", "int", "i64", "i32", "i16", "i8", "uint", "u64", "u32", "u16", "u8", "f64", "f32", "bool", "str", "time", "num"},
	"hidden":    {"none", "int", "str", "bytes", "time"},
}

func selfReadableCols(r *rng, depth int) []colDesc {
	names := []string{"a", "b", "c", "d", "e", "zz", "aa"}
	if r.chance(1, 5) {
		// names a writer must escape the JSON way for the line to be read back: DEL, a non-printable astral code point,
		// a control character, characters HTML-escaping touches
		names[r.intn(3)] = pick(r, []string{"k\x7f", "\U000e0001z", "a\x07b", "<&>", "q\"\\"})
	}
	n := 1 + r.intn(5)
	var cols []colDesc
	for i := 0; i < n; i++ {
		f := pick(r, fmtNames)
		cols = append(cols, colDesc{name: names[i], format: f, ty: pick(r, selfReadable[f])})
	}
	return cols
}

var c05Values = []string{`null`, `true`, `false`, `0`, `-62135596800`, `"0001-01-01T00:00:00Z"`, `-0`, `-0.0`, `"-0.0"`, `-0e0`, `"-0"`, `-1e-400`, `1`, `-1`, `12`, `1.5`, `255`, `-129`, `65536`, `1e2`, `1632518460`, `253402214400`, `0.10`, `9223372036854775807`,
	`""`, `"a"`, `"12"`, `"-1"`, `"1.5"`, `"true"`, `"2021-09-24"`, `"2021-09-24T21:21:00Z"`, `"2021-09-24T21:21:00+02:00"`, `"2021-09-24T21:21:00.5-03:30"`, `"2021-09-24T01:30:00+24:60"`, `"1632518460"`,
	`"AQ=="`, `"AQAAAA=="`, `"AQAAAAAAAAA="`, `"aGVsbG8="`, `"aGVsbG9="`, `"MTI="`, `"é😀"`, `"\n\"\\"`, `[]`, `[1,{"q":1,"b":2}]`, `{"q":1,"b":2}`}

// valueFor picks a JSON value that the column's input format (and the output format) will
// mostly accept: a differential check sees little if most lines are rejected.
// longBase64: the canonical base64 text of 5000 bytes (beyond any 4 KiB block size), as a JSON string
var longBase64 = func() string {
	b := make([]byte, 5000)
	for i := range b {
		b[i] = byte(i * 7)
	}
	return `"` + base64.StdEncoding.EncodeToString(b) + `"`
}()

func valueFor(r *rng, in, out colDesc) string {
	if r.chance(1, 7) {
		return pick(r, c05Values)
	}
	f := out.format
	if in.format != "auto" && in.format != "hidden" && r.chance(1, 2) {
		f = in.format
	}
	switch f {
	case "numeric", "timestamp":
		if in.ty == "time" || out.ty == "time" || in.format == "date" || in.format == "datetime" || out.format == "date" || out.format == "datetime" {
			// instants stay within years 0..9999 (the property's domain)
			return pick(r, []string{`0`, `1`, `-1`, `12`, `255`, `100`, `1632518460`, `"12"`, `"1"`, `7`, `127`, `null`, `253402300799`})
		}
		return pick(r, []string{`0`, `1`, `-1`, `12`, `255`, `100`, `1632518460`, `"12"`, `"1"`, `7`, `127`, `null`,
			// integers that no float64 carries exactly, and the 64-bit bounds
			`7.0385307e-26`, `7.038531e-26`, `-7.0385307e-26`, `9007199254740993`, `1632823189123456789`, `9223372036854775807`, `-9223372036854775808`, `-9007199254740993`, `18446744073709551615`, `253402300799`, `1.5`, `1e3`})
	case "boolean":
		return pick(r, []string{`true`, `false`, `0`, `1`, `"true"`, `"false"`, `null`})
	case "binary":
		return pick(r, []string{`"AQ=="`, `"AQAAAA=="`, `"AQAAAAAAAAA="`, `"aGVsbG8="`, `"MTI="`, `"AAE="`, `null`,
			// valid but non-canonical base64, base64 of base64, the float32 whose shortest text double-rounds
			`"QR=="`, `"WVdKalpBPT0="`, `"YWJjZA=="`, `"/UOuFQ=="`, longBase64,
			// canonical base64 texts that look like something else (a hex literal, a number, a keyword, a date), and the empty payload
			`"0xC0FFEE"`, `"0xAB"`, `"0XFF"`, `"1234"`, `"12345678"`, `"true"`, `"null"`, `"TRUE"`, `"Infinity"`, `"2021"`, `"20210924"`, `"abcd"`, `"1e10"`, `"+Inf"`, `"0b11"`, `""`,
			// base64 broken over lines (the decoder skips CR and LF): the payload arrives whatever else the text could be taken for
			`"0xC0\nFFEE"`, `"0xAB\r\n"`, `"AQAA\r\nAA=="`, `"1234\n5678"`, `"dHJ1\nZQ=="`, `"\nAQ=="`, `"MjAyMS0w\nOS0yNA=="`})
	case "date":
		return pick(r, []string{`"2021-09-24"`, `"0001-01-01"`, `"9999-12-31"`, `1632518460`, `"2021-09-24T21:21:00Z"`, `null`})
	case "datetime":
		return pick(r, []string{`"2021-09-24T21:21:00Z"`, `"2021-09-24T21:21:00+02:00"`, `"2021-09-24T21:21:00.5-03:30"`, `1632518460`, `0`, `"1632518460"`, `"2021-03-28T02:30:00+01:00"`, `null`})
	case "string":
		return pick(r, []string{`"a"`, `"12"`, `"true"`, `12`, `1.5`, `true`, `"2021-09-24T21:21:00Z"`, `"é😀"`, `""`, `null`, `"1"`,
			// a literal backslash in front of text that looks like an escape (doubly encoded JSON, a Windows path)
			`"\\u003c"`, `"a\\u0026b"`, `"C:\\users\\u003eco"`, `"\\n"`, `"<\\u003c>"`,
			// texts that look like something else
			`"0x10"`, `"1e5"`, `"Infinity"`, `"NaN"`, `"null"`, `" 12"`, `"+5"`, `"1_000"`, `"abcd"`, `"AQ=="`, `"2021-09-24"`, `"0xC0FFEE"`})
	}
	return pick(r, c05Values)
}

func emitTwice(cw *caseWriter, zone string, ti, to []colDesc, line []byte) {
	w, err, pan := runLineD(ti, to, line)
	first := lineOutcome(w, err, pan)
	second := "-"
	ext := map[string]string{}
	extForJSON(line, ext)
	if err == nil && pan == "" {
		out := w.all()
		if len(out) > 0 && out[len(out)-1] == '\n' {
			extForJSON(out[:len(out)-1], ext)
			w2, err2, pan2 := runLineD(to, to, out[:len(out)-1])
			second = lineOutcome(w2, err2, pan2)
			// the second pass again, reading the emitted line into a row that has just held ANOTHER line with the same
			// member names (every nested object given one more member): what the row held before leaves no trace
			if strings.HasPrefix(second, "ok ") {
				other := bytes.ReplaceAll(bytes.ReplaceAll(out[:len(out)-1], []byte(`:{`), []byte(`:{"zzextra":1,`)), []byte(`"zzextra":1,}`), []byte(`"zzextra":1}`))
				if json.Valid(other) && !bytes.Equal(other, out[:len(out)-1]) {
					w3 := &recWriter{failAt: -1}
					var err3 error
					okRead := false
					pan3 := guard(func() {
						t2 := buildTemplate(to)
						row := t2.CreateRowEmpty()
						if row.UnmarshalJSON(other) != nil {
							return
						}
						okRead = true
						if err3 = row.UnmarshalJSON(out[:len(out)-1]); err3 != nil {
							return
						}
						err3 = t2.GetExporter(w3).Export(row)
					})
					if okRead || pan3 != "" {
						if third := lineOutcome(w3, err3, pan3); third != second {
							second = third
						}
					}
				}
			}
		}
	}
	// attribution hint computed on the implementation: did the exporter's NewValue keep a raw value that
	// cast.To(raw type of the output column, raw) rejects (finding swallowed-cast)? Used by the driver only
	// when the model itself cannot compute the line.
	sw := 0
	guard(func() {
		imp := buildTemplate(ti).GetImporter(bytes.NewReader(append(append([]byte{}, line...), '\n')))
		if !imp.Import() {
			return
		}
		row, gerr := imp.GetRow()
		if gerr != nil || row == nil {
			return
		}
		for _, c := range to {
			if c.isSub || c.ty == "none" {
				continue
			}
			if raw, ok := row.Get(c.name); ok && raw != nil {
				if _, cerr := cast.To(tySample[c.ty], raw); cerr != nil {
					sw = 1
				}
			}
		}
	})
	cw.count("twice:" + strings.SplitN(first, " ", 2)[0])
	cw.emit("twice "+zone+descStr(ti)+descStr(to)+string(line), strings.HasPrefix(first, "ok"), "twice", "C05", zone, descStr(ti), descStr(to), hxs(string(line)), extStr(ext), first, second, fmt.Sprintf("sw=%d", sw))
}

func genC05(cw *caseWriter, seed uint64, tier string) {
	r := newRng(seed)
	saved := time.Local
	defer func() { time.Local = saved }()
	n := 1500
	if tier == "thorough" {
		n = 40000
	}
	for _, z := range zones() {
		time.Local = z.loc
		for i := 0; i < n; i++ {
			to := selfReadableCols(r, 0)
			ti := to
			if r.chance(2, 3) {
				ti = make([]colDesc, len(to))
				for j, c := range to {
					ti[j] = colDesc{name: c.name, format: pick(r, fmtNames), ty: "none"}
					if r.chance(1, 3) {
						ti[j].ty = pick(r, tyNames)
					}
					if r.chance(1, 3) {
						ti[j].format = "auto"
					}
				}
			}
			var parts []string
			for j, c := range to {
				if r.chance(1, 8) {
					continue
				}
				parts = append(parts, fmt.Sprintf("%q:%s", c.name, valueFor(r, ti[j], c)))
			}
			if r.chance(1, 3) {
				parts = append(parts, `"x":`+pick(r, c05Values))
			}
			emitTwice(cw, z.name, ti, to, []byte("{"+strings.Join(parts, ",")+"}"))
		}
		if z.name != "UTC" {
			continue
		}
		// lines that GROW on the way out (six-byte escapes of <, > and &; null columns added; base64) past the sizes a
		// reader might stop at (4 KiB, 64 KiB, 1 MiB): what was written is still read back and written again
		cols := []colDesc{{name: "id", format: "numeric", ty: "none"}, {name: "html", format: "string", ty: "none"}, {name: "b", format: "binary", ty: "none"}, {name: "late", format: "string", ty: "none"}}
		for _, reps := range []int{700, 9000, 150000} {
			if reps > 9000 && tier != "thorough" {
				continue
			}
			emitTwice(cw, z.name, cols, cols, []byte(`{"id":1,"html":"`+strings.Repeat("<br>", reps)+`"}`))
			emitTwice(cw, z.name, []colDesc{{name: "id", format: "numeric", ty: "none"}, {name: "html", format: "auto", ty: "none"}}, cols, []byte(`{"id":2,"html":"`+strings.Repeat("&", reps*4)+`"}`))
		}
	}
}
