package main

import (
	"bufio"
	"encoding/json"
	"errors"
	"fmt"
	"io"
	"os"
	"sort"
	"strings"

	"context"
	"github.com/cgi-fr/jsonline/pkg/cast"
	"github.com/cgi-fr/jsonline/pkg/jsonline"
	"net"
	"syscall"
)

// rng is splitmix64: every random choice of a run derives from VERIF_SEED through it.
type rng struct{ s uint64 }

func newRng(seed uint64) *rng { return &rng{s: seed*0x9E3779B97F4A7C15 + 0x1234567} }

func (r *rng) u64() uint64 {
	r.s += 0x9E3779B97F4A7C15
	z := r.s
	z = (z ^ (z >> 30)) * 0xBF58476D1CE4E5B9
	z = (z ^ (z >> 27)) * 0x94D049BB133111EB
	return z ^ (z >> 31)
}

func (r *rng) intn(n int) int {
	if n <= 0 {
		return 0
	}
	return int(r.u64() % uint64(n))
}

func (r *rng) chance(num, den int) bool { return r.intn(den) < num }

// perm returns a random permutation of 0..n-1.
func (r *rng) perm(n int) []int {
	p := make([]int, n)
	for i := range p {
		p[i] = i
	}
	for i := n - 1; i > 0; i-- {
		j := r.intn(i + 1)
		p[i], p[j] = p[j], p[i]
	}
	return p
}

func pick[T any](r *rng, xs []T) T { return xs[r.intn(len(xs))] }

// classify maps an error to the model's ErrClass names; "other" when nothing is recognised.
func classify(err error) string {
	var syn *json.SyntaxError
	var merr *json.MarshalerError
	var uerr *json.UnsupportedValueError
	var uterr *json.UnsupportedTypeError
	switch {
	case err == nil:
		return "-"
	case errors.Is(err, errInjected):
		return "io"
	case errors.Is(err, jsonline.ErrUnsupportedImportType):
		return "unsupported-import"
	case errors.Is(err, jsonline.ErrUnsupportedExportType):
		return "unsupported-export"
	case errors.Is(err, jsonline.ErrUnsupportedFormat):
		return "unsupported-format"
	case errors.Is(err, jsonline.ErrPathNotFound):
		return "path-not-found"
	case errors.Is(err, cast.ErrUnableToCast):
		return "cast"
	case errors.Is(err, bufio.ErrTooLong):
		return "too-long"
	case errors.As(err, &merr), errors.As(err, &uerr), errors.As(err, &uterr):
		return "marshal"
	case errors.As(err, &syn), errors.Is(err, io.ErrUnexpectedEOF), errors.Is(err, io.EOF):
		return "syntax"
	}
	return "other"
}

var errInjected = errors.New("injected I/O fault")

// faultErr is an injected I/O fault that is ALSO one of the errors real readers and writers answer with (a closed
// file, pipe or connection, a broken pipe, a reset connection, a cancelled context, a deadline, an unexpected end):
// errors.Is finds both. Whatever its kind, a failed read or write is a failure to report.
type faultErr struct{ also error }

func (e faultErr) Error() string { return "injected I/O fault: " + e.also.Error() }
func (e faultErr) Is(t error) bool {
	return t == errInjected || errors.Is(e.also, t)
}

// Temporary / Timeout: what the wrapped error says of itself (net.Error style)
func (e faultErr) Temporary() bool {
	t, ok := e.also.(interface{ Temporary() bool })
	return ok && t.Temporary()
}
func (e faultErr) Timeout() bool {
	t, ok := e.also.(interface{ Timeout() bool })
	return ok && t.Timeout()
}
func (e faultErr) Unwrap() error { return e.also }

var faultKinds = []error{nil, os.ErrClosed, io.ErrClosedPipe, net.ErrClosed, syscall.EPIPE, syscall.ECONNRESET, context.Canceled, os.ErrDeadlineExceeded, io.ErrUnexpectedEOF, nil,
	// errors that call themselves temporary (Temporary() / Timeout() true): a failed read is a failed read
	syscall.EAGAIN, syscall.EINTR, syscall.ETIMEDOUT}
var faultCount int

// nextFault: the error the next faulty reader or writer will answer with — the plain injected fault, or one that
// also is a well-known error of the standard library, in turn.
func nextFault() error {
	faultCount++
	k := faultKinds[faultCount%len(faultKinds)]
	if k == nil {
		return errInjected
	}
	return faultErr{also: k}
}

// caseWriter writes protocol lines and keeps the statistics the evidence reports.
type caseWriter struct {
	w        *bufio.Writer
	n        int
	distinct map[string]struct{}
	nontriv  int
	samples  []string
	long     []string
	hist     map[string]int
	extra    map[string]interface{}
	written  int
	only     int // when > 0: write only the case with this 1-based number (replay)
}

func newCaseWriter(path string) (*caseWriter, func()) {
	f, err := os.Create(path)
	if err != nil {
		panic(err)
	}
	cw := &caseWriter{w: bufio.NewWriterSize(f, 1<<20), distinct: map[string]struct{}{}, hist: map[string]int{}, extra: map[string]interface{}{}}
	return cw, func() { cw.w.Flush(); f.Close() }
}

// emit writes one case: tab-separated fields. key identifies the case for distinctness;
// nontrivial says whether it counts as non-trivial by the property's rule.
func (c *caseWriter) emit(key string, nontrivial bool, fields ...string) {
	c.n++
	for i, f := range fields {
		if strings.ContainsAny(f, "\t\n") {
			panic(fmt.Sprintf("field %d contains separator: %q", i, f))
		}
	}
	line := strings.Join(fields, "\t")
	if c.only > 0 && c.n != c.only {
		return
	}
	c.written++
	c.w.WriteString(line)
	c.w.WriteByte('\n')
	if _, seen := c.distinct[key]; !seen {
		c.distinct[key] = struct{}{}
		if nontrivial {
			c.nontriv++
		}
		if len(c.samples) < 5 && nontrivial && len(line) < 600 {
			c.samples = append(c.samples, line)
		} else if len(c.long) < 2 && nontrivial {
			// long cases are sampled truncated so that the evidence always shows what a case looks like
			c.long = append(c.long, line[:min(len(line), 900)]+" …[truncated]")
		}
	}
}

func (c *caseWriter) count(bucket string) { c.hist[bucket]++ }

func (c *caseWriter) writeStats(path string) {
	type kv struct {
		K string
		V int
	}
	keys := make([]string, 0, len(c.hist))
	for k := range c.hist {
		keys = append(keys, k)
	}
	sort.Strings(keys)
	dist := map[string]int{}
	for _, k := range keys {
		dist[k] = c.hist[k]
	}
	if len(c.samples) == 0 {
		c.samples = append(c.samples, c.long...)
	}
	if c.samples == nil {
		c.samples = []string{}
	}
	out := map[string]interface{}{
		"evaluations":         c.written,
		"distinct":            len(c.distinct),
		"distinct_nontrivial": c.nontriv,
		"samples":             c.samples,
		"distribution":        dist,
	}
	for k, v := range c.extra {
		out[k] = v
	}
	b, _ := json.MarshalIndent(out, "", " ")
	if err := os.WriteFile(path, b, 0o644); err != nil {
		panic(err)
	}
}

// guard runs f and converts a panic into a string ("" when none).
func guard(f func()) (p string) {
	defer func() {
		if r := recover(); r != nil {
			p = fmt.Sprintf("%v", r)
		}
	}()
	f()
	return ""
}

func sortStrings(xs []string) { sort.Strings(xs) }
