package main

// Path cases (C18) and panic probes (C17).
//
//	path  \t C18 \t <row as Val> \t get|find \t <hex path> \t - \t <ext> \t <impl>
//	path  \t C18 \t <row as Val> \t import  \t <hex path> \t <Dyn> \t <ext> \t <impl>
//	probe \t C17 \t <op description> \t <impl: ok … | panic …>
//
// impl (get):    v=<Val|-> raw=<Dyn|->
// impl (find):   <n> <Val>…  | absent
// impl (import): e=<class|-> row=<Val>

import (
	"bytes"
	"database/sql"
	"encoding/json"
	"errors"
	"fmt"
	"io"
	"math"
	"math/big"
	"os"
	"reflect"
	"strings"
	"time"

	"github.com/cgi-fr/jsonline/pkg/jsonline"
)

// docs: the same documents given as JSON text and as the equivalent programmatic construction.
func pathDocs() []func() jsonline.Row {
	parse := func(s string) func() jsonline.Row {
		return func() jsonline.Row {
			r := jsonline.NewRow()
			if err := r.UnmarshalJSON([]byte(s)); err != nil {
				panic(err)
			}
			return r
		}
	}
	sub := func(kv ...interface{}) jsonline.Row {
		r := jsonline.NewRow()
		for i := 0; i+1 < len(kv); i += 2 {
			r.Set(kv[i].(string), kv[i+1])
		}
		return r
	}
	return []func() jsonline.Row{
		parse(`{"a":{"b":{"c":1,"d":null},"e":[{"f":1,"g":{"h":2}},{"f":2},3,{"x":1},[{"f":9}]]},"s":1,"n":null,"":{"":5},"arr":[{"k":{"v":1}},{"k":{"v":2}},{"k":3}],"deep":{"l1":{"l2":{"l3":{"l4":{"l5":"bottom"}}}}}}`),
		func() jsonline.Row {
			return sub("a", sub("b", sub("c", json.Number("1"), "d", nil), "e", []interface{}{sub("f", json.Number("1"), "g", sub("h", json.Number("2"))), sub("f", json.Number("2")), json.Number("3"), sub("x", json.Number("1")), []interface{}{sub("f", json.Number("9"))}}),
				"s", json.Number("1"), "n", nil, "", sub("", json.Number("5")),
				"arr", []interface{}{sub("k", sub("v", json.Number("1"))), sub("k", sub("v", json.Number("2"))), sub("k", json.Number("3"))},
				"deep", sub("l1", sub("l2", sub("l3", sub("l4", sub("l5", "bottom"))))))
		},
		parse(`{}`),
		parse(`{"a":1}`),
		// literal names that CONTAIN dots and spell the tail (or the whole) of a path into real nested members: such a
		// name is not addressable by a dotted path, the nested chain is
		parse(`{"a":{"b":{"c":1,"d":null},"b.c":"flat-bc","e":[{"f":1,"f.g":"flat"}]},"a.b.c":"flat-abc","a.b":"flat-ab","s":1,"arr":[{"k":{"v":1},"k.v":"flat"}],"arr.k":"flat","deep":{"l1":{"l2":{"l3":"x"}},"l1.l2.l3":"flat"}}`),
		// nested objects held as Go maps (Set / Import / CreateRow given a map): not rows, so a path stops there
		func() jsonline.Row {
			return sub("m", map[string]interface{}{"p": json.Number("1"), "q": map[string]interface{}{"r": json.Number("2")}}, "a", sub("b", map[string]interface{}{"c": json.Number("3")}), "s", json.Number("1"))
		},
		// arrays that do not start with an object: null, a scalar, a nested array first
		parse(`{"a":[null,{"b":1},{"b":2}],"arr":[7,{"k":{"v":1}},"x",{"k":{"v":2}}],"e":[[{"f":0}],{"f":3},null,{"f":{"g":4}}],"s":[true],"n":[null]}`),
		// a long array (longer than any path): objects, scalars, nulls, nested arrays and objects lacking the key
		parse(`{"a":[` + strings.Repeat(`{"b":1},7,null,{"b":{"c":2}},{"x":0},[{"b":3}],`, 6) + `{"b":"last"}],"arr":{"k":[` + strings.Repeat(`{"v":[{"w":1},{"w":2}]},`, 5) + `{"v":3}]}}`),
		func() jsonline.Row {
			// mixed: a built row holding a parsed row holding a built value
			inner := jsonline.NewRow()
			_ = inner.UnmarshalJSON([]byte(`{"p":{"q":[{"r":1},{"r":{"s":2}}]}}`))
			return sub("m", inner, "v", jsonline.NewValueAuto(sub("w", 1)), "t", jsonline.NewValue(nil, jsonline.Numeric, int64(0)))
		},
	}
}

var pathKeys = []string{"a", "b", "c", "d", "e", "f", "g", "h", "s", "n", "", "arr", "k", "v", "x", "deep", "l1", "l2", "l3", "l4", "l5", "m", "p", "q", "r", "w", "t", "zz"}

func emitPath(cw *caseWriter, mk func() jsonline.Row, op, path string, val func() interface{}) {
	emitPathAs(cw, mk, nil, op, path, val)
}

// emitPathAs: with `intended` set, the operation runs on the row `mk` builds, while the document handed to the model
// and to the oracle is the row `intended` builds — the row a sequence of stores is MEANT to leave (each key holding
// what was stored under it last), reached in `mk` through a longer history of the same row.
func emitPathAs(cw *caseWriter, mk func() jsonline.Row, intended func() jsonline.Row, op, path string, val func() interface{}) {
	row := mk()
	before := valStr(row)
	if intended != nil {
		// judged against the PRINTED intended document: what is found, printed, must be what key-by-key navigation
		// of that document finds (representation — a row held bare or inside an Auto cell — does not matter there)
		if op != "get" {
			return
		}
		var doc, obs string
		if p := guard(func() {
			doc = intended().String()
			v, ok := row.GetValueAtPath(path)
			switch {
			case !ok:
				obs = "absent"
			default:
				if b, err := v.MarshalJSON(); err == nil {
					obs = "found " + hxs(string(b))
				} else {
					obs = "unprintable"
				}
			}
		}); p != "" {
			obs = "panic " + strings.ReplaceAll(strings.ReplaceAll(p, "\t", " "), "\n", " ")
		}
		cw.count("pathdoc-intended:" + strings.SplitN(obs, " ", 2)[0])
		cw.emit("pathdoc intended "+doc+" "+path, true, "pathdoc", "C18", hxs(doc), hxs(path), obs)
		return
	}
	var impl string
	valS := "-"
	ext := map[string]string{}
	pan := guard(func() {
		switch op {
		case "get":
			v, ok := row.GetValueAtPath(path)
			raw, ok2 := row.GetAtPath(path)
			vs, rs := "-", "-"
			if ok {
				vs = valStr(v)
			}
			if ok2 {
				rs = dynStr(raw)
			}
			impl = "v=" + vs + " | raw=" + rs
		case "find":
			vs, ok := row.FindValuesAtPath(path)
			if !ok {
				impl = "absent"
				return
			}
			parts := make([]string, len(vs))
			for i, v := range vs {
				parts[i] = valStr(v)
			}
			impl = fmt.Sprintf("%d", len(vs))
			if len(parts) > 0 {
				impl += " | " + strings.Join(parts, " | ")
			}
		case "import":
			x := val()
			valS = dynStr(x)
			extForValue(x, ext)
			err := row.ImportAtPath(path, x)
			impl = "e=" + errClass(err) + " | row=" + valStr(row)
		}
	})
	if pan != "" {
		impl = "panic " + strings.ReplaceAll(strings.ReplaceAll(pan, "\t", " "), "\n", " ")
	}
	cw.count("path:" + op)
	cw.emit("path "+before+" "+op+" "+path+" "+valS, true, "path", "C18", before, op, hxs(path), valS, extStr(ext), impl)
	if op == "get" && pan == "" && intended == nil && !strings.Contains(" "+before, " M") {
		// the same lookup against the document as the row PRINTS it (rows holding Go maps apart: a Go map is printed
		// as an object but is not a row one can navigate key by key)
		var doc, obs string
		if p := guard(func() {
			doc = row.String()
			v, ok := row.GetValueAtPath(path)
			switch {
			case !ok:
				obs = "absent"
			default:
				if b, err := v.MarshalJSON(); err == nil {
					obs = "found " + hxs(string(b))
				} else {
					obs = "unprintable"
				}
			}
		}); p != "" {
			obs = "panic " + strings.ReplaceAll(strings.ReplaceAll(p, "\t", " "), "\n", " ")
		}
		cw.count("pathdoc:" + strings.SplitN(obs, " ", 2)[0])
		cw.emit("pathdoc "+doc+" "+path, true, "pathdoc", "C18", hxs(doc), hxs(path), obs)
	}
}

// takenFrom parses a document and returns the Value found at a path of it.
func takenFrom(doc, path string) interface{} {
	src := jsonline.NewRow()
	_ = src.UnmarshalJSON([]byte(doc))
	v, ok := src.GetValueAtPath(path)
	if !ok {
		return nil
	}
	return v
}

func genC18(cw *caseWriter, seed uint64, tier string) {
	// a slice of the template / row histories (refused imports included) under this property's name: declared columns keep
	// their declarations (harness/alias.go)
	genAliasHistories(cw, "C18", newRng(seed+1854), 60)
	r := newRng(seed)
	docs := pathDocs()
	// all paths up to 2 segments over the key alphabet (thorough: 3), plus hand-picked deep ones
	hand := []string{"a.b.c", "a.b.d", "a.b", "a", "a.b.c.x", "s.b.c", "s.x", "n.x", ".", "..", "a..b", "a.", ".a", "", "a.e", "a.e.f", "a.e.g.h", "a.e.x", "arr.k", "arr.k.v", "arr.zz", "deep.l1.l2.l3.l4.l5", "deep.l1.l2.l3.l4.l5.x",
		"deep.l1.zz.l3", "m.p.q", "m.p.q.r", "m.p.q.r.s", "v.w", "t", "t.x", "zz", "zz.a", "a.b.c.d.e.f"}
	for _, mk := range docs {
		for _, p := range hand {
			emitPath(cw, mk, "get", p, nil)
			emitPath(cw, mk, "find", p, nil)
		}
		for _, k1 := range pathKeys {
			emitPath(cw, mk, "get", k1, nil)
			emitPath(cw, mk, "find", k1, nil)
			for _, k2 := range pathKeys {
				emitPath(cw, mk, "get", k1+"."+k2, nil)
				emitPath(cw, mk, "find", k1+"."+k2, nil)
			}
		}
	}
	// a document BUILT key by key in which every key is stored twice: first something else (an object of another shape,
	// a scalar, a null, a Go map, an array), then what it is meant to hold — "lookups return the most recently stored
	// value": paths must find what key-by-key navigation of the intended document finds, nothing of what was replaced
	storeCount := 0
	twice := func(kv ...interface{}) jsonline.Row {
		rr := jsonline.NewRow()
		for i := 0; i+1 < len(kv); i += 2 {
			storeCount++
			old := jsonline.NewRow()
			old.Set("old", 1)
			gone := jsonline.NewRow()
			gone.Set("x", json.Number("2"))
			gone.Set("c", "stale")
			old.Set("b", gone)
			old.Set("k", gone)
			switch storeCount % 6 {
			case 0:
				rr.Set(kv[i].(string), old)
			case 1:
				rr.Set(kv[i].(string), "placeholder")
			case 2:
				rr.Set(kv[i].(string), nil)
			case 3:
				rr.Set(kv[i].(string), map[string]interface{}{"b": map[string]interface{}{"c": 0}})
			case 4:
				rr.Set(kv[i].(string), []interface{}{old})
			default:
				rr.SetValue(kv[i].(string), jsonline.NewValueAuto(old))
			}
			rr.Set(kv[i].(string), kv[i+1])
		}
		return rr
	}
	once := func(kv ...interface{}) jsonline.Row {
		rr := jsonline.NewRow()
		for i := 0; i+1 < len(kv); i += 2 {
			rr.Set(kv[i].(string), kv[i+1])
		}
		return rr
	}
	builtDoc := func(sub func(kv ...interface{}) jsonline.Row) func() jsonline.Row {
		return func() jsonline.Row {
			return sub("a", sub("b", sub("c", json.Number("1"), "d", nil), "e", []interface{}{sub("f", json.Number("1"), "g", sub("h", json.Number("2"))), sub("f", json.Number("2")), json.Number("3")}),
				"s", json.Number("1"), "n", nil, "", sub("", json.Number("5")),
				"arr", []interface{}{sub("k", sub("v", json.Number("1"))), sub("k", json.Number("3"))},
				"deep", sub("l1", sub("l2", sub("l3", "bottom"))))
		}
	}
	for _, p := range append(append([]string{}, hand...), "a.b.x", "a.b.c.stale", "a.old", "a.b.c", "arr.k.x", "deep.l1.old", "s.old", "n.b.c", ".old", "a.k", "deep.b.c") {
		emitPathAs(cw, builtDoc(twice), builtDoc(once), "get", p, nil)
		emitPathAs(cw, builtDoc(twice), builtDoc(once), "find", p, nil)
	}
	n := 3000
	if tier == "thorough" {
		n = 150000
	}
	vals := []func() interface{}{func() interface{} { return 7 }, func() interface{} { return "x" }, func() interface{} { return nil }, func() interface{} { return json.Number("2.5") },
		func() interface{} { return []interface{}{1} }, func() interface{} { return map[string]interface{}{"z": 1} }, func() interface{} { r := jsonline.NewRow(); r.Set("new", 1); return r },
		// Values taken out of another, PARSED row (an object, an array, a scalar, a null) and handed over as they are
		func() interface{} { return takenFrom(`{"obj":{"x":1,"y":{"z":[2,{"w":3}]}}}`, "obj") }, func() interface{} { return takenFrom(`{"obj":{"x":1,"y":{"z":2}}}`, "obj.y") },
		func() interface{} { return takenFrom(`{"arr":[1,{"k":2}]}`, "arr") }, func() interface{} { return takenFrom(`{"s":"text"}`, "s") }, func() interface{} { return takenFrom(`{"n":null}`, "n") },
		func() interface{} { return jsonline.NewValueAuto(takenFrom(`{"obj":{"x":1}}`, "obj")) }}
	for i := 0; i < n; i++ {
		mk := pick(r, docs)
		segs := 1 + r.intn(5)
		var ks []string
		for j := 0; j < segs; j++ {
			ks = append(ks, pick(r, pathKeys))
		}
		p := strings.Join(ks, ".")
		switch r.intn(3) {
		case 0:
			emitPath(cw, mk, "get", p, nil)
		case 1:
			emitPath(cw, mk, "find", p, nil)
		default:
			if r.chance(1, 2) {
				p = pick(r, hand)
			}
			emitPath(cw, mk, "import", p, pick(r, vals))
		}
		if r.chance(1, 5) {
			// a row that has been used before: read through paths, imported into at a path, grown, cloned — and then
			// read (or imported into) again; the document handed to the model is the row as it stands after the earlier
			// operations, so anything the row remembers from them beyond its content shows as a difference
			q, v := pick(r, hand), pick(r, vals)
			how := r.intn(5)
			used := func() jsonline.Row {
				row := mk()
				guard(func() {
					switch how {
					case 0:
						_, _ = row.FindValuesAtPath(p)
						_, _ = row.GetValueAtPath(p)
						_, _ = row.FindValuesAtPath(q)
					case 1:
						_ = row.ImportAtPath(q, v())
					case 2:
						_ = row.ImportAtPath(p, v())
						_, _ = row.GetAtPath(p)
					case 3:
						row.Set("grown", v())
						_ = row.ImportAtKey("a", v())
					default:
						row = jsonline.CloneRow(row)
					}
				})
				return row
			}
			emitPath(cw, used, "get", p, nil)
			emitPath(cw, used, "find", p, nil)
			emitPath(cw, used, "find", q, nil)
			emitPath(cw, used, "import", q, pick(r, vals))
		}
	}
}

// ---- C17 -------------------------------------------------------------------------------------

type mapTarget struct {
	A string
	B int
	C float64
	D bool
	E []byte
	F uint8
	g int
	H *int
	I interface{}
	J time.Time
}

type wrongTarget struct {
	A int
	B string
	C bool
	D float64
	E string
	S string
	N int
}

func emitProbe(cw *caseWriter, what string, f func() string) {
	var res string
	pan := guard(func() { res = f() })
	impl := "ok " + res
	if pan != "" {
		impl = "panic " + strings.ReplaceAll(strings.ReplaceAll(pan, "\t", " "), "\n", " ")
		cw.count("probe:panic")
	} else {
		cw.count("probe:ok")
	}
	if len(impl) > 300 {
		impl = impl[:300]
	}
	cw.emit("probe "+what, true, "probe", "C17", what, impl)
}

// emitGetter: one typed getter on a row, compared with the model (value or zero value of the getter's type).
//
//	getter \t C17 \t <row Val> \t <getter> \t K:<hex key> \t <ext> \t <impl Dyn | panic …>
func emitGetter(cw *caseWriter, row jsonline.Row, getter, key string, call func(jsonline.Row) interface{}) {
	emitGetterFor(cw, "C17", row, getter, key, call)
}

func emitGetterFor(cw *caseWriter, prop string, row jsonline.Row, getter, key string, call func(jsonline.Row) interface{}) {
	ext := map[string]string{}
	extForValue(row, ext)
	if raw, ok := row.Get(key); ok {
		if sv, isStr := raw.(string); isStr {
			extForText(sv, ext)
		}
		if nv, isNum := raw.(json.Number); isNum {
			extForText(string(nv), ext)
		}
	}
	before := valStr(row)
	var res interface{}
	pan := guard(func() { res = call(row) })
	impl := ""
	if pan != "" {
		impl = "panic " + strings.ReplaceAll(strings.ReplaceAll(pan, "\t", " "), "\n", " ")
	} else {
		extForValue(res, ext)
		impl = dynStr(res)
	}
	cw.count("getter:" + getter)
	cw.emit("getter "+getter+" "+key+" "+before, true, "getter", prop, before, getter, "K:"+hx([]byte(key)), extStr(ext), impl)
}

// useRow calls the readers of a row (whatever it is) — for rows handed back together with an error.
func useRow(row jsonline.Row) string {
	if row == nil {
		return "nil"
	}
	_ = row.Len()
	_ = row.String()
	_ = row.DebugString()
	_, _ = row.Get("a")
	_ = row.GetOrNil("a")
	_ = row.Has("a")
	_, _ = row.GetAtIndex(0)
	_ = row.GetString("a")
	_ = row.Raw()
	_, _ = row.Export()
	_, _ = row.MarshalJSON()
	it := row.Iter()
	for _, _, ok := it(); ok; _, _, ok = it() {
	}
	return "used"
}

// c17EdgeTexts: texts on the edge of every parser a value can reach (numbers, booleans, dates, date-times, base64).
var c17EdgeTexts = []string{"", " ", "1e", "2.5E", "-0e", "1e+", "1e-", "1.", ".", "-", "+", "e", "E5", ".5", "-.5", "+5", "0x", "0x1p", "0x1p-2", "1_0", "_", "NaN", "nan", "Inf", "+Inf", "-inf", "Infinity",
	"1e999", "-1e999", "1e-999", "00", "-0", "9223372036854775808", "-9223372036854775809", "18446744073709551616", "99999999999999999999999999999999", "0.1e", "1E", "1ee1", "--1", "1-", "١٢",
	"t", "T", "TRUE", "tru", "f", "yes", "null", "nil",
	"2021-09-24", "2021-9-24", "2021-13-01", "2021-02-30", "0000-00-00", "-001-01-01", "10000-01-01", "2021-09-24T", "2021-09-24T21:21:00", "2021-09-24T21:21:00Z", "2021-09-24T21:21:00+", "2021-09-24T21:21:00+2", "2021-09-24T21:21:00+24:60",
	"2021-09-24T21:21:60Z", "2021-09-24T24:00:00Z", "2021-09-24T21:21:00.Z", "2021-09-24T21:21:00,5Z", "2021-09-24t21:21:00z", "T21:21:00Z", "Z", "+02:00",
	"=", "==", "A", "AA", "AAA", "A===", "AQ=", "AQ", "AQ==AQ==", "A Q==", "AQ==\n", "-_-_", "////", "!", "\x00", "\xff\xfe", "\u0000", "é", "\"", "\\", "{", "}", "[", "]", ",", ":"}

// c17Universe: Go values handed to the operations that take a value — every supported type at its edges, and
// types outside the supported set.
func c17Universe() []interface{} {
	type hidden struct {
		Name   string
		secret string
	}
	type withTime struct {
		At time.Time
		p  *int
	}
	n5 := 5
	str := "s"
	sub := jsonline.NewRow()
	sub.Set("x", 1)
	var nilRow jsonline.Row
	var nilVal jsonline.Value
	bigOf := func(s string) *big.Int { b, _ := new(big.Int).SetString(s, 10); return b }
	u := []interface{}{
		nil, 0, -1, 300, math.MinInt64, uint64(math.MaxUint64), int8(-128), uint8(255), int16(-32768), uint16(65535), int32(math.MinInt32), uint32(math.MaxUint32), int64(math.MaxInt64), uint(math.MaxUint64),
		0.0, math.Copysign(0, -1), 1.5, -2.5, 1e308, -1e308, 1e-320, math.NaN(), math.Inf(1), math.Inf(-1), float32(math.Inf(1)), float32(math.NaN()), float32(3.4e38), float32(1e-45), 1e19, -1e19, 9.3e18, 256.0, 255.9, -0.9,
		true, false, []byte(nil), []byte{}, []byte{0}, []byte{1, 0}, []byte{255, 255, 255, 255}, []byte{1, 2, 3, 4, 5, 6, 7, 8}, []byte{1, 2, 3, 4, 5, 6, 7, 8, 9}, []byte("12"), []byte("1e"), []byte("2021-09-24"), []byte("true"), []byte{0xff, 0xfe},
		time.Time{}, time.Unix(0, 0), time.Unix(-62135596801, 0), time.Unix(253402300800, 0), time.Unix(1<<62, 0), time.Unix(-(1 << 62), 0), time.Date(2021, 9, 24, 21, 21, 0, 5, time.FixedZone("", 100*3600)), time.Date(2021, 9, 24, 21, 21, 0, 0, time.FixedZone("", -23*3600-59*60-59)),
		[]interface{}{}, []interface{}(nil), []interface{}{1, "a", nil, []interface{}{2}}, map[string]interface{}{}, map[string]interface{}(nil), map[string]interface{}{"a": 1, "": nil, "s": map[string]interface{}{"x": []interface{}{1}}},
		sub, nilRow, nilVal, jsonline.NewValueAuto(nil), jsonline.NewValue("x", jsonline.Numeric, int8(0)), jsonline.NewValue(sub, jsonline.Auto, nil), jsonline.NewValue(1, jsonline.Format(42), nil), []interface{}{sub, jsonline.NewValueAuto(1)},
		hidden{"n", "s"}, &hidden{"n", "s"}, withTime{}, &withTime{}, struct{}{}, &struct{}{}, (*hidden)(nil), (*int)(nil), &n5, &str, [2]int{1, 2}, [0]byte{}, [3]byte{1, 2, 3}, []int{1}, []string{"a"}, map[int]string{1: "a"}, map[string]int{"a": 1},
		make(chan int), func() {}, complex(1, 2), uintptr(1), errors.New("e"), os.ErrNotExist, reflect.ValueOf(1), time.Duration(5), time.UTC, json.RawMessage("1"), json.RawMessage(nil), json.RawMessage("{"),
		bigOf("5"), bigOf("18446744073709551621"), big.NewFloat(1.5), big.NewRat(1, 3), myInt(3), myString("x"), myBytes{1}, myHash{1, 2, 3, 4}, sql.NullString{String: "x", Valid: true}, &bytes.Buffer{}, strings.NewReader("x"),
	}
	for _, txt := range c17EdgeTexts {
		u = append(u, txt, json.Number(txt))
	}
	return u
}

func genC17(cw *caseWriter, seed uint64, tier string) {
	r := newRng(seed)
	// streamers as they are built, with the processor left alone or set to nil, on inputs that end on a reader failure,
	// hold a refused line or nothing at all
	for _, how := range []string{"as built", "WithProcessor(nil)", "WithProcessor(DefaultProcessor)"} {
		for _, evs := range [][]readEv{{{kind: "d", data: []byte("{\"a\":1}\n{\"a\"")}, {kind: "e"}}, {{kind: "e"}}, {{kind: "d", data: []byte("{\"a\":1}\nnot json\n{\"a\":2}\n")}}, {}} {
			how, evs := how, evs
			emitProbe(cw, fmt.Sprintf("Stream with the processor %s on a reader script of %d events", how, len(evs)), func() string {
				var sink bytes.Buffer
				st := jsonline.NewStreamer(jsonline.NewImporter(&scriptReader{evs: evs}), jsonline.NewExporter(&sink))
				switch how {
				case "WithProcessor(nil)":
					st = st.WithProcessor(nil)
				case "WithProcessor(DefaultProcessor)":
					st = st.WithProcessor(jsonline.DefaultProcessor)
				}
				err := st.Stream()
				return fmt.Sprintf("err=%v out=%d", err != nil, sink.Len())
			})
		}
	}
	// values of every dynamic type the cast universe knows — named types, arrays of named bytes, typed nils, pointers,
	// composites — stored in a row and then read through every getter, exported under every format and handed to
	// every caster: whatever comes back, nothing panics
	for i, src := range c10Sources() {
		src := src
		emitProbe(cw, fmt.Sprintf("c10 source %d (%T) through getters, exports and casters", i, src), func() string {
			row := jsonline.NewRow()
			row.Set("v", src)
			_, _, _, _ = row.GetBytes("v"), row.GetString("v"), row.GetInt64("v"), row.GetTime("v")
			_, _, _, _ = row.GetFloat64("v"), row.GetBool("v"), row.GetUint8("v"), row.GetInt("v")
			for _, f := range []jsonline.Format{jsonline.String, jsonline.Numeric, jsonline.Boolean, jsonline.Binary, jsonline.Date, jsonline.DateTime, jsonline.Timestamp, jsonline.Auto} {
				_, _ = jsonline.NewValue(src, f, nil).Export()
				_, _ = jsonline.NewValue(src, f, nil).MarshalJSON()
				var sink bytes.Buffer
				_ = jsonline.NewTemplate().With("v", f, nil).GetExporter(&sink).Export(map[string]interface{}{"v": src})
			}
			for _, c := range allCasters {
				_, _ = casterFns[c](src)
			}
			return "done"
		})
	}
	// whatever an importer hands back for a bad line — (nil, err) or anything else — can be used without a crash
	badLines := []string{`}`, `]`, `,`, `:`, `}}`, ` }`, `"`, `\\`, "\x00", `{"a":`, `{"a":1} x`, `[1]`, ``, `{"a":"notanumber"}`, `{`, "{\"a\":1}\n{\"a\":\n{\"a\":3}"}
	for _, bl := range badLines {
		for _, typed := range []bool{false, true} {
			line, ty := bl, typed
			mkImp := func(rd io.Reader) jsonline.Importer {
				if ty {
					return jsonline.NewTemplate().WithNumeric("a").GetImporter(rd)
				}
				return jsonline.NewImporter(rd)
			}
			emitProbe(cw, fmt.Sprintf("GetRow after %q typed=%v, then use the row", bl, typed), func() string {
				imp := mkImp(strings.NewReader(line + "\n"))
				out := ""
				for imp.Import() {
					row, _ := imp.GetRow()
					out += useRow(row) + " "
				}
				row, _ := imp.GetRow()
				return out + useRow(row)
			})
			emitProbe(cw, fmt.Sprintf("ReadOne after %q typed=%v, then use the row", bl, typed), func() string {
				imp := mkImp(strings.NewReader(line + "\n"))
				out := ""
				for k := 0; k < 4; k++ {
					row, _ := imp.ReadOne()
					out += useRow(row) + " "
				}
				return out
			})
			emitProbe(cw, fmt.Sprintf("failing reader after %q typed=%v, then use the row", bl, typed), func() string {
				imp := mkImp(&scriptReader{evs: []readEv{{kind: "d", data: []byte(line)}, {kind: "e"}}})
				out := ""
				for imp.Import() {
					row, _ := imp.GetRow()
					out += useRow(row) + " "
				}
				row, _ := imp.GetRow()
				return out + useRow(row)
			})
			emitProbe(cw, fmt.Sprintf("Stream %q typed=%v with a processor that uses its row", bl, typed), func() string {
				var sink bytes.Buffer
				err := jsonline.NewStreamer(mkImp(strings.NewReader(line+"\n")), jsonline.NewExporter(&sink)).WithProcessor(func(row jsonline.Row, err error) error {
					if row != nil {
						useRow(row)
					}
					return nil
				}).Stream()
				return fmt.Sprintf("%v", err == nil)
			})
		}
	}
	// positional access before and after the row grew through every mutator
	growers := map[string]func(jsonline.Row){
		"UnmarshalJSON": func(rr jsonline.Row) { _ = rr.UnmarshalJSON([]byte(`{"n1":1,"n2":{"x":2}}`)) },
		"Set":           func(rr jsonline.Row) { rr.Set("n1", 1) },
		"SetValue":      func(rr jsonline.Row) { rr.SetValue("n1", jsonline.NewValueAuto(1)) },
		"ImportAtKey":   func(rr jsonline.Row) { _ = rr.ImportAtKey("n1", 1) },
		"Import(map)":   func(rr jsonline.Row) { _ = rr.Import(map[string]interface{}{"n1": 1}) },
		"bad Unmarshal": func(rr jsonline.Row) { _ = rr.UnmarshalJSON([]byte(`{"n1":1,"n2":]}`)) },
	}
	for gname, grow := range growers {
		for _, start := range []string{`{}`, `{"a":1}`, `{"a":1,"b":2}`} {
			g, st := grow, start
			emitProbe(cw, fmt.Sprintf("positional access, %s on %s, positional access again", gname, start), func() string {
				rr := jsonline.NewRow()
				_ = rr.UnmarshalJSON([]byte(st))
				for i := -1; i <= rr.Len()+1; i++ {
					_, _ = rr.GetAtIndex(i)
					_, _ = rr.GetValueAtIndex(i)
				}
				g(rr)
				out := ""
				for i := -1; i <= rr.Len()+1; i++ {
					v, ok := rr.GetAtIndex(i)
					_, _ = rr.GetValueAtIndex(i)
					_ = rr.GetAtIndexOrNil(i)
					out += fmt.Sprintf("%v:%v ", v, ok)
				}
				rr.SetAtIndex(rr.Len()-1, "z")
				_ = rr.ImportAtIndex(rr.Len()-1, "y")
				rr.SetValueAtIndex(rr.Len()-1, jsonline.NewValueAuto(1))
				return out + rr.String()
			})
		}
	}
	mkRows := map[string]func() jsonline.Row{
		"empty": func() jsonline.Row { return jsonline.NewRow() },
		"parsed": func() jsonline.Row {
			rr := jsonline.NewRow()
			_ = rr.UnmarshalJSON([]byte(`{"a":"str","b":12,"c":1.5,"d":true,"e":"AQ==","f":300,"g":null,"s":{"x":1},"arr":[1,{"y":2}],"t":"2021-09-24T21:21:00Z","n":"notanumber","":0}`))
			return rr
		},
		"built": func() jsonline.Row {
			rr := jsonline.NewRow()
			rr.Set("a", "str")
			rr.Set("b", 12)
			rr.Set("c", 1.5)
			rr.Set("d", true)
			rr.Set("e", []byte{1})
			rr.Set("f", uint64(math.MaxUint64))
			rr.Set("g", nil)
			sub := jsonline.NewRow()
			sub.Set("x", 1)
			rr.Set("s", sub)
			rr.Set("arr", []interface{}{1, sub})
			rr.Set("t", time.Unix(0, 0))
			rr.Set("n", struct{}{})
			rr.Set("", int8(-1))
			rr.SetValue("cell", jsonline.NewValue("12", jsonline.Numeric, int32(0)))
			return rr
		},
	}
	keys := []string{"a", "b", "c", "d", "e", "f", "g", "s", "arr", "t", "n", "", "absent", "cell"}
	getters := map[string]func(jsonline.Row, string) interface{}{
		"GetString": func(r jsonline.Row, k string) interface{} { return r.GetString(k) }, "GetInt": func(r jsonline.Row, k string) interface{} { return r.GetInt(k) },
		"GetInt64": func(r jsonline.Row, k string) interface{} { return r.GetInt64(k) }, "GetInt32": func(r jsonline.Row, k string) interface{} { return r.GetInt32(k) },
		"GetInt16": func(r jsonline.Row, k string) interface{} { return r.GetInt16(k) }, "GetInt8": func(r jsonline.Row, k string) interface{} { return r.GetInt8(k) },
		"GetUint": func(r jsonline.Row, k string) interface{} { return r.GetUint(k) }, "GetUint64": func(r jsonline.Row, k string) interface{} { return r.GetUint64(k) },
		"GetUint32": func(r jsonline.Row, k string) interface{} { return r.GetUint32(k) }, "GetUint16": func(r jsonline.Row, k string) interface{} { return r.GetUint16(k) },
		"GetUint8": func(r jsonline.Row, k string) interface{} { return r.GetUint8(k) }, "GetFloat64": func(r jsonline.Row, k string) interface{} { return r.GetFloat64(k) },
		"GetFloat32": func(r jsonline.Row, k string) interface{} { return r.GetFloat32(k) }, "GetBool": func(r jsonline.Row, k string) interface{} { return r.GetBool(k) },
		"GetBytes": func(r jsonline.Row, k string) interface{} { return r.GetBytes(k) }, "GetTime": func(r jsonline.Row, k string) interface{} { return r.GetTime(k) },
	}
	gnames := []string{"GetString", "GetInt", "GetInt64", "GetInt32", "GetInt16", "GetInt8", "GetUint", "GetUint64", "GetUint32", "GetUint16", "GetUint8", "GetFloat64", "GetFloat32", "GetBool", "GetBytes", "GetTime"}
	for _, rn := range []string{"empty", "parsed", "built"} {
		mk := mkRows[rn]
		for _, g := range gnames {
			for _, k := range keys {
				gg, kk := getters[g], k
				emitProbe(cw, fmt.Sprintf("%s.%s(%q)", rn, g, k), func() string { return fmt.Sprintf("%v", gg(mk(), kk)) })
				emitGetter(cw, mk(), g, k, func(r jsonline.Row) interface{} { return gg(r, kk) })
			}
		}
		for _, i := range []int{-1, 0, 1, 5, 100, math.MinInt64, math.MaxInt64} {
			ii := i
			emitProbe(cw, fmt.Sprintf("%s.GetAtIndex(%d)", rn, i), func() string { v, ok := mk().GetAtIndex(ii); return fmt.Sprintf("%v %v", v, ok) })
			emitProbe(cw, fmt.Sprintf("%s.GetAtIndexOrNil(%d)", rn, i), func() string { return fmt.Sprintf("%v", mk().GetAtIndexOrNil(ii)) })
			emitProbe(cw, fmt.Sprintf("%s.GetValueAtIndex(%d)", rn, i), func() string { _, ok := mk().GetValueAtIndex(ii); return fmt.Sprintf("%v", ok) })
			emitProbe(cw, fmt.Sprintf("%s.SetAtIndex(%d)", rn, i), func() string { rr := mk(); rr.SetAtIndex(ii, 1); return fmt.Sprintf("%d", rr.Len()) })
			emitProbe(cw, fmt.Sprintf("%s.ImportAtIndex(%d)", rn, i), func() string { rr := mk(); return fmt.Sprintf("%v", rr.ImportAtIndex(ii, "x") == nil) })
			emitProbe(cw, fmt.Sprintf("%s.SetValueAtIndex(%d)", rn, i), func() string {
				rr := mk()
				rr.SetValueAtIndex(ii, jsonline.NewValueAuto(1))
				return fmt.Sprintf("%d", rr.Len())
			})
		}
		for _, p := range []string{"", ".", "..", "a", "a.b", "s", "s.x", "s.x.y", "s.", ".s", "arr", "arr.y", "arr.y.z", "g", "g.x", "absent", "absent.x", "a.b.c.d", "t.x"} {
			pp := p
			emitProbe(cw, fmt.Sprintf("%s.GetAtPath(%q)", rn, p), func() string { v, ok := mk().GetAtPath(pp); return fmt.Sprintf("%T %v", v, ok) })
			emitProbe(cw, fmt.Sprintf("%s.GetAtPathOrNil(%q)", rn, p), func() string { return fmt.Sprintf("%T", mk().GetAtPathOrNil(pp)) })
			emitProbe(cw, fmt.Sprintf("%s.FindValuesAtPath(%q)", rn, p), func() string { v, ok := mk().FindValuesAtPath(pp); return fmt.Sprintf("%d %v", len(v), ok) })
			emitProbe(cw, fmt.Sprintf("%s.ImportAtPath(%q)", rn, p), func() string { return fmt.Sprintf("%v", mk().ImportAtPath(pp, 1) == nil) })
		}
		emitProbe(cw, rn+".MapTo(&mapTarget)", func() string { var t mapTarget; mk().MapTo(&t); return fmt.Sprintf("%v %v %v", t.A, t.B, t.D) })
		emitProbe(cw, rn+".MapTo(&wrongTarget)", func() string { var t wrongTarget; mk().MapTo(&t); return "done" })
		emitProbe(cw, rn+".MapTo(&struct{a int})", func() string { var t struct{ a int }; mk().MapTo(&t); return "done" })
		emitProbe(cw, rn+".MapTo(&struct{})", func() string { var t struct{}; mk().MapTo(&t); return "done" })
		emitProbe(cw, rn+".MapTo(struct value)", func() string { var t mapTarget; mk().MapTo(t); return "done" })
		emitProbe(cw, rn+".MapTo(&int)", func() string { var t int; mk().MapTo(&t); return "done" })
		emitProbe(cw, rn+".MapTo((*mapTarget)(nil))", func() string { mk().MapTo((*mapTarget)(nil)); return "done" })
		// every kind of stored value against every kind of field: one-field struct types built with reflect
		fieldTypes := []reflect.Type{reflect.TypeOf(""), reflect.TypeOf(int(0)), reflect.TypeOf(int8(0)), reflect.TypeOf(uint(0)), reflect.TypeOf(uint8(0)), reflect.TypeOf(float64(0)), reflect.TypeOf(float32(0)),
			reflect.TypeOf(true), reflect.TypeOf([]byte(nil)), reflect.TypeOf((*int)(nil)), reflect.TypeOf((*interface{})(nil)).Elem(), reflect.TypeOf(time.Time{}), reflect.TypeOf(struct{ By string }{}),
			reflect.TypeOf(struct {
				Time  time.Time
				Valid bool
			}{}), reflect.TypeOf(map[string]int(nil)), reflect.TypeOf([]string(nil)), reflect.TypeOf([2]byte{}), reflect.TypeOf((func())(nil)), reflect.TypeOf((chan int)(nil)), reflect.TypeOf(time.Duration(0)), reflect.TypeOf(json.Number(""))}
		for _, k := range []string{"a", "b", "c", "d", "e", "f", "g", "s", "arr", "t", "n", "cell"} {
			for _, ft := range fieldTypes {
				st := reflect.StructOf([]reflect.StructField{{Name: strings.ToUpper(k[:1]) + k[1:], Type: ft}})
				emitProbe(cw, rn+".MapTo(&struct{"+strings.ToUpper(k[:1])+k[1:]+" "+ft.String()+"})", func() string { mk().MapTo(reflect.New(st).Interface()); return "done" })
			}
		}
		emitProbe(cw, rn+".String/DebugString/Raw/Export", func() string {
			rr := mk()
			_ = rr.String()
			_ = rr.DebugString()
			_ = rr.Raw()
			_, _ = rr.Export()
			it := rr.Iter()
			for _, _, ok := it(); ok; _, _, ok = it() {
			}
			return "done"
		})
		emitProbe(cw, rn+".Import(nil)/Import(weird)", func() string {
			rr := mk()
			_ = rr.Import(nil)
			_ = rr.Import(5)
			_ = rr.Import([]interface{}{nil, struct{}{}, []int{1}})
			_ = rr.Import(map[string]interface{}{"a": nil, "zz": make(chan int)})
			_ = rr.UnmarshalJSON(nil)
			_ = rr.UnmarshalJSON([]byte("{"))
			return "done"
		})
	}
	// values
	for _, f := range fmtNames {
		for _, v := range []interface{}{nil, 1, "x", []byte{1}, 1.5, true, time.Unix(0, 0), json.Number("x"), struct{}{}, []interface{}{1}, map[string]interface{}{"a": 1}, make(chan int), func() {}, &struct{}{}, (*int)(nil)} {
			ff, vv := f, v
			emitProbe(cw, fmt.Sprintf("NewValue(%T,%s).all", v, f), func() string {
				val := jsonline.NewValue(vv, formatByName[ff], nil)
				_, _ = val.Export()
				_, _ = val.MarshalJSON()
				_ = val.String()
				_ = val.DebugString()
				_ = val.Import(vv)
				_ = val.UnmarshalJSON([]byte(`"x"`))
				_ = val.UnmarshalJSON([]byte(`{`))
				_ = jsonline.CloneValue(val)
				return "done"
			})
		}
	}
	emitProbe(cw, "Format(42) value", func() string {
		val := jsonline.NewValue(1, jsonline.Format(42), nil)
		_, e1 := val.Export()
		e2 := val.Import(2)
		_, e3 := val.MarshalJSON()
		return fmt.Sprintf("%v %v %v", e1 != nil, e2 != nil, e3 != nil)
	})
	// templates
	emitProbe(cw, "template.CreateRow(weird inputs)", func() string {
		t := jsonline.NewTemplate().WithString("a").WithMappedNumeric("b", int8(0)).WithRow("s", jsonline.NewTemplate().WithAuto("x")).WithHidden("h")
		for _, in := range []interface{}{nil, 5, "", "{", "[]", []byte(nil), []interface{}{1, 2, 3, 4, 5, 6}, []interface{}(nil), map[string]interface{}(nil), map[string]interface{}{"s": 1, "b": 1e9}, struct{}{}, jsonline.NewRow()} {
			_, _ = t.CreateRow(in)
		}
		_ = t.CreateRowEmpty()
		return "done"
	})
	// systematic sweep: every format x every raw type x a universe of Go values (edge texts of every parser in
	// sight, non-finite floats, far-away times, containers, rows, values, and types outside the supported set:
	// structs with unexported fields, pointers, big numbers, raw JSON …) through every entry point that takes a value
	uni := c17Universe()
	for _, f := range fmtNames {
		for vi, v := range uni {
			ff, vv := f, v
			emitProbe(cw, fmt.Sprintf("sweep NewValue/Import/Export/Set #%d %T under %s x every raw type", vi, v, f), func() string {
				for _, tn := range tyNames {
					ty := tySample[tn]
					val := jsonline.NewValue(vv, formatByName[ff], ty)
					_, _ = val.Export()
					_, _ = val.MarshalJSON()
					_ = val.String()
					_ = val.DebugString()
					_ = val.Raw()
					_ = jsonline.CloneValue(val)
					empty := jsonline.NewValue(nil, formatByName[ff], ty)
					_ = empty.Import(vv)
					_, _ = empty.Export()
					_, _ = empty.MarshalJSON()
					rr := jsonline.NewRow()
					rr.SetValue("c", jsonline.NewValue(nil, formatByName[ff], ty))
					rr.Set("c", vv)
					_ = rr.ImportAtKey("c", vv)
					_ = rr.ImportAtIndex(0, vv)
					_ = rr.ImportAtPath("c", vv)
					_ = rr.Import(map[string]interface{}{"c": vv})
					_ = rr.Import([]interface{}{vv})
					useRow(rr)
				}
				return "done"
			})
		}
	}
	for vi, v := range uni {
		vv := v
		emitProbe(cw, fmt.Sprintf("sweep CreateRow/Export/Import of #%d %T itself", vi, v), func() string {
			t := jsonline.NewTemplate().WithString("a").WithMappedNumeric("b", int8(0)).WithRow("s", jsonline.NewTemplate().WithAuto("x")).WithHidden("h").WithDateTime("d").WithBinary("e")
			if row, err := t.CreateRow(vv); err == nil {
				useRow(row)
			}
			var sink bytes.Buffer
			_ = t.GetExporter(&sink).Export(vv)
			_ = jsonline.NewExporter(&sink).Export(vv)
			rr := t.CreateRowEmpty()
			_ = rr.Import(vv)
			rr.Set("a", vv)
			rr.Set("new", vv)
			rr.SetAtIndex(0, vv)
			_ = rr.ImportAtKey("new2", vv)
			useRow(rr)
			for _, val := range []jsonline.Value{jsonline.NewValueAuto(vv), jsonline.NewValueString(vv), jsonline.NewValueNumeric(vv), jsonline.NewValueBoolean(vv), jsonline.NewValueBinary(vv),
				jsonline.NewValueDate(vv), jsonline.NewValueDateTime(vv), jsonline.NewValueTimestamp(vv), jsonline.NewValueHidden(vv), jsonline.NewValueNil(jsonline.Binary, vv)} {
				_, _ = val.Export()
				_, _ = val.MarshalJSON()
				_ = val.String()
				_ = val.Import(vv)
			}
			_ = jsonline.CloneRow(rr)
			var target mapTarget
			rr.MapTo(&target)
			return "done"
		})
	}
	// lines: the edge texts as a JSON string and, where they are number literals, as a number, into every format
	for _, txt := range c17EdgeTexts {
		for _, f := range fmtNames {
			tt, ff := txt, f
			emitProbe(cw, fmt.Sprintf("sweep line %q under %s x every raw type", txt, f), func() string {
				qb, _ := json.Marshal(tt)
				lines := []string{`{"c":` + string(qb) + `}`}
				if json.Valid([]byte(tt)) {
					lines = append(lines, `{"c":`+tt+`}`)
				}
				for _, tn := range tyNames {
					t := jsonline.NewTemplate().With("c", formatByName[ff], tySample[tn])
					for _, l := range lines {
						var sink bytes.Buffer
						_ = jsonline.NewStreamer(t.GetImporter(strings.NewReader(l+"\n")), t.GetExporter(&sink)).WithProcessor(jsonline.NoFailureProcessor).Stream()
						if row, err := t.CreateRow(l); err == nil {
							useRow(row)
						}
					}
				}
				return "done"
			})
		}
	}
	// nesting depth 10^4 through parser and marshaller
	for _, d := range []int{100, 10000} {
		dd := d
		emitProbe(cw, fmt.Sprintf("parse+marshal depth %d (arrays)", d), func() string {
			rr := jsonline.NewRow()
			err := rr.UnmarshalJSON([]byte(`{"a":` + strings.Repeat("[", dd) + strings.Repeat("]", dd) + `}`))
			_, err2 := rr.MarshalJSON()
			return fmt.Sprintf("%v %v", err == nil, err2 == nil)
		})
		emitProbe(cw, fmt.Sprintf("parse+marshal depth %d (objects)", d), func() string {
			rr := jsonline.NewRow()
			err := rr.UnmarshalJSON([]byte(strings.Repeat(`{"a":`, dd) + `1` + strings.Repeat("}", dd)))
			_, err2 := rr.MarshalJSON()
			_, _ = rr.GetAtPath(strings.Repeat("a.", dd) + "a")
			return fmt.Sprintf("%v %v", err == nil, err2 == nil)
		})
	}
	_ = r
	genMapTo(cw, r, tier)
}
