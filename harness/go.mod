module verif/harness

go 1.21

require github.com/cgi-fr/jsonline v0.0.0

replace github.com/cgi-fr/jsonline => /repo
