package main

// The jl route: `line` and `rtrip` cases whose implementation side is the jl BINARY built from the tree under
// test (VERIF_JL), given an inline template equivalent to the case's templates. What the command does on the way
// — flag handling, the descriptor language and its registries, how it reads stdin and where it prints — is then
// part of what the model is compared with and of what the oracles judge. One case in jlEvery takes the route
// (besides the library route, which every case takes); only under the process zone UTC (the command is run
// with TZ=UTC), for lines that are one scanned line, and for templates the inline language can express (same
// names on both sides, well-formed UTF-8 names without NUL, no repeated names, no empty sub-row).

import (
	"bytes"
	"context"
	"encoding/json"
	"fmt"
	"os"
	"os/exec"
	"path/filepath"
	"strings"
	"time"
	"unicode/utf8"
)

const jlEvery = 25

var jlRouteCount int
var jlRouteDir string
var jlRouteDecoyDir string
var jlRouteCfgDir string
var runJlOnceCount int

func jlBin() string { return os.Getenv("VERIF_JL") }

// the names the descriptor language gives to the raw types (two of them have an alias)
var jlTyNames = map[string][]string{"int": {"int"}, "i64": {"int64"}, "i32": {"int32", "rune"}, "i16": {"int16"}, "i8": {"int8"}, "uint": {"uint"}, "u64": {"uint64"},
	"u32": {"uint32"}, "u16": {"uint16"}, "u8": {"uint8", "byte"}, "f64": {"float64"}, "f32": {"float32"}, "bool": {"bool"}, "str": {"string"}, "bytes": {"[]byte"},
	"time": {"time.Time"}, "num": {"json.Number"}}

func jlDescOf(c colDesc, alt int) string {
	if c.ty == "none" {
		return c.format
	}
	names := jlTyNames[c.ty]
	return c.format + "(" + names[alt%len(names)] + ")"
}

// jlColsOf: the inline column list for (ti, to) and the input template it amounts to (the columns of `to`, in
// that order, with the input descriptor of the column of the same name in `ti`, or auto).
func jlColsOf(ti, to []colDesc, alt int) ([]jlCol, []colDesc, []colDesc, bool) {
	seen := map[string]bool{}
	for _, c := range to {
		if seen[c.name] || !utf8.ValidString(c.name) || strings.ContainsRune(c.name, 0) {
			return nil, nil, nil, false
		}
		seen[c.name] = true
	}
	for _, c := range ti {
		if !seen[c.name] {
			return nil, nil, nil, false
		}
	}
	var cols []jlCol
	var eff, effTo []colDesc
	for _, c := range to {
		var ci *colDesc
		for i := range ti {
			if ti[i].name == c.name {
				ci = &ti[i]
				break
			}
		}
		if c.isSub {
			if len(c.sub) == 0 {
				return nil, nil, nil, false
			}
			var subTi []colDesc
			if ci != nil {
				if !ci.isSub {
					return nil, nil, nil, false
				}
				subTi = ci.sub
			}
			sc, se, so, ok := jlColsOf(subTi, c.sub, alt)
			if !ok {
				return nil, nil, nil, false
			}
			cols = append(cols, jlCol{name: c.name, isSub: true, sub: sc})
			eff = append(eff, colDesc{name: c.name, isSub: true, sub: se})
			effTo = append(effTo, colDesc{name: c.name, isSub: true, sub: so})
			continue
		}
		in := colDesc{name: c.name, format: "auto", ty: "none"}
		if ci != nil {
			if ci.isSub {
				return nil, nil, nil, false
			}
			in = *ci
		}
		out, outDesc := c, jlDescOf(c, alt+1)
		if alt%6 == 0 && len(cols) == 0 {
			// a descriptor with a name outside the registries, which the command takes for auto (unknown format)
			// or for "no raw type" (unknown type) — silently, and certainly not on its standard output
			switch (alt / 6) % 3 {
			case 0:
				outDesc, out = "time", colDesc{name: c.name, format: "auto", ty: "none"}
			case 1:
				outDesc, out = c.format+"(int128)", colDesc{name: c.name, format: c.format, ty: "none"}
			default:
				outDesc, out = "String(int)", colDesc{name: c.name, format: "auto", ty: "int"}
			}
		}
		cols = append(cols, jlCol{name: c.name, in: jlDescOf(in, alt), out: outDesc})
		eff = append(eff, in)
		effTo = append(effTo, out)
	}
	return cols, eff, effTo, true
}

// jlRouteInit makes the working directories of the route: an empty one, and a second one that holds a definition
// file of its own — an inline template given with -t replaces the file's definition entirely (C19
// `inline_replaces_file`), so one run in three with -t happens there and must not differ.
func jlRouteInit() {
	if jlRouteDir != "" {
		return
	}
	jlRouteDir = jlScratch("route")
	jlRouteDecoyDir = jlScratch("route-decoy")
	// a third one holds a config.yaml that turns the logs up and colours them (the command reads it through its
	// configuration library): logging options concern standard error only
	jlRouteCfgDir = jlScratch("route-cfg")
	os.WriteFile(filepath.Join(jlRouteCfgDir, "config.yaml"), []byte("verbosity: \"trace\"\ncolor: \"yes\"\n"), 0o644)
	os.WriteFile(filepath.Join(jlRouteDecoyDir, "row.yml"), []byte("columns:\n  - name: \"zz-decoy\"\n    output: \"numeric\"\n  - name: \"a\"\n    output: \"hidden\"\n  - name: \"c\"\n    input: \"binary\"\n    output: \"string(int)\"\n"), 0o644)
}

// jlLogContext: the logging context of the n-th run of the route, in turn: none, flags, environment variables,
// a config.yaml in the working directory. Whatever the context, what is written to standard output, what is
// accepted and the exit status are the same (C19); line failures stay countable at every level but "none".
func jlLogContext(cmd *exec.Cmd, n int) {
	switch n % 9 {
	case 1:
		cmd.Args = append(cmd.Args, "--color", "yes")
	case 2:
		cmd.Env = append(cmd.Env, "JL_COLOR=yes")
	case 3:
		cmd.Args = append(cmd.Args, "-v", "5")
	case 4:
		cmd.Env = append(cmd.Env, "JL_VERBOSITY=trace")
	case 5:
		if cmd.Dir == jlRouteDir {
			cmd.Dir = jlRouteCfgDir
		}
	case 6:
		cmd.Args = append(cmd.Args, "--log-json", "--debug")
	case 7:
		cmd.Args = append(cmd.Args, "-v", "trace", "--color", "yes")
	}
}

// runJlOnce feeds one line to the command and renders what it did like lineOutcome does.
func runJlOnce(args []string, line []byte) string {
	jlRouteInit()
	ctx, cancel := context.WithTimeout(context.Background(), 30*time.Second) // a command that hangs is stopped and reported
	defer cancel()
	cmd := exec.CommandContext(ctx, jlBin(), args...)
	cmd.Dir = jlRouteDir
	runJlOnceCount++
	if len(args) >= 2 && args[0] == "-t" && runJlOnceCount%3 == 0 {
		cmd.Dir = jlRouteDecoyDir
	}
	cmd.Env = append(os.Environ(), "TZ=UTC", "HOME="+jlRouteDir)
	jlLogContext(cmd, runJlOnceCount)
	cmd.Stdin = bytes.NewReader(append(append([]byte{}, line...), '\n'))
	var out, errb bytes.Buffer
	cmd.Stdout, cmd.Stderr = &out, &errb
	err := cmd.Run()
	if err != nil {
		first := strings.SplitN(strings.TrimSpace(errb.String()), "\n", 2)[0]
		if len(first) > 160 {
			first = first[:160]
		}
		return "panic jl: " + strings.ReplaceAll(fmt.Sprintf("%v: %s", err, first), "\t", " ")
	}
	nerr := strings.Count(errb.String(), "failed to process JSON line")
	switch {
	case nerr == 0 && out.Len() > 0:
		return fmt.Sprintf("ok %s w=1", hxs(out.String()))
	case out.Len() == 0:
		return "err any w=0 -"
	default:
		return fmt.Sprintf("err any w=1 %s", hxs(out.String())) // an error was logged AND bytes reached stdout
	}
}

// localIsUTC: the process zone is UTC (by name, or the unnamed local zone with a zero offset summer and winter).
func localIsUTC() bool {
	switch time.Local.String() {
	case "UTC":
		return true
	case "Local":
		_, o1 := time.Date(2021, 1, 15, 12, 0, 0, 0, time.Local).Zone()
		_, o2 := time.Date(2021, 7, 15, 12, 0, 0, 0, time.Local).Zone()
		_, o3 := time.Date(1950, 7, 15, 12, 0, 0, 0, time.Local).Zone()
		return o1 == 0 && o2 == 0 && o3 == 0
	}
	return false
}

func jlRouteWanted(line []byte) bool {
	if jlBin() == "" || !localIsUTC() {
		return false
	}
	if len(bytes.TrimSpace(line)) == 0 || bytes.ContainsAny(line, "\n") || bytes.HasSuffix(line, []byte("\r")) {
		return false
	}
	jlRouteCount++
	return jlRouteCount%jlEvery == 0
}

// emitLineJl: the `line` case of (ti, to, line) through the command.
func emitLineJl(cw *caseWriter, prop string, ti, to []colDesc, line []byte) {
	var args []string
	eff, effTo := ti, to
	if len(ti) > 0 || len(to) > 0 {
		cols, e, o, ok := jlColsOf(ti, to, jlRouteCount/jlEvery)
		if !ok {
			return
		}
		eff, effTo = e, o
		args = []string{"-t", inlineOf(cols)}
	}
	ext := map[string]string{}
	extForJSON(line, ext)
	out := runJlOnce(args, line)
	cw.count("line-jl:" + strings.SplitN(out, " ", 2)[0])
	cw.emit(prop+" via jl "+strings.Join(args, " ")+" | "+string(line), true, "line", prop, descStr(eff), descStr(effTo), hxs(string(line)), extStr(ext), out)
}

// emitRoundTripJl: the `rtrip` case of a line through the command without any template, twice.
func emitRoundTripJl(cw *caseWriter, line []byte, inDomain bool) {
	first := runJlOnce(nil, line)
	second := "-"
	if strings.HasPrefix(first, "ok ") {
		var hex string
		fmt.Sscanf(first, "ok %s", &hex)
		if out := unhx(hex); len(out) > 0 && out[len(out)-1] == '\n' && !bytes.Contains(out[:len(out)-1], []byte("\n")) {
			second = runJlOnce(nil, out[:len(out)-1])
		}
	}
	dom := "0"
	if inDomain {
		dom = "1"
	}
	cw.count("rtrip-jl:" + strings.SplitN(first, " ", 2)[0])
	cw.emit("rtrip via jl "+string(line), inDomain, "rtrip", "C02", hxs(string(line)), dom, "-", first, second)
}

// emitStreamJl: a `stream` case whose implementation side is the command fed with `data` on its standard input
// (or, with unreadable set, with a directory as standard input: every read fails at once).
func emitStreamJl(cw *caseWriter, prop string, ti, to []colDesc, data []byte, unreadable bool) {
	if jlBin() == "" {
		return
	}
	var args []string
	eff := ti
	if len(ti) > 0 || len(to) > 0 {
		cols, e, _, ok := jlColsOf(ti, to, 1+6*len(data))
		if !ok {
			return
		}
		eff = e
		args = []string{"-t", inlineOf(cols)}
	}
	jlRouteInit()
	ctx, cancel := context.WithTimeout(context.Background(), 120*time.Second)
	defer cancel()
	cmd := exec.CommandContext(ctx, jlBin(), args...)
	cmd.Dir = jlRouteDir
	runJlOnceCount++
	if len(args) >= 2 && args[0] == "-t" && runJlOnceCount%3 == 0 {
		cmd.Dir = jlRouteDecoyDir
	}
	cmd.Env = append(os.Environ(), "TZ=UTC", "HOME="+jlRouteDir)
	jlLogContext(cmd, runJlOnceCount)
	reader := "-"
	if unreadable {
		d, err := os.Open(jlRouteDir)
		if err != nil {
			return
		}
		defer d.Close()
		cmd.Stdin = d
		reader = "e"
	} else {
		cmd.Stdin = bytes.NewReader(data)
		if len(data) > 0 {
			reader = "d:" + hx(data)
		}
	}
	var out, errb bytes.Buffer
	cmd.Stdout, cmd.Stderr = &out, &errb
	exit := 0
	if err := cmd.Run(); err != nil {
		exit = -1
		if ee, ok := err.(*exec.ExitError); ok {
			exit = ee.ExitCode()
		}
		if exit < 0 {
			exit = 255
		}
	}
	obs := fmt.Sprintf("jl exit=%d nerr=%d failed=%d out=%s", exit, strings.Count(errb.String(), "failed to process JSON line"), strings.Count(errb.String(), "streamer failed"), hxs(out.String()))
	ext := map[string]string{}
	for _, l := range bytes.Split(data, []byte("\n")) {
		extForJSON(l, ext)
	}
	cw.count("stream-jl")
	cw.emit(fmt.Sprintf("%s via jl %s | %d bytes unreadable=%v", prop, strings.Join(args, " "), len(data), unreadable), true, "stream", prop, descStr(eff), descStr(to), "jl", reader, "-", extStr(ext), obs)
}

func unhx(s string) []byte {
	if s == "-" {
		return nil
	}
	b := make([]byte, len(s)/2)
	for i := range b {
		fmt.Sscanf(s[2*i:2*i+2], "%02x", &b[i])
	}
	return b
}

var _ = filepath.Join
var _ = json.Marshal
