package main

// harness <property> -seed N -tier quick|thorough -out cases.txt -stats stats.json
//
// Runs the real jsonline code in-process on generated cases and writes protocol lines
// (inputs + the implementation's canonicalised observations) for the Lean driver.

import (
	"flag"
	"fmt"
	"os"
	"strings"
)

func main() {
	if len(os.Args) < 2 {
		fmt.Fprintln(os.Stderr, "usage: harness <kind> [flags]")
		os.Exit(2)
	}
	kind := strings.ToLower(os.Args[1])
	fs := flag.NewFlagSet(kind, flag.ExitOnError)
	seed := fs.Uint64("seed", 1, "PRNG seed (VERIF_SEED)")
	tier := fs.String("tier", "quick", "quick|thorough")
	out := fs.String("out", "cases.txt", "protocol lines")
	stats := fs.String("stats", "stats.json", "statistics for the evidence file")
	only := fs.Int("only", 0, "write only the case with this 1-based number (replay)")
	fs.Parse(os.Args[2:])

	cw, closef := newCaseWriter(*out)
	cw.only = *only
	for _, kind := range strings.Split(kind, ",") {
		switch kind {
		case "c06":
			genC06(cw, *seed, *tier)
		case "c09":
			genC09(cw, *seed, *tier)
		case "std":
			genStd(cw, *seed, *tier)
		case "c01":
			genC01(cw, *seed, *tier)
		case "c02":
			genC02(cw, *seed, *tier)
		case "c16":
			genC16(cw, *seed, *tier)
		case "c19":
			genC19(cw, *seed, *tier)
		case "c13":
			genC13(cw, *seed, *tier)
		case "c05":
			genC05(cw, *seed, *tier)
		case "c14":
			genC14(cw, *seed, *tier)
		case "c15":
			genC15(cw, *seed, *tier)
		case "c20":
			genC20(cw, *seed, *tier)
		case "c18":
			genC18(cw, *seed, *tier)
		case "c17":
			genC17(cw, *seed, *tier)
		case "c07":
			genC07(cw, *seed, *tier)
		case "c08":
			genC08(cw, *seed, *tier)
		case "scan":
			genScan(cw, *seed, *tier)
		case "c03":
			genC03(cw, *seed, *tier)
		case "c04":
			genC04(cw, *seed, *tier)
		case "c10":
			genC10(cw, *seed, *tier)
		case "c11":
			genC11(cw, *seed, *tier)
		case "c12":
			genC12(cw, *seed, *tier)
		default:
			fmt.Fprintln(os.Stderr, "unknown kind", kind)
			os.Exit(2)
		}
	}
	closef()
	cw.writeStats(*stats)
}
