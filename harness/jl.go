package main

// jl cases (C19): the built binary run in a scratch directory, with the same column
// definitions given as row.yml and as an inline -t template, against the library streamer.
//
//	jl \t C19 \t <defs> \t <hex stdin> \t <ext> \t <yaml run> \t <inline run> \t <inline over another row.yml> \t <library run>
//	jlbad \t C19 \t <what> \t <run>
//
// defs: D<n> then per column  K:<hex> L:<hex in|->:<hex out|->  or  K:<hex> D<m> …
// run:  exit=<n> out=<hex> nerr=<number of "failed to process JSON line" log lines>

import (
	"bytes"
	"context"
	"encoding/json"
	"fmt"
	"os"
	"os/exec"
	"path/filepath"
	"strings"
	"time"

	"github.com/cgi-fr/jsonline/pkg/jsonline"
)

type jlCol struct {
	name    string
	in, out string
	sub     []jlCol
	isSub   bool
}

func jlDefsStr(cols []jlCol) string {
	var sb strings.Builder
	fmt.Fprintf(&sb, "D%d", len(cols))
	for _, c := range cols {
		sb.WriteString(" K:" + hx([]byte(c.name)) + " ")
		if c.isSub {
			sb.WriteString(jlDefsStr(c.sub))
		} else {
			sb.WriteString("L:" + hxs(c.in) + ":" + hxs(c.out))
		}
	}
	return sb.String()
}

func yamlOf(cols []jlCol, indent string) string {
	var sb strings.Builder
	for _, c := range cols {
		nb, _ := json.Marshal(c.name) // a JSON string is a YAML double-quoted scalar
		sb.WriteString(indent + "- name: " + string(nb) + "\n")
		if c.isSub {
			sb.WriteString(indent + "  columns:\n" + yamlOf(c.sub, indent+"    "))
			continue
		}
		if c.in != "" {
			ib, _ := json.Marshal(c.in)
			sb.WriteString(indent + "  input: " + string(ib) + "\n")
		}
		if c.out != "" {
			ob, _ := json.Marshal(c.out)
			sb.WriteString(indent + "  output: " + string(ob) + "\n")
		}
	}
	return sb.String()
}

func inlineOf(cols []jlCol) string {
	var parts []string
	for _, c := range cols {
		nb, _ := json.Marshal(c.name)
		if c.isSub {
			parts = append(parts, string(nb)+":"+inlineOf(c.sub))
		} else {
			vb, _ := json.Marshal(c.in + ":" + c.out)
			parts = append(parts, string(nb)+":"+string(vb))
		}
	}
	return "{" + strings.Join(parts, ",") + "}"
}

var jlFormatNames = []string{"string", "numeric", "boolean", "binary", "date", "datetime", "timestamp", "auto", "hidden"}
var jlTypeNames = []string{"int", "int64", "int32", "int16", "int8", "uint", "uint64", "uint32", "uint16", "uint8", "float64", "float32", "bool", "byte", "rune", "string", "[]byte", "time.Time", "json.Number"}

func jlDescriptor(r *rng) string {
	switch r.intn(10) {
	case 0:
		return ""
	case 1:
		return pick(r, []string{"unknown", "String", "string()", "string(int", "string(nope)", "(int)", "numeric(int)x", "a)b", "string(a(b)", "hidden(int)", "time", "string (int)", "string(int )"})
	case 2, 3, 4:
		return pick(r, jlFormatNames)
	default:
		return pick(r, jlFormatNames) + "(" + pick(r, jlTypeNames) + ")"
	}
}

func jlLibFormat(d string) (jsonline.Format, interface{}) {
	// an independent re-statement of the descriptor language for the library run
	format := jsonline.Auto
	var raw interface{}
	open := strings.IndexByte(d, '(')
	name, typ := d, ""
	matched := d != ""
	if open >= 0 {
		name = d[:open]
		rest := d[open:]
		if name == "" || len(rest) < 3 || rest[len(rest)-1] != ')' || strings.ContainsRune(rest[1:len(rest)-1], ')') {
			matched = false
		} else {
			typ = rest[1 : len(rest)-1]
		}
	}
	if !matched {
		return jsonline.Auto, nil
	}
	if f, ok := map[string]jsonline.Format{"string": jsonline.String, "numeric": jsonline.Numeric, "boolean": jsonline.Boolean, "binary": jsonline.Binary, "date": jsonline.Date,
		"datetime": jsonline.DateTime, "timestamp": jsonline.Timestamp, "auto": jsonline.Auto, "hidden": jsonline.Hidden}[name]; ok {
		format = f
	}
	raw = map[string]interface{}{"int": int(0), "int64": int64(0), "int32": int32(0), "int16": int16(0), "int8": int8(0), "uint": uint(0), "uint64": uint64(0), "uint32": uint32(0),
		"uint16": uint16(0), "uint8": uint8(0), "float64": float64(0), "float32": float32(0), "bool": true, "byte": byte(0), "rune": rune(0), "string": "", "[]byte": []byte{},
		"time.Time": time.Time{}, "json.Number": json.Number("")}[typ]
	return format, raw
}

func jlLibTemplates(cols []jlCol) (jsonline.Template, jsonline.Template) {
	ti, to := jsonline.NewTemplate(), jsonline.NewTemplate()
	for _, c := range cols {
		if c.isSub {
			si, so := jlLibTemplates(c.sub)
			ti, to = ti.WithRow(c.name, si), to.WithRow(c.name, so)
			continue
		}
		fi, ri := jlLibFormat(c.in)
		fo, ro := jlLibFormat(c.out)
		ti, to = ti.With(c.name, fi, ri), to.With(c.name, fo, ro)
	}
	return ti, to
}

var jlExtraEnv []string
var jlForcedYamlRun string

func runJl(dir string, args []string, stdin []byte) string {
	bin := os.Getenv("VERIF_JL")
	ctx, cancel := context.WithTimeout(context.Background(), 60*time.Second) // a command that hangs is stopped (exit -1)
	defer cancel()
	cmd := exec.CommandContext(ctx, bin, args...)
	cmd.Dir = dir
	cmd.Env = append(append(os.Environ(), "TZ=UTC", "HOME="+dir), jlExtraEnv...)
	cmd.Stdin = bytes.NewReader(stdin)
	var out, errb bytes.Buffer
	cmd.Stdout, cmd.Stderr = &out, &errb
	err := cmd.Run()
	exit := 0
	if err != nil {
		if ee, ok := err.(*exec.ExitError); ok {
			exit = ee.ExitCode()
		} else {
			exit = -1
		}
	}
	nerr := strings.Count(errb.String(), "failed to process JSON line")
	return fmt.Sprintf("exit=%d out=%s nerr=%d", exit, hxs(out.String()), nerr)
}

func jlScratch(name string) string {
	base := os.Getenv("VERIF_WORK")
	if base == "" {
		base = "."
	}
	d := filepath.Join(base, "jl-"+name)
	os.RemoveAll(d)
	if err := os.MkdirAll(d, 0o755); err != nil {
		panic(err)
	}
	return d
}

func jlRandCols(r *rng, depth int) []jlCol {
	names := []string{"a", "b", "zz", "aa", "é", "k k", "c", "d"}
	if r.chance(1, 3) {
		// names a definition loader could be tempted to interpret: path syntax, a case variant, YAML / JSON look-alikes
		names = []string{"a", "a.b", "user.name", "x.", ".y", "A", "1", "k-k:z", "#h", "true", "b"}
	}
	for i := len(names) - 1; i > 0; i-- {
		j := r.intn(i + 1)
		names[i], names[j] = names[j], names[i]
	}
	n := 1 + r.intn(4)
	if n >= 2 && r.chance(1, 6) {
		// a name declared twice at the same level (position of the first mention, descriptors of the last)
		names[n-1] = names[r.intn(n-1)]
	}
	var cols []jlCol
	for i := 0; i < n; i++ {
		if depth < 2 && r.chance(1, 7) {
			cols = append(cols, jlCol{name: names[i], isSub: true, sub: jlRandCols(r, depth+1)})
			continue
		}
		out := jlDescriptor(r)
		if r.chance(1, 10) {
			// an OUTPUT descriptor holding colons: in the inline form everything after the FIRST colon is the output
			// descriptor, as it stands in the file form (none of these names a format: the column is Auto)
			out = pick(r, []string{"numeric:", ":numeric", "string:numeric", "numeric:string(int)", "::", "hidden:", "string:"})
		}
		cols = append(cols, jlCol{name: names[i], in: jlDescriptor(r), out: out})
	}
	return cols
}

func genC19(cw *caseWriter, seed uint64, tier string) {
	if os.Getenv("VERIF_JL") == "" {
		panic("VERIF_JL (path of the jl binary built from /repo) is not set")
	}
	r := newRng(seed)
	saved := time.Local
	time.Local = time.UTC
	defer func() { time.Local = saved }()
	n := 120
	if tier == "thorough" {
		n = 3000
	}
	withYml, noYml, otherYml := jlScratch("yaml"), jlScratch("inline"), jlScratch("other")
	os.WriteFile(filepath.Join(otherYml, "row.yml"), []byte("columns:\n  - name: \"zzz\"\n    output: \"numeric\"\n  - name: \"a\"\n    output: \"hidden\"\n"), 0o644)
	stdinValues := []string{`1`, `"12"`, `"x"`, `true`, `null`, `1.5`, `"2021-09-24T21:21:00Z"`, `1632518460`, `"AQ=="`, `{"q":1,"b":2}`, `[1]`, `"2021-09-24"`, `255`,
		// arrays that do not hold one kind of thing: an object first and something else later, at any depth
		`[{"a":1},2]`, `[{"sku":"a"},null]`, `[{"a":1},"x",{"b":2}]`, `[[{"a":1},[1]],{"b":[{"c":1},true]}]`, `{"l":[{"a":1},[2]]}`, `[null,{"a":1}]`, `[]`, `[[],{}]`}
	for i := 0; i < n; i++ {
		cols := jlRandCols(r, 0)
		var in bytes.Buffer
		for l := r.intn(5); l >= 0; l-- {
			switch r.intn(8) {
			case 0:
				in.WriteString("{\n")
			case 1:
				in.WriteString("\n")
			default:
				var parts []string
				for _, c := range cols {
					if r.chance(1, 5) {
						continue
					}
					nb, _ := json.Marshal(c.name)
					if c.isSub {
						parts = append(parts, string(nb)+`:{"`+c.sub[0].name+`":`+pick(r, stdinValues)+`}`)
					} else {
						parts = append(parts, string(nb)+":"+pick(r, stdinValues))
					}
				}
				if r.chance(1, 3) {
					parts = append(parts, `"extra":`+pick(r, stdinValues))
				}
				in.WriteString("{" + strings.Join(parts, ",") + "}\n")
			}
		}
		stdin := in.Bytes()
		os.WriteFile(filepath.Join(withYml, "row.yml"), []byte("columns:\n"+yamlOf(cols, "  ")), 0o644)
		// options that concern the logs only (level 1-5 so that line failures stay countable, caller information,
		// JSON logs, colours), given as flags, through the environment (JL_VERBOSITY …) or a config.yaml next to the
		// data; the definition file under another name given with -f: none of them changes what is written to
		// standard output, what is accepted, or the exit status
		var extra []string
		var envExtra []string
		os.Remove(filepath.Join(withYml, "config.yaml"))
		os.Remove(filepath.Join(noYml, "config.yaml"))
		switch r.intn(10) {
		case 0:
			extra = []string{"-v", "5"}
		case 1:
			extra = []string{"-v", "trace", "--debug"}
		case 2:
			extra = []string{"--log-json"}
		case 3:
			extra = []string{"--color", "yes", "-v", "2"}
		case 4:
			envExtra = []string{"JL_VERBOSITY=trace", "JL_LOG_JSON=true"}
		case 5:
			os.WriteFile(filepath.Join(withYml, "config.yaml"), []byte("verbosity: \"5\"\ndebug: true\n"), 0o644)
			os.WriteFile(filepath.Join(noYml, "config.yaml"), []byte("verbosity: \"4\"\nlog_json: true\n"), 0o644)
		}
		jlExtraEnv = envExtra
		yamlArgs := append([]string{}, extra...)
		if r.chance(1, 4) {
			// the same definition under another name, given with -f
			os.MkdirAll(filepath.Join(noYml, "defs"), 0o755)
			os.WriteFile(filepath.Join(noYml, "defs", "other.yml"), []byte("columns:\n"+yamlOf(cols, "  ")), 0o644)
			yamlRunF := runJl(noYml, append([]string{"-f", "defs/other.yml"}, extra...), stdin)
			if ref := runJl(withYml, yamlArgs, stdin); ref != yamlRunF {
				// reported through the yaml run itself: what -f gave, so that the comparison with the other routes fails
				os.WriteFile(filepath.Join(withYml, "row.yml"), []byte("columns:\n"+yamlOf(cols, "  ")), 0o644)
				jlForcedYamlRun = yamlRunF
			}
		}
		yamlRun := runJl(withYml, yamlArgs, stdin)
		if jlForcedYamlRun != "" {
			yamlRun, jlForcedYamlRun = jlForcedYamlRun, ""
		}
		inlineRun := runJl(noYml, append([]string{"-t", inlineOf(cols)}, extra...), stdin)
		// the definition file that -t replaces: another column list, or a file that holds no column list at all (empty,
		// a comment, a bare key, a document marker): whatever it is, -t replaces it entirely
		otherContents := []string{"columns:\n  - name: \"zzz\"\n    output: \"numeric\"\n  - name: \"a\"\n    output: \"hidden\"\n", "", "# nothing declared here\n", "columns:\n", "---\n", "\n\n"}
		os.WriteFile(filepath.Join(otherYml, "row.yml"), []byte(otherContents[i%len(otherContents)]), 0o644)
		overRun := runJl(otherYml, append([]string{"-t", inlineOf(cols)}, extra...), stdin)
		jlExtraEnv = nil
		// library
		ti, to := jlLibTemplates(cols)
		var out bytes.Buffer
		nerr := 0
		_ = jsonline.NewStreamer(ti.GetImporter(bytes.NewReader(stdin)), to.GetExporter(&out)).WithProcessor(func(_ jsonline.Row, err error) error {
			if err != nil {
				nerr++
			}
			return nil
		}).Stream()
		libRun := fmt.Sprintf("exit=0 out=%s nerr=%d", hxs(out.String()), nerr)
		ext := map[string]string{}
		for _, l := range bytes.Split(stdin, []byte("\n")) {
			extForJSON(l, ext)
		}
		cw.count("jl:" + strings.SplitN(yamlRun, " ", 2)[0])
		cw.emit("jl "+jlDefsStr(cols)+" "+string(stdin), true, "jl", "C19", jlDefsStr(cols), hxs(string(stdin)), extStr(ext), yamlRun, inlineRun, overRun, libRun)
	}
	// an input that ENDS ON A FAILURE rather than at its end — an unreadable standard input, a line over the limit —
	// through the command: the library's streamer reports such an end (C08); the command must not turn it into
	// silence and exit status 0
	if localIsUTC() {
		fcols := []colDesc{{name: "a", format: "numeric", ty: "none"}}
		emitStreamJl(cw, "C19", fcols, fcols, nil, true)
		emitStreamJl(cw, "C19", nil, nil, nil, true)
		big := bytes.Repeat([]byte("x"), 10485760)
		emitStreamJl(cw, "C19", nil, nil, append(append([]byte("{\"a\":1}\n"), big...), []byte("\n{\"a\":2}\n")...), false)
	}
	// malformed templates: exit non-zero, no data
	stdin := []byte("{\"a\":1}\n")
	bad := jlScratch("bad")
	for _, t := range []string{`{`, `[1]`, `"x"`, `{"a":}`, `nope`, `{"a":"string"`,
		// a complete object followed by trailing text is not a JSON object either
		`{"a":"numeric"}}`, `{"a":"numeric"} {"b":"string"}`, `{"a":"string"}]`, `{"a":"string"},`, `{"a":"string"} x`, `{"a":"string"}{`} {
		cw.count("jlbad:inline")
		cw.emit("jlbad inline "+t, true, "jlbad", "C19", "inline "+hxs(t), runJl(bad, []string{"-t", t}, stdin))
	}
	// …whatever the logging context: the logs switched off (by flag, by name or number, through the environment, in
	// a config.yaml next to the data) or turned all the way up — the exit status and standard output are not logs
	for i, t := range []string{`{`, `{"a":"string"`, `[1]`, `{"a":"numeric"} x`, `nope`, `{"a":}`, `"x"`, `{"a":"string"},`} {
		args := []string{"-t", t}
		os.Remove(filepath.Join(bad, "config.yaml"))
		jlExtraEnv = nil
		what := ""
		switch i % 8 {
		case 0:
			args, what = append(args, "-v", "none"), "-v none"
		case 1:
			args, what = append(args, "-v", "0"), "-v 0"
		case 2:
			jlExtraEnv, what = []string{"JL_VERBOSITY=none"}, "JL_VERBOSITY=none"
		case 3:
			jlExtraEnv, what = []string{"JL_VERBOSITY=0"}, "JL_VERBOSITY=0"
		case 4:
			os.WriteFile(filepath.Join(bad, "config.yaml"), []byte("verbosity: \"none\"\n"), 0o644)
			what = "config verbosity none"
		case 5:
			os.WriteFile(filepath.Join(bad, "config.yaml"), []byte("verbosity: \"0\"\n"), 0o644)
			what = "config verbosity 0"
		case 6:
			args, what = append(args, "-v", "trace", "--debug", "--log-json"), "-v trace --debug --log-json"
		default:
			args, what = append(args, "--color", "yes", "-v", "1"), "--color yes -v 1"
		}
		cw.count("jlbad:inline-logctx")
		cw.emit("jlbad inline "+t+" under "+what, true, "jlbad", "C19", "inline "+hxs(t), runJl(bad, args, stdin))
	}
	os.Remove(filepath.Join(bad, "config.yaml"))
	jlExtraEnv = nil
	for _, y := range []string{"columns: [", "columns:\n  - name: [a\n", "columns: 5\n", "\t\tbad", "columns:\n  - name: a\n    columns: 7\n"} {
		os.WriteFile(filepath.Join(bad, "row.yml"), []byte(y), 0o644)
		cw.count("jlbad:yaml")
		cw.emit("jlbad yaml "+y, true, "jlbad", "C19", "yaml "+hxs(y), runJl(bad, nil, stdin))
		cw.emit("jlbad yaml "+y+" under -v none", true, "jlbad", "C19", "yaml "+hxs(y), runJl(bad, []string{"-v", "none"}, stdin))
	}
	os.Remove(filepath.Join(bad, "row.yml"))
	// `-t {}` and an empty -t keep the file definition
	os.WriteFile(filepath.Join(withYml, "row.yml"), []byte("columns:\n  - name: \"a\"\n    output: \"string\"\n"), 0o644)
	cw.emit("jlkeep {}", true, "jlkeep", "C19", "braces", runJl(withYml, []string{"-t", "{}"}, stdin), runJl(withYml, nil, stdin))
	cw.emit("jlkeep empty", true, "jlkeep", "C19", "empty", runJl(withYml, []string{"-t", ""}, stdin), runJl(withYml, nil, stdin))
	for _, d := range []string{withYml, noYml, otherYml, bad} {
		os.RemoveAll(d)
	}
}
