package main

// Line-protocol codec (Go side). The Lean side is lean/Model/Codec.lean.
//
//	Dyn := N | I<ty>:<dec> | F64:<hex16> | F32:<hex8> | Bt | Bf | S:<hex> | Y:<hex> | J:<hex>
//	     | TM:<sec>:<nsec>:<off> | BA:<hex> | A<n> Dyn* | M<n> (K:<hex> Dyn)* | V Val | O:<tag>
//	Val := C:<format>:<ty> Dyn | R<n> (K:<hex> Val)*

import (
	"encoding/hex"
	"encoding/json"
	"fmt"
	"math"
	"reflect"
	"sort"
	"strings"
	"time"

	"github.com/cgi-fr/jsonline/pkg/jsonline"
)

func hx(b []byte) string { return hex.EncodeToString(b) }

func formatName(f jsonline.Format) string {
	switch f {
	case jsonline.String:
		return "string"
	case jsonline.Numeric:
		return "numeric"
	case jsonline.Boolean:
		return "boolean"
	case jsonline.Binary:
		return "binary"
	case jsonline.Date:
		return "date"
	case jsonline.DateTime:
		return "datetime"
	case jsonline.Timestamp:
		return "timestamp"
	case jsonline.Auto:
		return "auto"
	case jsonline.Hidden:
		return "hidden"
	}
	return "bad"
}

var formatByName = map[string]jsonline.Format{
	"string": jsonline.String, "numeric": jsonline.Numeric, "boolean": jsonline.Boolean,
	"binary": jsonline.Binary, "date": jsonline.Date, "datetime": jsonline.DateTime,
	"timestamp": jsonline.Timestamp, "auto": jsonline.Auto, "hidden": jsonline.Hidden,
	"bad": jsonline.Format(42),
}

// tyName gives the model's name of the dynamic type of a raw-type sample / value.
func tyName(x interface{}) string {
	switch x.(type) {
	case nil:
		return "none"
	case int:
		return "int"
	case int64:
		return "i64"
	case int32:
		return "i32"
	case int16:
		return "i16"
	case int8:
		return "i8"
	case uint:
		return "uint"
	case uint64:
		return "u64"
	case uint32:
		return "u32"
	case uint16:
		return "u16"
	case uint8:
		return "u8"
	case float64:
		return "f64"
	case float32:
		return "f32"
	case bool:
		return "bool"
	case string:
		return "str"
	case []byte:
		return "bytes"
	case time.Time:
		return "time"
	case json.Number:
		return "num"
	}
	return "other"
}

var tySample = map[string]interface{}{
	"none": nil, "int": int(0), "i64": int64(0), "i32": int32(0), "i16": int16(0), "i8": int8(0),
	"uint": uint(0), "u64": uint64(0), "u32": uint32(0), "u16": uint16(0), "u8": uint8(0),
	"f64": float64(0), "f32": float32(0), "bool": true, "str": "", "bytes": make([]byte, 0, 64), // a sample with room behind it: only its TYPE counts
	"time": time.Time{}, "num": json.Number(""), "other": struct{ X int }{},
}

var tyNames = []string{"none", "int", "i64", "i32", "i16", "i8", "uint", "u64", "u32", "u16", "u8",
	"f64", "f32", "bool", "str", "bytes", "time", "num"}

var fmtNames = []string{"string", "numeric", "boolean", "binary", "date", "datetime", "timestamp", "auto", "hidden"}

func encDyn(sb *strings.Builder, x interface{}) {
	switch v := x.(type) {
	case nil:
		sb.WriteString("N")
	case int:
		fmt.Fprintf(sb, "Iint:%d", v)
	case int64:
		fmt.Fprintf(sb, "Ii64:%d", v)
	case int32:
		fmt.Fprintf(sb, "Ii32:%d", v)
	case int16:
		fmt.Fprintf(sb, "Ii16:%d", v)
	case int8:
		fmt.Fprintf(sb, "Ii8:%d", v)
	case uint:
		fmt.Fprintf(sb, "Iuint:%d", v)
	case uint64:
		fmt.Fprintf(sb, "Iu64:%d", v)
	case uint32:
		fmt.Fprintf(sb, "Iu32:%d", v)
	case uint16:
		fmt.Fprintf(sb, "Iu16:%d", v)
	case uint8:
		fmt.Fprintf(sb, "Iu8:%d", v)
	case float64:
		fmt.Fprintf(sb, "F64:%016x", math.Float64bits(v))
	case float32:
		fmt.Fprintf(sb, "F32:%08x", math.Float32bits(v))
	case bool:
		if v {
			sb.WriteString("Bt")
		} else {
			sb.WriteString("Bf")
		}
	case string:
		sb.WriteString("S:" + hx([]byte(v)))
	case []byte:
		sb.WriteString("Y:" + hx(v))
	case json.Number:
		sb.WriteString("J:" + hx([]byte(v)))
	case time.Time:
		_, off := v.Zone()
		fmt.Fprintf(sb, "TM:%d:%d:%d", v.Unix(), v.Nanosecond(), off)
	case []interface{}:
		fmt.Fprintf(sb, "A%d", len(v))
		for _, e := range v {
			sb.WriteString(" ")
			encDyn(sb, e)
		}
	case map[string]interface{}:
		keys := make([]string, 0, len(v))
		for k := range v {
			keys = append(keys, k)
		}
		sort.Strings(keys)
		fmt.Fprintf(sb, "M%d", len(v))
		for _, k := range keys {
			sb.WriteString(" K:" + hx([]byte(k)) + " ")
			encDyn(sb, v[k])
		}
	case jsonline.Value:
		sb.WriteString("V ")
		encVal(sb, v)
	default:
		rv := reflect.ValueOf(x)
		if rv.Kind() == reflect.Array && rv.Type().Elem().Kind() == reflect.Uint8 {
			b := make([]byte, rv.Len())
			for i := range b {
				b[i] = byte(rv.Index(i).Uint())
			}
			sb.WriteString("BA:" + hx(b))
			return
		}
		fmt.Fprintf(sb, "O:%d", int(rv.Kind()))
	}
}

func encVal(sb *strings.Builder, v jsonline.Value) {
	if v == nil || (reflect.ValueOf(v).Kind() == reflect.Ptr && reflect.ValueOf(v).IsNil()) {
		sb.WriteString("NILVALUE")
		return
	}
	if r, ok := v.(jsonline.Row); ok {
		fmt.Fprintf(sb, "R%d", r.Len())
		it := r.IterValues()
		for k, c, ok := it(); ok; k, c, ok = it() {
			sb.WriteString(" K:" + hx([]byte(k)) + " ")
			encVal(sb, c)
		}
		return
	}
	fmt.Fprintf(sb, "C:%s:%s ", formatName(v.GetFormat()), tyName(v.GetRawType()))
	encDyn(sb, v.Raw())
}

func dynStr(x interface{}) string {
	var sb strings.Builder
	encDyn(&sb, x)
	return sb.String()
}

func valStr(v jsonline.Value) string {
	var sb strings.Builder
	encVal(&sb, v)
	return sb.String()
}

// errClass maps an error to the model's ErrClass names.
func errClass(err error) string {
	if err == nil {
		return "-"
	}
	return classify(err)
}
