package main

// Time cases (C14): under several process time zones (time.Local is switched in-process).
//
//	timert \t C14 \t <zone> \t <src Dyn> \t <ext> \t <ToTime(src)> \t <ToString(that)> \t <ToTimestamp(src)> \t <ToTimestamp(ToTime(src))>

import (
	"fmt"
	"time"
	_ "time/tzdata"
)

type zoneSpec struct {
	name string
	loc  *time.Location
}

func zones() []zoneSpec {
	paris, err := time.LoadLocation("Europe/Paris")
	if err != nil {
		panic(err)
	}
	ny, err := time.LoadLocation("America/New_York")
	if err != nil {
		panic(err)
	}
	return []zoneSpec{{"UTC", time.UTC}, {"+05:30", time.FixedZone("", 19800)}, {"-03:00", time.FixedZone("", -10800)}, {"Europe/Paris", paris}, {"America/New_York", ny}}
}

func emitTimeRT(cw *caseWriter, zone string, src interface{}) {
	ext := map[string]string{}
	extForValue(src, ext)
	t1, e1, p1 := callCast("ToTime", src)
	s1 := resultStr(t1, e1, p1)
	s2, s4 := "-", "-"
	if e1 == nil && p1 == "" && t1 != nil {
		extForValue(t1, ext)
		r2, e2, p2 := callCast("ToString", t1)
		s2 = resultStr(r2, e2, p2)
		r4, e4, p4 := callCast("ToTimestamp", t1)
		s4 = resultStr(r4, e4, p4)
	}
	r3, e3, p3 := callCast("ToTimestamp", src)
	s3 := resultStr(r3, e3, p3)
	cw.count("zone:" + zone)
	cw.count("src:" + tyName(src))
	d := dynStr(src)
	cw.emit("timert "+zone+" "+d, true, "timert", "C14", zone, d, extStr(ext), s1, s2, s3, s4)
}

func genC14(cw *caseWriter, seed uint64, tier string) {
	// a slice of the template / row histories (refused imports included) under this property's name: declared columns keep
	// their declarations (harness/alias.go)
	genAliasHistories(cw, "C14", newRng(seed+1641), 60)
	r := newRng(seed)
	saved := time.Local
	defer func() { time.Local = saved }()
	n := 1500
	if tier == "thorough" {
		n = 60000
	}
	for _, z := range zones() {
		time.Local = z.loc
		// explicit-offset strings: boundaries
		texts := []string{"2021-09-24T21:21:00Z", "2021-09-24T21:21:00+02:00", "2021-09-24T21:21:00-03:30", "2021-09-24T21:21:00.999999999+05:30", "2021-09-24T21:21:00,5Z",
			"0001-01-01T00:00:00Z", "9999-12-31T23:59:59Z", "0001-01-01T00:00:00+23:59", "9999-12-31T23:59:59-23:59", "2000-02-29T12:00:00+14:00", "1900-03-01T00:00:00-12:00",
			"2021-03-28T02:30:00+01:00", "2021-03-28T02:30:00+02:00", "2021-10-31T02:30:00+01:00", "2021-10-31T02:30:00+02:00", "2021-03-14T02:30:00-05:00", "2021-11-07T01:30:00-04:00", "2021-11-07T01:30:00-05:00",
			"1970-01-01T00:00:00Z", "1969-12-31T23:59:59Z", "2038-01-19T03:14:08Z", "2021-09-24T1:21:00Z", "2021-09-24T21:21:00", "2021-09-24", "notatime", "2021-09-24T21:21:00+24:00"}
		for _, s := range texts {
			emitTimeRT(cw, z.name, s)
			emitTimeRT(cw, z.name, []byte(s))
		}
		// integer timestamps incl. around every DST transition of both zones 1970-2037
		ints := []int64{0, 1, -1, 86399, 86400, 951782400, 1616893200 - 1, 1616893200, 1616893200 + 1, 1635642000 - 1, 1635642000, 1615705200 - 1, 1615705200, 1636264800 - 1, 1636264800, 253402214400, 253402300799, 4102444800}
		for y := 1970; y <= 2037; y += 7 {
			for _, loc := range []*time.Location{zones()[3].loc, zones()[4].loc} {
				t := time.Date(y, 1, 1, 0, 0, 0, 0, loc)
				for i := 0; i < 400; i++ {
					_, o1 := t.Zone()
					t2 := t.Add(24 * time.Hour)
					_, o2 := t2.Zone()
					if o1 != o2 {
						// binary search the transition second
						lo, hi := t.Unix(), t2.Unix()
						for hi-lo > 1 {
							mid := (lo + hi) / 2
							_, om := time.Unix(mid, 0).In(loc).Zone()
							if om == o1 {
								lo = mid
							} else {
								hi = mid
							}
						}
						ints = append(ints, lo-1, lo, hi, hi+1)
					}
					t = t2
				}
			}
		}
		for _, v := range ints {
			emitTimeRT(cw, z.name, v)
			emitTimeRT(cw, z.name, fmt.Sprintf("%d", v))
			emitTimeRT(cw, z.name, int32(v%2000000000))
		}
		for i := 0; i < n; i++ {
			// instants at 1 s resolution over years 0001-9999 x offsets -23:59..+23:59
			sec := int64(r.u64()%uint64(253402300800+62135596800)) - 62135596800
			off := (r.intn(2879) - 1439) * 60
			txt := time.Unix(sec, 0).In(time.FixedZone("", off)).Format(time.RFC3339)
			emitTimeRT(cw, z.name, txt)
			if r.chance(1, 4) {
				// sub-second digits
				frac := fmt.Sprintf(".%d", 1+r.intn(999999999))
				emitTimeRT(cw, z.name, txt[:19]+frac+txt[19:])
			}
			emitTimeRT(cw, z.name, int64(r.u64()%253402214401))
		}
		// the same instant rendered consecutively with different offsets (a rendering must not depend on
		// what was rendered just before)
		for _, sec := range []int64{1622541600, 0, 1635640200, 951782400} {
			for _, off := range []int{7200, 0, -12600, 3600, 7200, 19800, 0} {
				emitTimeRT(cw, z.name, time.Unix(sec, 0).In(time.FixedZone("", off)).Format(time.RFC3339))
			}
		}
		// column level: date-time strings with explicit offsets through datetime / timestamp / string(time)
		// columns, incl. both passes of the hour repeated at the end of DST and the skipped hour, with the
		// explicit offset equal to and different from the process zone's
		colTexts := []string{"2021-10-31T02:30:00+02:00", "2021-10-31T02:30:00+01:00", "2021-10-31T01:30:00+02:00", "2021-10-31T03:00:00+01:00", "2021-03-28T02:30:00+01:00", "2021-03-28T03:30:00+02:00",
			"2021-11-07T01:30:00-04:00", "2021-11-07T01:30:00-05:00", "2021-03-14T02:30:00-05:00", "2021-03-14T03:30:00-04:00", "2021-09-24T21:21:00Z", "2021-09-24T21:21:00.999+05:30", "2021-09-24T21:21:00,5-03:00",
			"0001-01-01T00:00:00Z", "9999-12-31T23:59:59Z", "1969-12-31T23:59:58.500Z", "2300-01-01T00:00:00Z", "1600-02-29T12:00:00+14:00", "2021-06-01T12:00:00+02:00", "2021-06-01T10:00:00Z",
			// calendar rules: century years that are and are not leap years, the day before and after, year 0004 and the
			// (proleptic) days dropped in 1582, the last second of a year west and east of Greenwich, the epoch with a
			// negative zero offset, quarter-hour and maximal offsets
			"1900-02-28T23:59:59+01:00", "1900-03-01T00:00:00-01:00", "2000-02-29T23:59:59+13:45", "2100-02-28T12:00:00-09:30", "2100-03-01T00:00:00Z", "0004-02-29T12:00:00+05:45", "1582-10-10T00:00:00+00:30",
			"2021-12-31T23:59:59-12:00", "2022-01-01T00:00:00+14:00", "1970-01-01T00:00:00-00:00",
			// the first and the last local days there are, at offsets that put the UTC instant in another year (year -1,
			// year 10000): the bounds of what can be written are those of the LOCAL date
			"9999-12-31T23:30:00-05:00", "9999-12-31T23:59:59-23:59", "9999-12-31T12:00:00-12:00", "0000-01-01T00:00:00+23:59", "0000-01-01T00:30:00+05:00", "0000-01-01T00:00:00Z", "0000-12-31T23:59:59+14:00", "0001-01-01T00:00:00+23:59", "2038-01-19T03:14:08Z", "1901-12-13T20:45:51Z", "2021-09-24T21:21:00+23:59", "2021-09-24T21:21:00-23:59", "2106-02-07T06:28:16+08:45"}
		ins := []colDesc{{name: "c", format: "datetime", ty: "none"}, {name: "c", format: "datetime", ty: "time"}, {name: "c", format: "auto", ty: "time"}, {name: "c", format: "string", ty: "time"}}
		outs := []colDesc{{name: "c", format: "datetime", ty: "none"}, {name: "c", format: "timestamp", ty: "none"}, {name: "c", format: "string", ty: "time"}, {name: "c", format: "datetime", ty: "time"}, {name: "c", format: "timestamp", ty: "i64"},
			// raw types that cannot hold a time.Time (the cast fails and the value is kept as it is): the offset and the
			// instant must still come out as they went in
			{name: "c", format: "datetime", ty: "i64"}, {name: "c", format: "datetime", ty: "int"}, {name: "c", format: "datetime", ty: "f64"}, {name: "c", format: "datetime", ty: "u32"},
			{name: "c", format: "timestamp", ty: "f32"}, {name: "c", format: "timestamp", ty: "f64"}, {name: "c", format: "timestamp", ty: "int"}, {name: "c", format: "timestamp", ty: "u64"}, {name: "c", format: "timestamp", ty: "i16"}}
		for _, txt := range colTexts {
			for _, ci := range ins {
				for _, co := range outs {
					emitLine(cw, "C14", []colDesc{ci}, []colDesc{co}, []byte(`{"c":"`+txt+`"}`), true)
				}
			}
		}
		// the date-time still held as TEXT when it reaches a date-time / timestamp output column (the input column is a
		// string or an untyped Auto column, or declares the raw type string): what is written is the instant and the
		// offset the text spells, rendered — not the text
		insText := []colDesc{{name: "c", format: "string", ty: "none"}, {name: "c", format: "auto", ty: "none"}, {name: "c", format: "string", ty: "str"}, {name: "c", format: "datetime", ty: "str"}}
		outsText := []colDesc{{name: "c", format: "datetime", ty: "none"}, {name: "c", format: "timestamp", ty: "none"}, {name: "c", format: "datetime", ty: "time"}, {name: "c", format: "timestamp", ty: "i64"}, {name: "c", format: "datetime", ty: "str"}}
		for _, txt := range colTexts {
			for _, ci := range insText {
				for _, co := range outsText {
					emitLine(cw, "C14", []colDesc{ci}, []colDesc{co}, []byte(`{"c":"`+txt+`"}`), true)
				}
			}
		}
		// integers as the reader delivers them (json.Number) into timestamp / date-time columns declared without a raw
		// type or with an integer one, written as timestamps and as date-times: read as Unix seconds, never refused
		for _, n := range []string{"0", "1", "1600000000", "1632518460", "253402214400", "86399", "951782400"} {
			for _, ci := range []colDesc{{name: "c", format: "timestamp", ty: "none"}, {name: "c", format: "datetime", ty: "none"}, {name: "c", format: "auto", ty: "none"}, {name: "c", format: "numeric", ty: "none"}, {name: "c", format: "timestamp", ty: "i64"}} {
				for _, co := range []colDesc{{name: "c", format: "timestamp", ty: "none"}, {name: "c", format: "datetime", ty: "none"}, {name: "c", format: "timestamp", ty: "i64"}} {
					emitLine(cw, "C14", []colDesc{ci}, []colDesc{co}, []byte(`{"c":`+n+`}`), true)
				}
			}
		}
		// an UNDECLARED member whose name differs from the column's by case only, before or after it, holding another
		// instant: it is another member — the column keeps its own value, offset included
		for _, txt := range colTexts[:12] {
			for _, co := range outs[:5] {
				emitLine(cw, "C14", []colDesc{ins[0]}, []colDesc{co}, []byte(`{"c":"`+txt+`","C":1500000000}`), true)
				emitLine(cw, "C14", []colDesc{ins[0]}, []colDesc{co}, []byte(`{"C":"2017-07-14T02:40:00Z","c":"`+txt+`"}`), true)
			}
		}
		// a date-time member that comes twice in one line: the second occurrence — whose explicit offset is the
		// process zone's own at that instant, or not — is what the column holds afterwards, offset included
		for _, first := range []string{"2020-01-01T00:00:00+05:00", "2020-06-01T00:00:00-09:30", "2020-01-01T00:00:00Z"} {
			for _, at := range []time.Time{time.Date(2021, 7, 1, 12, 0, 0, 0, z.loc), time.Date(2021, 1, 15, 8, 30, 0, 0, z.loc), time.Date(2021, 10, 31, 2, 30, 0, 0, z.loc)} {
				for _, second := range []string{at.Format(time.RFC3339), at.In(time.FixedZone("", 19800)).Format(time.RFC3339), at.UTC().Format(time.RFC3339)} {
					l := []byte(`{"c":"` + first + `","x":1,"c":"` + second + `"}`)
					for _, co := range outs[:4] {
						emitLine(cw, "C14", []colDesc{ins[0]}, []colDesc{co}, l, true)
					}
				}
			}
		}
		// the column texts one after the other through ONE importer and ONE exporter per column pair
		for _, ci := range ins {
			for _, co := range outs {
				if !r.chance(1, 3) {
					continue
				}
				var batch [][]byte
				for _, k := range r.perm(len(colTexts)) {
					batch = append(batch, []byte(`{"c":"`+colTexts[k]+`"}`))
				}
				emitLineBatch(cw, "C14", []colDesc{ci}, []colDesc{co}, batch)
			}
		}
		// several date-time columns in one row: the same instant with different offsets side by side
		two := []colDesc{{name: "a", format: "datetime", ty: "none"}, {name: "b", format: "datetime", ty: "none"}, {name: "c", format: "datetime", ty: "none"}}
		for _, l := range []string{`{"a":"2021-06-01T12:00:00+02:00","b":"2021-06-01T10:00:00Z","c":"2021-06-01T15:30:00+05:30"}`,
			`{"a":"2021-10-31T02:30:00+02:00","b":"2021-10-31T01:30:00+01:00","c":"2021-10-31T00:30:00Z"}`} {
			emitLine(cw, "C14", two, two, []byte(l), true)
		}
		for i := 0; i < n/10; i++ {
			sec := int64(r.u64()%uint64(253402300800+62135596800)) - 62135596800
			off := (r.intn(2879) - 1439) * 60
			txt := time.Unix(sec, 0).In(time.FixedZone("", off)).Format(time.RFC3339)
			emitLine(cw, "C14", []colDesc{pick(r, ins)}, []colDesc{pick(r, outs)}, []byte(`{"c":"`+txt+`"}`), true)
		}
	}
}
