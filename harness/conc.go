package main

// Concurrency cases (C20): N goroutines share one finished template; each runs a fixed program
// of read-only template operations; the per-goroutine outputs are compared with the outputs
// of the same programs run sequentially. The binary is built with -race: a data race makes
// the race detector print "WARNING: DATA RACE" and the process exit with status 66.
//
//	conc \t C20 \t <template> \t goroutines=<n> iters=<k> \t <impl: same | differs …>

import (
	"bytes"
	"fmt"
	"runtime"
	"sort"
	"strings"
	"sync"
	"time"

	"github.com/cgi-fr/jsonline/pkg/jsonline"
)

// lockedWriter: a sink several goroutines may share — each Write call is atomic, as on a pipe, a file or a logger.
type lockedWriter struct {
	mu  sync.Mutex
	buf bytes.Buffer
}

func (w *lockedWriter) Write(p []byte) (int, error) {
	w.mu.Lock()
	defer w.mu.Unlock()
	return w.buf.Write(p)
}

func concProgram(t jsonline.Template, g int, iters int, shared jsonline.Row, sink *lockedWriter) string {
	var sb strings.Builder
	for i := 0; i < iters; i++ {
		if i%4 == 1 && shared != nil {
			// a row made from an INPUT ROW that every goroutine only reads, then filled in place: the input row is
			// nobody's to write, and the rows made from it are each goroutine's own
			if r, err := t.CreateRow(shared); err == nil {
				_ = r.ImportAtKey("h", g*7907+i)
				_ = r.ImportAtKey("c_plain", fmt.Sprintf("g%d-%d", g, i))
				_ = r.ImportAtPath("d", time.Unix(1632518460+int64(g)*86400+int64(i)*61, 0).UTC().Format(time.RFC3339))
				sb.WriteString(r.DebugString())
			}
		}
		if i%5 == 2 && sink != nil {
			// one's own exporter on a sink shared with the others, whose Write calls are atomic: a line of 4 KiB or
			// more, or a short one, reaches it whole (checked on the sink afterwards)
			row := t.CreateRowEmpty()
			_ = row.ImportAtKey("a", g*1000+i)
			pad := 10
			if i%2 == 0 {
				pad = 4090 + g*3 + i
			}
			row.Set("pad", strings.Repeat(string(rune('a'+g%26)), pad))
			_ = t.GetExporter(sink).Export(row)
		}
		if i%6 == 3 {
			// the nested object of one's OWN row under the sub-template that declares nothing, filled in place; and a
			// value offered to the column of the unsupported raw type (refused today)
			r := t.CreateRowEmpty()
			switch nested := r.GetOrNil("em").(type) {
			case jsonline.Row:
				nested.Set(fmt.Sprintf("owner%d", g), i)
			case map[string]interface{}:
				nested[fmt.Sprintf("owner%d", g)] = i
			}
			e := r.ImportAtKey("ob", fmt.Sprintf("10.%d.0.%d", g, i%250))
			sb.WriteString(fmt.Sprintf("%v ", e != nil))
			sb.WriteString(r.String())
			sb.WriteString(t.CreateRowEmpty().String())
		}
		switch (g + i) % 8 {
		case 7:
			// in-place imports through dotted paths into what the template declared one and two levels down
			// (refused today: a declared sub-row is not navigable), and path reads, on a row of one's own
			r := t.CreateRowEmpty()
			e1 := r.ImportAtPath("hh.o.n", g*100000+i)
			e2 := r.ImportAtPath("s.zz", g)
			e3 := r.ImportAtPath("hh.x", fmt.Sprintf("g%d", g))
			e4 := r.ImportAtPath("hh.o.fresh", i)
			v1, ok1 := r.GetAtPath("hh.o.n")
			v2, ok2 := r.GetAtPath("s.aa")
			found, ok5 := r.FindValuesAtPath("hh.o.n")
			sb.WriteString(fmt.Sprintf("%v %v %v %v %v %v %v %v %d %v ", e1 != nil, e2 != nil, e3 != nil, e4 != nil, v1, ok1, v2, ok2, len(found), ok5))
			sb.WriteString(r.String())
		case 0:
			sb.WriteString(t.CreateRowEmpty().String())
		case 1:
			// a row made from a map that leaves declared columns out, then imports IN PLACE into columns the map
			// did not mention (by key, by position, from JSON text): the row's own cells, nobody else's
			r, err := t.CreateRow(map[string]interface{}{"a": g, "bin": []byte{byte(g), byte(i)}})
			if err == nil {
				_ = r.ImportAtKey("h", g*7919+i)
				_ = r.ImportAtKey("dd", int64(1632518460+g*86400))
				_ = r.ImportAtIndex(3, time.Unix(1600000000+int64(g)*3600+int64(i), 0).UTC().Format(time.RFC3339))
				_ = r.UnmarshalJSON([]byte(fmt.Sprintf(`{"flag":%v,"c_auto":%d}`, (g+i)%2 == 0, g)))
				sb.WriteString(r.DebugString())
				sb.WriteString(r.String())
				// the bytes a cell hands out belong to the row: its owner flips one in place
				if b := r.GetBytes("flag"); len(b) > 0 {
					b[0] ^= 1
					sb.WriteString(fmt.Sprintf(" flag=%v", r.GetBytes("flag")))
				}
			}
		case 2:
			r, err := t.CreateRow([]interface{}{g})
			if err == nil {
				_ = r.ImportAtIndex(1, "AQI=")
				_ = r.ImportAtKey("h", fmt.Sprintf("g%d-%d", g, i))
				_ = r.Import(map[string]interface{}{"dd": "2021-09-24"})
				_ = r.ImportAtKey("flag", g%3 == 0)
				sb.WriteString(r.DebugString())
				sb.WriteString(r.String())
			}
			r, err = t.CreateRow([]interface{}{g, "x", i})
			if err == nil {
				sb.WriteString(r.String())
			}
		case 3:
			r, err := t.CreateRow(fmt.Sprintf(`{"a":%d,"s":{"zz":%d,"aa":"v"},"extra":[%d]}`, g, i, g))
			if err == nil {
				b, _ := r.MarshalJSON()
				sb.Write(b)
			}
		case 4:
			src := jsonline.NewRow()
			src.Set("a", g*1000+i)
			// date-times as RFC 3339 strings, different in every goroutine and iteration
			src.Set("d", time.Unix(1632518460+int64(g)*86400+int64(i)*61, 0).In(time.FixedZone("", (g%5-2)*3600)).Format(time.RFC3339))
			// a date column fed with an epoch integer or a time.Time, rendered while other goroutines render date-times
			if i%2 == 0 {
				src.Set("dd", int64(1632518460+g*86400+i))
			} else {
				src.Set("dd", time.Unix(1600000000+int64(g)*86400, 0).UTC())
			}
			r, err := t.CreateRow(src)
			if err == nil {
				sb.WriteString(r.DebugString())
				b, _ := r.MarshalJSON()
				sb.Write(b)
			}
		case 5:
			var out bytes.Buffer
			// a byte order mark in front of the first line of every input (not JSON: the line is rejected — by every
			// importer alike, the first of the process included)
			bom := "\xef\xbb\xbf"
			in := bom + fmt.Sprintf("{\"a\":%d}\n{\"a\":\"bad\"}\n{\"bin\":\"AQI=\",\"d\":%d,\"dd\":%d}\n{\"d\":\"%s\",\"pad\":\"%s\"}\n", g, 1632518460+i, 1632518460+g*86400,
				time.Unix(1600000000+int64(g)*3600+int64(i), 0).UTC().Format(time.RFC3339), strings.Repeat(string(rune('a'+g%26)), 200+g))
			imp := t.GetImporter(strings.NewReader(in))
			exp := t.GetExporter(&out)
			_ = jsonline.NewStreamer(imp, exp).WithProcessor(jsonline.NoFailureProcessor).Stream()
			sb.Write(out.Bytes())
		default:
			r := t.CreateRowEmpty()
			_ = r.ImportAtKey("a", g)
			_ = r.ImportAtKey("bin", "AQI=")
			r.Set("new", i)
			sb.WriteString(r.String())
		}
		if i%3 == 0 {
			runtime.Gosched()
		}
	}
	return sb.String()
}

func genC20(cw *caseWriter, seed uint64, tier string) {
	r := newRng(seed)
	iters := 60
	rounds := 12
	if tier == "thorough" {
		iters = 300
		rounds = 40
	}
	for round := 0; round < rounds; round++ {
		cols := []colDesc{{name: "a", format: "numeric", ty: "int"}, {name: "bin", format: "binary", ty: "bytes"},
			{name: "s", isSub: true, sub: []colDesc{{name: "zz", format: "auto", ty: "none"}, {name: "aa", format: "string", ty: "none"}}},
			{name: "d", format: "datetime", ty: "none"}, {name: "h", format: "hidden", ty: "none"}, {name: "dd", format: "date", ty: "none"},
			{name: "flag", format: "auto", ty: "bytes"},
			{name: "hh", isSub: true, sub: []colDesc{{name: "o", isSub: true, sub: []colDesc{{name: "n", format: "auto", ty: "none"}, {name: "m", format: "string", ty: "none"}}}, {name: "x", format: "auto", ty: "none"}}}}
		for _, f := range fmtNames {
			if r.chance(1, 2) {
				cols = append(cols, colDesc{name: "c_" + f, format: f, ty: pick(r, tyNames)})
			}
		}
		// a sub-template that declares nothing, and a column whose raw type the library does not support (declared with a
		// struct or with a pointer type that has text methods of its own)
		cols = append(cols, colDesc{name: "em", isSub: true, sub: nil}, colDesc{name: "ob", format: "string", ty: "other"})
		// the shared template is COLD when the goroutines start (nothing has used it yet); the sequential
		// reference is computed afterwards on a second, identically built template
		t := buildTemplate(cols)
		n := 2 + r.intn(15)
		// importers that failed earlier in the process (reader error, over-long line), with the error fetched
		// through GetRow after Import returned false and Import polled again: whatever they leave behind in
		// the process must not couple later importers
		for k := 0; k < 3 && round > 0; k++ { // not before the first round: its goroutines create the FIRST importers of the process
			fi := t.GetImporter(&scriptReader{evs: []readEv{{kind: "d", data: []byte("{\"a\":1}\n{\"a\"")}, {kind: "e"}}})
			for fi.Import() {
				_, _ = fi.GetRow()
			}
			_, _ = fi.GetRow()
			_ = fi.Import()
			_, _ = fi.ReadOne()
		}
		got := make([]string, n)
		mkShared := func() jsonline.Row {
			sr, _ := buildTemplate(append(append([]colDesc{}, cols...), colDesc{name: "c_plain", format: "string", ty: "none"})).CreateRow(map[string]interface{}{"h": "base", "d": "2021-09-24T21:21:00Z", "c_plain": "base", "a": 5})
			return sr
		}
		shared, sink := mkShared(), &lockedWriter{}
		sharedBefore := ""
		if shared != nil {
			sharedBefore = shared.DebugString()
		}
		var wg sync.WaitGroup
		start := make(chan struct{})
		for g := 0; g < n; g++ {
			wg.Add(1)
			go func(g int) {
				defer wg.Done()
				<-start
				if p := guard(func() { got[g] = concProgram(t, g, iters, shared, sink) }); p != "" {
					got[g] = "PANIC " + p
				}
			}(g)
		}
		close(start)
		wg.Wait()
		ref := buildTemplate(cols)
		seqShared, seqSink := mkShared(), &lockedWriter{}
		seq := make([]string, n)
		for g := 0; g < n; g++ {
			gg := g
			if p := guard(func() { seq[gg] = concProgram(ref, gg, iters, seqShared, seqSink) }); p != "" {
				seq[gg] = "PANIC(sequential) " + p
			}
		}
		impl := "same"
		for g := 0; g < n; g++ {
			if got[g] != seq[g] {
				impl = fmt.Sprintf("differs goroutine=%d", g)
				break
			}
		}
		if impl == "same" && shared != nil && shared.DebugString() != sharedBefore {
			impl = "differs: the input row every goroutine only read was written"
		}
		if impl == "same" {
			a, b := strings.Split(sink.buf.String(), "\n"), strings.Split(seqSink.buf.String(), "\n")
			sort.Strings(a)
			sort.Strings(b)
			if strings.Join(a, "\n") != strings.Join(b, "\n") {
				impl = "differs: the lines on the shared sink are not the lines each goroutine exported"
			}
		}
		cw.count(fmt.Sprintf("goroutines:%d", n))
		cw.emit(fmt.Sprintf("conc %d %s", round, descStr(cols)), true, "conc", "C20", descStr(cols), fmt.Sprintf("goroutines=%d iters=%d", n, iters), impl)
	}
}
