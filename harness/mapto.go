package main

// mapto cases (C17): Row.MapTo — the one public operation that uses package reflect — against
// lean/Model/MapTo.lean, and LcFirst against the model's port of it.
//
//	mapto \t C17 \t call    \t <row Val> \t <target> \t <ext> \t <impl>
//	mapto \t C17 \t lcfirst \t <hex name> \t -       \t -     \t <impl: ok <hex> | panic …>
//
//	target := notptr | nilptr | ptrnonstruct | struct <n> (F:<hex name>:<kind>:<0|1> <Dyn>)*
//	kind   := int i64 i32 i16 i8 uint u64 u32 u16 u8 (reflect.Kind, named types included) | uintptr | f32 | f64
//	        | str | bool | bytes (a slice whose element KIND is Uint8) | other
//	<0|1>  := the field is exported (the struct is always reached through a pointer, so addressable)
//	<Dyn>  := the field's value by kind: I<kind>:<dec> (uintptr: Iu64), F32:/F64: bits, S:, Bt/Bf, Y:, and for
//	          `other` O:<FNV-32a of a canonical, address-free rendering of the value>
//	impl   := ok ( | <Dyn>)*  — every field after the call, in order — | ok untouched | ok changed (non-struct targets) | panic …
//
// Nothing here calls LcFirst or unicode.ToLower to build a case: the key a field asks for is spelled by mtKey from a
// table of its own, so that the code's choice of key is an observation, not an input.

import (
	"encoding/json"
	"fmt"
	"hash/fnv"
	"math"
	"reflect"
	"sort"
	"strings"
	"time"
	"unicode/utf8"

	"github.com/cgi-fr/jsonline/pkg/jsonline"
)

type mtInt16 int16
type mtUint32 uint32
type mtFloat32 float32
type mtNamedByteSlice []myByte
type mtInner struct {
	X int
	y string
}
type mtSecret struct{ n int }

// declared struct types: unexported fields, embedded structs (exported and not), embedded named scalars.
type mtDeclared struct {
	A int8
	b int
	B string
	c string
	mtInner
	MtInt16
	D []byte
	e []byte
	F float32
	g float64
	H bool
	i bool
	J uint16
	k uint16
}
type MtInt16 int16
type mtEmbedded struct {
	MtInner
	*MtPtr
	mtSecret
	X int64
	Y mtInt16
	N json.Number
	T time.Time
	U time.Duration
}
type MtInner struct{ X, Y int }
type MtPtr struct{ X int }

// lower-case partner of the first rune of the field names used here (a table of its own, see above).
var mtLower = map[rune]rune{'É': 'é', 'À': 'à', 'Þ': 'þ', 'Ω': 'ω', 'Σ': 'σ', 'Ж': 'ж', 'Ѐ': 'ѐ', 'Đ': 'đ', 'İ': 'i', 'Ÿ': 'ÿ', 'Ĺ': 'ĺ', 'Ŋ': 'ŋ', 'Ž': 'ž'}

// mtKey: the key MapTo asks the row for, for a field of this name — the first rune lower-cased, then the name from
// its SECOND BYTE on (what `str[i+1:]` is in the first iteration of LcFirst's loop).
func mtKey(name string) string {
	if name == "" {
		return ""
	}
	r, _ := utf8.DecodeRuneInString(name)
	lo := r
	switch {
	case r >= 'A' && r <= 'Z':
		lo = r + 32
	case mtLower[r] != 0:
		lo = mtLower[r]
	}
	return string(lo) + name[1:]
}

// mtIntended: the key a reader of the documentation expects (the whole first rune replaced).
func mtIntended(name string) string {
	r, w := utf8.DecodeRuneInString(name)
	lo := r
	switch {
	case r >= 'A' && r <= 'Z':
		lo = r + 32
	case mtLower[r] != 0:
		lo = mtLower[r]
	}
	return string(lo) + name[w:]
}

var mtNames = []string{"A", "B", "C", "D", "E", "Ab", "ABC", "URL", "Z9", "X_y", "Name", "Value", "École", "Àb", "Þorn", "Ωmega", "Σ", "Жук", "Ѐx", "Đx", "İx", "Ÿx", "Ĺ1", "Ŋg", "Žž"}
var mtUnexported = []string{"a", "b", "name", "x1", "_", "_A", "école", "ωmega"}

// mtFieldTypes: the field types of the generated struct types.
func mtFieldTypes() []reflect.Type {
	var e interface{}
	return []reflect.Type{
		reflect.TypeOf(int(0)), reflect.TypeOf(int8(0)), reflect.TypeOf(int16(0)), reflect.TypeOf(int32(0)), reflect.TypeOf(int64(0)),
		reflect.TypeOf(uint(0)), reflect.TypeOf(uint8(0)), reflect.TypeOf(uint16(0)), reflect.TypeOf(uint32(0)), reflect.TypeOf(uint64(0)), reflect.TypeOf(uintptr(0)),
		reflect.TypeOf(float32(0)), reflect.TypeOf(float64(0)), reflect.TypeOf(""), reflect.TypeOf(true),
		reflect.TypeOf([]byte(nil)), reflect.TypeOf(myBytes(nil)), reflect.TypeOf([]myByte(nil)), reflect.TypeOf(mtNamedByteSlice(nil)),
		reflect.TypeOf([4]byte{}), reflect.TypeOf([0]byte{}), reflect.TypeOf([]int(nil)), reflect.TypeOf([]int8(nil)), reflect.TypeOf([]string(nil)), reflect.TypeOf([][]byte(nil)),
		reflect.TypeOf((*int)(nil)), reflect.TypeOf((*[]byte)(nil)), reflect.TypeOf(&e).Elem(), reflect.TypeOf(struct{ X int }{}), reflect.TypeOf(MtInner{}), reflect.TypeOf(map[string]int(nil)),
		reflect.TypeOf(myInt(0)), reflect.TypeOf(mtInt16(0)), reflect.TypeOf(mtUint32(0)), reflect.TypeOf(myByte(0)), reflect.TypeOf(mtFloat32(0)), reflect.TypeOf(myFloat(0)), reflect.TypeOf(myString("")), reflect.TypeOf(myBool(false)),
		reflect.TypeOf(time.Time{}), reflect.TypeOf(time.Duration(0)), reflect.TypeOf(json.Number("")), reflect.TypeOf(complex128(0)), reflect.TypeOf((chan int)(nil)), reflect.TypeOf((func())(nil)),
		reflect.TypeOf(jsonline.NewRow()), reflect.TypeOf((*jsonline.Row)(nil)).Elem(), reflect.TypeOf(reflect.Value{}),
	}
}

func mtKindName(t reflect.Type) string {
	switch t.Kind() {
	case reflect.Int:
		return "int"
	case reflect.Int64:
		return "i64"
	case reflect.Int32:
		return "i32"
	case reflect.Int16:
		return "i16"
	case reflect.Int8:
		return "i8"
	case reflect.Uint:
		return "uint"
	case reflect.Uint64:
		return "u64"
	case reflect.Uint32:
		return "u32"
	case reflect.Uint16:
		return "u16"
	case reflect.Uint8:
		return "u8"
	case reflect.Uintptr:
		return "uintptr"
	case reflect.Float32:
		return "f32"
	case reflect.Float64:
		return "f64"
	case reflect.String:
		return "str"
	case reflect.Bool:
		return "bool"
	case reflect.Slice:
		if t.Elem().Kind() == reflect.Uint8 {
			return "bytes"
		}
	}
	return "other"
}

// mtCanon: an address-free rendering of any value, through reflection only (never Interface(): unexported fields).
func mtCanon(v reflect.Value, depth int) string {
	if depth > 5 {
		return "…"
	}
	if !v.IsValid() {
		return "invalid"
	}
	t := v.Type().String()
	switch v.Kind() {
	case reflect.Ptr:
		if v.IsNil() {
			return t + ":nil"
		}
		return t + ":&" + mtCanon(v.Elem(), depth+1)
	case reflect.Interface:
		if v.IsNil() {
			return t + ":nil"
		}
		return t + ":(" + mtCanon(v.Elem(), depth+1) + ")"
	case reflect.Struct:
		parts := make([]string, v.NumField())
		for i := range parts {
			parts[i] = v.Type().Field(i).Name + "=" + mtCanon(v.Field(i), depth+1)
		}
		return t + "{" + strings.Join(parts, ",") + "}"
	case reflect.Slice:
		if v.IsNil() {
			return t + ":nil"
		}
		fallthrough
	case reflect.Array:
		parts := make([]string, v.Len())
		for i := range parts {
			parts[i] = mtCanon(v.Index(i), depth+1)
		}
		return t + "[" + strings.Join(parts, ",") + "]"
	case reflect.Map:
		if v.IsNil() {
			return t + ":nil"
		}
		var parts []string
		it := v.MapRange()
		for it.Next() {
			parts = append(parts, mtCanon(it.Key(), depth+1)+"=>"+mtCanon(it.Value(), depth+1))
		}
		sort.Strings(parts)
		return t + "{" + strings.Join(parts, ",") + "}"
	case reflect.Chan, reflect.Func, reflect.UnsafePointer:
		if v.IsNil() {
			return t + ":nil"
		}
		return t + ":set"
	case reflect.Int, reflect.Int8, reflect.Int16, reflect.Int32, reflect.Int64:
		return fmt.Sprintf("%s:%d", t, v.Int())
	case reflect.Uint, reflect.Uint8, reflect.Uint16, reflect.Uint32, reflect.Uint64, reflect.Uintptr:
		return fmt.Sprintf("%s:%d", t, v.Uint())
	case reflect.Float32, reflect.Float64:
		return fmt.Sprintf("%s:%016x", t, math.Float64bits(v.Float()))
	case reflect.Complex64, reflect.Complex128:
		c := v.Complex()
		return fmt.Sprintf("%s:%016x:%016x", t, math.Float64bits(real(c)), math.Float64bits(imag(c)))
	case reflect.String:
		return fmt.Sprintf("%s:%q", t, v.String())
	case reflect.Bool:
		return fmt.Sprintf("%s:%v", t, v.Bool())
	}
	return t + ":?"
}

// mtFieldDyn: a field's value in the codec of proto.go, by KIND.
func mtFieldDyn(v reflect.Value) string {
	switch k := mtKindName(v.Type()); k {
	case "int", "i64", "i32", "i16", "i8":
		return fmt.Sprintf("I%s:%d", k, v.Int())
	case "uint", "u64", "u32", "u16", "u8":
		return fmt.Sprintf("I%s:%d", k, v.Uint())
	case "uintptr":
		return fmt.Sprintf("Iu64:%d", v.Uint())
	case "f32":
		// the field's own 32 bits (v.Float() widens; NaN payloads must not pass through a conversion)
		return fmt.Sprintf("F32:%08x", mtFloat32Bits(v))
	case "f64":
		return fmt.Sprintf("F64:%016x", math.Float64bits(v.Float()))
	case "str":
		return "S:" + hx([]byte(v.String()))
	case "bool":
		if v.Bool() {
			return "Bt"
		}
		return "Bf"
	case "bytes":
		b := make([]byte, v.Len())
		for i := range b {
			b[i] = byte(v.Index(i).Uint())
		}
		return "Y:" + hx(b)
	}
	h := fnv.New32a()
	h.Write([]byte(mtCanon(v, 0)))
	return fmt.Sprintf("O:%d", h.Sum32())
}

// mtFloat32Bits reads the bits of a float32-kind field without converting it (a signalling NaN would be quietened).
func mtFloat32Bits(v reflect.Value) uint32 {
	if v.CanAddr() {
		return *(*uint32)(v.Addr().UnsafePointer())
	}
	return math.Float32bits(float32(v.Float()))
}

// mtDescribe: the struct behind a pointer as the model's target, and the values of its fields.
func mtDescribe(st reflect.Value) (target string, fields []string) {
	t := st.Type()
	var sb strings.Builder
	fmt.Fprintf(&sb, "struct %d", t.NumField())
	for i := 0; i < t.NumField(); i++ {
		sf := t.Field(i)
		exported := 0
		if sf.PkgPath == "" {
			exported = 1
		}
		d := mtFieldDyn(st.Field(i))
		fmt.Fprintf(&sb, " F:%s:%s:%d %s", hxs(sf.Name), mtKindName(sf.Type), exported, d)
		fields = append(fields, d)
	}
	return sb.String(), fields
}

func mtObs(fields []string) string {
	if len(fields) == 0 {
		return "ok"
	}
	return "ok | " + strings.Join(fields, " | ")
}

// emitMapTo: one call on a pointer to a struct.
func emitMapTo(cw *caseWriter, row jsonline.Row, ptr reflect.Value, bucket string) {
	before := valStr(row)
	target, was := mtDescribe(ptr.Elem())
	var impl string
	pan := guard(func() {
		row.MapTo(ptr.Interface())
		_, now := mtDescribe(ptr.Elem())
		impl = mtObs(now)
		changed := 0
		for i := range now {
			if now[i] != was[i] {
				changed++
			}
		}
		cw.count(fmt.Sprintf("mapto:fields-changed:%d", min(changed, 5)))
	})
	if pan != "" {
		impl = "panic " + strings.ReplaceAll(strings.ReplaceAll(pan, "\t", " "), "\n", " ")
		cw.count("mapto:panic")
	}
	cw.count("mapto:" + bucket)
	cw.emit("mapto "+before+" "+target, true, "mapto", "C17", "call", before, target, "-", impl)
}

// emitMapToOther: a target that is not a non-nil pointer to a struct; same reports whether it still is what it was.
func emitMapToOther(cw *caseWriter, row jsonline.Row, what, target string, v interface{}, same func() bool) {
	before := valStr(row)
	impl := "ok untouched"
	pan := guard(func() {
		row.MapTo(v)
		if !same() || valStr(row) != before {
			impl = "ok changed"
		}
	})
	if pan != "" {
		impl = "panic " + strings.ReplaceAll(strings.ReplaceAll(pan, "\t", " "), "\n", " ")
		cw.count("mapto:panic")
	}
	cw.count("mapto:target:" + target)
	cw.emit("mapto "+what+" "+before, true, "mapto", "C17", "call", before, target, "-", impl)
}

func emitLcFirst(cw *caseWriter, name string) {
	var impl string
	if pan := guard(func() { impl = "ok " + hxs(jsonline.LcFirst(name)) }); pan != "" {
		impl = "panic " + strings.ReplaceAll(strings.ReplaceAll(pan, "\t", " "), "\n", " ")
	}
	cw.count("mapto:lcfirst")
	cw.emit("lcfirst "+name, true, "mapto", "C17", "lcfirst", hxs(name), "-", "-", impl)
}

// mtUniverse: stored raw values, by family.
func mtUniverse(r *rng) (all []interface{}, byClass map[string][]interface{}) {
	sub := jsonline.NewRow()
	sub.Set("x", 1)
	n7 := 7
	byClass = map[string][]interface{}{
		"sint": {0, -1, 1, 127, 128, -128, -129, 255, 256, 300, 32767, 32768, -32769, 65535, 65536, math.MaxInt32, math.MaxInt32 + 1, math.MinInt32 - 1, 1 << 32, math.MaxInt64, math.MinInt64,
			int8(-128), int8(127), int8(-1), int16(-32768), int16(32767), int16(300), int32(math.MinInt32), int32(math.MaxInt32), int32(70000), int64(math.MinInt64), int64(math.MaxInt64), int64(1<<40 + 44), int64(-(1 << 31) - 1)},
		"uint": {uint(0), uint(1), uint(255), uint(256), uint(65536), uint(math.MaxUint64), uint(1 << 63), uint8(0), uint8(255), uint8(128), uint16(65535), uint16(256), uint32(math.MaxUint32), uint32(1 << 31),
			uint64(0), uint64(math.MaxUint64), uint64(1 << 63), uint64(1<<63 - 1), uint64(1 << 32), uint64(300)},
		"float": {0.0, math.Copysign(0, -1), 1.5, -2.5, 0.1, 1e308, -1e308, 1e-320, 5e-324, math.NaN(), math.Float64frombits(0x7ff0000000000001), math.Float64frombits(0xfff8000000000123), math.Inf(1), math.Inf(-1),
			float64(math.MaxFloat32), 3.4028235677973366e38, 3.4028235677973362e38, 1e39, -1e39, 1e-46, 7.006492321624085e-46, 7.006492321624086e-46, 1.401298464324817e-45, 1e-40, 16777217.0, 16777219.0, 1 + 1.0/(1<<24), 1 + 3.0/(1<<24), 1 + 1.0/(1<<23),
			1.1754943508222875e-38, 1.1754942e-38, 300.0, -1.0, 1e19,
			float32(0), float32(1.5), float32(-2.5), float32(0.1), float32(math.MaxFloat32), float32(math.SmallestNonzeroFloat32), float32(math.Inf(1)), float32(math.Inf(-1)), float32(math.NaN()), math.Float32frombits(0x7f800001), math.Float32frombits(0xffc00123),
			float32(math.Copysign(0, -1)), float32(16777216)},
		"str":   {"", "x", "héllo", "\xff\xfe", "12", "true", "2021-09-24T21:21:00Z", "line\nfeed\ttab", strings.Repeat("long", 40)},
		"bool":  {true, false},
		"bytes": {[]byte(nil), []byte{}, []byte{0}, []byte{1, 2, 3}, []byte("abc"), []byte{255, 254, 0, 7}, []byte("12")},
		"none": {nil, json.Number("12"), json.Number("x"), json.Number(""), time.Time{}, time.Unix(1632518460, 5).UTC(), time.Date(2021, 9, 24, 21, 21, 0, 0, time.FixedZone("", 7200)),
			sub, []interface{}{}, []interface{}{1, "a", nil}, map[string]interface{}{"a": 1}, []int{1}, []string{"a"}, [4]byte{1, 2, 3, 4}, struct{}{}, struct{ A int }{5}, &n7, (*int)(nil), myInt(3), myString("x"), myBool(true), myFloat(1.5),
			myBytes{1}, myByte(4), uintptr(9), complex(1, 2), time.Duration(5), jsonline.NewValue("12", jsonline.Numeric, int32(0)), jsonline.NewValue(300, jsonline.Numeric, int8(0)),
			jsonline.NewValue(nil, jsonline.String, nil), jsonline.NewValue(uint8(200), jsonline.Binary, nil), jsonline.NewValue([]byte{9, 8}, jsonline.Binary, []byte{}), jsonline.NewValueAuto(sub)},
	}
	for i := 0; i < 12; i++ {
		byClass["sint"] = append(byClass["sint"], int64(r.u64()), int(int32(r.u64())), int16(r.u64()))
		byClass["uint"] = append(byClass["uint"], r.u64(), uint32(r.u64()), uint16(r.u64()))
		byClass["float"] = append(byClass["float"], math.Float64frombits(r.u64()), math.Float32frombits(uint32(r.u64())), float64(math.Float32frombits(uint32(r.u64()))),
			// a float64 next to a float32 value (rounding in both directions, ties)
			math.Float64frombits(math.Float64bits(float64(math.Float32frombits(uint32(r.u64()&0x7f7fffff))))+uint64(r.intn(3))<<28))
	}
	for _, c := range []string{"sint", "uint", "float", "str", "bool", "bytes", "none"} {
		all = append(all, byClass[c]...)
	}
	return all, byClass
}

func mtClassOfKind(k string) string {
	switch k {
	case "int", "i64", "i32", "i16", "i8":
		return "sint"
	case "uint", "u64", "u32", "u16", "u8", "uintptr":
		return "uint"
	case "f32", "f64":
		return "float"
	case "str", "bool", "bytes":
		return k
	}
	return "none"
}

// mtFill gives a settable field a value of its own before the call (so that "untouched" is visible).
func mtFill(r *rng, f reflect.Value) {
	if !f.CanSet() {
		return
	}
	switch f.Kind() {
	case reflect.Int, reflect.Int8, reflect.Int16, reflect.Int32, reflect.Int64:
		f.SetInt(int64(r.u64()))
	case reflect.Uint, reflect.Uint8, reflect.Uint16, reflect.Uint32, reflect.Uint64, reflect.Uintptr:
		f.SetUint(r.u64())
	case reflect.Float32, reflect.Float64:
		f.SetFloat(float64(r.intn(2000)) / 8)
	case reflect.String:
		f.SetString(pick(r, []string{"", "was", "before"}))
	case reflect.Bool:
		f.SetBool(r.chance(1, 2))
	case reflect.Complex128:
		f.SetComplex(complex(float64(r.intn(9)), 1))
	case reflect.Slice:
		if r.chance(2, 3) {
			n := 1 + r.intn(3)
			s := reflect.MakeSlice(f.Type(), n, n)
			for i := 0; i < n; i++ {
				mtFill(r, s.Index(i))
			}
			f.Set(s)
		}
	case reflect.Array:
		for i := 0; i < f.Len(); i++ {
			mtFill(r, f.Index(i))
		}
	case reflect.Ptr:
		if r.chance(1, 2) && f.Type().Elem().Kind() != reflect.Struct {
			p := reflect.New(f.Type().Elem())
			mtFill(r, p.Elem())
			f.Set(p)
		}
	case reflect.Interface:
		if f.NumMethod() == 0 {
			f.Set(reflect.ValueOf(pick(r, []interface{}{"held", 5, 1.5, []byte{1}, true})))
		}
	case reflect.Map:
		if r.chance(1, 2) && f.Type().Key().Kind() == reflect.String && f.Type().Elem().Kind() == reflect.Int {
			m := reflect.MakeMap(f.Type())
			m.SetMapIndex(reflect.ValueOf("k").Convert(f.Type().Key()), reflect.ValueOf(r.intn(9)).Convert(f.Type().Elem()))
			f.Set(m)
		}
	case reflect.Struct:
		for i := 0; i < f.NumField(); i++ {
			mtFill(r, f.Field(i))
		}
	}
}

func genMapTo(cw *caseWriter, r *rng, tier string) {
	all, byClass := mtUniverse(r)
	classes := []string{"sint", "uint", "float", "str", "bool", "bytes", "none"}
	fts := mtFieldTypes()
	cw.extra["mapto_field_types"] = len(fts)
	cw.extra["mapto_stored_values"] = len(all)

	// LcFirst alone: every rune the model's port of unicode.ToLower covers, as the first rune of a name, and the
	// ill-formed starts
	for _, rg := range [][2]rune{{0, 0x17F}, {0x391, 0x3A9}, {0x3B1, 0x3C9}, {0x400, 0x45F}, {0xFFFD, 0xFFFD}} {
		for c := rg[0]; c <= rg[1]; c++ {
			emitLcFirst(cw, string(c)+"Xy")
		}
	}
	for _, s := range []string{"", "A", "é", "É", "\xff", "\xffA", "\xc3", "\xc3(", "\xe2\x82", "\xe2\x28\xa1", "\xf0\x9f", "\xed\xa0\x80x", "\xc0\x80", "\xf4\x90\x80\x80", "\x80abc", "\xef\xbf\xbdA", "Élan vital", "ÉÉ"} {
		emitLcFirst(cw, s)
	}
	for _, n := range append(append([]string{}, mtNames...), mtUnexported...) {
		emitLcFirst(cw, n)
	}

	// 1. every stored value x every field type: a one-field struct `A <type>`; the row holds the value under "a",
	//    and something else under "A" (a key LcFirst never asks for)
	for vi, v := range all {
		for fi, ft := range fts {
			if tier != "thorough" && mtKindName(ft) == "other" && (vi+fi)%4 != 0 {
				// quick tier: the field types MapTo leaves alone meet one stored value in four
				continue
			}
			st := reflect.StructOf([]reflect.StructField{{Name: "A", Type: ft}})
			p := reflect.New(st)
			mtFill(r, p.Elem().Field(0))
			row := jsonline.NewRow()
			if r.chance(1, 2) {
				row.Set("A", "decoy")
			}
			row.Set("a", v)
			if r.chance(1, 2) {
				row.Set("A", 77)
			}
			cw.count("mapto:stored:" + tyName(v))
			cw.count("mapto:field-kind:" + mtKindName(ft))
			emitMapTo(cw, row, p, "one-field")
		}
	}

	// 2. generated struct types of 0-12 fields: exported and unexported names, names that start with a multi-byte
	//    letter, every field type; rows that hold matching, mismatching and no value under the key each field asks
	//    for, the key a reader would expect (`école`), the field name itself, upper-case and unrelated keys
	n := 500
	if tier == "thorough" {
		n = 30000
	}
	for i := 0; i < n; i++ {
		nf := r.intn(13)
		names := map[string]bool{}
		var sfs []reflect.StructField
		for len(sfs) < nf {
			var sf reflect.StructField
			if r.chance(1, 5) {
				sf = reflect.StructField{Name: pick(r, mtUnexported), PkgPath: "verif/harness"}
			} else {
				sf = reflect.StructField{Name: pick(r, mtNames)}
			}
			if names[sf.Name] {
				continue
			}
			names[sf.Name] = true
			sf.Type = pick(r, fts)
			if r.chance(1, 2) {
				// the scalar kinds oftener than the long tail
				sf.Type = fts[r.intn(19)]
			}
			sfs = append(sfs, sf)
		}
		var st reflect.Type
		if pan := guard(func() { st = reflect.StructOf(sfs) }); pan != "" {
			// reflect refuses the type (not a case of MapTo)
			cw.count("mapto:structof-refused")
			continue
		}
		p := reflect.New(st)
		for k := 0; k < st.NumField(); k++ {
			mtFill(r, p.Elem().Field(k))
		}
		row := jsonline.NewRow()
		type kv struct {
			k string
			v interface{}
		}
		var kvs []kv
		for _, sf := range sfs {
			cls := mtClassOfKind(mtKindName(sf.Type))
			val := func() interface{} {
				if r.chance(3, 5) && cls != "none" {
					return pick(r, byClass[cls])
				}
				return pick(r, byClass[pick(r, classes)])
			}
			switch r.intn(10) {
			case 0:
				// nothing under the key
			case 1:
				kvs = append(kvs, kv{mtIntended(sf.Name), val()})
			case 2:
				kvs = append(kvs, kv{sf.Name, val()})
			case 3:
				kvs = append(kvs, kv{mtKey(sf.Name), val()}, kv{mtIntended(sf.Name), val()}, kv{sf.Name, val()})
			default:
				kvs = append(kvs, kv{mtKey(sf.Name), val()})
			}
		}
		for k := r.intn(3); k > 0; k-- {
			kvs = append(kvs, kv{pick(r, []string{"zz", "", "A", "a", "é", "\xc3", "uRL", "name"}), pick(r, all)})
		}
		for _, j := range r.perm(len(kvs)) {
			row.Set(kvs[j].k, kvs[j].v)
		}
		emitMapTo(cw, row, p, "generated")
	}

	// 3. declared struct types (unexported fields holding values, embedded structs and scalars), a row as the
	//    target (a pointer to a struct of unexported fields), the receiver itself
	mkRow := func() jsonline.Row {
		row := jsonline.NewRow()
		for _, k := range r.perm(24) {
			key := []string{"a", "b", "c", "d", "e", "f", "g", "h", "i", "j", "k", "x", "y", "n", "t", "u", "mtInner", "mtInt16", "mtPtr", "mtSecret", "B", "A", "m", "l"}[k]
			if r.chance(2, 3) {
				row.Set(key, pick(r, byClass[pick(r, classes)]))
			}
		}
		return row
	}
	m := 40
	if tier == "thorough" {
		m = 2000
	}
	for i := 0; i < m; i++ {
		d := &mtDeclared{A: 1, b: 2, B: "B", c: "c", mtInner: mtInner{3, "y"}, MtInt16: 4, D: []byte{5}, e: []byte{6}, F: 7, g: 8, H: true, i: true, J: 9, k: 10}
		emitMapTo(cw, mkRow(), reflect.ValueOf(d), "declared")
		e := &mtEmbedded{MtInner: MtInner{1, 2}, mtSecret: mtSecret{3}, X: 4, Y: 5, N: "6", T: time.Unix(7, 0).UTC(), U: 8}
		if r.chance(1, 2) {
			e.MtPtr = &MtPtr{9}
		}
		emitMapTo(cw, mkRow(), reflect.ValueOf(e), "declared")
		emitMapTo(cw, mkRow(), reflect.ValueOf(&struct{}{}), "declared")
		if i < 10 {
			row := mkRow()
			emitMapTo(cw, row, reflect.ValueOf(row), "row-as-target")
			emitMapTo(cw, mkRow(), reflect.ValueOf(mkRow()), "row-as-target")
		}
	}

	// 4. everything that is not a non-nil pointer to a struct
	for i := 0; i < 6; i++ {
		row := mkRow()
		d := mtDeclared{A: 1, B: "B"}
		dd := d
		emitMapToOther(cw, row, "struct value", "notptr", d, func() bool { return reflect.DeepEqual(d, dd) })
		emitMapToOther(cw, row, "nil interface", "notptr", nil, func() bool { return true })
		emitMapToOther(cw, row, "int", "notptr", 5, func() bool { return true })
		emitMapToOther(cw, row, "string", "notptr", "a", func() bool { return true })
		mp := map[string]int{"a": 1}
		emitMapToOther(cw, row, "map", "notptr", mp, func() bool { return len(mp) == 1 && mp["a"] == 1 })
		sl := []mtDeclared{{A: 1}}
		emitMapToOther(cw, row, "slice of structs", "notptr", sl, func() bool { return reflect.DeepEqual(sl, []mtDeclared{{A: 1}}) })
		emitMapToOther(cw, row, "func", "notptr", func() {}, func() bool { return true })
		emitMapToOther(cw, row, "reflect.Value of a pointer to a struct", "notptr", reflect.ValueOf(&dd), func() bool { return reflect.DeepEqual(d, dd) })
		emitMapToOther(cw, row, "nil pointer to a struct", "nilptr", (*mtDeclared)(nil), func() bool { return true })
		emitMapToOther(cw, row, "nil pointer to an int", "nilptr", (*int)(nil), func() bool { return true })
		emitMapToOther(cw, row, "nil row pointer", "nilptr", (*mtEmbedded)(nil), func() bool { return true })
		n := 7
		emitMapToOther(cw, row, "pointer to an int", "ptrnonstruct", &n, func() bool { return n == 7 })
		s := "s"
		emitMapToOther(cw, row, "pointer to a string", "ptrnonstruct", &s, func() bool { return s == "s" })
		pd := &dd
		emitMapToOther(cw, row, "pointer to a pointer to a struct", "ptrnonstruct", &pd, func() bool { return pd == &dd && reflect.DeepEqual(d, dd) })
		var iface interface{} = d
		emitMapToOther(cw, row, "pointer to an interface holding a struct", "ptrnonstruct", &iface, func() bool { return reflect.DeepEqual(iface, d) })
		emitMapToOther(cw, row, "pointer to a map", "ptrnonstruct", &mp, func() bool { return len(mp) == 1 })
		emitMapToOther(cw, row, "pointer to a slice", "ptrnonstruct", &sl, func() bool { return len(sl) == 1 && sl[0].A == 1 })
		arr := [2]mtDeclared{}
		emitMapToOther(cw, row, "pointer to an array of structs", "ptrnonstruct", &arr, func() bool { return arr[0].A == 0 && arr[1].B == "" })
		var rowIface jsonline.Row = row
		emitMapToOther(cw, row, "pointer to a Row interface", "ptrnonstruct", &rowIface, func() bool { return rowIface == row })
	}
}
