package main

// C06 — histories of row mutators; after every step all readers are observed.
//
// Line:  c06 \t <op> ; <op> ; …  \t <obs> ## <obs> ## …      (one obs per op)
// The Lean driver replays the history on the code-shaped model (LRow) and on the
// specification (OMap) and compares both with the observations of the implementation.

import (
	"bytes"
	"encoding/json"
	"fmt"
	"sort"
	"strings"

	"github.com/cgi-fr/jsonline/pkg/jsonline"
)

// (the last two hold a backslash: one is the TEXT of the JSON escaping of "ab", the other reads as a tab when a writer
// forgets to escape the backslash)
var c06Alphabet = []string{"", "a", "ab", "b", "é", "a.b", "zz", "a\\u0062", "C:\\temp"}

type c06op struct {
	kind string // set setat setv setvat iak iai islice imap um
	key  string
	idx  int
	val  func() interface{}    // fresh argument (Dyn) each time it is applied
	cell func() jsonline.Value // fresh Value argument
	vals []func() interface{}
	m    []string // keys of an import map (values from vals)
	json string
}

func c06values() []func() interface{} {
	return []func() interface{}{
		func() interface{} { return nil },
		func() interface{} { return 7 },
		func() interface{} { return "x" },
		func() interface{} { return json.Number("1.50") },
		func() interface{} { return []interface{}{1, "y"} },
		func() interface{} { return true },
		// values that a column with a declared raw type rejects (300 into int8, text into a number)
		func() interface{} { return 300 },
		func() interface{} { return "soon" },
		// a nested row handed to Set / ImportAtKey (over nothing, over a scalar, over another nested row)
		func() interface{} { rr := jsonline.NewRow(); rr.Set("q", 1); rr.Set("b", "z"); return rr },
		func() interface{} { rr := jsonline.NewRow(); rr.Set("other", true); return rr },
		// one-entry Go maps handed to ImportAtKey of a key that holds a nested row (Row.Import of the nested row): an
		// entry the nested row takes, and one a typed cell of the nested row refuses
		func() interface{} { return map[string]interface{}{"q": 5} },
		func() interface{} { return map[string]interface{}{"bin": "***"} },
	}
}

func c06cells() []func() jsonline.Value {
	return []func() jsonline.Value{
		func() jsonline.Value { return jsonline.NewValueAuto(3) },
		func() jsonline.Value { return jsonline.NewValueHidden("h") },
		func() jsonline.Value { return jsonline.NewValueAuto(nil) },
		func() jsonline.Value {
			r := jsonline.NewRow()
			r.Set("q", 1)
			r.Set("b", "z")
			return r
		},
		// a nested row holding a typed cell (which can refuse) and a DEEPER row whose keys are not in sorted order
		func() jsonline.Value {
			deep := jsonline.NewRow()
			deep.Set("z", 1)
			deep.Set("m", 2)
			deep.Set("a", 3)
			r := jsonline.NewRow()
			r.Set("q", 1)
			r.SetValue("bin", jsonline.NewValue(nil, jsonline.Binary, nil))
			r.Set("in", deep)
			return r
		},
		// cells with a declared raw type: Set and Import on them can fail
		func() jsonline.Value { return jsonline.NewValue(nil, jsonline.Numeric, int8(0)) },
		func() jsonline.Value { return jsonline.NewValue(5, jsonline.String, int(0)) },
		func() jsonline.Value { return jsonline.NewValue(nil, jsonline.Numeric, nil) },
	}
}

var c06jsons = []string{
	`{}`,
	`{"a":1}`,
	`{"b":"s","a":null}`,
	`{"zq":{"y":1,"x":[1,{"k":2}]},"a":2}`,
	`{"a":1,"a":2,"ab":3}`,
	`{"a":1,"b":`,  // truncated: "a" is applied before the error
	`{"é":true} x`, // trailing content: members applied, then rejected
	`[1]`,          // not an object: nothing applied
	` { "" : 0 , "a.b" : [ ] } `,
	// another object for a name that already holds one: the new object replaces the old one, members and all
	`{"zq":{"y":5},"a":{"k":1}}`, `{"zq":{"n":{"m":1}},"a":{"j":2}}`, `{"zq":{"n":{}},"a":{}}`,
	// names that differ from the alphabet's only by case (ASCII, accented, and the Kelvin sign that folds to k)
	`{"A":5,"a":6,"AB":7}`,
	`{"\u00c9":1,"B":2,"\u212a":3,"k":4}`,
	// a value that a typed cell rejects, after a new key and before another one
	`{"n1":1,"a":300,"n2":2}`,
	`{"a":"soon","ab":"soon","b":"soon"}`,
}

// c06alphabetOps is the op alphabet for exhaustive enumeration.
func c06alphabetOps() []c06op {
	var ops []c06op
	vals := c06values()
	cells := c06cells()
	keys := []string{"", "a", "ab", "é"}
	for _, k := range keys {
		for _, v := range vals[:3] {
			ops = append(ops, c06op{kind: "set", key: k, val: v})
		}
		ops = append(ops, c06op{kind: "iak", key: k, val: vals[1]})
		ops = append(ops, c06op{kind: "iak", key: k, val: vals[0]})
		ops = append(ops, c06op{kind: "setv", key: k, cell: cells[0]})
	}
	ops = append(ops, c06op{kind: "setv", key: "b", cell: cells[1]})
	ops = append(ops, c06op{kind: "setv", key: "a", cell: cells[3]})
	ops = append(ops, c06op{kind: "setv", key: "a", cell: cells[4]})
	ops = append(ops, c06op{kind: "set", key: "a", val: vals[6]})
	ops = append(ops, c06op{kind: "iak", key: "a", val: vals[7]})
	for _, i := range []int{-1, 0, 1, 2, 9} {
		ops = append(ops, c06op{kind: "setat", idx: i, val: vals[2]})
		ops = append(ops, c06op{kind: "iai", idx: i, val: vals[3]})
		ops = append(ops, c06op{kind: "setvat", idx: i, cell: cells[1]})
	}
	ops = append(ops, c06op{kind: "islice", vals: []func() interface{}{vals[1], vals[2]}})
	ops = append(ops, c06op{kind: "islice", vals: []func() interface{}{vals[0], vals[4], vals[5]}})
	ops = append(ops, c06op{kind: "imap", m: []string{"a"}, vals: []func() interface{}{vals[1]}})
	ops = append(ops, c06op{kind: "imap", m: []string{"b", "zq"}, vals: []func() interface{}{vals[2], vals[1]}})
	ops = append(ops, c06op{kind: "imap", m: []string{"a", "ab", "é"}, vals: []func() interface{}{vals[0], vals[1], vals[2]}})
	for _, j := range c06jsons {
		ops = append(ops, c06op{kind: "um", json: j})
	}
	return ops
}

func c06randomOp(r *rng) c06op {
	vals := c06values()
	cells := c06cells()
	keys := c06Alphabet[:6]
	if r.chance(1, 6) {
		keys = c06Alphabet[2:]
	}
	switch r.intn(10) {
	case 9:
		if r.chance(1, 3) {
			return c06op{kind: "cl"}
		}
		return c06op{kind: "clset", key: pick(r, []string{"zc1", "zc2", "a", "zc3"}), val: pick(r, vals)}
	case 0:
		return c06op{kind: "set", key: pick(r, keys), val: pick(r, vals)}
	case 1:
		return c06op{kind: "setat", idx: r.intn(9) - 2, val: pick(r, vals)}
	case 2:
		return c06op{kind: "setv", key: pick(r, keys), cell: pick(r, cells)}
	case 3:
		return c06op{kind: "setvat", idx: r.intn(9) - 2, cell: pick(r, cells)}
	case 4:
		return c06op{kind: "iak", key: pick(r, keys), val: pick(r, vals)}
	case 5:
		return c06op{kind: "iai", idx: r.intn(9) - 2, val: pick(r, vals)}
	case 6:
		n := r.intn(4)
		vs := make([]func() interface{}, n)
		for i := range vs {
			vs[i] = pick(r, vals)
		}
		return c06op{kind: "islice", vals: vs}
	case 7:
		n := r.intn(4)
		seen := map[string]bool{}
		var ks []string
		var vs []func() interface{}
		for i := 0; i < n; i++ {
			k := pick(r, keys)
			if seen[k] {
				continue
			}
			seen[k] = true
			ks = append(ks, k)
			vs = append(vs, pick(r, vals))
		}
		return c06op{kind: "imap", m: ks, vals: vs}
	default:
		return c06op{kind: "um", json: pick(r, c06jsons)}
	}
}

// applyC06 applies op to row and returns the protocol rendering of the op (for maps: with
// the entries in an order consistent with what the implementation did) and the error class.
// c06LastOpText: the text of the op being applied, set before the row is called (kept when the call panics).
var c06LastOpText string

func c06OpText(c06op) string { return c06LastOpText }

func applyC06(row jsonline.Row, op c06op) (string, string) {
	switch op.kind {
	case "set":
		v := op.val()
		s := "set K:" + hx([]byte(op.key)) + " " + dynStr(v)
		c06LastOpText = s
		row.Set(op.key, v)
		return s, "-"
	case "setat":
		v := op.val()
		s := fmt.Sprintf("setat %d %s", op.idx, dynStr(v))
		c06LastOpText = s
		row.SetAtIndex(op.idx, v)
		return s, "-"
	case "setv":
		c := op.cell()
		s := "setv K:" + hx([]byte(op.key)) + " " + valStr(c)
		c06LastOpText = s
		row.SetValue(op.key, c)
		return s, "-"
	case "setvat":
		c := op.cell()
		s := fmt.Sprintf("setvat %d %s", op.idx, valStr(c))
		c06LastOpText = s
		row.SetValueAtIndex(op.idx, c)
		return s, "-"
	case "iak":
		v := op.val()
		s := "iak K:" + hx([]byte(op.key)) + " " + dynStr(v)
		c06LastOpText = s
		err := row.ImportAtKey(op.key, v)
		return s, errClass(err)
	case "iai":
		v := op.val()
		s := fmt.Sprintf("iai %d %s", op.idx, dynStr(v))
		c06LastOpText = s
		err := row.ImportAtIndex(op.idx, v)
		return s, errClass(err)
	case "islice":
		xs := make([]interface{}, len(op.vals))
		parts := make([]string, len(op.vals))
		for i, f := range op.vals {
			xs[i] = f()
			parts[i] = dynStr(xs[i])
		}
		s := fmt.Sprintf("islice %d %s", len(xs), strings.Join(parts, " "))
		c06LastOpText = s
		err := row.Import(xs)
		return strings.TrimSpace(s), errClass(err)
	case "imap":
		m := map[string]interface{}{}
		rendered := map[string]string{}
		existing := []string{}
		// Go iterates maps in random order and Import stops at the first failing entry: when an
		// entry can fail (its target cell is a row, or has a format or raw type that converts), the map is reduced to that entry so that
		// the history stays deterministic.
		for i, k := range op.m {
			if c, ok := row.GetValue(k); ok {
				_, isRow := c.(jsonline.Row)
				canFail := isRow || c.GetRawType() != nil || (c.GetFormat() != jsonline.Auto && c.GetFormat() != jsonline.Hidden)
				if canFail {
					op = c06op{kind: "imap", m: []string{k}, vals: []func() interface{}{op.vals[i]}}
					break
				}
			}
		}
		for i, k := range op.m {
			m[k] = op.vals[i]()
			rendered[k] = dynStr(m[k])
			if row.Has(k) {
				existing = append(existing, k)
			}
		}
		sort.Strings(existing)
		err := row.Import(m)
		// new keys in the order the implementation inserted them (Go map iteration order)
		order := append([]string{}, existing...)
		it := row.IterValues()
		for k, _, ok := it(); ok; k, _, ok = it() {
			if _, in := m[k]; in && !contains(existing, k) {
				order = append(order, k)
			}
		}
		parts := []string{}
		for _, k := range order {
			parts = append(parts, "K:"+hx([]byte(k))+" "+rendered[k])
		}
		s := fmt.Sprintf("imap %d %s", len(order), strings.Join(parts, " "))
		c06LastOpText = s
		return strings.TrimSpace(s), errClass(err)
	case "share":
		// the Value held under one key is stored under another key as well: one cell, two holders. For the
		// row (and for the model, whose cells are values) this is a SetValue of what the first key holds.
		c, ok := row.GetValue(op.key)
		if !ok {
			c = jsonline.NewValueAuto(nil)
		}
		s := "setv K:" + hx([]byte(op.json)) + " " + valStr(c)
		c06LastOpText = s
		row.SetValue(op.json, c)
		return s, "-"
	case "um":
		err := row.UnmarshalJSON([]byte(op.json))
		c := errClass(err)
		if c == "other" {
			c = "syntax"
		}
		return "um " + hx([]byte(op.json)), c
	}
	panic("bad op " + op.kind)
}

func contains(xs []string, x string) bool {
	for _, y := range xs {
		if x == y {
			return true
		}
	}
	return false
}

// topKeys returns the member names of the top-level object of a JSON text, in text order.
func topKeys(b []byte) ([]string, error) {
	dec := json.NewDecoder(bytes.NewReader(b))
	t, err := dec.Token()
	if err != nil {
		return nil, err
	}
	if d, ok := t.(json.Delim); !ok || d != '{' {
		return nil, fmt.Errorf("not an object")
	}
	var keys []string
	for dec.More() {
		t, err := dec.Token()
		if err != nil {
			return nil, err
		}
		k, ok := t.(string)
		if !ok {
			return nil, fmt.Errorf("key is not a string")
		}
		keys = append(keys, k)
		var skip json.RawMessage
		if err := dec.Decode(&skip); err != nil {
			return nil, err
		}
	}
	return keys, nil
}

func observeC06(row jsonline.Row, errc string) string {
	var sb strings.Builder
	sb.WriteString("e=" + errc + " | ")
	// Len + IterValues
	n := row.Len()
	fmt.Fprintf(&sb, "len=%d | ", n)
	it := row.IterValues()
	cnt := 0
	sb.WriteString("it=")
	for k, c, ok := it(); ok; k, c, ok = it() {
		if cnt > 0 {
			sb.WriteString(" ")
		}
		cnt++
		sb.WriteString("K:" + hx([]byte(k)) + " ")
		encVal(&sb, c)
	}
	sb.WriteString(" | has=")
	for _, k := range c06Alphabet {
		if row.Has(k) {
			sb.WriteString("1")
		} else {
			sb.WriteString("0")
		}
	}
	// Get (raw) for the alphabet through Iter/Get agreement: Get(k) must be the raw of the cell
	sb.WriteString(" | get=")
	for i, k := range c06Alphabet {
		if i > 0 {
			sb.WriteString(" , ")
		}
		v, ok := row.Get(k)
		if ok {
			encDyn(&sb, v)
		} else {
			sb.WriteString("-")
		}
	}
	sb.WriteString(" | at=")
	for i := -1; i <= n; i++ {
		if i > -1 {
			sb.WriteString(" , ")
		}
		c, ok := row.GetValueAtIndex(i)
		if ok {
			encVal(&sb, c)
		} else {
			sb.WriteString("-")
		}
	}
	sb.WriteString(" | jk=")
	b, err := row.MarshalJSON()
	if err != nil {
		sb.WriteString("ERR")
	} else if ks, err := topKeys(b); err != nil {
		sb.WriteString("INVALID:" + hx(b))
	} else {
		fmt.Fprintf(&sb, "%d:", len(ks))
		for i, k := range ks {
			if i > 0 {
				sb.WriteString(",")
			}
			sb.WriteString(hx([]byte(k)))
		}
		// the member names at every depth of the serialisation, in order
		sb.WriteString(" | js=" + jsonSkeleton(b))
	}
	return sb.String()
}

// jsonSkeleton: the member names of a JSON text at every depth, in text order: {6b{…},6b2}, […,…], nothing for a
// scalar ("UNREADABLE" for a text the decoder refuses).
func jsonSkeleton(b []byte) string {
	dec := json.NewDecoder(bytes.NewReader(b))
	dec.UseNumber()
	var val func() (string, bool)
	val = func() (string, bool) {
		t, err := dec.Token()
		if err != nil {
			return "", false
		}
		d, isDelim := t.(json.Delim)
		if !isDelim {
			return "", true
		}
		var parts []string
		switch d {
		case '{':
			for dec.More() {
				kt, err := dec.Token()
				if err != nil {
					return "", false
				}
				k, _ := kt.(string)
				v, ok := val()
				if !ok {
					return "", false
				}
				parts = append(parts, hx([]byte(k))+v)
			}
			if _, err := dec.Token(); err != nil {
				return "", false
			}
			return "{" + strings.Join(parts, ",") + "}", true
		case '[':
			for dec.More() {
				v, ok := val()
				if !ok {
					return "", false
				}
				parts = append(parts, v)
			}
			if _, err := dec.Token(); err != nil {
				return "", false
			}
			return "[" + strings.Join(parts, ",") + "]", true
		}
		return "", false
	}
	s, ok := val()
	if !ok {
		return "UNREADABLE"
	}
	return s
}

func runC06History(cw *caseWriter, ops []c06op) { runC06HistoryFrom(cw, nil, ops) }

// c06decl: one builder call of a template (a column, or a sub-row when sub is set).
type c06decl struct {
	name   string
	format jsonline.Format
	ty     interface{}
	sub    []string // column names of a sub-row
}

// runC06HistoryFrom: a history on a row that a template created (decls: the builder calls, names possibly
// declared more than once, as a column and as a sub-row). The initial state is described to the driver as the
// SetValue calls the declarations amount to (first mention fixes the position, the last one the cell); those
// described steps carry no observation ("skip"), every later step is observed as usual.
func runC06HistoryFrom(cw *caseWriter, decls []c06decl, ops []c06op) {
	row := jsonline.NewRow()
	var opStrs, obs []string
	if len(decls) > 0 {
		t := jsonline.NewTemplate()
		for _, d := range decls {
			if d.sub != nil {
				st := jsonline.NewTemplate()
				for _, n := range d.sub {
					st = st.WithAuto(n)
				}
				t = t.WithRow(d.name, st)
			} else {
				t = t.With(d.name, d.format, d.ty)
			}
		}
		row = t.CreateRowEmpty()
		for _, d := range decls {
			cell, ok := row.GetValue(d.name)
			if !ok {
				cell = jsonline.NewValueAuto(nil)
			}
			opStrs = append(opStrs, "setv K:"+hx([]byte(d.name))+" "+valStr(cell))
			obs = append(obs, "skip")
		}
		// the row as the template made it, before any operation
		opStrs = append(opStrs, "nop created")
		var ob string
		if p := guard(func() { ob = observeC06(row, "-") }); p != "" {
			ob = "e=- | PANIC while reading the row: " + strings.ReplaceAll(strings.ReplaceAll(p, "\t", " "), "\n", " ")
		}
		obs = append(obs, ob)
	}
	var clone jsonline.Row
	kinds := map[string]bool{}
	for _, op := range ops {
		if op.kind == "cl" || op.kind == "clset" {
			// a clone of the row is taken / grows: nothing the row itself should notice
			guard(func() {
				if op.kind == "cl" {
					clone = jsonline.CloneRow(row)
				} else if clone != nil {
					clone.Set(op.key, op.val())
				}
			})
			opStrs = append(opStrs, "nop "+op.kind)
			var ob string
			if p := guard(func() { ob = observeC06(row, "-") }); p != "" {
				ob = "e=- | PANIC while reading the row: " + strings.ReplaceAll(strings.ReplaceAll(p, "\t", " "), "\n", " ")
			}
			obs = append(obs, ob)
			cw.count("op:" + op.kind)
			continue
		}
		var s, e string
		if p := guard(func() { s, e = applyC06(row, op) }); p != "" {
			// the op text is what applyC06 would have returned: it is computed before the call is made
			s, e = c06OpText(op), "panic:"+strings.ReplaceAll(strings.ReplaceAll(p, "\t", " "), "\n", " ")
		}
		opStrs = append(opStrs, s)
		var ob string
		if p := guard(func() { ob = observeC06(row, e) }); p != "" {
			ob = "e=" + e + " | PANIC while reading the row: " + strings.ReplaceAll(strings.ReplaceAll(p, "\t", " "), "\n", " ")
		}
		obs = append(obs, ob)
		kinds[op.kind] = true
		cw.count("op:" + op.kind)
		if e != "-" {
			cw.count("err:" + e)
		}
	}
	cw.count(fmt.Sprintf("len:%d", len(ops)))
	key := strings.Join(opStrs, " ; ")
	// non-trivial: at least two ops, and the final row has at least two keys or saw an error
	nontrivial := len(ops) >= 2 && (row.Len() >= 2 || strings.Contains(strings.Join(obs, ""), "e=syntax"))
	cw.emit(key, nontrivial, "c06", key, strings.Join(obs, " ## "))
}

func genC06(cw *caseWriter, seed uint64, tier string) {
	alpha := c06alphabetOps()
	cw.extra["op_alphabet"] = len(alpha)
	// exhaustive: all histories of length 1 and 2 (thorough: 3)
	for _, a := range alpha {
		runC06History(cw, []c06op{a})
	}
	for _, a := range alpha {
		for _, b := range alpha {
			runC06History(cw, []c06op{a, b})
		}
	}
	cw.extra["exhaustive_length"] = 2
	if tier == "thorough" {
		for _, a := range alpha {
			for _, b := range alpha {
				for _, c := range alpha {
					runC06History(cw, []c06op{a, b, c})
				}
			}
		}
		cw.extra["exhaustive_length"] = 3
	}
	r := newRng(seed)
	nrand := 1500
	if tier == "thorough" {
		nrand = 40000
	}
	for i := 0; i < nrand; i++ {
		n := 3 + r.intn(58)
		ops := make([]c06op, n)
		for j := range ops {
			ops[j] = c06randomOp(r)
		}
		runC06History(cw, ops)
	}
	// rows made by templates — 1 to 9 columns, names declared more than once, as a column and as a sub-row in
	// either order (what jl does for every YAML column with nested columns) — then clones taken and grown between
	// the operations on the row
	vals := c06values()
	declSets := [][]c06decl{
		{{name: "a", format: jsonline.Numeric, ty: int8(0)}, {name: "a", sub: []string{"x", "y"}}},
		{{name: "a", sub: []string{"x"}}, {name: "a", format: jsonline.String}, {name: "b", format: jsonline.Auto}},
		{{name: "a", format: jsonline.Auto}, {name: "b", format: jsonline.Hidden}, {name: "a", format: jsonline.String}},
		{{name: "ab", sub: []string{"x"}}, {name: "a", format: jsonline.Auto}, {name: "ab", sub: []string{"y", "z"}}, {name: "", format: jsonline.Auto}},
		{{name: "a", format: jsonline.Auto}, {name: "b", format: jsonline.Auto}, {name: "é", format: jsonline.Auto}},
		{{name: "a", format: jsonline.Auto}, {name: "b", format: jsonline.Auto}, {name: "ab", format: jsonline.Auto}, {name: "", format: jsonline.Auto}, {name: "zz", format: jsonline.Numeric}},
		{{name: "a", format: jsonline.Auto}},
		{{name: "a", format: jsonline.Auto}, {name: "b", sub: []string{"x"}}, {name: "b", format: jsonline.Auto}, {name: "b", sub: []string{"x"}}, {name: "é", format: jsonline.Auto}, {name: "a.b", format: jsonline.Auto}, {name: "zz", format: jsonline.Auto}},
	}
	for _, ds := range declSets {
		for k := 0; k < 6; k++ {
			ops := []c06op{{kind: "cl"}, c06randomOp(r), {kind: "clset", key: "zc1", val: vals[1]}, {kind: "set", key: "n1", val: vals[2]}, {kind: "clset", key: "zc2", val: vals[1]}}
			for j := r.intn(10); j > 0; j-- {
				ops = append(ops, c06randomOp(r))
			}
			runC06HistoryFrom(cw, ds, ops)
		}
	}
	// one Value under two keys (the cell a key holds is stored under another key as well), then stores — Set,
	// SetAtIndex, SetValue, SetValueAtIndex, which REPLACE the cell a key holds — through either holder: the
	// other key keeps what it held ("lookups return the most recently stored value" of THAT key). Imports are
	// left out after the share: they convert into the cell in place, which two holders of one cell both see
	// by construction of the API (DESIGN §10).
	for i := 0; i < 60; i++ {
		var ops []c06op
		for j := r.intn(4); j > 0; j-- {
			ops = append(ops, c06randomOp(r))
		}
		k1, k2 := pick(r, c06Alphabet[:4]), pick(r, c06Alphabet[3:])
		ops = append(ops, c06op{kind: pick(r, []string{"set", "setv"}), key: k1, val: pick(r, vals), cell: pick(r, c06cells())})
		ops = append(ops, c06op{kind: "share", key: k1, json: k2})
		for j := 2 + r.intn(5); j > 0; j-- {
			switch r.intn(5) {
			case 0:
				ops = append(ops, c06op{kind: "set", key: k1, val: pick(r, vals)})
			case 1:
				ops = append(ops, c06op{kind: "set", key: k2, val: pick(r, vals)})
			case 2:
				ops = append(ops, c06op{kind: "setat", idx: r.intn(5) - 1, val: pick(r, vals)})
			case 3:
				ops = append(ops, c06op{kind: "setv", key: pick(r, []string{k1, k2}), cell: pick(r, c06cells())})
			default:
				ops = append(ops, c06op{kind: "setvat", idx: r.intn(5) - 1, cell: pick(r, c06cells())})
			}
		}
		runC06History(cw, ops)
	}
	// rows that grow past the sizes where a container might change its representation (8, 16, 32, 64 keys):
	// keys enter through every mutator, then existing keys are set, imported and addressed by position again
	for _, total := range []int{9, 17, 33, 70} {
		var ops []c06op
		for k := 0; k < total; k++ {
			key := fmt.Sprintf("w%02d", (k*29)%total)
			switch k % 4 {
			case 0:
				ops = append(ops, c06op{kind: "set", key: key, val: vals[1]})
			case 1:
				ops = append(ops, c06op{kind: "iak", key: key, val: vals[2]})
			case 2:
				ops = append(ops, c06op{kind: "setv", key: key, cell: c06cells()[0]})
			default:
				ops = append(ops, c06op{kind: "um", json: `{"` + key + `":` + fmt.Sprint(k) + `,"a":null}`})
			}
			if k%5 == 4 {
				ops = append(ops, c06op{kind: "setat", idx: r.intn(k + 2), val: vals[3]})
				ops = append(ops, c06op{kind: "iai", idx: r.intn(k + 2), val: vals[5]})
				ops = append(ops, c06op{kind: "set", key: fmt.Sprintf("w%02d", (r.intn(k+1)*29)%total), val: vals[0]})
			}
		}
		for j := 0; j < 12; j++ {
			ops = append(ops, c06randomOp(r))
		}
		runC06History(cw, ops)
	}
}
